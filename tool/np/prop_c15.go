package np

import (
	"fmt"
	"go/token"
	"regexp"
	"sort"
	"strings"

	"golang.org/x/tools/go/ssa"
)

func init() { register("C15", propC15) }

// RFC layouts: start is the absolute bit position of the field's most
// significant bit (bit 0 = most significant bit of byte 0), as drawn in the
// RFC header diagrams. shift: the accessor's value is field << shift.
type fieldLayout struct {
	Typ, Field   string
	Start, Width int
	Getter       string // method returning the integer value ("" = none)
	GShift       int
	Setter       string // method (recv, v) writing it ("" = none)
	EncField     string // field of the XFields struct written by Encode ("" = none)
	EShift       int    // encoder writes field bits = param bits >> EShift (granularity)
	RFC          string
}

type sliceLayout struct {
	Typ, Field               string
	Off, Len                 int
	Getter, Setter, EncField string
	RFC                      string
}

var rfcFields = []fieldLayout{
	{"Ethernet", "EtherType", 96, 16, "Type", 0, "", "Type", 0, "IEEE 802.3"},
	{"ARP", "Operation", 48, 16, "Op", 0, "SetOp", "", 0, "RFC 826"},
	{"ARP", "HardwareLen", 32, 8, "hardwareAddressSize", 0, "", "", 0, "RFC 826"},
	{"ARP", "ProtocolLen", 40, 8, "protocolAddressSize", 0, "", "", 0, "RFC 826"},
	{"IPv4", "IHL", 4, 4, "HeaderLength", 2, "", "IHL", 2, "RFC 791 (IHL in 32-bit words; accessor in bytes)"},
	{"IPv4", "TOS", 8, 8, "", 0, "", "TOS", 0, "RFC 791"},
	{"IPv4", "TotalLength", 16, 16, "TotalLength", 0, "SetTotalLength", "TotalLength", 0, "RFC 791"},
	{"IPv4", "Identification", 32, 16, "ID", 0, "", "ID", 0, "RFC 791"},
	{"IPv4", "Flags", 48, 3, "Flags", 0, "", "Flags", 0, "RFC 791"},
	{"IPv4", "FragmentOffset", 51, 13, "FragmentOffset", 3, "", "FragmentOffset", 3, "RFC 791 (offset in 8-byte units; accessor in bytes)"},
	{"IPv4", "TTL", 64, 8, "TTL", 0, "", "TTL", 0, "RFC 791"},
	{"IPv4", "Protocol", 72, 8, "Protocol", 0, "", "Protocol", 0, "RFC 791"},
	{"IPv4", "HeaderChecksum", 80, 16, "Checksum", 0, "SetChecksum", "Checksum", 0, "RFC 791"},
	{"IPv6", "PayloadLength", 32, 16, "PayloadLength", 0, "SetPayloadLength", "PayloadLength", 0, "RFC 8200"},
	{"IPv6", "NextHeader", 48, 8, "NextHeader", 0, "SetNextHeader", "NextHeader", 0, "RFC 8200"},
	{"IPv6", "HopLimit", 56, 8, "HopLimit", 0, "", "HopLimit", 0, "RFC 8200"},
	{"IPv6", "TrafficClass", 4, 8, "", 0, "", "TrafficClass", 0, "RFC 8200"},
	{"IPv6", "FlowLabel", 12, 20, "", 0, "", "FlowLabel", 0, "RFC 8200"},
	{"IPv6Fragment", "NextHeader", 0, 8, "NextHeader", 0, "", "", 0, "RFC 8200 4.5"},
	{"IPv6Fragment", "FragmentOffset", 16, 13, "FragmentOffset", 0, "", "", 0, "RFC 8200 4.5 (8-byte units)"},
	{"IPv6Fragment", "Identification", 32, 32, "ID", 0, "", "", 0, "RFC 8200 4.5"},
	{"ICMPv4", "Type", 0, 8, "Type", 0, "SetType", "", 0, "RFC 792"},
	{"ICMPv4", "Code", 8, 8, "Code", 0, "SetCode", "", 0, "RFC 792"},
	{"ICMPv4", "Checksum", 16, 16, "Checksum", 0, "SetChecksum", "", 0, "RFC 792"},
	{"ICMPv6", "Type", 0, 8, "Type", 0, "SetType", "", 0, "RFC 4443"},
	{"ICMPv6", "Code", 8, 8, "Code", 0, "SetCode", "", 0, "RFC 4443"},
	{"ICMPv6", "Checksum", 16, 16, "Checksum", 0, "SetChecksum", "", 0, "RFC 4443"},
	{"UDP", "SourcePort", 0, 16, "SourcePort", 0, "SetSourcePort", "SrcPort", 0, "RFC 768"},
	{"UDP", "DestinationPort", 16, 16, "DestinationPort", 0, "SetDestinationPort", "DstPort", 0, "RFC 768"},
	{"UDP", "Length", 32, 16, "Length", 0, "", "Length", 0, "RFC 768"},
	{"UDP", "Checksum", 48, 16, "Checksum", 0, "SetChecksum", "Checksum", 0, "RFC 768"},
	{"TCP", "SourcePort", 0, 16, "SourcePort", 0, "SetSourcePort", "SrcPort", 0, "RFC 793"},
	{"TCP", "DestinationPort", 16, 16, "DestinationPort", 0, "SetDestinationPort", "DstPort", 0, "RFC 793"},
	{"TCP", "SequenceNumber", 32, 32, "SequenceNumber", 0, "", "SeqNum", 0, "RFC 793"},
	{"TCP", "AckNumber", 64, 32, "AckNumber", 0, "", "AckNum", 0, "RFC 793"},
	{"TCP", "DataOffset", 96, 4, "DataOffset", 2, "", "DataOffset", 2, "RFC 793 (32-bit words; accessor in bytes)"},
	{"TCP", "Flags", 104, 8, "Flags", 0, "", "Flags", 0, "RFC 793 (CWR..FIN)"},
	{"TCP", "Window", 112, 16, "WindowSize", 0, "", "WindowSize", 0, "RFC 793"},
	{"TCP", "Checksum", 128, 16, "Checksum", 0, "SetChecksum", "Checksum", 0, "RFC 793"},
	{"TCP", "UrgentPointer", 144, 16, "", 0, "", "UrgentPointer", 0, "RFC 793"},
}

var rfcSlices = []sliceLayout{
	{"Ethernet", "Destination", 0, 6, "DestinationAddress", "", "DstAddr", "IEEE 802.3"},
	{"Ethernet", "Source", 6, 6, "SourceAddress", "", "SrcAddr", "IEEE 802.3"},
	{"ARP", "SenderHardware", 8, 6, "HardwareAddressSender", "", "", "RFC 826 (Ethernet/IPv4)"},
	{"ARP", "SenderProtocol", 14, 4, "ProtocolAddressSender", "", "", "RFC 826"},
	{"ARP", "TargetHardware", 18, 6, "HardwareAddressTarget", "", "", "RFC 826"},
	{"ARP", "TargetProtocol", 24, 4, "ProtocolAddressTarget", "", "", "RFC 826"},
	{"IPv4", "Source", 12, 4, "SourceAddress", "SetSourceAddress", "SrcAddr", "RFC 791"},
	{"IPv4", "Destination", 16, 4, "DestinationAddress", "SetDestinationAddress", "DstAddr", "RFC 791"},
	{"IPv6", "Source", 8, 16, "SourceAddress", "SetSourceAddress", "SrcAddr", "RFC 8200"},
	{"IPv6", "Destination", 24, 16, "DestinationAddress", "SetDestinationAddress", "DstAddr", "RFC 8200"},
}

// constant bits an encoder must write: version nibbles.
var rfcConsts = []struct {
	Typ          string
	Start, Width int
	Value        uint64
	RFC          string
}{
	{"IPv4", 0, 4, 4, "RFC 791 version"},
	{"IPv6", 0, 4, 6, "RFC 8200 version"},
}

var headerMinSize = map[string]int{"Ethernet": 14, "ARP": 28, "IPv4": 20, "IPv6": 40, "IPv6Fragment": 8, "ICMPv4": 4, "ICMPv6": 4, "UDP": 8, "TCP": 20}

func propC15(c *Ctx) {
	c.Explanation = "Decides completely, for all field values, the fixed-offset part of the header codecs by bit-provenance evaluation (each bit of a value is a constant, a bit of the buffer or a bit of a parameter; no execution): (B1) RFC layout - every integer getter returns exactly the buffer bits the RFC diagram assigns to the field (independent table transcribed from RFC 791/8200/792/4443/768/793/826 and IEEE 802.3), every setter and Encode writes exactly those bits from exactly the corresponding parameter bits, address accessors slice exactly the RFC byte ranges; round trip follows (getter o encoder is the identity on every field bit; the bits an encoder drops are exactly the granularity bits: IHL and DataOffset low 2 bits, fragment offset low 3 bits); Encode never writes a bit twice and never beyond the header's minimum size; version nibbles are the RFC constants; (B2) option codecs - each Encode*Option writes kind, length and big-endian value and returns its length, every (kind,length) pair an encoder produces is accepted by both parsers with the same length; (B3) the option parsers and encoders never index outside their slice arguments (interval + linear-fact analysis, shared with C07) and the parser loops always advance; (B4) the Internet checksum's carry handling - every 32->16-bit narrowing in checksum.go is either lossless, the extraction of the two halves fed to ChecksumCombine, or an end-around-carry fold that is complete for the whole range of its operand (so no carry is dropped); the accumulator is 32 bits wide; the odd trailing byte is added as the high byte. (B4w) every 16-bit word handed to Checksum (initial value) or ChecksumCombine anywhere in the module, incl. the partial-checksum helpers, is free of 16-bit arithmetic that can wrap and of lossy narrowing (interval evaluation of the operands). B2 also requires every encoder's room test and written length to be derivable from its body (SACK block count within [1,4] at the stores). (B5) what the per-protocol checksum helpers sum over: IPv4 exactly the IHL header bytes, TCP the data-offset bytes, UDP 8 bytes, pseudo-header = source, destination, (0, protocol) (shared with C06/E1). (B6) the header codecs narrow only at the reviewed byte extractions and folds. NOT decided: that Checksum equals the RFC 1071 sum for every buffer (needs induction over the loop), accumulator overflow for buffers beyond 64 KiB, DNS variable-length parsing."
	c.Assumptions = []string{"encoding/binary.BigEndian semantics", "RFC layout table in prop_c15.go transcribed by hand from the RFCs"}
	bp := &bitprov{p: c.P}
	headerChecksumHelpersRule(c, c.Rule("B5", "K7 exact site tables (shared with C06/E1)", "what the per-protocol checksum helpers sum over: IPv4 exactly the IHL header bytes, TCP the data-offset bytes, UDP 8 bytes, after the pseudo-header length word; the pseudo-header is source, destination, (0, protocol)", 10))
	c.NoNewNarrowing(c.Rule("B6", "K8 narrowing (closed world, reviewed table)", "the header codecs narrow only at the reviewed byte extractions and folds", 10), []string{"/protocol/header", "/protocol"}, narrowHeader)
	b1 := c.Rule("B1", "K9 bitprov", "accessor/encoder bit maps == RFC layout", 120)

	method := func(typ, name string) *ssa.Function {
		return c.P.Func("header." + typ + "." + name)
	}
	c.fieldAccessorLayouts(b1, bp, func(fieldLayout) bool { return true })
	for _, s := range rfcSlices {
		if s.Getter != "" {
			fn := method(s.Typ, s.Getter)
			key := "header." + s.Typ + "." + s.Getter + "/layout:" + s.Field
			if fn == nil {
				c.Broken(b1, "anchor-unresolved:header."+s.Typ+"."+s.Getter, "getter not found")
				continue
			}
			r := bp.evalMethod(fn)
			ok := r.Err == "" && len(r.Returns) == 1 && r.Returns[0].slice != nil && r.Returns[0].slice.base == "buf" && r.Returns[0].slice.off == s.Off && r.Returns[0].slice.n == s.Len
			got := "?"
			if len(r.Returns) == 1 && r.Returns[0].slice != nil {
				got = fmt.Sprintf("buf[%d:%d]", r.Returns[0].slice.off, r.Returns[0].slice.off+r.Returns[0].slice.n)
			}
			c.Check(ok, b1, key, c.P.Pos(fn.Pos()), fmt.Sprintf("%s = bytes %d..%d (%s)", s.Field, s.Off, s.Off+s.Len-1, s.RFC), fmt.Sprintf("accessor returns %s, %s places %s at bytes %d..%d", got, s.RFC, s.Field, s.Off, s.Off+s.Len-1))
		}
		if s.Setter != "" {
			fn := method(s.Typ, s.Setter)
			key := "header." + s.Typ + "." + s.Setter + "/layout:" + s.Field
			if fn == nil {
				c.Broken(b1, "anchor-unresolved:header."+s.Typ+"."+s.Setter, "setter not found")
				continue
			}
			r := bp.evalMethod(fn)
			c.checkSliceWrites(b1, key, c.P.Pos(fn.Pos()), r, "$1", s)
		}
	}
	// Encode functions
	for _, typ := range []string{"Ethernet", "IPv4", "IPv6", "UDP", "TCP"} { // IPv6Fragment.Encode branches on the M flag (not straight-line); its getters are decided
		fn := method(typ, "Encode")
		if fn == nil {
			if typ == "IPv6Fragment" {
				continue
			}
			c.Broken(b1, "anchor-unresolved:header."+typ+".Encode", "Encode not found")
			continue
		}
		pos := c.P.Pos(fn.Pos())
		r := bp.evalMethod(fn)
		base := "header." + typ + ".Encode"
		if r.Err != "" {
			c.Bad(b1, base+"/undecided", pos, "Encode left the straight-line class: "+r.Err)
			continue
		}
		c.Check(len(r.Double) == 0, b1, base+"/no-overlap", pos, "no buffer byte is written twice with different content", fmt.Sprintf("bytes %v are written twice with different content", r.Double))
		max := -1
		for k := range r.Writes {
			if k > max {
				max = k
			}
		}
		c.Check(max < headerMinSize[typ], b1, base+"/within-minimum-size", pos, fmt.Sprintf("highest byte written %d < %d", max, headerMinSize[typ]), fmt.Sprintf("Encode writes byte %d, beyond the %d-byte header", max, headerMinSize[typ]))
		for _, f := range rfcFields {
			if f.Typ == typ && f.EncField != "" {
				c.checkWrites(b1, base+"/layout:"+f.Field, pos, r, "$1."+f.EncField, f, f.EShift)
			}
		}
		for _, s := range rfcSlices {
			if s.Typ == typ && s.EncField != "" {
				c.checkSliceWrites(b1, base+"/layout:"+s.Field, pos, r, "$1."+s.EncField, s)
			}
		}
		for _, k := range rfcConsts {
			if k.Typ != typ {
				continue
			}
			ok := true
			for j := 0; j < k.Width; j++ {
				fb := fieldBit(k.Start, k.Width, j)
				w, has := r.Writes[fb.idx]
				want := byte('0')
				if k.Value>>uint(j)&1 == 1 {
					want = '1'
				}
				if !has || w[fb.bit].kind != want {
					ok = false
				}
			}
			c.Check(ok, b1, base+"/const:"+k.RFC, pos, fmt.Sprintf("%s = %d", k.RFC, k.Value), fmt.Sprintf("%s is not the constant %d", k.RFC, k.Value))
		}
	}
	// round trip of granularity fields: getter(encoder(x)) keeps bits >= shift
	for _, f := range rfcFields {
		if f.Getter != "" && f.EncField != "" {
			c.Check(f.GShift == f.EShift, b1, "header."+f.Typ+"/roundtrip:"+f.Field, "", fmt.Sprintf("getter and encoder agree on the unit (shift %d): dropped bits are exactly the low %d", f.GShift, f.GShift), "getter and encoder use different units")
		}
	}

	propC15Options(c, bp)
	propC15Bounds(c)
	propC15Checksum(c)
}

func bvecEq(a, b bvec) bool {
	if len(a) != len(b) {
		return false
	}
	for i := range a {
		if a[i] != b[i] {
			return false
		}
	}
	return true
}

// checkWrites: the buffer bits of field f hold parameter `param` bits (>> shift).
func (c *Ctx) checkWrites(rule, key, pos string, r *bpResult, param string, f fieldLayout, shift int) {
	if r.Err != "" {
		c.Bad(rule, key+"/undecided", pos, r.Err)
		return
	}
	ok := true
	var got []string
	for j := f.Width - 1; j >= 0; j-- {
		fb := fieldBit(f.Start, f.Width, j)
		w, has := r.Writes[fb.idx]
		if !has {
			ok = false
			got = append(got, "unwritten")
			continue
		}
		b := w[fb.bit]
		got = append(got, b.String())
		if b.kind != 'P' || b.name != param || b.bit != j+shift {
			ok = false
		}
	}
	c.Check(ok, rule, key, pos, fmt.Sprintf("%s written to bits %d..%d from %s (%s)", f.Field, f.Start, f.Start+f.Width-1, param, f.RFC), fmt.Sprintf("bits %d..%d (%s, %s) receive [%s], expected %s bits %d..%d", f.Start, f.Start+f.Width-1, f.Field, f.RFC, strings.Join(got, " "), param, f.Width-1+shift, shift))
}

func (c *Ctx) checkSliceWrites(rule, key, pos string, r *bpResult, param string, s sliceLayout) {
	if r.Err != "" {
		c.Bad(rule, key+"/undecided", pos, r.Err)
		return
	}
	ok := true
	for i := 0; i < s.Len; i++ {
		w, has := r.Writes[s.Off+i]
		if !has {
			ok = false
			break
		}
		for j := 0; j < 8; j++ {
			if w[j].kind != 'P' || w[j].name != fmt.Sprintf("%s[%d]", param, i) || w[j].bit != j {
				ok = false
			}
		}
	}
	c.Check(ok, rule, key, pos, fmt.Sprintf("%s bytes copied to %d..%d (%s)", s.Field, s.Off, s.Off+s.Len-1, s.RFC), fmt.Sprintf("bytes %d..%d are not a copy of %s[0..%d] (%s)", s.Off, s.Off+s.Len-1, param, s.Len-1, s.RFC))
}

// ---------------------------------------------------------------- B2 options

func propC15Options(c *Ctx, bp *bitprov) {
	b2 := c.Rule("B2", "K9 table agreement", "option encoders and parsers agree on kind/length/value layout", 12)
	// every encoder's own room test and returned length are derivable from its
	// body (shared with C06/E5): a fixed-size encoder returns 0 unless the buffer
	// has room for all of it, and the SACK encoder writes between 1 and 4 blocks
	// - never a negative or zero count past its "no room" return - so the bytes
	// it stores lie inside the buffer it was given, whatever its length.
	{
		an := NewAbsint(c.P)
		for _, n := range []string{"header.EncodeMSSOption", "header.EncodeWSOption", "header.EncodeTSOption", "header.EncodeSACKPermittedOption", "header.EncodeSACKBlocks", "header.EncodeNOP"} {
			if fn := c.Fn(b2, n); fn != nil {
				es, err := encoderSummary(c, an, fn)
				c.Check(err == "", b2, n+"/room-and-length", c.P.Pos(fn.Pos()), fmt.Sprintf("needs %d bytes of room; %s", es.need, es.why), "the encoder's room test / written length is not derivable: "+err+" - for some buffer lengths it writes outside the buffer or reports a length it did not write")
			}
		}
	}
	type enc struct {
		fn         string
		kind, size int
		buf        int // index of the buffer parameter
		vals       []struct {
			param      string
			off, bytes int
		}
	}
	encs := []enc{
		{"header.EncodeMSSOption", 2, 4, 1, []struct {
			param      string
			off, bytes int
		}{{"$0", 2, 2}}},
		{"header.EncodeWSOption", 3, 3, 1, []struct {
			param      string
			off, bytes int
		}{{"$0", 2, 1}}},
		{"header.EncodeTSOption", 8, 10, 2, []struct {
			param      string
			off, bytes int
		}{{"$0", 2, 4}, {"$1", 6, 4}}},
		{"header.EncodeSACKPermittedOption", 4, 2, 0, nil},
	}
	produced := map[int]int{}
	for _, e := range encs {
		fn := c.Fn(b2, e.fn)
		if fn == nil {
			continue
		}
		args := make([]bpVal, len(fn.Params))
		args[e.buf] = bpVal{slice: &sliceRef{base: "buf", off: 0, n: -1}}
		r := bp.eval(fn, args)
		pos := c.P.Pos(fn.Pos())
		if r.Err != "" {
			c.Bad(b2, e.fn+"/undecided", pos, r.Err)
			continue
		}
		kb, lb := r.Writes[0], r.Writes[1]
		kv, ok1 := bvec(kb[:]).isConst()
		lv, ok2 := bvec(lb[:]).isConst()
		c.Check(ok1 && int(kv) == e.kind, b2, e.fn+"/kind", pos, fmt.Sprintf("kind byte = %d", e.kind), fmt.Sprintf("kind byte is %v, RFC says %d", kv, e.kind))
		c.Check(ok2 && int(lv) == e.size, b2, e.fn+"/length", pos, fmt.Sprintf("length byte = %d", e.size), fmt.Sprintf("length byte is %v, RFC says %d", lv, e.size))
		for _, v := range e.vals {
			good := true
			for i := 0; i < v.bytes; i++ {
				w, has := r.Writes[v.off+i]
				for j := 0; j < 8 && has; j++ {
					wantBit := (v.bytes-1-i)*8 + j
					if w[j].kind != 'P' || w[j].name != v.param || w[j].bit != wantBit {
						good = false
					}
				}
				if !has {
					good = false
				}
			}
			c.Check(good, b2, e.fn+"/value:"+v.param, pos, fmt.Sprintf("%d value bytes big-endian at offset %d", v.bytes, v.off), "option value is not written big-endian at the RFC offset")
		}
		max := 0
		for k := range r.Writes {
			if k > max {
				max = k
			}
		}
		c.Check(max == e.size-1, b2, e.fn+"/extent", pos, "writes exactly its own bytes", fmt.Sprintf("writes up to byte %d of a %d-byte option", max, e.size))
		// returned size: constant e.size or the length byte just written
		rv := r.Returns
		okRet := false
		if len(rv) == 1 && rv[0].bits != nil {
			if cv, isC := rv[0].bits.isConst(); isC && int(cv) == e.size {
				okRet = true
			}
			// int(b[1]) after the store: the engine reads the buffer symbolically; accept buf[1]
			allB1 := true
			for j, b := range rv[0].bits {
				if j < 8 && !(b.kind == 'B' && b.idx == 1 && b.bit == j) {
					allB1 = false
				}
				if j >= 8 && b.kind != '0' {
					allB1 = false
				}
			}
			if allB1 {
				okRet = true
			}
		}
		c.Check(okRet, b2, e.fn+"/returns-size", pos, "returns its encoded size", "does not return its encoded size")
		produced[e.kind] = e.size
	}
	// parsers accept each (kind, size) with the same size
	reKind := regexp.MustCompile(`^\(\$0\[(phi\{.*\}|loop)\] == (\d+)\)$`)
	reLen := regexp.MustCompile(`^\(\$0\[\(1 \+ (phi\{.*\}|loop)\)\] == (\d+)\)$`)
	// the option is rejected as truncated exactly when it does not fit: continue on !(len < i+L)
	reRoom := regexp.MustCompile(`^!\(builtin:len\(\$0\) < \((\d+) \+ (phi\{.*\}|loop)\)\)$`)
	for _, pn := range []string{"header.ParseSynOptions", "header.ParseTCPOptions"} {
		fn := c.Fn(b2, pn)
		if fn == nil {
			continue
		}
		gi := guardIndex(fn)
		accepts := map[int]int{}
		room := map[int]int{}
		for _, e := range CondEdges(fn) {
			m := reLen.FindStringSubmatch(e.Atom)
			if m == nil || e.Succ != 0 {
				continue
			}
			var l int
			fmt.Sscanf(m[2], "%d", &l)
			for _, g := range gi[e.From.Index] {
				if km := reKind.FindStringSubmatch(g); km != nil {
					var k int
					fmt.Sscanf(km[2], "%d", &k)
					accepts[k] = l
					room[k] = -1
					for _, g2 := range gi[e.From.Index] {
						if rm := reRoom.FindStringSubmatch(g2); rm != nil {
							var n int
							fmt.Sscanf(rm[1], "%d", &n)
							room[k] = n
						}
					}
				}
			}
		}
		var ks []int
		for k := range produced {
			ks = append(ks, k)
		}
		sort.Ints(ks)
		for _, k := range ks {
			if pn == "header.ParseTCPOptions" && k != 8 {
				continue // only the timestamp option is valid on non-SYN segments
			}
			c.Check(room[k] == produced[k], b2, pn+"/room-test-tight:"+fmt.Sprint(k), c.P.Pos(fn.Pos()), fmt.Sprintf("kind %d rejected as truncated exactly when i+%d > len", k, produced[k]), fmt.Sprintf("kind %d (length %d): the truncation test is not the tight i+%d > len (found bound %d; -1/0 = not of that form): an option that exactly fills the block is dropped, or a short one is read past the end", k, produced[k], produced[k], room[k]))
			c.Check(accepts[k] == produced[k], b2, pn+"/accepts-kind:"+fmt.Sprint(k), c.P.Pos(fn.Pos()), fmt.Sprintf("kind %d parsed with length %d", k, produced[k]), fmt.Sprintf("encoder produces kind %d with length %d, parser expects length %d", k, produced[k], accepts[k]))
		}
	}
	// SACK block count agreement
	if fn := c.Fn(b2, "header.EncodeSACKBlocks"); fn != nil {
		found := false
		Instrs(fn, func(in ssa.Instruction) {
			if st, ok := in.(*ssa.Store); ok {
				t := Term(st.Val)
				if strings.Contains(t, "* 8") || strings.Contains(t, "(8 * ") {
					if strings.Contains(t, "+ 2)") || strings.Contains(t, "(2 + ") {
						found = true
					}
				}
			}
		})
		c.Check(found, b2, "header.EncodeSACKBlocks/length=8n+2", c.P.Pos(fn.Pos()), "length byte = 8*blocks + 2", "SACK option length is not 8*blocks+2")
	}
	if fn := c.Fn(b2, "header.ParseTCPOptions"); fn != nil {
		found := false
		for _, e := range CondEdges(fn) {
			if strings.Contains(e.Atom, "% 8)") && strings.Contains(e.Atom, "- 2)") {
				found = true
			}
		}
		c.Check(found, b2, "header.ParseTCPOptions/sack-length-check", c.P.Pos(fn.Pos()), "(len-2) % 8 == 0 checked", "SACK option length no longer validated as 8n+2")
	}
}

// ---------------------------------------------------------------- B3 bounds

func propC15Bounds(c *Ctx) {
	b3 := c.Rule("B3", "K8 absint", "option parsers/encoders and fixed accessors stay inside their slices", 40)
	an := NewAbsint(c.P)
	assumed := loadAssumed("assumed_c07.json")
	for _, fn := range c.P.Funcs {
		if fn.Pkg == nil || !strings.HasSuffix(fn.Pkg.Pkg.Path(), "/protocol/header") {
			continue
		}
		name := FuncName(fn)
		if strings.HasPrefix(name, "header.DNS.") {
			continue // application-layer helper outside the property's scope (noted in DESIGN.md)
		}
		a := an.get(fn)
		for _, o := range a.Obligations() {
			key := name + "/" + o.Kind + ":" + o.Desc
			switch {
			case o.OK:
				c.Ok(b3, key, c.pos(o.Instr), o.How)
			case o.Kind == "div-zero":
			case deferrable(o.Goal):
				c.Ok(b3, key+"/deferred", c.pos(o.Instr), "requirement on the caller: "+o.Goal.String()+" <= 0 (discharged at call sites in C07/P2)")
			default:
				if why, ok := assumed[key]; ok {
					c.Assume(b3, key, c.pos(o.Instr), why)
				} else {
					c.Bad(b3, key, c.pos(o.Instr), "unproved bounds obligation: "+o.Goal.String()+" <= 0")
				}
			}
		}
	}
	// fixed accessors need no more than the header's minimum size
	b3m := c.Rule("B3-min", "slot agreement", "fixed accessors read within the type's minimum size", 60)
	for typ, min := range headerMinSize {
		for _, fn := range c.P.Funcs {
			name := FuncName(fn)
			if !strings.HasPrefix(name, "header."+typ+".") || fn.Signature.Recv() == nil {
				continue
			}
			for _, rq := range an.Requirements(fn) {
				if i, k, ok := summaryForm(rq); ok && i == 0 {
					c.Check(int(k) <= min, b3m, name+"/needs:"+fmt.Sprint(k), c.P.Pos(fn.Pos()), fmt.Sprintf("needs %d bytes <= %s minimum size %d", k, typ, min), fmt.Sprintf("reads %d bytes, beyond the %d-byte minimum header the callers guarantee", k, min))
				}
			}
		}
	}
}

// ---------------------------------------------------------------- B4 checksum

// foldComplete: for every x in it, (x & 0xffff) + (x >> 16) < 2^16.
func foldComplete(it Itv) bool {
	if it.empty() || it.Lo < 0 || it.Hi >= 1<<32 {
		return false
	}
	hLo, hHi := it.Lo>>16, it.Hi>>16
	for h := hLo; h <= hHi; h++ {
		maxLow := int64(0xffff)
		if h == hHi {
			maxLow = it.Hi & 0xffff
		}
		if maxLow+h > 0xffff {
			return false
		}
	}
	return true
}

func propC15Checksum(c *Ctx) { checksumCarryRule(c, "B4") }

func checksumCarryRule(c *Ctx, id string) {
	b4 := c.Rule(id, "K8 carry completeness", "no carry is dropped when folding to 16 bits", 4)
	an := NewAbsint(c.P)
	for _, name := range []string{"header.Checksum", "header.ChecksumCombine"} {
		fn := c.Fn(b4, name)
		if fn == nil {
			continue
		}
		a := an.get(fn)
		Instrs(fn, func(in ssa.Instruction) {
			cv, ok := in.(*ssa.Convert)
			if !ok || TypeStr(cv.Type()) != "uint16" || typeBits(cv.X.Type()) <= 16 {
				return
			}
			key := name + "/narrow:" + a.t.T(cv.X)
			src := a.eval(cv.X, cv.Block().Index)
			if !src.empty() && src.within(Itv{0, 0xffff}) {
				c.Ok(b4, key, c.pos(in), "lossless: operand in "+src.String())
				return
			}
			// fold pattern: uint16(x + x>>16)
			if add, ok := cv.X.(*ssa.BinOp); ok && add.Op == token.ADD {
				var x ssa.Value
				if sh, ok := add.Y.(*ssa.BinOp); ok && sh.Op == token.SHR && sh.X == add.X {
					if k, isC := constInt(sh.Y); isC && k == 16 {
						x = add.X
					}
				}
				if sh, ok := add.X.(*ssa.BinOp); ok && sh.Op == token.SHR && sh.X == add.Y {
					if k, isC := constInt(sh.Y); isC && k == 16 {
						x = add.Y
					}
				}
				if x != nil {
					xi := a.eval(x, cv.Block().Index)
					c.Check(foldComplete(xi), b4, key, c.pos(in), "end-around-carry fold of a value in "+xi.String()+": (x&0xffff)+(x>>16) always fits 16 bits", "single end-around-carry fold of a value in "+xi.String()+": for some values (x&0xffff)+(x>>16) >= 2^16 and the second carry is lost - the result is one less than the RFC 1071 sum")
					return
				}
			}
			// half extraction: uint16(v) / uint16(v>>16) both passed to ChecksumCombine
			if half := isHalfExtraction(cv); half {
				c.Ok(b4, key, c.pos(in), "one of the two 16-bit halves handed to ChecksumCombine")
				return
			}
			c.Bad(b4, key, c.pos(in), "32-bit value in "+src.String()+" truncated to 16 bits without folding its upper half back in (end-around carry lost)")
		})
	}
	checksumWordRule(c, id+"w", an)
	if fn := c.Fn(b4, "header.Checksum"); fn != nil {
		// final result goes through ChecksumCombine(uint16(v), uint16(v>>16))
		okRet := false
		for _, s := range Sites(fn) {
			if s.Kind == "return" && strings.HasPrefix(s.Args[0], "header.ChecksumCombine(") {
				okRet = true
			}
		}
		c.Check(okRet, b4, "header.Checksum/result-via-combine", c.P.Pos(fn.Pos()), "result = ChecksumCombine(low half, high half)", "Checksum no longer folds its 32-bit accumulator through ChecksumCombine")
		// odd byte handling: a branch on len&1 that adds buf[l] << 8
		odd := false
		for _, e := range CondEdges(fn) {
			if strings.Contains(e.Atom, "(1 & builtin:len($0))") || strings.Contains(e.Atom, "& 1)") {
				odd = true
			}
		}
		c.Check(odd, b4, "header.Checksum/odd-length-branch", c.P.Pos(fn.Pos()), "odd trailing byte handled on a len&1 branch", "odd-length buffers are no longer handled")
	}
}

// checksumWordRule: every 16-bit word handed to the one's-complement sum
// (both arguments of header.ChecksumCombine, the initial value of
// header.Checksum), anywhere in the module, is not produced by machine
// arithmetic that can wrap: a <=16-bit ADD/SUB/MUL/SHL whose mathematical
// result (interval of the operands at that point) leaves the type's range
// silently drops the carry that the end-around fold needs, and a narrowing
// conversion of a wider value not known to fit 16 bits drops its upper half.
// Arithmetic directly on a running checksum (the result of Checksum,
// ChecksumCombine, PseudoHeaderChecksum, CalculateChecksum) is flagged for the
// same reason: only complement, comparison and hand-over are carry-safe.
func checksumWordRule(c *Ctx, id string, an *Absint) {
	r := c.Rule(id, "K8 interval check at every checksum hand-over (closed world over the module)", "no wrapped 16-bit arithmetic feeds or modifies a one's-complement sum", 30)
	isSum := func(n string) bool {
		return n == "header.Checksum" || n == "header.ChecksumCombine" || n == "header.PseudoHeaderChecksum" || n == "(*stack.Route).PseudoHeaderChecksum" || strings.HasSuffix(n, ".CalculateChecksum")
	}
	arith := map[token.Token]bool{token.ADD: true, token.SUB: true, token.MUL: true, token.SHL: true}
	var wraps func(a *absFn, v ssa.Value, depth int, seen map[ssa.Value]bool) (ssa.Instruction, string)
	wraps = func(a *absFn, v ssa.Value, depth int, seen map[ssa.Value]bool) (ssa.Instruction, string) {
		if depth > 6 || seen[v] {
			return nil, ""
		}
		seen[v] = true
		switch x := v.(type) {
		case *ssa.Convert:
			if typeBits(x.Type()) <= 16 && typeBits(x.X.Type()) > typeBits(x.Type()) && isIntType(x.X.Type()) {
				if x.Parent() != nil && (FuncName(x.Parent()) == "header.Checksum" || FuncName(x.Parent()) == "header.ChecksumCombine") {
					return nil, "" // the fold itself: decided conversion by conversion above
				}
				src := a.eval(x.X, x.Block().Index)
				if src.empty() || !src.within(typeRange(x.Type())) {
					return x, "a " + TypeStr(x.X.Type()) + " value in " + src.String() + " is truncated to " + TypeStr(x.Type()) + " before it is added to the checksum: its upper half is not folded back in"
				}
			}
			return wraps(a, x.X, depth+1, seen)
		case *ssa.ChangeType:
			return wraps(a, x.X, depth+1, seen)
		case *ssa.Phi:
			for _, e := range x.Edges {
				if in, why := wraps(a, e, depth+1, seen); in != nil {
					return in, why
				}
			}
		case *ssa.BinOp:
			if bits := typeBits(x.Type()); bits > 0 && bits <= 16 && arith[x.Op] && isIntType(x.Type()) {
				xi, yi := a.eval(x.X, x.Block().Index), a.eval(x.Y, x.Block().Index)
				var m Itv
				switch x.Op {
				case token.ADD:
					m = xi.add(yi)
				case token.SUB:
					m = xi.add(yi.neg())
				case token.MUL:
					m = xi.mul(yi)
				default:
					m = topItv
				}
				if m.empty() || !m.within(typeRange(x.Type())) {
					return x, TypeStr(x.Type()) + " arithmetic " + a.t.T(x) + " with operands in " + xi.String() + " and " + yi.String() + " can wrap: the carry out of bit 15 is lost instead of being added back (end-around carry), so the checksum is off by one for those inputs"
				}
				if in, why := wraps(a, x.X, depth+1, seen); in != nil {
					return in, why
				}
				return wraps(a, x.Y, depth+1, seen)
			}
		}
		return nil, ""
	}
	n := 0
	for _, fn := range c.P.Funcs {
		if inTesting(fn) || len(fn.Blocks) == 0 {
			continue
		}
		var a *absFn
		get := func() *absFn {
			if a == nil {
				a = an.get(fn)
			}
			return a
		}
		Instrs(fn, func(in ssa.Instruction) {
			switch x := in.(type) {
			case *ssa.Call:
				name := CalleeName(x)
				var words []ssa.Value
				switch name {
				case "header.ChecksumCombine":
					words = x.Common().Args
				case "header.Checksum":
					words = x.Common().Args[1:]
				default:
					return
				}
				for i, w := range words {
					n++
					key := FuncName(fn) + "/" + name + "#" + itoa(i) + ":" + get().t.T(w)
					if bad, why := wraps(get(), w, 0, map[ssa.Value]bool{}); bad != nil {
						c.Bad(r, key, c.pos(bad), why)
					} else {
						c.Ok(r, key, c.pos(in), "word handed to the sum is carry-safe")
					}
				}
			case *ssa.BinOp:
				if !arith[x.Op] || typeBits(x.Type()) > 16 || typeBits(x.Type()) == 0 {
					return
				}
				if FuncName(fn) == "header.Checksum" || FuncName(fn) == "header.ChecksumCombine" {
					return
				}
				for _, op := range []ssa.Value{x.X, x.Y} {
					if call, ok := op.(*ssa.Call); ok && isSum(CalleeName(call)) {
						n++
						key := FuncName(fn) + "/arith-on-sum:" + get().t.T(x)
						if bad, why := wraps(get(), x, 0, map[ssa.Value]bool{}); bad != nil {
							c.Bad(r, key, c.pos(bad), "arithmetic on a running checksum: "+why)
						} else {
							c.Ok(r, key, c.pos(in), "cannot wrap")
						}
					}
				}
			}
		})
	}
	_ = n
}

func isHalfExtraction(cv *ssa.Convert) bool {
	refs := cv.Referrers()
	if refs == nil {
		return false
	}
	for _, r := range *refs {
		if call, ok := r.(*ssa.Call); ok && CalleeName(call) == "header.ChecksumCombine" {
			args := call.Common().Args
			if len(args) != 2 {
				return false
			}
			a0, ok0 := args[0].(*ssa.Convert)
			a1, ok1 := args[1].(*ssa.Convert)
			if !ok0 || !ok1 {
				return false
			}
			// one is uint16(v), the other uint16(v >> 16)
			lowHigh := func(lo, hi *ssa.Convert) bool {
				sh, ok := hi.X.(*ssa.BinOp)
				if !ok || sh.Op != token.SHR || sh.X != lo.X {
					return false
				}
				k, isC := constInt(sh.Y)
				return isC && k == 16
			}
			return lowHigh(a0, a1) || lowHigh(a1, a0)
		}
	}
	return false
}

// fieldAccessorLayouts decides, for the fixed-offset fields selected by want,
// that the getter returns exactly the field's bits (shifted by the accessor's
// unit) and the setter writes exactly them. B1 runs it for every field; the
// properties that consume a field run it for theirs (C08: fragment fields;
// C11: UDP; C13: ICMP; C01/C03/C04: TCP).
func (c *Ctx) fieldAccessorLayouts(b1 string, bp *bitprov, want func(fieldLayout) bool) {
	method := func(typ, name string) *ssa.Function {
		return c.P.Func("header." + typ + "." + name)
	}
	// getters
	for _, f := range rfcFields {
		if !want(f) {
			continue
		}
		pos := ""
		if f.Getter != "" {
			fn := method(f.Typ, f.Getter)
			key := "header." + f.Typ + "." + f.Getter + "/layout:" + f.Field
			if fn == nil {
				c.Broken(b1, "anchor-unresolved:header."+f.Typ+"."+f.Getter, "getter not found")
			} else {
				pos = c.P.Pos(fn.Pos())
				r := bp.evalMethod(fn)
				if r.Err != "" || len(r.Returns) == 0 || r.Returns[0].bits == nil {
					c.Bad(b1, key+"/undecided", pos, "getter left the straight-line class: "+r.Err)
				} else {
					got := r.Returns[0].bits
					want := bzero(len(got))
					for j := 0; j < f.Width && j+f.GShift < len(want); j++ {
						want[j+f.GShift] = fieldBit(f.Start, f.Width, j)
					}
					c.Check(bvecEq(got, want), b1, key, pos, fmt.Sprintf("%s: bits %d..%d of the header (%s)", f.Field, f.Start, f.Start+f.Width-1, f.RFC), fmt.Sprintf("getter reads %s; %s places %s at bits %d..%d: %s", bvecStr(got), f.RFC, f.Field, f.Start, f.Start+f.Width-1, bvecStr(want)))
				}
			}
		}
		if f.Setter != "" {
			fn := method(f.Typ, f.Setter)
			key := "header." + f.Typ + "." + f.Setter + "/layout:" + f.Field
			if fn == nil {
				c.Broken(b1, "anchor-unresolved:header."+f.Typ+"."+f.Setter, "setter not found")
			} else {
				r := bp.evalMethod(fn)
				c.checkWrites(b1, key, c.P.Pos(fn.Pos()), r, "$1", f, 0)
			}
		}
	}
}
