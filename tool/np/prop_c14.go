package np

import (
	"fmt"
	"go/token"
	"go/types"
	"strings"

	"golang.org/x/tools/go/ssa"
)

func init() { register("C14", propC14) }

func v(n string) aff { return affVar(n) }

func propC14(c *Ctx) {
	c.Explanation = "Decides, for ALL 32-bit operands, that each primitive of pkg/seqnum computes the serial-number-arithmetic definition in the property: every function body is abstractly evaluated (loop-free path enumeration, affine terms mod 2^32, signed tests rewritten to unsigned intervals, callees substituted) into a predicate normal form which is compared exactly - over the finite partition induced by the interval end points - with the definition written in the same normal form; a mismatch is reported with the interval of distances on which code and definition differ. Additionally a type-resolved lint shows that the TCP/stack/header packages never order seqnum.Value operands with raw < <= > >= (so all ordering goes through the decided primitives) and that the out-of-order heap orders by LessThan. S2 also flags a seqnum.Value converted to any plain integer type and then ordered. (S4) sequence-typed sender/receiver state is initialised from iss/irs. (S5) every conversion into the 32-bit sequence space, and every other narrowing conversion of packages tcp and seqnum, is in the reviewed table (closed world). S2 also reports a seqnum.Value compared for (in)equality with a constant - a sentinel at a fixed point of the sequence space - unless the operand is a difference (a distance). NOT decided: the consequence clause (that every TCP property holds at wrap-adjacent initial sequence numbers) beyond this necessary condition; Overlap is decided against its definition-by-composition, which coincides with 'the windows share a sequence number' only for window sizes < 2^31 (pen-and-paper lemma, see DESIGN.md)."
	c.Assumptions = []string{
		"Go semantics of uint32/int32 arithmetic and conversions as modelled by the affine32 evaluator",
		"Overlap's definition-by-composition equals window intersection for sizes < 2^31 (TCP windows are <= 2^30)",
	}
	c.NoNewNarrowing(c.Rule("S5", "K8 narrowing (closed world, reviewed table)", "every conversion into the 32-bit sequence space (and every other narrowing in packages tcp and seqnum) is a reviewed one: lengths and buffer sizes far below 2^31, shifts, timestamps", 12), []string{"/transport/tcp", "/pkg/seqnum"}, narrowTCP)
	S1 := c.Rule("S1", "K9/affine32", "seqnum primitive == serial-number definition for all operands", 8)
	seqnumPrimitives(c, S1, nil)
	S2 := c.Rule("S2", "lint", "no raw ordering comparison / widening of seqnum.Value in tcp, header, stack", 1)
	S3 := c.Rule("S3", "K5", "segmentHeap.Less orders by sequenceNumber.LessThan", 1)
	// S4: sequence space has no origin. Every sequence-typed variable of the
	// sender and the receiver that later takes part in an ordering test is
	// initialised relative to the connection's own initial sequence numbers;
	// one left at its zero value (or set to a constant) makes the tests depend on
	// where in the 32-bit space the connection happens to start.
	S4 := c.Rule("S4", "K5 def-use in the constructors", "sequence-typed sender/receiver state starts relative to iss/irs, never at an absolute value", 8)
	for _, t := range []struct {
		fn     string
		fields map[string]string // field -> parameter it must derive from
	}{
		{"tcp.newSender", map[string]string{"tcp.sender.sndUna": "$1", "tcp.sender.sndNxt": "$1", "tcp.sender.sndNxtList": "$1", "tcp.sender.rttMeasureSeqNum": "$1", "tcp.sender.maxSentAck": "$2", "tcp.fastRecovery.last": "$1"}},
		{"tcp.newReceiver", map[string]string{"tcp.receiver.rcvNxt": "$1", "tcp.receiver.rcvAcc": "$1"}},
	} {
		fn := c.Fn(S4, t.fn)
		if fn == nil {
			continue
		}
		seen := map[string]string{}
		for _, st := range Sites(fn) {
			if st.Kind == "store" && len(st.Args) == 2 {
				if _, want := t.fields[st.Target]; want {
					seen[st.Target] = st.Args[1]
				}
			}
		}
		for f, par := range t.fields {
			got, ok := seen[f]
			c.Check(ok && strings.Contains(got, par), S4, t.fn+"/"+f, c.P.Pos(fn.Pos()), "initialised from the initial sequence number: "+got, "sequence-typed field "+f+" is not initialised from the connection's initial sequence number ("+par+") in "+t.fn+" (found: '"+got+"'): comparisons against it depend on the absolute position of the connection in sequence space")
		}
	}

	// S2: lint over the packages that hold TCP state.
	sites := seqLint(c, S2, []string{"protocol/transport/tcp", "protocol/header", "stack"})
	propC14Rest(c, S2, S3, sites)
}

// seqnumPrimitives decides the pkg/seqnum primitives against their
// definitions (all of them when only is nil). Shared with the properties
// whose mechanisms are written in terms of these primitives (C04).
func seqnumPrimitives(c *Ctx, S1 string, only map[string]bool) {
	half := uint64(1) << 31
	ltSpec := func(a, b aff) form { return mkIn(b.add(a, 0xffffffff), iset{{1, half - 1}}) }
	// Functions defined by composition with LessThan (LessThanEq, Overlap) are
	// decided relative to the code's own LessThan, which is itself decided
	// against the absolute definition: one root cause gives one report.
	lt := func(a, b aff) form {
		if fn := c.P.Func("seqnum.Value.LessThan"); fn != nil {
			e := &a32{prog: c.P}
			if paths, es := e.evalFunc(fn, []sval{{a: a}, {a: b}}); es == "" {
				if r, es := combine(paths); es == "" && r.isBool {
					return r.f
				}
			}
		}
		return ltSpec(a, b)
	}
	specs := []struct {
		name string
		kind string // bool | value | update
		f    form
		a    aff
	}{
		{"seqnum.Value.LessThan", "bool", ltSpec(v("$0"), v("$1")), aff{}},
		{"seqnum.Value.LessThanEq", "bool", fOr{mkIn(v("$1").add(v("$0"), 0xffffffff), iset{{0, 0}}), lt(v("$0"), v("$1"))}, aff{}},
		{"seqnum.Value.InRange", "bool", fUlt{v("$0").add(v("$1"), 0xffffffff), v("$2").add(v("$1"), 0xffffffff)}, aff{}},
		{"seqnum.Value.InWindow", "bool", fUlt{v("$0").add(v("$1"), 0xffffffff), v("$2")}, aff{}},
		{"seqnum.Overlap", "bool", fAnd{lt(v("$0"), v("$2").add(v("$3"), 1)), lt(v("$2"), v("$0").add(v("$1"), 1))}, aff{}},
		{"seqnum.Value.Add", "value", nil, v("$0").add(v("$1"), 1)},
		{"seqnum.Value.Size", "value", nil, v("$1").add(v("$0"), 0xffffffff)},
		{"(*seqnum.Value).UpdateForward", "update", nil, v("*$0").add(v("$1"), 1)},
	}
	for _, sp := range specs {
		if only != nil && !only[sp.name] {
			continue
		}
		fn := c.P.Func(sp.name)
		if fn == nil {
			c.Broken(S1, sp.name, "anchor-unresolved: "+sp.name)
			continue
		}
		e := &a32{prog: c.P}
		var args []sval
		for i := range fn.Params {
			args = append(args, sval{a: v(fmt.Sprintf("$%d", i))})
		}
		paths, es := e.evalFunc(fn, args)
		pos := c.P.Pos(fn.Pos())
		if es != "" {
			c.Bad(S1, sp.name+"/undecided", pos, "function left the affine32 class: "+es)
			continue
		}
		switch sp.kind {
		case "bool":
			r, es := combine(paths)
			if es != "" || !r.isBool {
				c.Bad(S1, sp.name+"/undecided", pos, "not a boolean function: "+es)
				continue
			}
			diffs := formDiff(r.f, sp.f)
			if len(diffs) == 0 {
				c.Ok(S1, sp.name, pos, "code normal form "+formStr(r.f)+" == definition "+formStr(sp.f))
			}
			for _, d := range diffs {
				c.Bad(S1, sp.name+"/differs-at:"+cellKey(d), pos, "code "+formStr(r.f)+" vs definition "+formStr(sp.f)+" differ on "+d)
			}
		case "value":
			r, es := combine(paths)
			if es != "" || r.isBool {
				c.Bad(S1, sp.name+"/undecided", pos, "not a single affine value: "+es)
				continue
			}
			c.Check(r.a.key() == sp.a.key(), S1, sp.name, pos, "returns "+r.a.key(), "returns "+r.a.key()+", definition "+sp.a.key())
		case "update":
			ok := len(paths) > 0
			got := ""
			for _, p := range paths {
				val, has := p.mem["*$0"]
				if !has || val.key() != sp.a.key() {
					ok = false
				}
				if has {
					got = val.key()
				}
			}
			c.Check(ok, S1, sp.name, pos, "*$0 := "+got, "*$0 := "+got+" on some path, definition "+sp.a.key())
		}
	}
}

func propC14Rest(c *Ctx, S2, S3 string, sites int) {
	c.Extra["seqnum_value_binops_in_scope"] = sites
	// positive fixture: tcpconntrack is known to contain raw orderings of
	// seqnum.Value; the lint must see them (keeps the zero-expected rule non-vacuous).
	fix := 0
	for _, fn := range c.P.Funcs {
		if fn.Pkg != nil && strings.HasSuffix(fn.Pkg.Pkg.Path(), "/tcpconntrack") {
			Instrs(fn, func(ins ssa.Instruction) {
				if x, ok := ins.(*ssa.BinOp); ok && (isSeqValue(x.X.Type()) || isSeqValue(x.Y.Type())) {
					fix++
				}
			})
		}
	}
	c.Extra["lint_fixture_sites_tcpconntrack"] = fix

	// S3
	if fn := c.P.Func("tcp.segmentHeap.Less"); fn == nil {
		c.Broken(S3, "tcp.segmentHeap.Less", "anchor-unresolved")
	} else {
		ok := false
		Instrs(fn, func(ins ssa.Instruction) {
			if r, ok2 := ins.(*ssa.Return); ok2 && len(r.Results) == 1 {
				t := Term(r.Results[0])
				if strings.HasPrefix(t, "seqnum.Value.LessThan($0[$1].sequenceNumber, $0[$2].sequenceNumber)") {
					ok = true
				}
				if !ok {
					c.Note(S3, "term", "", t)
				}
			}
		})
		c.Check(ok, S3, "tcp.segmentHeap.Less", c.P.Pos(fn.Pos()), "Less(i,j) = h[i].sequenceNumber.LessThan(h[j].sequenceNumber)", "heap order is not sequenceNumber.LessThan(i,j)")
	}
}

func cellKey(d string) string {
	if i := strings.Index(d, ": code="); i >= 0 {
		return d[:i]
	}
	return d
}

func isSeqValue(t types.Type) bool {
	n, ok := t.(*types.Named)
	return ok && n.Obj().Pkg() != nil && strings.HasSuffix(n.Obj().Pkg().Path(), "pkg/seqnum") && n.Obj().Name() == "Value"
}

// isSeqDistance: the value is a difference of sequence numbers (possibly
// shifted or masked), i.e. a distance and not a point of the sequence space.
func isSeqDistance(v ssa.Value) bool {
	switch x := v.(type) {
	case *ssa.BinOp:
		switch x.Op {
		case token.SUB:
			return true
		case token.SHR, token.SHL, token.AND, token.QUO:
			return isSeqDistance(x.X)
		}
	case *ssa.Convert:
		return isSeqDistance(x.X)
	}
	return false
}

func wider32(t types.Type) bool {
	b, ok := t.Underlying().(*types.Basic)
	if !ok {
		return false
	}
	switch b.Kind() {
	case types.Int, types.Int64, types.Uint, types.Uint64, types.Float64, types.Float32:
		return true
	}
	return false
}

// seqLint flags raw ordering comparisons of seqnum.Value (and orderings of
// widened values) in the given packages; returns the number of binops seen.
func seqLint(c *Ctx, S2 string, scope []string) int {
	sites := 0
	for _, fn := range c.P.Funcs {
		if fn.Pkg == nil {
			continue
		}
		rel := strings.TrimPrefix(fn.Pkg.Pkg.Path(), Mod+"/")
		in := false
		for _, s := range scope {
			if rel == s {
				in = true
			}
		}
		if !in {
			continue
		}
		Instrs(fn, func(ins ssa.Instruction) {
			switch x := ins.(type) {
			case *ssa.BinOp:
				if isSeqValue(x.X.Type()) || isSeqValue(x.Y.Type()) {
					sites++
					switch x.Op {
					case token.LSS, token.LEQ, token.GTR, token.GEQ:
						c.Bad(S2, FuncName(fn)+"/raw-order:"+Term(x), c.P.Pos(x.Pos()), "raw "+x.Op.String()+" on seqnum.Value: wrong across the 2^32 wrap; use LessThan/InRange/InWindow")
					case token.EQL, token.NEQ:
						_, cx := x.X.(*ssa.Const)
						_, cy := x.Y.(*ssa.Const)
						if (cx && isSeqValue(x.Y.Type()) && !isSeqDistance(x.Y)) || (cy && isSeqValue(x.X.Type()) && !isSeqDistance(x.X)) {
							c.Bad(S2, FuncName(fn)+"/fixed-point:"+Term(x), c.P.Pos(x.Pos()), "a seqnum.Value is compared with a constant: one fixed point of the sequence space is treated specially (a sentinel), although every value, 0 included, is an ordinary sequence number for some initial sequence number")
						} else {
							c.Ok(S2, FuncName(fn)+"/binop:"+x.Op.String()+":"+Term(x), c.P.Pos(x.Pos()), "wrap-safe operator on seqnum.Value")
						}
					default:
						c.Ok(S2, FuncName(fn)+"/binop:"+x.Op.String()+":"+Term(x), c.P.Pos(x.Pos()), "wrap-safe operator on seqnum.Value")
					}
				}
			case *ssa.Convert:
				// widening a Value/Size and then ordering it
				// (any conversion out of the Value type followed by an ordering is a
				// position-dependent comparison: int32(a) < int32(b) is inverted when
				// a and b straddle 2^31, uint32(a) < uint32(b) when they straddle 0)
				if isSeqValue(x.X.Type()) && isIntType(x.Type()) && !isSeqValue(x.Type()) {
					if refs := x.Referrers(); refs != nil {
						for _, r := range *refs {
							if b, ok := r.(*ssa.BinOp); ok {
								switch b.Op {
								case token.LSS, token.LEQ, token.GTR, token.GEQ:
									c.Bad(S2, FuncName(fn)+"/converted-order:"+Term(b), c.P.Pos(b.Pos()), "seqnum.Value converted to "+TypeStr(x.Type())+" and then ordered: the result depends on where in the 32-bit space the operands sit, not on their distance")
								case token.SUB:
									if wider32(x.Type()) {
										c.Bad(S2, FuncName(fn)+"/widened-order:"+Term(b), c.P.Pos(b.Pos()), "seqnum.Value widened to "+TypeStr(x.Type())+" and then subtracted: not modular")
									}
								}
							}
						}
					}
				}
			}
		})
	}
	return sites
}
