package np

import (
	"go/types"
)

// Guarded-by tables, transcribed from the struct comments of the code base
// ("The following fields are protected by ...") and confirmed by reading.

var guardsTCPQueues = []Guard{
	{Struct: "tcp.endpoint", Fields: []string{"rcvList", "rcvClosed", "rcvBufSize", "rcvBufUsed"}, Class: "tcp.endpoint.rcvListMu", SameObject: true},
	{Struct: "tcp.endpoint", Fields: []string{"sndBufSize", "sndBufUsed", "sndClosed", "sndBufInQueue", "sndQueue", "packetTooBigCount", "sndMTU"}, Class: "tcp.endpoint.sndBufMu", SameObject: true},
	{Struct: "tcp.segmentQueue", Fields: []string{"list", "used", "limit"}, Class: "tcp.segmentQueue.mu", SameObject: true},
	{Struct: "tcp.endpoint", Fields: []string{"lastError"}, Class: "tcp.endpoint.lastErrorMu", SameObject: true},
}

var guardsUDP = []Guard{
	{Struct: "udp.endpoint", Fields: []string{"rcvReady", "rcvList", "rcvBufSizeMax", "rcvBufSize", "rcvClosed", "rcvTimestamp"}, Class: "udp.endpoint.rcvMu", SameObject: true},
}

var guardsPorts = []Guard{
	{Struct: "ports.PortManager", Fields: []string{"allocatedPorts"}, Class: "ports.PortManager.mu", SameObject: true},
}

var guardsDemux = []Guard{
	{Struct: "stack.transportEndpoints", Fields: []string{"endpoints"}, Class: "stack.transportEndpoints.mu", SameObject: true},
	{Struct: "stack.NIC", Fields: []string{"spoofing", "promiscuous", "primary", "endpoints", "subnets"}, Class: "stack.NIC.mu", SameObject: true},
	{Struct: "stack.Stack", Fields: []string{"nics", "forwarding", "routeTable"}, Class: "stack.Stack.mu", SameObject: true},
}

var guardsLinkCache = []Guard{
	{Struct: "stack.linkAddrCache", Fields: []string{"cache", "next", "entries"}, Class: "stack.linkAddrCache.mu", SameObject: true},
	{Struct: "stack.linkAddrEntry", Fields: []string{"addr", "linkAddr", "expiration", "s", "wakers", "done"}, Class: "stack.linkAddrCache.mu", SameObject: false},
}

var guardsFrag = []Guard{
	{Struct: "fragmentation.Fragmentation", Fields: []string{"reassemblers", "rList", "size"}, Class: "fragmentation.Fragmentation.mu", SameObject: true},
	{Struct: "fragmentation.reassembler", Fields: []string{"holes", "deleted", "heap", "done", "size"}, Class: "fragmentation.reassembler.mu", SameObject: true},
}

var guardsWaiter = []Guard{
	{Struct: "waiter.Queue", Fields: []string{"list"}, Class: "waiter.Queue.mu", SameObject: true},
	{Struct: "waiter.Entry", Fields: []string{"mask"}, Class: "waiter.Queue.mu", SameObject: false},
}

// allFieldsOf lists the field names of a struct type, minus the excluded ones.
func (p *Program) allFieldsOf(rel, typ string, exclude ...string) []string {
	pk := p.Pkg(rel)
	if pk == nil {
		return nil
	}
	obj := pk.Scope().Lookup(typ)
	if obj == nil {
		return nil
	}
	st, ok := obj.Type().Underlying().(*types.Struct)
	if !ok {
		return nil
	}
	ex := map[string]bool{}
	for _, e := range exclude {
		ex[e] = true
	}
	var out []string
	for i := 0; i < st.NumFields(); i++ {
		if !ex[st.Field(i).Name()] {
			out = append(out, st.Field(i).Name())
		}
	}
	return out
}

// tcpWorkerAssume: frozen entry assumptions. newEndpoint returns with workMu
// locked; the goroutines started for a connection own it from their first
// instruction (checked separately by rule R2-entry in C01).
var tcpWorkerAssume = map[string][]heldLock{
	"(*tcp.endpoint).protocolMainLoop":   {{"tcp.endpoint.workMu", "$0.workMu", true}},
	"(*tcp.endpoint).protocolListenLoop": {{"tcp.endpoint.workMu", "$0.workMu", true}},
}

// tcpCutEdges: call edges ignored when computing what is held at entry of the
// callee, one reason each (see DESIGN.md C01/R2).
var tcpCutEdges = map[string]string{
	"(*tcp.endpoint).connect->(*tcp.sender).updateMaxPayloadSize":          "restore-only branch (handshake==false): the sole caller Connect passes handshake=true (rule R2-const checks that)",
	"(*tcp.endpoint).cleanupLocked->(*tcp.endpoint).resetConnectionLocked": "resets endpoints still sitting in the accept queue: no worker goroutine has been started for them yet",
}

func init() { register("LOCKS", propLocksDebug) }

func propLocksDebug(c *Ctx) {
	la := c.P.NewLockAnalysis(tcpWorkerAssume, tcpCutEdges)
	r := c.Rule("K4", "lockset", "debug: all guard tables", 1)
	var all []Guard
	for _, g := range [][]Guard{guardsTCPQueues, guardsUDP, guardsPorts, guardsDemux, guardsLinkCache, guardsFrag, guardsWaiter} {
		all = append(all, g...)
	}
	all = append(all,
		Guard{Struct: "tcp.sender", Fields: c.P.allFieldsOf("protocol/transport/tcp", "sender", "ep", "rtt"), Class: "tcp.endpoint.workMu"},
		Guard{Struct: "tcp.receiver", Fields: c.P.allFieldsOf("protocol/transport/tcp", "receiver", "ep"), Class: "tcp.endpoint.workMu"},
	)
	all = append(all,
		Guard{Struct: "tcp.endpoint", Fields: []string{"id", "state", "isPortReserved", "isRegistered", "boundNICID", "route", "v6only", "isConnectNotified", "effectiveNetProtos", "hardError", "workerRunning", "workerCleanup", "shutdownFlags"}, Class: "tcp.endpoint.mu", SameObject: true},
		Guard{Struct: "udp.endpoint", Fields: []string{"sndBufSize", "id", "state", "bindNICID", "regNICID", "route", "dstPort", "v6only", "multicastTTL", "shutdownFlags", "multicastMemberships", "effectiveNetProtos"}, Class: "udp.endpoint.mu", SameObject: true},
		Guard{Struct: "udp.endpoint", Fields: []string{"rcvIcmp", "rcvIcmpMsg"}, Class: "udp.endpoint.rcvMu", SameObject: true},
		Guard{Struct: "tcp.keepalive", Fields: []string{"enabled", "idle", "interval", "count", "unacked"}, Class: "tcp.keepalive.Mutex", SameObject: true},
	)
	la.CheckGuards(c, r, all, nil)
	la.DumpSummaries()
	c.Extra["rounds"] = la.Rounds
}

func (la *LockAnalysis) DumpSummaries() {
	for _, f := range la.funcs {
		if len(la.Acquired[f]) > 0 || len(la.Released[f]) > 0 {
			println(FuncName(f), "acq:", keys(la.Acquired[f]), "rel:", keys(la.Released[f]))
		}
	}
}

func keys(m map[string]bool) string {
	s := ""
	for k := range m {
		s += k + " "
	}
	return s
}

// Locks returns the (cached) lock analysis of the loaded program.
func (c *Ctx) Locks() *LockAnalysis {
	if c.P.la == nil {
		c.P.la = c.P.NewLockAnalysis(tcpWorkerAssume, tcpCutEdges)
	}
	return c.P.la
}
