package np

import (
	"go/constant"
	"strings"

	"golang.org/x/tools/go/ssa"
)

func init() { register("C12", propC12) }

func propC12(c *Ctx) {
	c.Explanation = "Timing (about 3 s), races between timers and replies beyond mutual exclusion, and what the cache contains after an arbitrary history are NOT decided. Decided are the structural necessary conditions: (T1) arp.HandlePacket answers a request only after CheckLocalAddress(target) != 0, with op = reply, sender hardware = the route's local link address, sender protocol = the request's target, target hardware/protocol = the request's sender fields, written on the inbound route (whose remote link address NIC.DeliverNetworkPacket set to the frame's source); it learns (sender protocol -> sender hardware) from every reply and from exactly those requests it answers; requests are broadcast (route with ff:ff:ff:ff:ff:ff) and carry the link endpoint's own address, the local address and the wanted address in the right fields; the IPv6 neighbour solicitation/advertisement code follows the same table (target = bytes 8..24, CheckLocalAddress, solicited|override flags, target link-address option, source address = target, learning). (T2) typestate: changeState is called only from four sites, each requesting a transition that changeState's own switch allows from every entry state possible at that site (state(): to expired only when not expired; checkLinkRequest: to failed only under state == incomplete; add: to ready only for an incomplete or freshly made entry; makeAndAddEntry: to expired, allowed from everywhere); wakers are asserted and done is closed exactly when the entry leaves incomplete; the state word is written only there and by the slot reset. (T3) cache map, ring index, slots and every entry field are touched only with linkAddrCache.mu held; ring reuse: the old key is deleted exactly when it still maps to the recycled slot, BEFORE the slot is overwritten, and the new key is mapped to the slot after it was filled; next advances by one modulo the ring size; the index stays inside the ring. (T4) constants: 3 attempts, 1 s timeout, 1 min age limit, 512 slots, passed to the cache in that order; failed exactly when attempt+1 >= attempts while still incomplete; a request is sent at the top of every iteration and the loop ends on done or when checkLinkRequest says stop. (T5) get: static address first; ready -> the entry's link address; failed -> ErrNoLinkAddress; incomplete -> register the waker and ErrWouldBlock with the entry's done channel; expired or absent -> (no resolver: ErrNoLinkAddress) new incomplete entry with empty link address, waker registered, resolution goroutine started with that entry's done, ErrWouldBlock; state() expires exactly by time.Now().After(expiration). (T6) nothing is sent before resolution: sendSynTCP in handshake.execute and sendUDP in udp Write are reached only when the route needs no resolution or Resolve/resolveRoute returned nil; Route.Resolve stores the learned address only on success. (T7) whether resolution is required at all: IsResolutionRequired is exactly linkCache != nil && RemoteLinkAddress == \"\", and addAddressLocked sets linkCache for every endpoint reference (permanent, replaced or temporary) on a link that needs resolution, under exactly the capability and resolver tests, and nowhere else. T5 also tables ARP's static mapping (only the limited broadcast). (T8) the neighbour cache is built with age limit 1 min, 1 s per resolution attempt and 3 attempts; (T9) an ARP request is stamped Ethernet/IPv4. (T10) package stack and the ARP endpoint narrow nothing. (T11) a route's destination is fixed when it is made: RemoteAddress, NextHop, NetProto and the endpoint reference are written only by makeRoute, FindRoute (on the route it just made) and the request emitters' own fresh literals; RemoteLinkAddress only by Resolve, the NIC's inbound route and those literals - nobody retargets a held route, so a link address resolved for one next hop is never used for another. (T12) the inbound route on which a request is answered carries the link endpoint's own address as local link address (shared with C13/I4). NOT decided: the 3 s bound, timers racing with replies, cache overflow behaviour beyond T3, RemoveWaker's inverted NIC test (observation)."

	stackCtorRule(c, c.Rule("T8", "K7 exact-guard site table", "the neighbour cache is built with age limit 1 min, 1 s per resolution attempt and 3 attempts", 3))
	arpRequestRule(c, c.Rule("T9", "K7 exact-guard site table (shared with C06/E9)", "an ARP request is stamped Ethernet/IPv4", 1))
	c.NoNewNarrowing(c.Rule("T10", "K8 narrowing (closed world, reviewed table)", "package stack and the ARP endpoint narrow nothing", 2), []string{"/net-protocol/stack", "/network/arp"}, nil)
	routeImmutableRule(c, c.Rule("T11", "K3 confinement (module-wide)", "a route's destination is fixed when it is made: nobody retargets a route, so a link address resolved for one next hop is never used for another (IsResolutionRequired, T7, looks only at RemoteLinkAddress)", 4))
	t12 := c.Rule("T12", "K5 site table (shared with C13/I4)", "the inbound route a request is answered on carries the NIC's OWN link address as local link address (from the link endpoint, not from the frame)", 1)
	if fn := c.Fn(t12, "(*stack.NIC).DeliverNetworkPacket"); fn != nil {
		pa := "iface:stack.NetworkProtocol.ParseAddresses($0.stack.networkProtocols[$4]#0, buffer.VectorisedView.First($5))"
		c.CheckSitesPresent(t12, fn, []SiteSpec{{Kind: "call", Target: "stack.makeRoute", Args: []string{"$4", pa + "#1", pa + "#0", "iface:stack.LinkEndpoint.LinkAddress($1)", "*"}, N: 1, Why: "local link address = the link endpoint's own address: what ARP replies and neighbour advertisements announce"}})
	}
	t1 := c.Rule("T1", "K1 guards + K5 field provenance", "ARP/NDP reply and learning tables", 30)
	if fn := c.Fn(t1, "(*arp.endpoint).HandlePacket"); fn != nil {
		in := "buffer.VectorisedView.First($2)"
		valid := "header.ARP.IsValid(" + in + ")"
		req := "(1 == header.ARP.Op(" + in + "))"
		local := "iface:stack.LinkAddressCache.CheckLocalAddress($0.linkAddrCache, $0.nicid, 2048, header.ARP.ProtocolAddressTarget(" + in + "))"
		mine := []string{"!(0 == " + local + ")", req, valid}
		out := "(*buffer.Prependable).Prepend(&new(buffer.Prependable), 28)"
		c.CheckSites(t1, fn, []SiteSpec{
			{Kind: "call", Target: "iface:stack.LinkAddressCache.CheckLocalAddress", Args: []string{"$0.linkAddrCache", "$0.nicid", "2048", "header.ARP.ProtocolAddressTarget(" + in + ")"}, Guards: []string{req, valid}, Exact: true, N: 1, Why: "a request is answered only if its target protocol address is one of this NIC's IPv4 addresses"},
			{Kind: "call", Target: "header.ARP.SetOp", Args: []string{out, "2"}, Guards: mine, Exact: true, N: 1, Why: "op = reply"},
			{Kind: "call", Target: "header.ARP.SetIpv4OverEthernet", Args: []string{out}, Guards: mine, Exact: true, N: 1, Why: "hardware/protocol types and sizes"},
			{Kind: "call", Target: "builtin:copy", Args: []string{"header.ARP.HardwareAddressSender(" + out + ")", "$1.LocalLinkAddress[:]"}, Guards: mine, Exact: true, N: 1, Why: "sender hardware = our link address"},
			{Kind: "call", Target: "builtin:copy", Args: []string{"header.ARP.HardwareAddressTarget(" + out + ")", "header.ARP.HardwareAddressSender(" + in + ")"}, Guards: mine, Exact: true, N: 1, Why: "target hardware = requester's hardware"},
			{Kind: "call", Target: "builtin:copy", Args: []string{"header.ARP.ProtocolAddressSender(" + out + ")", "header.ARP.ProtocolAddressTarget(" + in + ")"}, Guards: mine, Exact: true, N: 1, Why: "sender protocol = the address asked for"},
			{Kind: "call", Target: "builtin:copy", Args: []string{"header.ARP.ProtocolAddressTarget(" + out + ")", "header.ARP.ProtocolAddressSender(" + in + ")"}, Guards: mine, Exact: true, N: 1, Why: "target protocol = requester's address"},
			{Kind: "call", Target: "iface:stack.LinkEndpoint.WritePacket", Args: []string{"$0.linkEP", "$1", "new(buffer.Prependable)@2", "zero", "2054"}, Guards: mine, Exact: true, N: 1, Why: "one reply, on the inbound route (remote link address = the frame's source), EtherType ARP, no payload"},
			{Kind: "call", Target: "iface:stack.LinkAddressCache.AddLinkAddress", Args: []string{"$0.linkAddrCache", "$0.nicid", "header.ARP.ProtocolAddressSender(" + in + ")", "header.ARP.HardwareAddressSender(" + in + ")"}, Guards: []string{valid}, Exact: true, N: 1, Why: "learn sender protocol -> sender hardware (reached from replies and from answered requests only: see the returns)"},
		})
		// learning is reached only via op == reply or the answered-request fall-through
		for _, ci := range c.Calls(fn, Is("iface:stack.LinkAddressCache.AddLinkAddress"), false) {
			ok := GuardedBy(fn, ci.Block(), AnyOf(
				AtomIs(true, Exactly("(2 == header.ARP.Op("+in+"))")),
				AtomIs(false, Exactly("(0 == "+local+")"))))
			c.Check(ok, t1, FuncName(fn)+"/learn-only-from-reply-or-answered-request", c.pos(ci), "every path to AddLinkAddress passes op == reply or CheckLocalAddress != 0", "the cache is filled from a request that was not addressed to this host (or from another op)")
		}
	}
	if fn := c.Fn(t1, "(*stack.NIC).DeliverNetworkPacket"); fn != nil {
		c.CheckSitesPresent(t1, fn, []SiteSpec{{Kind: "store", Target: "stack.Route.RemoteLinkAddress", Args: []string{"new(stack.Route)", "$2"}, N: 2, Why: "the inbound route's remote link address is the frame's source address (both delivery branches)"}})
	}
	if fn := c.Fn(t1, "(*arp.protocol).LinkAddressRequest"); fn != nil {
		out := "(*buffer.Prependable).Prepend(&new(buffer.Prependable), 28)"
		c.CheckSites(t1, fn, []SiteSpec{
			{Kind: "store", Target: "stack.Route.RemoteLinkAddress", Args: []string{"new(stack.Route)", "arp.broadcastMAC"}, Guards: []string{}, Exact: true, N: 1, Why: "requests are broadcast"},
			{Kind: "call", Target: "header.ARP.SetOp", Args: []string{out, "1"}, Guards: []string{}, Exact: true, N: 1, Why: "op = request"},
			{Kind: "call", Target: "builtin:copy", Args: []string{"header.ARP.HardwareAddressSender(" + out + ")", "iface:stack.LinkEndpoint.LinkAddress($3)"}, Guards: []string{}, Exact: true, N: 1, Why: "our link address"},
			{Kind: "call", Target: "builtin:copy", Args: []string{"header.ARP.ProtocolAddressSender(" + out + ")", "$2"}, Guards: []string{}, Exact: true, N: 1, Why: "our protocol address"},
			{Kind: "call", Target: "builtin:copy", Args: []string{"header.ARP.ProtocolAddressTarget(" + out + ")", "$1"}, Guards: []string{}, Exact: true, N: 1, Why: "the address being resolved"},
			{Kind: "call", Target: "iface:stack.LinkEndpoint.WritePacket", Args: []string{"$3", "&new(stack.Route)", "new(buffer.Prependable)@2", "zero", "2054"}, Guards: []string{}, Exact: true, N: 1, Why: "one frame on the broadcast route"},
		})
		c.initIs(t1, "arp", "broadcastMAC", "[255, 255, 255, 255, 255, 255]")
	}
	if fn := c.Fn(t1, "(*ipv6.endpoint).handleICMP"); fn != nil {
		in := "buffer.VectorisedView.First($2)"
		tgt := in + "[8:24]"
		typ := func(k string, pol bool) string {
			s := "(" + k + " == header.ICMPv6.Type(" + in + "))"
			if !pol {
				return "!" + s
			}
			return s
		}
		local := "iface:stack.LinkAddressCache.CheckLocalAddress($0.linkAddrCache, $0.nicid, 34525, " + tgt + ")"
		ns := []string{typ("1", false), typ("2", false), "!(builtin:len(" + in + ") < 24)", "!(builtin:len(" + in + ") < 4)", typ("135", true)}
		mine := append([]string{"!(0 == " + local + ")"}, ns...)
		na := []string{typ("1", false), typ("135", false), typ("2", false), "!(builtin:len(" + in + ") < 32)", "!(builtin:len(" + in + ") < 4)", typ("136", true)}
		out := "(*buffer.Prependable).Prepend(&new(buffer.Prependable), 32)"
		c.CheckSitesPresent(t1, fn, []SiteSpec{
			{Kind: "call", Target: "iface:stack.LinkAddressCache.CheckLocalAddress", Args: []string{"$0.linkAddrCache", "$0.nicid", "34525", tgt}, Guards: ns, Exact: true, N: 1, Why: "a solicitation is answered only if its target (bytes 8..24) is a local IPv6 address"},
			{Kind: "call", Target: "header.ICMPv6.SetType", Args: []string{out, "136"}, Guards: mine, Exact: true, N: 1, Why: "neighbour advertisement"},
			{Kind: "elemstore", Target: out, Args: []string{"4", "96"}, Guards: mine, Exact: true, N: 1, Why: "solicited | override"},
			{Kind: "call", Target: "builtin:copy", Args: []string{out + "[(24 - builtin:len(" + tgt + ")):]", tgt}, Guards: mine, Exact: true, N: 1, Why: "advertised target = solicited target"},
			{Kind: "elemstore", Target: out, Args: []string{"24", "2"}, Guards: mine, Exact: true, N: 1, Why: "option: target link-layer address"},
			{Kind: "elemstore", Target: out, Args: []string{"25", "1"}, Guards: mine, Exact: true, N: 1, Why: "option length 1 (8 bytes)"},
			{Kind: "call", Target: "builtin:copy", Args: []string{out + "[26:]", "$1.LocalLinkAddress[:]"}, Guards: mine, Exact: true, N: 1, Why: "our link address"},
			{Kind: "store", Target: "stack.Route.LocalAddress", Args: []string{"new(stack.Route)", tgt}, Guards: mine, Exact: true, N: 1, Why: "the advertisement's source address is the solicited target (on a clone of the inbound route)"},
			{Kind: "call", Target: "(*stack.Route).WritePacket", Args: []string{"&new(stack.Route)", "new(buffer.Prependable)@2", "zero", "58", "(*stack.Route).DefaultTTL(&new(stack.Route))"}, Guards: mine, Exact: true, N: 1, Why: "sent on that clone: back to the solicitor"},
			{Kind: "call", Target: "iface:stack.LinkAddressCache.AddLinkAddress", Args: []string{"$0.linkAddrCache", "$0.nicid", "new(stack.Route).RemoteAddress@5", "new(stack.Route).RemoteLinkAddress@5"}, Guards: mine, Exact: true, N: 1, Why: "learn the solicitor, only when the solicitation was for us"},
			{Kind: "call", Target: "iface:stack.LinkAddressCache.AddLinkAddress", Args: []string{"$0.linkAddrCache", "$0.nicid", tgt, "$1.RemoteLinkAddress"}, Guards: na, Exact: true, N: 1, Why: "advertisement: learn target -> frame source"},
			{Kind: "call", Target: "iface:stack.LinkAddressCache.AddLinkAddress", Args: []string{"$0.linkAddrCache", "$0.nicid", "$1.RemoteAddress", "$1.RemoteLinkAddress"}, Guards: append([]string{"!($1.RemoteAddress == " + tgt + ")"}, na...), Exact: true, N: 1, Why: "and the sender when it differs from the target"},
		})
		n := len(c.Calls(fn, Is("iface:stack.LinkAddressCache.AddLinkAddress", "iface:stack.LinkAddressCache.CheckLocalAddress"), false))
		c.Check(n == 4, t1, FuncName(fn)+"/no-other-learning-sites", c.P.Pos(fn.Pos()), "1 CheckLocalAddress + 3 AddLinkAddress sites", "handleICMP has a different number of cache-filling sites than reviewed")
	}

	t2 := c.Rule("T2", "typestate (K9 + K1)", "entry state machine", 14)
	linkEntryTypestateRule(c, t2)

	t3 := c.Rule("T3", "K4 lockset + K7 coupled updates + K2 order", "cache state under the lock; ring reuse", 20)
	c.Locks().CheckGuards(c, t3, guardsLinkCache, nil)
	linkCacheRingRule(c, t3)

	t4 := c.Rule("T4", "K12 constants + K1", "retry budget and loop", 8)
	for _, k := range []struct {
		name string
		want string
	}{{"resolutionAttempts", "3"}, {"resolutionTimeout", "1000000000"}, {"ageLimit", "60000000000"}, {"linkAddrCacheSize", "512"}} {
		v := pkgConst(c.P, "stack", k.name)
		if v == nil {
			c.Broken(t4, "anchor-unresolved:stack."+k.name, "constant not found")
			continue
		}
		c.Check(constant.ToInt(v).ExactString() == k.want, t4, "const:stack."+k.name, "", "= "+k.want, "stack."+k.name+" = "+v.ExactString()+", the property states "+k.want)
	}
	if fn := c.Fn(t4, "stack.New"); fn != nil {
		c.CheckSitesPresent(t4, fn, []SiteSpec{{Kind: "call", Target: "stack.newLinkAddrCache", Args: []string{"60000000000", "1000000000", "3"}, N: 1, Why: "the cache is built with (ageLimit, resolutionTimeout, resolutionAttempts) in this order"}})
	}
	if fn := c.Fn(t4, "stack.newLinkAddrCache"); fn != nil {
		c.CheckSitesPresent(t4, fn, []SiteSpec{
			{Kind: "store", Target: "stack.linkAddrCache.ageLimit", Args: []string{"new(stack.linkAddrCache)", "$0"}, N: 1, Why: "parameter -> field"},
			{Kind: "store", Target: "stack.linkAddrCache.resolutionTimeout", Args: []string{"new(stack.linkAddrCache)", "$1"}, N: 1, Why: "parameter -> field"},
			{Kind: "store", Target: "stack.linkAddrCache.resolutionAttempts", Args: []string{"new(stack.linkAddrCache)", "$2"}, N: 1, Why: "parameter -> field"},
		})
	}
	if fn := c.Fn(t4, "(*stack.linkAddrCache).startAddressResolution"); fn != nil {
		c.CheckSites(t4, fn, []SiteSpec{
			{Kind: "call", Target: "iface:stack.LinkAddressResolver.LinkAddressRequest", Args: []string{"$2", "$1.Addr", "$3", "$4"}, Guards: []string{}, Exact: true, N: 1, Why: "a request at the top of every iteration (first one immediately)"},
			{Kind: "select", Args: []string{"blocking=true", "recv time.After($0.resolutionTimeout)", "recv $5"}, Guards: []string{}, Exact: true, N: 1, Why: "wait for the timeout or for the entry leaving incomplete"},
			{Kind: "call", Target: "(*stack.linkAddrCache).checkLinkRequest", Args: []string{"$0", "$1", "phi{(1 + loop) | 0}"}, Guards: []string{"(0 == select#0)"}, Exact: true, N: 1, Why: "on timeout: attempt number counts from 0 and grows by one per iteration"},
			{Kind: "return", Guards: []string{"(*stack.linkAddrCache).checkLinkRequest($0, $1, phi{(1 + loop) | 0})", "(0 == select#0)"}, Exact: true, N: 1, Why: "stop when told"},
			{Kind: "return", Guards: []string{"!(0 == select#0)", "(1 == select#0)"}, Exact: true, N: 1, Why: "stop on done"},
		})
	}

	t5 := c.Rule("T5", "K9 decision table", "get", 8)
	if fn := c.Fn(t5, "(*stack.linkAddrCache).get"); fn != nil {
		st := "(*stack.linkAddrEntry).state($0.cache[$1]#0)"
		hit := "$0.cache[$1]#1"
		fresh := "(*stack.linkAddrCache).makeAndAddEntry($0, $1, \"\")"
		inc := []string{"!(" + st + " == 1)", "!(" + st + " == 2)", "!(" + st + " == 3)", hit, "(" + st + " == 0)"}
		static := "iface:stack.LinkAddressResolver.ResolveStaticAddress($2, $1.Addr)"
		c.CheckSites(t5, fn, []SiteSpec{
			{Kind: "return", Args: []string{static + "#0", "nil", "nil"}, Guards: []string{"!($2 == nil)", static + "#1"}, Exact: true, N: 1, Why: "static (broadcast) addresses need no cache"},
			{Kind: "return", Args: []string{"$0.cache[$1]#0.linkAddr", "nil", "nil"}, Guards: []string{"!(" + st + " == 3)", hit, "(" + st + " == 1)"}, Exact: true, N: 1, Why: "ready (and not expired: state() just re-evaluated expiry): the entry's own link address"},
			{Kind: "return", Args: []string{"\"\"", "nil", "tcpip.ErrNoLinkAddress"}, Guards: []string{"!(" + st + " == 1)", "!(" + st + " == 3)", hit, "(" + st + " == 2)"}, Exact: true, N: 1, Why: "failed: no link address"},
			{Kind: "call", Target: "(*stack.linkAddrEntry).addWaker", Args: []string{"$0.cache[$1]#0", "$5"}, Guards: inc, Exact: true, N: 1, Why: "incomplete: the caller's waker waits on the running resolution"},
			{Kind: "return", Args: []string{"\"\"", "$0.cache[$1]#0.done", "tcpip.ErrWouldBlock"}, Guards: inc, Exact: true, N: 1, Why: "... would block"},
			{Kind: "return", Args: []string{"\"\"", "nil", "tcpip.ErrNoLinkAddress"}, Guards: []string{"($2 == nil)"}, Exact: true, N: 1, Why: "absent/expired and no resolver"},
			{Kind: "call", Target: "(*stack.linkAddrCache).makeAndAddEntry", Args: []string{"$0", "$1", "\"\""}, Guards: []string{"!($2 == nil)"}, Exact: true, N: 1, Why: "absent/expired: a new incomplete entry with no link address"},
			{Kind: "call", Target: "(*stack.linkAddrEntry).addWaker", Args: []string{fresh, "$5"}, Guards: []string{"!($2 == nil)"}, Exact: true, N: 1, Why: "waker registered on the new entry"},
			{Kind: "go", Target: "(*stack.linkAddrCache).startAddressResolution", Args: []string{"$0", "$1", "$2", "$3", "$4", fresh + ".done"}, Guards: []string{"!($2 == nil)"}, Exact: true, N: 1, Why: "one resolution goroutine per new entry, stopped by that entry's done"},
			{Kind: "return", Args: []string{"\"\"", fresh + ".done", "tcpip.ErrWouldBlock"}, Guards: []string{"!($2 == nil)"}, Exact: true, N: 1, Why: "would block"},
		})
	}

	c.Returns(t5, "(*arp.protocol).ResolveStaticAddress",
		RetSpec{Args: []string{"arp.broadcastMAC", "true"}, Guards: []string{"(\"\\xff\\xff\\xff\\xff\" == $1)"}, Why: "only the limited broadcast address 255.255.255.255 has a static mapping (to the link broadcast address)"},
		RetSpec{Args: []string{"\"\"", "false"}, Guards: []string{"!(\"\\xff\\xff\\xff\\xff\" == $1)"}, Why: "every other address goes through the neighbour cache"})

	t6 := c.Rule("T6", "K1 edge-cut guards", "no transmission before resolution", 4)
	if fn := c.Fn(t6, "(*tcp.handshake).execute"); fn != nil {
		for _, ci := range c.Calls(fn, Is("tcp.sendSynTCP"), false) {
			ok := GuardedBy(fn, ci.Block(), AnyOf(
				AtomIs(false, Exactly("(*stack.Route).IsResolutionRequired(&$0.ep.route)")),
				AtomIs(true, Exactly("((*tcp.handshake).resolveRoute($0) == nil)"))))
			c.Check(ok, t6, FuncName(fn)+"/syn-after-resolution", c.pos(ci), "SYN is sent only when no resolution is required or resolveRoute returned nil", "a SYN can be sent while the next hop's link address is unresolved")
		}
	}
	if fn := c.Fn(t6, "(*tcp.handshake).resolveRoute"); fn != nil {
		res := "(*stack.Route).Resolve(&$0.ep.route, &new(sleep.Waker))#1"
		c.CheckSitesPresent(t6, fn, []SiteSpec{
			{Kind: "return", Args: []string{res}, Guards: []string{"!(" + res + " == tcpip.ErrWouldBlock)"}, N: 1, Why: "the result is Resolve's own error (nil only when resolved), anything but would-block ends the wait"},
			{Kind: "return", Args: []string{"tcpip.ErrAborted"}, N: 1, Why: "close while waiting: aborted, never nil"},
		})
		n := 0
		for _, s := range Sites(fn) {
			if s.Kind == "return" {
				n++
			}
		}
		c.Check(n == 2, t6, FuncName(fn)+"/two-returns", c.P.Pos(fn.Pos()), "exactly the two reviewed returns", "resolveRoute has another return path")
	}
	if fn := c.Fn(t6, "(*udp.endpoint).Write"); fn != nil {
		for _, ci := range c.Calls(fn, Is("udp.sendUDP"), false) {
			rt := NewTermer(fn).T(ci.Common().Args[0])
			ok := GuardedBy(fn, ci.Block(), AnyOf(
				AtomIs(false, Exactly("(*stack.Route).IsResolutionRequired("+rt+")")),
				AtomIs(true, Exactly("((*stack.Route).Resolve("+rt+", &new(sleep.Waker))#1 == nil)"))))
			c.Check(ok, t6, FuncName(fn)+"/send-after-resolution", c.pos(ci), "sendUDP is reached only when no resolution is required or Resolve returned nil", "a datagram can be sent while the next hop's link address is unresolved")
		}
	}
	if fn := c.Fn(t6, "(*stack.Route).Resolve"); fn != nil {
		gl := "iface:stack.LinkAddressCache.GetLinkAddress($0.ref.linkCache, (*stack.NIC).ID($0.ref.nic), phi{$0.NextHop | $0.RemoteAddress}, $0.LocalAddress, $0.NetProto, $1)"
		req := "(*stack.Route).IsResolutionRequired($0)"
		c.CheckSites(t6, fn, []SiteSpec{
			{Kind: "store", Target: "stack.Route.RemoteLinkAddress", Args: []string{"$0", gl + "#0"}, Guards: []string{req, "(" + gl + "#2 == nil)"}, Exact: true, N: 1, Why: "the learned address is stored only when the cache returned it without error; the key is the next hop (or the remote address when there is none)"},
			{Kind: "store", Target: "stack.Route.RemoteLinkAddress", Args: []string{"$0", "$0.LocalLinkAddress"}, Guards: []string{"(\"\" == $0.NextHop)", "($0.LocalAddress == $0.RemoteAddress)", req}, Exact: true, N: 1, Why: "local destination: own link address"},
			{Kind: "return", Args: []string{gl + "#1", gl + "#2"}, Guards: []string{"!(" + gl + "#2 == nil)", req}, Exact: true, N: 1, Why: "errors (incl. would-block with the done channel) are passed through, nothing stored"},
			{Kind: "return", Args: []string{"nil", "nil"}, N: 3, Why: "resolved / not required"},
		})
	}

	// T7: whether a route needs resolution at all. Every sender asks
	// Route.IsResolutionRequired; it answers from the endpoint reference's
	// linkCache, which addAddressLocked sets for EVERY endpoint it creates
	// (permanent or temporary) on a link that needs resolution.
	t7 := c.Rule("T7", "K9 decision table + K1 exact-guard site table + K3 confinement", "resolution is required exactly when the link needs it and the link address is unknown", 5)
	if fn := c.Fn(t7, "(*stack.Route).IsResolutionRequired"); fn != nil {
		noCache, unknown := "($0.ref.linkCache == nil)", "(\"\" == $0.RemoteLinkAddress)"
		c.CheckTable(t7, fn, []string{noCache, unknown}, func(a map[string]bool) string {
			if !a[noCache] && a[unknown] {
				return "true"
			}
			return "false"
		})
	}
	if fn := c.Fn(t7, "(*stack.NIC).addAddressLocked"); fn != nil {
		ne := "iface:stack.NetworkProtocol.NewEndpoint($0.stack.networkProtocols[$1]#0, $0.id, $2, $0.stack, $0, $0.linkEP)#1"
		c.CheckSitesPresent(t7, fn, []SiteSpec{
			{Kind: "store", Target: "stack.referencedNetworkEndpoint.linkCache", Args: []string{"new(stack.referencedNetworkEndpoint)", "$0.stack"},
				Guards: []string{"!((2 & iface:stack.LinkEndpoint.Capabilities($0.linkEP)) == 0)", "$0.stack.linkAddrResolvers[$1]#1", "$0.stack.networkProtocols[$1]#1", "(" + ne + " == nil)"}, Exact: true, N: 1,
				Why: "every endpoint reference created on a link with CapabilityResolutionRequired, for a protocol that has a resolver, carries the neighbour cache - whatever kind of address it is (permanent, replaced, temporary for spoofing/promiscuous mode)"},
		})
	}
	c.OnlyIn(t7, "store to referencedNetworkEndpoint.linkCache", c.FieldStores("stack.referencedNetworkEndpoint", "linkCache"), "(*stack.NIC).addAddressLocked")
}

// linkCacheRingRule: the complete reviewed site table and order of
// linkAddrCache.makeAndAddEntry - the old key of a recycled ring slot is
// unmapped BEFORE the slot is overwritten, so no key can map to an entry that
// holds another neighbour's link address. Shared by C12 (T3) and C06 (E7:
// the Ethernet destination written on the wire is the address this cache
// returns for the next hop).
func linkCacheRingRule(c *Ctx, t3 string) {
	cs := "(*stack.linkAddrEntry).changeState"
	if fn := c.Fn(t3, "(*stack.linkAddrCache).makeAndAddEntry"); fn != nil {
		slot := "$0.entries[$0.next]"
		c.CheckSites(t3, fn, []SiteSpec{
			{Kind: "call", Target: "builtin:delete", Args: []string{"$0.cache", slot + ".addr"}, Guards: []string{"($0.cache[" + slot + ".addr] == &" + slot + ")"}, Exact: true, N: 1, Why: "the recycled slot's OLD key is unmapped exactly when it still maps to this slot (a newer entry for that key lives elsewhere otherwise)"},
			{Kind: "call", Target: cs, Args: []string{"&" + slot, "3"}, Guards: []string{}, Exact: true, N: 1, Why: "waiters of the recycled entry are released"},
			{Kind: "store", Target: "stack.linkAddrEntry.addr", Args: []string{slot, "$1"}, Guards: []string{}, Exact: true, N: 1, Why: "slot reset: key"},
			{Kind: "store", Target: "stack.linkAddrEntry.linkAddr", Args: []string{slot, "$2"}, Guards: []string{}, Exact: true, N: 1, Why: "slot reset: link address"},
			{Kind: "store", Target: "stack.linkAddrEntry.expiration", Args: []string{slot, "time.Time.Add(time.Now(), $0.ageLimit)"}, Guards: []string{}, Exact: true, N: 1, Why: "slot reset: expires ageLimit from now"},
			{Kind: "store", Target: "stack.linkAddrEntry.wakers", Args: []string{slot, "make(map[*sleep.Waker]struct{})"}, Guards: []string{}, Exact: true, N: 1, Why: "slot reset: no waiters"},
			{Kind: "store", Target: "stack.linkAddrEntry.done", Args: []string{slot, "make(chan struct{}, 0)"}, Guards: []string{}, Exact: true, N: 1, Why: "slot reset: fresh done channel"},
			{Kind: "mapupdate", Args: []string{"$0.cache", "$1", "&" + slot}, Guards: []string{}, Exact: true, N: 1, Why: "the new key maps to the slot"},
			{Kind: "store", Target: "stack.linkAddrCache.next", Args: []string{"$0", "(($0.next + 1) % 512)"}, Guards: []string{}, Exact: true, N: 1, Why: "ring advance by one modulo the ring size"},
			{Kind: "return", Args: []string{"&" + slot}, Guards: []string{}, Exact: true, N: 1, Why: "the filled slot"},
		})
		// s is reset to incomplete by the composite literal (no explicit field => zero): no store of s here, and
		// the literal assigns all other fields; checked by the absence of a partial reset:
		c.Ordered(t3, fn, []string{"old-key test/delete", "release old waiters", "slot overwrite", "map new key", "ring advance"}, []func(Site) bool{
			isCall("builtin:delete"), isCall(cs), isStore("stack.linkAddrEntry.addr"),
			func(s Site) bool { return s.Kind == "mapupdate" }, isStore("stack.linkAddrCache.next"),
		})
		an := NewAbsint(c.P)
		c.boundsObligations(t3, an, fn)
	}
}

// linkEntryTypestateRule: the neighbour-cache entry state machine: changeState's
// transition relation (forbidden pairs panic), its only call sites, and that
// each call site requests a transition allowed from every state possible there.
// Shared by C12 (T2) and C07 (P1-ts: this is the argument why the two
// changeState panics cannot be reached by inbound frames).
func linkEntryTypestateRule(c *Ctx, t2 string) {
	cs := "(*stack.linkAddrEntry).changeState"
	if fn := c.Fn(t2, cs); fn != nil {
		leave := []string{"!($0.s == $1)", "($0.s == 0)"}
		c.CheckSites(t2, fn, []SiteSpec{
			{Kind: "return", Guards: []string{"($0.s == $1)"}, Exact: true, N: 1, Why: "same state: no-op"},
			{Kind: "call", Target: "(*sleep.Waker).Assert", Args: []string{"next(range($0.wakers))#1"}, Guards: append([]string{"next(range($0.wakers))#0"}, leave...), Exact: true, N: 1, Why: "every registered waker is asserted exactly when the entry leaves incomplete"},
			{Kind: "store", Target: "stack.linkAddrEntry.wakers", Args: []string{"$0", "nil"}, Guards: append([]string{"!next(range($0.wakers))#0"}, leave...), Exact: true, N: 1, Why: "... and forgotten"},
			{Kind: "call", Target: "builtin:close", Args: []string{"$0.done"}, Guards: append([]string{"!($0.done == nil)", "!next(range($0.wakers))#0"}, leave...), Exact: true, N: 1, Why: "... and the resolution goroutine is told to stop"},
			{Kind: "store", Target: "stack.linkAddrEntry.s", Args: []string{"$0", "$1"}, Guards: []string{"!($0.s == $1)"}, Exact: true, N: 1, Why: "the new state is stored on every non-panicking path"},
			{Kind: "return", Guards: []string{"!($0.s == $1)"}, Exact: true, N: 1, Why: "end"},
		})
		// the transition relation: panics are guarded exactly by the forbidden pairs
		var lits [][]string
		for _, s := range Sites(fn) {
			if s.Kind == "panic" {
				lits = append(lits, s.Guards)
			}
		}
		want := map[string]bool{
			"!($0.s == $1) && !($0.s == 0) && !($0.s == 1) && !($0.s == 2) && !($0.s == 3)": true, // unknown state
			"!($0.s == $1) && !($0.s == 0) && !($0.s == 1) && !($0.s == 2) && ($0.s == 3)":  true, // from expired
			"!($1 == 3) && !($0.s == $1) && !($0.s == 0)":                                   true, // from ready/failed to non-expired
		}
		got := map[string]bool{}
		for _, l := range lits {
			got[joinSorted(l)] = true
		}
		wantN := map[string]bool{}
		for k := range want {
			wantN[joinSorted(splitAnd(k))] = true
		}
		okRel := len(got) == len(wantN)
		for k := range wantN {
			okRel = okRel && got[k]
		}
		c.Check(okRel, t2, cs+"/transition-relation", c.P.Pos(fn.Pos()), "allowed: incomplete->any, ready/failed->expired; forbidden pairs panic", "changeState's transition relation changed; panics now guarded by: "+fmtKeys(got))
	}
	c.OnlyIn(t2, "call of changeState", c.CallSites(Is(cs)), "(*stack.linkAddrEntry).state", "(*stack.linkAddrCache).add", "(*stack.linkAddrCache).makeAndAddEntry", "(*stack.linkAddrCache).checkLinkRequest")
	c.OnlyIn(t2, "store to linkAddrEntry.s", c.FieldStores("stack.linkAddrEntry", "s"), cs)
	if fn := c.Fn(t2, "(*stack.linkAddrEntry).state"); fn != nil {
		c.CheckSites(t2, fn, []SiteSpec{
			{Kind: "call", Target: cs, Args: []string{"$0", "3"}, Guards: []string{"!($0.s == 3)", "time.Time.After(time.Now(), $0.expiration)"}, Exact: true, N: 1, Why: "to expired, from a non-expired state (allowed from incomplete/ready/failed), exactly when now is after the expiration"},
		})
		// every return hands back the entry's current state word (whatever the
		// number of return statements: early return <-> fall-through)
		nr := 0
		for _, st := range Sites(fn) {
			if st.Kind == "return" {
				nr++
				ok := len(st.Args) == 1 && (st.Args[0] == "$0.s" || strings.HasPrefix(st.Args[0], "$0.s@"))
				c.Check(ok, t2, FuncName(fn)+"/returns-current-state:"+strings.Join(st.Args, ","), c.pos(st.Instr), "returns the (possibly just expired) state", "state() returns something other than the entry's state word")
			}
		}
		c.Check(nr >= 1, t2, FuncName(fn)+"/has-return", c.P.Pos(fn.Pos()), "returns", "no return found")
	}
	if fn := c.Fn(t2, "(*stack.linkAddrCache).checkLinkRequest"); fn != nil {
		st := "(*stack.linkAddrEntry).state($0.cache[$1]#0)"
		inc := []string{"!(" + st + " == 1)", "!(" + st + " == 2)", "!(" + st + " == 3)", "$0.cache[$1]#1", "(" + st + " == 0)"}
		c.CheckSites(t2, fn, []SiteSpec{
			{Kind: "call", Target: cs, Args: []string{"$0.cache[$1]#0", "2"}, Guards: append([]string{"!(($2 + 1) < $0.resolutionAttempts)"}, inc...), Exact: true, N: 1, Why: "to failed only from incomplete, exactly when attempt+1 >= resolutionAttempts"},
			{Kind: "return", Args: []string{"true"}, Guards: []string{"!$0.cache[$1]#1"}, Exact: true, N: 1, Why: "entry gone: stop"},
			{Kind: "return", Args: []string{"true"}, Guards: []string{"$0.cache[$1]#1"}, Exact: true, N: 1, Why: "ready/failed/expired: stop"},
			{Kind: "return", Args: []string{"true"}, Guards: append([]string{"!(($2 + 1) < $0.resolutionAttempts)"}, inc...), Exact: true, N: 1, Why: "budget used up: failed, stop"},
			{Kind: "return", Args: []string{"false"}, Guards: append([]string{"(($2 + 1) < $0.resolutionAttempts)"}, inc...), Exact: true, N: 1, Why: "still incomplete with budget left: retry"},
		})
	}
	if fn := c.Fn(t2, "(*stack.linkAddrCache).add"); fn != nil {
		st := "(*stack.linkAddrEntry).state($0.cache[$1]#0)"
		c.CheckSites(t2, fn, []SiteSpec{
			{Kind: "call", Target: cs, Args: []string{"phi{$0.cache[$1]#0 | (*stack.linkAddrCache).makeAndAddEntry($0, $1, $2)}", "1"}, Guards: []string{}, Exact: true, N: 1, Why: "to ready: for the cached entry (only on the state == incomplete path, see the stores) or a freshly made, incomplete one"},
			{Kind: "store", Target: "stack.linkAddrEntry.linkAddr", Args: []string{"$0.cache[$1]#0", "$2"}, Guards: []string{"$0.cache[$1]#1", "(" + st + " == 0)"}, Exact: true, N: 1, Why: "an incomplete entry takes the learned address in place"},
			{Kind: "call", Target: "(*stack.linkAddrCache).makeAndAddEntry", Args: []string{"$0", "$1", "$2"}, Guards: []string{"!(" + st + " == 0)", "$0.cache[$1]#1"}, Exact: true, N: 1, Why: "ready with another address / failed / expired: a new slot (overwrite with the new link address)"},
			{Kind: "call", Target: "(*stack.linkAddrCache).makeAndAddEntry", Args: []string{"$0", "$1", "$2"}, Guards: []string{"!$0.cache[$1]#1"}, Exact: true, N: 1, Why: "unknown neighbour: a new slot"},
			{Kind: "return", Guards: []string{"!(" + st + " == 3)", "$0.cache[$1]#1", "($0.cache[$1]#0.linkAddr == $2)"}, Exact: true, N: 1, Why: "same mapping, not expired: nothing to do (expiry is not refreshed)"},
			{Kind: "return", Guards: []string{}, Exact: true, N: 1, Why: "end"},
		})
		// the phi's cache operand flows in only from the state == incomplete block
		for _, ci := range c.Calls(fn, Is(cs), false) {
			if phi, ok := ci.Common().Args[0].(*ssa.Phi); ok {
				for i, e := range phi.Edges {
					if _, isCall := e.(*ssa.Call); isCall {
						continue
					}
					pred := phi.Block().Preds[i]
					ok := GuardedBy(fn, pred, AtomIs(true, Exactly("("+st+" == 0)")))
					c.Check(ok, t2, FuncName(fn)+"/ready-from-cached-only-if-incomplete", c.pos(ci), "the cached entry reaches changeState(ready) only from the incomplete arm", "a cached entry that is not incomplete can reach changeState(ready): invalid transition (panic) or a stale entry revived")
				}
			} else {
				c.Broken(t2, FuncName(fn)+"/ready-from-cached-only-if-incomplete", "receiver is not a phi any more")
			}
		}
	}
}

// routeImmutableRule: which functions may write the fields of stack.Route.
// Route values are handed around by value and by Clone; the remote address and
// next hop are written only while the route is being made (makeRoute's
// literal, FindRoute on the route it just made), the resolved link address
// only by Resolve and by the NIC for the inbound route. Anything else would
// let a route keep the link address of a previous destination.
func routeImmutableRule(c *Ctx, rule string) {
	lar4, lar6 := "(*arp.protocol).LinkAddressRequest", "(*ipv6.protocol).LinkAddressRequest"
	c.OnlyIn(rule, "store to Route.RemoteAddress", c.FieldStores("stack.Route", "RemoteAddress"), "stack.makeRoute", lar6)
	c.OnlyIn(rule, "store to Route.NextHop", c.FieldStores("stack.Route", "NextHop"), "(*stack.Stack).FindRoute")
	c.OnlyIn(rule, "store to Route.RemoteLinkAddress", c.FieldStores("stack.Route", "RemoteLinkAddress"), "(*stack.Route).Resolve", "(*stack.NIC).DeliverNetworkPacket", lar4, lar6)
	c.OnlyIn(rule, "store to Route.NetProto", c.FieldStores("stack.Route", "NetProto"), "stack.makeRoute")
	c.OnlyIn(rule, "store to Route.ref", c.FieldStores("stack.Route", "ref"), "stack.makeRoute", "(*stack.Route).Release")
	c.OnlyIn(rule, "store to Route.LocalAddress", c.FieldStores("stack.Route", "LocalAddress"), "stack.makeRoute", "(*ipv6.endpoint).handleICMP", lar6)
	// the request emitters and FindRoute write only a route they have just made
	for _, name := range []string{lar4, lar6, "(*stack.Stack).FindRoute"} {
		fn := c.Fn(rule, name)
		if fn == nil {
			continue
		}
		for _, f := range []string{"RemoteAddress", "NextHop", "RemoteLinkAddress", "LocalAddress"} {
			for _, st := range StoresTo(fn, "stack.Route", f) {
				base := Term(st.Addr)
				c.Check(strings.HasPrefix(base, "&new(stack.Route)") || strings.HasPrefix(base, "&local(stack.Route)"), rule, name+"/own-route:"+base, c.pos(st), "the field is set on a route made in this call", "a field of a route that was not made in this call is overwritten")
			}
		}
	}
}
