package np

import (
	"strings"

	"golang.org/x/tools/go/ssa"
)

func init() { register("C17", propC17) }

func propC17(c *Ctx) {
	c.Explanation = "Decides structural necessary conditions of wait-queue notification for all schedules: (Y1) the entry list and every entry's mask are accessed only with Queue.mu held; Notify and Events hold it (read mode) across the whole traversal including the callback calls and EventRegister/EventUnregister hold it in write mode, so no callback runs after an unregistration has returned; (Y2) in Notify the callback of an element is invoked under exactly two conditions - the element is in the list (traversal from Front by Next, no early exit) and mask&e.mask != 0 - and with that element as argument; no other condition (cache, flag) decides it; (Y3) EventRegister stores the mask then pushes the entry at the back in one critical section, EventUnregister removes exactly the given entry; (Y4) the channel callback is a non-blocking select send and NewChannelEntry allocates capacity 1, so a token stays until taken and notification never blocks; (Y5) ilist PushBack/Remove write both link directions and head/tail on the empty/non-empty branches. (Y6) package waiter never receives from a channel (closed-world scan incl. helpers): a token left by a completed Notify is taken only by the waiter. Y4 also requires the callback's send to be unconditional. NewChannelEntry allocates a private channel exactly when none was given (Y4). (Y7) the mask type keeps the 16 bits of poll(2) events. (Y8) package waiter converts no mask or count to a narrower type. NOT decided: list shape invariants over histories of operations; exactly-once under concurrent re-registration of one entry."
	q := "(*waiter.Queue)."
	y1 := c.Rule("Y1", "K4 lockset", "list and masks only under Queue.mu; callbacks run under the read lock", 8)
	la := c.Locks()
	la.CheckGuards(c, y1, guardsWaiter, nil)
	held := func(in ssa.Instruction, write bool) bool {
		for _, h := range la.At[in] {
			if h.Class == "waiter.Queue.mu" && (h.Write || !write) {
				return true
			}
		}
		return false
	}
	if fn := c.Fn(y1, q+"Notify"); fn != nil {
		for _, cb := range c.Calls(fn, Is("iface:waiter.EntryCallback.Callback"), false) {
			c.Check(held(cb.(ssa.Instruction), false), y1, FuncName(fn)+"/callback-under-lock", c.pos(cb), "callback invoked with Queue.mu held", "callback invoked after the queue lock was released: it can run after EventUnregister returned")
		}
		for _, nx := range c.Calls(fn, Is("iface:ilist.Linker.Next", "(*ilist.List).Front"), false) {
			c.Check(held(nx.(ssa.Instruction), false), y1, FuncName(fn)+"/traversal-under-lock:"+CalleeName(nx), c.pos(nx), "traversal step under Queue.mu", "list traversed without Queue.mu")
		}
	}
	for _, name := range []string{"EventRegister", "EventUnregister"} {
		if fn := c.Fn(y1, q+name); fn != nil {
			for _, op := range c.Calls(fn, Is("(*ilist.List).PushBack", "(*ilist.List).Remove"), false) {
				c.Check(held(op.(ssa.Instruction), true), y1, FuncName(fn)+"/mutation-under-write-lock", c.pos(op), "list mutated under the write lock", "list mutated without the write lock")
			}
		}
	}

	y2 := c.Rule("Y2", "K9 site table (exact guards)", "callback iff registered and masks intersect", 3)
	if fn := c.Fn(y2, q+"Notify"); fn != nil {
		it := "phi{(*ilist.List).Front(&$0.list) | iface:ilist.Linker.Next(loop)}"
		e := it + ".(*waiter.Entry)"
		c.CheckSites(y2, fn, []SiteSpec{
			{Kind: "call", Target: "iface:waiter.EntryCallback.Callback", Args: []string{e + ".Callback", e}, Guards: []string{"!(nil == " + it + ")", "!(($1 & " + e + ".mask) == 0)"}, Exact: true, N: 1,
				Why: "callback of the element, with the element, exactly when it is in the list and mask&e.mask != 0"},
			{Kind: "call", Target: "(*ilist.List).Front", Args: []string{"&$0.list"}, Guards: []string{}, Exact: true, N: 1, Why: "traversal starts at the front unconditionally"},
			{Kind: "call", Target: "iface:ilist.Linker.Next", Args: []string{it}, Guards: []string{"!(nil == " + it + ")"}, Exact: true, N: 1, Why: "every element is visited: advance for each non-nil element, no early exit"},
		})
	}
	y3 := c.Rule("Y3", "K5/K2 site table", "register: mask then PushBack; unregister removes the given entry", 3)
	if fn := c.Fn(y3, q+"EventRegister"); fn != nil {
		c.CheckSites(y3, fn, []SiteSpec{
			{Kind: "store", Target: "waiter.Entry.mask", Args: []string{"$1", "$2"}, Guards: []string{}, Exact: true, N: 1, Why: "mask stored unconditionally"},
			{Kind: "call", Target: "(*ilist.List).PushBack", Args: []string{"&$0.list", "$1"}, Guards: []string{}, Exact: true, N: 1, Why: "entry appended unconditionally"},
		})
		sts := StoresTo(fn, "waiter.Entry", "mask")
		pbs := c.Calls(fn, Is("(*ilist.List).PushBack"), false)
		if len(sts) == 1 && len(pbs) == 1 {
			c.Check(InstrDominates(sts[0], pbs[0].(ssa.Instruction)), y3, FuncName(fn)+"/mask-before-publish", c.pos(pbs[0]), "mask is set before the entry becomes visible", "entry is published before its mask is set")
		}
	}
	if fn := c.Fn(y3, q+"EventUnregister"); fn != nil {
		c.CheckSites(y3, fn, []SiteSpec{{Kind: "call", Target: "(*ilist.List).Remove", Args: []string{"&$0.list", "$1"}, Guards: []string{}, Exact: true, N: 1, Why: "exactly the given entry is removed, unconditionally"}})
	}
	// no other function of the package mutates the list or the masks
	c.OnlyIn(y3, "store waiter.Entry.mask", c.FieldStores("waiter.Entry", "mask"), q+"EventRegister")

	y4 := c.Rule("Y4", "K11/K12", "channel callback never blocks; capacity 1", 2)
	if fn := c.Fn(y4, "(*waiter.channelCallback).Callback"); fn != nil {
		n := 0
		for _, st := range Sites(fn) { // Sites: also through a helper extracted later (inline.go)
			switch st.Kind {
			case "select":
				n++
				okSend := len(st.Args) == 2 && st.Args[0] == "blocking=false" && strings.HasPrefix(st.Args[1], "send ")
				c.Check(okSend, y4, FuncName(fn)+"/nonblocking-send", c.pos(st.Instr), "select { case ch <- token: default: }", "the callback's channel operation can block or is not a send")
				c.Check(len(st.Guards) == 0, y4, FuncName(fn)+"/send-unconditional", c.pos(st.Instr), "the token is offered on every call of the callback", "the token is offered only under ["+strings.Join(st.Guards, " && ")+"]: a notification that finds the condition false leaves no token, although Notify returned")
			case "send":
				c.Bad(y4, FuncName(fn)+"/plain-send", c.pos(st.Instr), "plain channel send blocks the notifier when the token is already there")
			}
		}
		c.Check(n == 1, y4, FuncName(fn)+"/one-select", c.P.Pos(fn.Pos()), "one non-blocking select", "callback no longer performs exactly one select")
	}
	if fn := c.Fn(y4, "waiter.NewChannelEntry"); fn != nil {
		n := 0
		InstrsInline(fn, func(in ssa.Instruction) {
			if mc, ok := in.(*ssa.MakeChan); ok {
				n++
				c.Check(Term(mc.Size) == "1", y4, FuncName(fn)+"/capacity", c.pos(in), "channel capacity 1", "channel capacity is "+Term(mc.Size)+": with 0 the token is lost when nobody is receiving")
				if in.Parent() == fn {
					g := guardIndex(fn)[in.Block().Index]
					c.Check(len(g) == 1 && termEq(g[0], "($0 == nil)"), y4, FuncName(fn)+"/own-channel-only-for-nil", c.pos(in), "a channel is allocated exactly when the caller supplied none", "the caller's channel is replaced under ["+strings.Join(g, " && ")+"]: notifications then go to a channel the waiter does not look at")
				}
			}
		})
		c.Check(n == 1, y4, FuncName(fn)+"/makes-channel", c.P.Pos(fn.Pos()), "allocates the channel", "no longer allocates a channel when none is given")
	}

	// Y6: the token left by a completed notification is taken only by the
	// waiter. Package waiter itself never receives from a channel: every
	// channel operation in the package (also in helpers analysed inline) is
	// the callback's non-blocking send.
	c.TypeWidthAtLeast(c.Rule("Y7", "declaration check", "the event mask has room for every poll(2) event bit", 1), "/pkg/waiter", "EventMask", 2, "the mask is documented as poll() events, whose bits occupy 16 bits (POLLRDHUP = 0x2000); a narrower type silently drops masks converted at run time")
	c.NoNewNarrowing(c.Rule("Y8", "K8 narrowing (closed world, reviewed table)", "package waiter converts no mask or count to a narrower type", 2), []string{"/pkg/waiter", "/pkg/ilist"}, nil)
	y6 := c.Rule("Y6", "K3 confinement (closed world over package waiter)", "the queue never consumes a wake-up token: no channel receive in package waiter", 1)
	nOps := 0
	for _, fn := range c.P.Funcs {
		if fn.Pkg == nil || !strings.HasSuffix(fn.Pkg.Pkg.Path(), "/pkg/waiter") {
			continue
		}
		for _, st := range Sites(fn) {
			switch st.Kind {
			case "recv":
				nOps++
				c.Bad(y6, FuncName(fn)+"/receives-token", c.pos(st.Instr), "package waiter receives from a channel: a token left by a completed Notify can be consumed before the waiter sees it")
			case "select":
				nOps++
				recv := false
				for _, a := range st.Args {
					if strings.HasPrefix(a, "recv ") {
						recv = true
					}
				}
				c.Check(!recv, y6, FuncName(fn)+"/select:"+strings.Join(st.Args, ","), c.pos(st.Instr), "channel operation is a send only", "package waiter receives from an entry's channel: a token left by a completed Notify (possibly for another entry sharing the channel) is consumed by the queue instead of the waiter")
			case "send":
				nOps++
			}
		}
	}
	c.Check(nOps >= 1, y6, "waiter/channel-ops-seen", "pkg/waiter", "the scan sees the callback's channel operation", "no channel operation found in package waiter: the scan is blind")

	y5 := c.Rule("Y5", "K7 site table", "doubly-linked list insert/remove keep both directions", 9)
	if fn := c.Fn(y5, "(*ilist.List).PushBack"); fn != nil {
		lk := func(x string) string { return "ilist.ElementMapper.linkerFor(zero, " + x + ")" }
		c.CheckSites(y5, fn, []SiteSpec{
			{Kind: "call", Target: "iface:ilist.Linker.SetNext", Args: []string{lk("$1"), "nil"}, Guards: []string{}, Exact: true, N: 1, Why: "new element has no successor"},
			{Kind: "call", Target: "iface:ilist.Linker.SetPrev", Args: []string{lk("$1"), "$0.tail"}, Guards: []string{}, Exact: true, N: 1, Why: "new element's predecessor is the old tail"},
			{Kind: "call", Target: "iface:ilist.Linker.SetNext", Args: []string{lk("$0.tail"), "$1"}, Guards: []string{"!($0.tail == nil)"}, Exact: true, N: 1, Why: "old tail points to the new element"},
			{Kind: "store", Target: "ilist.List.head", Args: []string{"$0", "$1"}, Guards: []string{"($0.tail == nil)"}, Exact: true, N: 1, Why: "empty list: head = new element"},
			{Kind: "store", Target: "ilist.List.tail", Args: []string{"$0", "$1"}, Guards: []string{}, Exact: true, N: 1, Why: "tail = new element"},
		})
	}
	if fn := c.Fn(y5, "(*ilist.List).Remove"); fn != nil {
		lk := func(x string) string { return "ilist.ElementMapper.linkerFor(zero, " + x + ")" }
		prev := "iface:ilist.Linker.Prev(" + lk("$1") + ")"
		next := "iface:ilist.Linker.Next(" + lk("$1") + ")"
		c.CheckSites(y5, fn, []SiteSpec{
			{Kind: "call", Target: "iface:ilist.Linker.SetNext", Args: []string{lk(prev), next}, Guards: []string{"!(" + prev + " == nil)"}, Exact: true, N: 1, Why: "predecessor skips the removed element"},
			{Kind: "store", Target: "ilist.List.head", Args: []string{"$0", next}, Guards: []string{"(" + prev + " == nil)"}, Exact: true, N: 1, Why: "removed the head: head = successor"},
			{Kind: "call", Target: "iface:ilist.Linker.SetPrev", Args: []string{lk(next), prev}, Guards: []string{"!(" + next + " == nil)"}, Exact: true, N: 1, Why: "successor points back to the predecessor"},
			{Kind: "store", Target: "ilist.List.tail", Args: []string{"$0", prev}, Guards: []string{"(" + next + " == nil)"}, Exact: true, N: 1, Why: "removed the tail: tail = predecessor"},
		})
	}
	_ = strings.Contains
}
