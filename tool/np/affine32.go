package np

import (
	"fmt"
	"go/constant"
	"go/token"
	"go/types"
	"sort"
	"strings"

	"golang.org/x/tools/go/ssa"
)

// affine32: abstract evaluation of loop-free functions over uint32 into
// predicates over canonical affine terms (mod 2^32). No solver: formulas
// are compared by exhaustive evaluation over the finite partition induced
// by the interval end points that occur in them.

const two32 = uint64(1) << 32

type aff struct {
	coef map[string]uint32
	c    uint32
}

func affVar(n string) aff   { return aff{coef: map[string]uint32{n: 1}} }
func affConst(c uint32) aff { return aff{coef: map[string]uint32{}, c: c} }

func (a aff) add(b aff, sign uint32) aff { // sign = 1 or 0xffffffff
	r := aff{coef: map[string]uint32{}, c: a.c + sign*b.c}
	for k, v := range a.coef {
		r.coef[k] = v
	}
	for k, v := range b.coef {
		r.coef[k] += sign * v
		if r.coef[k] == 0 {
			delete(r.coef, k)
		}
	}
	return r
}
func (a aff) neg() aff      { return affConst(0).add(a, 0xffffffff) }
func (a aff) isConst() bool { return len(a.coef) == 0 }
func (a aff) vars() []string {
	var vs []string
	for k := range a.coef {
		vs = append(vs, k)
	}
	sort.Strings(vs)
	return vs
}
func (a aff) key() string {
	var parts []string
	for _, v := range a.vars() {
		c := a.coef[v]
		switch c {
		case 1:
			parts = append(parts, "+"+v)
		case 0xffffffff:
			parts = append(parts, "-"+v)
		default:
			parts = append(parts, fmt.Sprintf("+%d*%s", c, v))
		}
	}
	s := strings.Join(parts, "")
	if a.c != 0 || s == "" {
		s += fmt.Sprintf("+%d", a.c)
	}
	return strings.TrimPrefix(s, "+")
}

// interval sets over [0,2^32)
type ival struct{ lo, hi uint64 } // inclusive
type iset []ival

func isetRange(lo, hi uint64) iset { // lo,hi in [0,2^32), may wrap when lo>hi
	if lo <= hi {
		return iset{{lo, hi}}
	}
	return iset{{0, hi}, {lo, two32 - 1}}.norm()
}
func (s iset) norm() iset {
	if len(s) == 0 {
		return s
	}
	t := append(iset{}, s...)
	sort.Slice(t, func(i, j int) bool { return t[i].lo < t[j].lo })
	out := iset{t[0]}
	for _, iv := range t[1:] {
		last := &out[len(out)-1]
		if iv.lo <= last.hi+1 {
			if iv.hi > last.hi {
				last.hi = iv.hi
			}
		} else {
			out = append(out, iv)
		}
	}
	return out
}
func (s iset) shift(d uint32) iset { // {x+d mod 2^32 | x in s}
	var out iset
	for _, iv := range s {
		lo := (iv.lo + uint64(d)) % two32
		hi := (iv.hi + uint64(d)) % two32
		if iv.hi-iv.lo+1 >= two32 {
			return iset{{0, two32 - 1}}
		}
		out = append(out, isetRange(lo, hi)...)
	}
	return out.norm()
}
func (s iset) negate() iset { // {-x mod 2^32}
	var out iset
	for _, iv := range s {
		lo := (two32 - iv.hi) % two32
		hi := (two32 - iv.lo) % two32
		if iv.lo == 0 && iv.hi == two32-1 {
			return iset{{0, two32 - 1}}
		}
		if iv.lo == 0 { // contains 0: -0 = 0
			out = append(out, ival{0, 0})
			if iv.hi >= 1 {
				out = append(out, ival{two32 - iv.hi, two32 - 1})
			}
			continue
		}
		out = append(out, isetRange(lo, hi)...)
	}
	return out.norm()
}
func (s iset) contains(x uint64) bool {
	for _, iv := range s {
		if iv.lo <= x && x <= iv.hi {
			return true
		}
	}
	return false
}
func (s iset) String() string {
	var p []string
	for _, iv := range s {
		p = append(p, fmt.Sprintf("[%d,%d]", iv.lo, iv.hi))
	}
	return strings.Join(p, "u")
}

// formulas
type form interface{}
type fConst bool
type fAnd []form
type fOr []form
type fNot struct{ f form }
type fIn struct { // t (zero constant, sign-canonical) in set
	t   aff
	set iset
}
type fUlt struct{ a, b aff }

// mkIn canonicalises "t in set": the constant moves into the set, the sign
// is fixed so that the first variable has a coefficient < 2^31.
func mkIn(t aff, set iset) form {
	if t.c != 0 {
		set = set.shift(-t.c)
		t = t.add(affConst(t.c), 0xffffffff)
	}
	if t.isConst() {
		return fConst(set.contains(0))
	}
	vs := t.vars()
	if t.coef[vs[0]] >= 1<<31 {
		t = t.neg()
		set = set.negate()
	}
	return fIn{t, set}
}

func formStr(f form) string {
	switch x := f.(type) {
	case fConst:
		return fmt.Sprint(bool(x))
	case fAnd:
		var p []string
		for _, g := range x {
			p = append(p, formStr(g))
		}
		sort.Strings(p)
		return "(" + strings.Join(p, " && ") + ")"
	case fOr:
		var p []string
		for _, g := range x {
			p = append(p, formStr(g))
		}
		sort.Strings(p)
		return "(" + strings.Join(p, " || ") + ")"
	case fNot:
		return "!" + formStr(x.f)
	case fIn:
		return "(" + x.t.key() + ") in " + x.set.String()
	case fUlt:
		return "ULT(" + x.a.key() + ", " + x.b.key() + ")"
	}
	return "?"
}

// symbolic values
type sval struct {
	isBool bool
	a      aff
	f      form
	signed bool
	bad    string
}

type a32path struct {
	pc  []form
	ret []sval
	mem map[string]aff // stores through pointer params: "*$0" -> value
}

type a32 struct {
	prog   *Program
	depth  int
	errors []string
}

// evalFunc enumerates the paths of a loop-free function.
func (e *a32) evalFunc(fn *ssa.Function, args []sval) ([]a32path, string) {
	if e.depth > 6 {
		return nil, "call depth"
	}
	if fn.Blocks == nil {
		return nil, "no body: " + FuncName(fn)
	}
	e.depth++
	defer func() { e.depth-- }()
	var out []a32path
	var errS string
	type state struct {
		env map[ssa.Value]sval
		pc  []form
		mem map[string]aff
	}
	var run func(b *ssa.BasicBlock, pred *ssa.BasicBlock, st state, steps int)
	run = func(b *ssa.BasicBlock, pred *ssa.BasicBlock, st state, steps int) {
		if errS != "" {
			return
		}
		if steps > 64 {
			errS = "loop or too many blocks in " + FuncName(fn)
			return
		}
		get := func(v ssa.Value) sval {
			if c, ok := v.(*ssa.Const); ok {
				if c.Value == nil {
					return sval{bad: "nil const"}
				}
				if c.Value.Kind() == constant.Bool {
					return sval{isBool: true, f: fConst(constant.BoolVal(c.Value))}
				}
				if c.Value.Kind() == constant.Int {
					if u, ok := constant.Uint64Val(c.Value); ok && u < two32 {
						return sval{a: affConst(uint32(u))}
					}
					if i, ok := constant.Int64Val(c.Value); ok && i < 0 && i >= -(1<<31) {
						return sval{a: affConst(uint32(int32(i))), signed: true}
					}
				}
				return sval{bad: "const out of class: " + c.String()}
			}
			if p, ok := v.(*ssa.Parameter); ok {
				i := paramIndex(p)
				if i < len(args) {
					return args[i]
				}
			}
			if s, ok := st.env[v]; ok {
				return s
			}
			return sval{bad: fmt.Sprintf("unsupported value %T %s", v, v.String())}
		}
		for _, in := range b.Instrs {
			switch x := in.(type) {
			case *ssa.DebugRef:
			case *ssa.Phi:
				idx := -1
				for i, p := range b.Preds {
					if p == pred {
						idx = i
					}
				}
				if idx < 0 {
					errS = "phi without pred"
					return
				}
				st.env[x] = get(x.Edges[idx])
			case *ssa.BinOp:
				l, r := get(x.X), get(x.Y)
				if l.bad != "" || r.bad != "" {
					st.env[x] = sval{bad: joinNonEmpty(l.bad, r.bad)}
					continue
				}
				w := is32(x.X.Type())
				switch x.Op {
				case token.ADD:
					if !w {
						st.env[x] = sval{bad: "non-32-bit add"}
						continue
					}
					st.env[x] = sval{a: l.a.add(r.a, 1), signed: l.signed}
				case token.SUB:
					if !w {
						st.env[x] = sval{bad: "non-32-bit sub"}
						continue
					}
					st.env[x] = sval{a: l.a.add(r.a, 0xffffffff), signed: l.signed}
				case token.EQL, token.NEQ:
					if l.isBool || !w {
						st.env[x] = sval{bad: "eq on non-32-bit"}
						continue
					}
					f := mkIn(l.a.add(r.a, 0xffffffff), iset{{0, 0}})
					if x.Op == token.NEQ {
						f = fNot{f}
					}
					st.env[x] = sval{isBool: true, f: f}
				case token.LSS, token.LEQ, token.GTR, token.GEQ:
					if !w {
						st.env[x] = sval{bad: "compare on non-32-bit"}
						continue
					}
					st.env[x] = sval{isBool: true, f: cmp32(x.Op, l.a, r.a, isSigned(x.X.Type()))}
				default:
					st.env[x] = sval{bad: "binop " + x.Op.String()}
				}
			case *ssa.UnOp:
				switch x.Op {
				case token.NOT:
					v := get(x.X)
					st.env[x] = sval{isBool: true, f: fNot{v.f}, bad: v.bad}
				case token.MUL:
					if p, ok := x.X.(*ssa.Parameter); ok {
						name := fmt.Sprintf("*$%d", paramIndex(p))
						if v, ok := st.mem[name]; ok {
							st.env[x] = sval{a: v}
						} else if i := paramIndex(p); i < len(args) && args[i].bad == "" && len(args[i].a.coef) == 1 {
							// pointer argument symbol: "*" + symbol
							for k := range args[i].a.coef {
								st.env[x] = sval{a: affVar("*" + k)}
							}
						} else {
							st.env[x] = sval{a: affVar(name)}
						}
					} else {
						st.env[x] = sval{bad: "load from non-parameter"}
					}
				default:
					st.env[x] = sval{bad: "unop " + x.Op.String()}
				}
			case *ssa.Convert:
				v := get(x.X)
				if v.bad == "" && (!is32(x.X.Type()) || !is32(x.Type())) {
					v = sval{bad: "conversion leaves 32 bits: " + TypeStr(x.X.Type()) + "->" + TypeStr(x.Type())}
				}
				v.signed = isSigned(x.Type())
				st.env[x] = v
			case *ssa.ChangeType:
				st.env[x] = get(x.X)
			case *ssa.Store:
				if p, ok := x.Addr.(*ssa.Parameter); ok {
					v := get(x.Val)
					if v.bad != "" {
						errS = "store of unsupported value: " + v.bad
						return
					}
					nm := fmt.Sprintf("*$%d", paramIndex(p))
					m2 := map[string]aff{}
					for k, vv := range st.mem {
						m2[k] = vv
					}
					m2[nm] = v.a
					st.mem = m2
				} else {
					errS = "store to non-parameter in " + FuncName(fn)
					return
				}
			case *ssa.Call:
				callee := x.Common().StaticCallee()
				if callee == nil || callee.Pkg == nil || callee.Pkg != fn.Pkg {
					st.env[x] = sval{bad: "call outside package: " + CalleeName(x)}
					continue
				}
				var as []sval
				bad := ""
				for _, a := range x.Common().Args {
					v := get(a)
					if v.bad != "" {
						bad = v.bad
					}
					as = append(as, v)
				}
				if bad != "" {
					st.env[x] = sval{bad: bad}
					continue
				}
				paths, es := e.evalFunc(callee, as)
				if es != "" {
					st.env[x] = sval{bad: es}
					continue
				}
				r, es := combine(paths)
				if es != "" {
					st.env[x] = sval{bad: es}
					continue
				}
				st.env[x] = r
			case *ssa.If:
				c := get(x.Cond)
				if c.bad != "" || !c.isBool {
					errS = "branch on unsupported condition in " + FuncName(fn) + ": " + c.bad
					return
				}
				for i, s := range b.Succs {
					f := c.f
					if i == 1 {
						f = fNot{c.f}
					}
					f = simp(f)
					if k, ok := f.(fConst); ok && !bool(k) {
						continue
					}
					env2 := map[ssa.Value]sval{}
					for k, v := range st.env {
						env2[k] = v
					}
					run(s, b, state{env2, append(append([]form{}, st.pc...), f), st.mem}, steps+1)
				}
				return
			case *ssa.Jump:
				run(b.Succs[0], b, st, steps+1)
				return
			case *ssa.Return:
				var rs []sval
				for _, r := range x.Results {
					v := get(r)
					if v.bad != "" {
						errS = "return of unsupported value in " + FuncName(fn) + ": " + v.bad
						return
					}
					rs = append(rs, v)
				}
				out = append(out, a32path{pc: st.pc, ret: rs, mem: st.mem})
				return
			default:
				errS = fmt.Sprintf("instruction outside the affine32 class in %s: %T", FuncName(fn), in)
				return
			}
		}
	}
	run(fn.Blocks[0], nil, state{map[ssa.Value]sval{}, nil, map[string]aff{}}, 0)
	return out, errS
}

func is32(t types.Type) bool {
	b, ok := t.Underlying().(*types.Basic)
	return ok && (b.Kind() == types.Uint32 || b.Kind() == types.Int32)
}
func isSigned(t types.Type) bool {
	b, ok := t.Underlying().(*types.Basic)
	return ok && b.Info()&types.IsInteger != 0 && b.Info()&types.IsUnsigned == 0
}

// cmp32 builds l op r. Unsigned with both sides symbolic -> ULT atoms;
// against a constant -> interval membership. Signed comparison is only
// supported against a constant (int32(t) < 0 and friends).
func cmp32(op token.Token, l, r aff, signed bool) form {
	switch op {
	case token.GTR:
		return cmp32(token.LSS, r, l, signed)
	case token.GEQ:
		return cmp32(token.LEQ, r, l, signed)
	case token.LEQ: // l<=r == !(r<l)
		return fNot{cmp32(token.LSS, r, l, signed)}
	}
	// LSS
	if signed {
		if r.isConst() {
			// int32(l) < c : l in [2^31, 2^32-1] u [0, c-1] (c>0) ; or [2^31, c-1+2^32] for c<=0
			c := int64(int32(r.c))
			var s iset
			if c > 0 {
				s = iset{{0, uint64(c - 1)}, {1 << 31, two32 - 1}}
			} else if c > -(1 << 31) {
				s = iset{{1 << 31, uint64(c-1) + two32}}
			}
			return mkIn(l, s.norm())
		}
		if l.isConst() {
			// c < int32(r): r in [c+1, 2^31-1] (c>=0) or [c+1+2^32.., ] ...
			c := int64(int32(l.c))
			var s iset
			if c >= 0 {
				if c+1 <= (1<<31)-1 {
					s = iset{{uint64(c + 1), (1 << 31) - 1}}
				}
			} else {
				s = iset{{0, (1 << 31) - 1}}
				if c+1 < 0 {
					s = append(s, ival{uint64(c+1) + two32, two32 - 1})
				}
			}
			return mkIn(r, s.norm())
		}
		return fUlt{l.add(affConst(1<<31), 1), r.add(affConst(1<<31), 1)} // signed compare == unsigned compare of biased values
	}
	if r.isConst() {
		if r.c == 0 {
			return fConst(false)
		}
		return mkIn(l, iset{{0, uint64(r.c) - 1}})
	}
	if l.isConst() {
		if l.c == 0xffffffff {
			return fConst(false)
		}
		return mkIn(r, iset{{uint64(l.c) + 1, two32 - 1}})
	}
	return fUlt{l, r}
}

// combine turns the paths of a function into one value: bool functions
// become OR(pc && ret); value functions must agree on all paths.
func combine(paths []a32path) (sval, string) {
	if len(paths) == 0 {
		return sval{}, "no paths"
	}
	if len(paths[0].ret) != 1 {
		return sval{}, "not single-valued"
	}
	if paths[0].ret[0].isBool {
		var alts fOr
		for _, p := range paths {
			conj := fAnd(append(append([]form{}, p.pc...), p.ret[0].f))
			alts = append(alts, conj)
		}
		return sval{isBool: true, f: simp(alts)}, ""
	}
	k := paths[0].ret[0].a.key()
	for _, p := range paths[1:] {
		if p.ret[0].a.key() != k {
			return sval{}, "value differs between paths"
		}
	}
	return paths[0].ret[0], ""
}

func simp(f form) form {
	switch x := f.(type) {
	case fNot:
		g := simp(x.f)
		if k, ok := g.(fConst); ok {
			return fConst(!bool(k))
		}
		if n, ok := g.(fNot); ok {
			return n.f
		}
		return fNot{g}
	case fAnd:
		var out fAnd
		for _, g := range x {
			g = simp(g)
			if k, ok := g.(fConst); ok {
				if !bool(k) {
					return fConst(false)
				}
				continue
			}
			out = append(out, g)
		}
		if len(out) == 0 {
			return fConst(true)
		}
		if len(out) == 1 {
			return out[0]
		}
		return out
	case fOr:
		var out fOr
		for _, g := range x {
			g = simp(g)
			if k, ok := g.(fConst); ok {
				if bool(k) {
					return fConst(true)
				}
				continue
			}
			out = append(out, g)
		}
		if len(out) == 0 {
			return fConst(false)
		}
		if len(out) == 1 {
			return out[0]
		}
		return out
	}
	return f
}

// formDiff compares two formulas exactly over the finite partition induced
// by their atoms. It returns human-readable descriptions of the cells on
// which they differ (empty = equal).
func formDiff(code, spec form) []string {
	terms := map[string]aff{}
	cuts := map[string][]uint64{}
	ults := map[string]bool{}
	var collect func(f form)
	collect = func(f form) {
		switch x := f.(type) {
		case fAnd:
			for _, g := range x {
				collect(g)
			}
		case fOr:
			for _, g := range x {
				collect(g)
			}
		case fNot:
			collect(x.f)
		case fIn:
			k := x.t.key()
			terms[k] = x.t
			for _, iv := range x.set {
				cuts[k] = append(cuts[k], iv.lo, iv.hi+1)
			}
		case fUlt:
			ults["ULT("+x.a.key()+", "+x.b.key()+")"] = true
		}
	}
	collect(code)
	collect(spec)
	var tkeys, ukeys []string
	for k := range terms {
		tkeys = append(tkeys, k)
	}
	for k := range ults {
		ukeys = append(ukeys, k)
	}
	sort.Strings(tkeys)
	sort.Strings(ukeys)
	// cells per term
	cells := map[string][]ival{}
	for _, k := range tkeys {
		cs := append([]uint64{0, two32}, cuts[k]...)
		sort.Slice(cs, func(i, j int) bool { return cs[i] < cs[j] })
		var cl []ival
		for i := 0; i+1 < len(cs); i++ {
			if cs[i] < cs[i+1] && cs[i] < two32 {
				cl = append(cl, ival{cs[i], cs[i+1] - 1})
			}
		}
		cells[k] = cl
	}
	var diffs []string
	assignT := map[string]ival{}
	assignU := map[string]bool{}
	var eval func(f form) bool
	eval = func(f form) bool {
		switch x := f.(type) {
		case fConst:
			return bool(x)
		case fAnd:
			for _, g := range x {
				if !eval(g) {
					return false
				}
			}
			return true
		case fOr:
			for _, g := range x {
				if eval(g) {
					return true
				}
			}
			return false
		case fNot:
			return !eval(x.f)
		case fIn:
			return x.set.contains(assignT[x.t.key()].lo)
		case fUlt:
			return assignU["ULT("+x.a.key()+", "+x.b.key()+")"]
		}
		return false
	}
	var recT func(i int)
	var recU func(i int)
	recU = func(i int) {
		if i == len(ukeys) {
			c, s := eval(code), eval(spec)
			if c != s {
				var desc []string
				for _, k := range tkeys {
					iv := assignT[k]
					desc = append(desc, fmt.Sprintf("(%s) in [%d,%d]", k, iv.lo, iv.hi))
				}
				for _, k := range ukeys {
					desc = append(desc, fmt.Sprintf("%s=%v", k, assignU[k]))
				}
				diffs = append(diffs, fmt.Sprintf("%s: code=%v spec=%v", strings.Join(desc, ", "), c, s))
			}
			return
		}
		for _, b := range []bool{false, true} {
			assignU[ukeys[i]] = b
			recU(i + 1)
		}
	}
	recT = func(i int) {
		if i == len(tkeys) {
			recU(0)
			return
		}
		for _, c := range cells[tkeys[i]] {
			assignT[tkeys[i]] = c
			recT(i + 1)
		}
	}
	recT(0)
	return diffs
}
