package np

import (
	"go/constant"
	"go/types"
	"sort"
	"strings"

	"golang.org/x/tools/go/ssa"
)

func init() { register("C02", propC02) }

func propC02(c *Ctx) {
	c.Explanation = "Liveness under loss is a property of timed executions and is not decided. Decided (path shapes, for all inputs and schedules): (W1) produce => notify: a segment enqueued by HandlePacket asserts newSegmentWaker; data queued by Write is processed under TryLock or asserts sndWaker; the FIN queued by Shutdown asserts sndCloseWaker; a zero->non-zero receive-window transition in readLocked/SetSockOpt notifies the protocol goroutine, whose handler sends the window-reopening ACK exactly when the window last announced (after scaling) was zero; (W2) every waker field of endpoint/sender/keepalive is registered with a handler in protocolMainLoop and every notify flag is tested in the notification handler or the listen loop; the handshake registers resend, notification and new-segment wakers; (W3) the retransmission timer is (re)armed with the current RTO whenever sndUna != sndNxt (data or FIN outstanding), the SYN resend timer exists before the first SYN and is reset on each resend; (W4) FIN last, nothing after it: Write queues data only while sndClosed is false, in the sndBufMu critical section; Shutdown sets sndClosed in the critical section that pushes the zero-length segment at the BACK of the send queue; sendData turns only the last, zero-length segment into FIN|ACK; the receive side closes only on a consumed in-order FIN (one sequence number, ACKed at once, readers told) and ignores everything afterwards; (W5) the main loop runs until rcv.closed && snd.closed && sndUna == sndNxtList. (W7) logicalLen = payload + SYN + FIN (shared); a zero-length segment is consumed only exactly at rcvNxt (W4). (W8) the lazy retransmission timer's typestate (shared with C05/L6): an expiry ends disabled, so the next enable re-arms. (W9) teardown happens exactly once: the worker if one runs (Close sets workerCleanup and wakes it; completeWorkerLocked cleans up when asked), else Close; workerRunning is set before the goroutine starts; protocol goroutines are started only by connect, Listen and startAcceptedLoop. W4 also holds the drain-loop rows: parked segments are offered with their payload length. Write advances both byte counters (sndBufUsed, sndBufInQueue) by exactly the accepted view's length (rows of W1). (W10) an acceptable ACK frees exactly the acknowledged amount of send buffer and releases exactly the acknowledged segments, and every received segment ends with an attempt to send; (W11) every hand-off to the receive list wakes readers; (W12) received data is acknowledged at the end of every batch and leftover segments re-arm the worker; (W13) Shutdown accounts for the FIN in the send queue and notifies the worker; (W14) the TCP emitters return the result of the one packet write they perform. (W15) the inbound segment queue: charged on enqueue, credited by the same amount on dequeue, empty exactly when nothing is charged. (W16) a genuine expiry of the retransmission timer always doubles the RTO and restarts transmission from the head of the write list - nothing but the expiry itself and the 60 s give-up bound decides it, in particular not the in-flight packet count, so a lone FIN is retransmitted (shared with C05/L2,L4). (W17) the complete path table of receiver.acceptable (shared with C04/N6): first byte in the window OR overlap with the window, so a coalesced retransmission that starts below rcvNxt but carries new bytes is consumed. NOT decided: that retransmission eventually succeeds, timing, window probing by the peer."
	ep := "(*tcp.endpoint)."
	w1 := c.Rule("W1", "K1/K2/K5 site tables", "produce => notify", 12)
	if fn := c.Fn(w1, ep+"HandlePacket"); fn != nil {
		seg := "tcp.newSegment($1, $2, $3)"
		c.CheckSites(w1, fn, []SiteSpec{
			{Kind: "call", Target: "(*tcp.segmentQueue).enqueue", Args: []string{"&$0.segmentQueue", seg}, Guards: []string{"(*tcp.segment).parse(" + seg + ")"}, Exact: true, N: 1, Why: "a parsed segment is queued for the protocol goroutine"},
			{Kind: "call", Target: "(*sleep.Waker).Assert", Args: []string{"&$0.newSegmentWaker"}, Guards: []string{"(*tcp.segment).parse(" + seg + ")", "(*tcp.segmentQueue).enqueue(&$0.segmentQueue, " + seg + ")"}, Exact: true, N: 1, Why: "every successful enqueue wakes the protocol goroutine"},
		})
	}
	if fn := c.Fn(w1, ep+"Write"); fn != nil {
		pl := "iface:tcpip.Payload.Get($1, ($0.sndBufSize - $0.sndBufUsed))"
		g := []string{"!$0.sndClosed", "!(0 == iface:tcpip.Payload.Size($1))", "($0.state == 4)", "!(($0.sndBufSize - $0.sndBufUsed) < 1)", "(" + pl + "#1 == nil)"}
		c.CheckSites(w1, fn, []SiteSpec{
			{Kind: "call", Target: "(*tcp.segmentList).PushBack", Args: []string{"&$0.sndQueue", "tcp.newSegmentFromView(&$0.route, $0.id, " + pl + "#0)"}, Guards: g, Exact: true, N: 1, Why: "data is queued at the back, only in connected state, with buffer room, and only while the send side is not closed"},
			{Kind: "call", Target: ep + "handleWrite", Args: []string{"$0"}, Guards: append(append([]string{}, g...), "(*tmutex.Mutex).TryLock(&$0.workMu)"), Exact: true, N: 1, Why: "the writer processes the queue itself when it gets the work mutex ..."},
			{Kind: "store", Target: "tcp.endpoint.sndBufUsed", Args: []string{"$0", "($0.sndBufUsed + builtin:len(" + pl + "#0))"}, Guards: g, Exact: true, N: 1, Why: "buffer accounting grows by the bytes actually ACCEPTED (the view Payload.Get returned), not by what was offered"},
			{Kind: "store", Target: "tcp.endpoint.sndBufInQueue", Args: []string{"$0", "($0.sndBufInQueue + builtin:len(" + pl + "#0))"}, Guards: g, Exact: true, N: 1, Why: "... and so does the count of queued bytes from which handleWrite advances sndNxtList: a larger count leaves sndUna != sndNxtList for ever and the connection never finishes closing"},
			{Kind: "call", Target: "(*sleep.Waker).Assert", Args: []string{"&$0.sndWaker"}, Guards: append(append([]string{}, g...), "!(*tmutex.Mutex).TryLock(&$0.workMu)"), Exact: true, N: 1, Why: "... and otherwise wakes the protocol goroutine: queued data is never left unannounced"},
		})
		// W4: the sndClosed test and the PushBack are in one sndBufMu critical section
		for _, pb := range c.Calls(fn, Is("(*tcp.segmentList).PushBack"), false) {
			held := false
			for _, h := range c.Locks().At[pb.(ssa.Instruction)] {
				if h.Class == "tcp.endpoint.sndBufMu" {
					held = true
				}
			}
			c.Check(held, w1, FuncName(fn)+"/push-under-sndBufMu", c.pos(pb), "queued under sndBufMu", "send queue modified without sndBufMu")
			var test ssa.Instruction
			for _, e := range CondEdges(fn) {
				if e.Atom == "$0.sndClosed" {
					test = e.From.Instrs[len(e.From.Instrs)-1]
				}
			}
			if test != nil {
				t := NewTermer(fn)
				var bad ssa.Instruction
				Instrs(fn, func(in ssa.Instruction) {
					if ci, ok := in.(*ssa.Call); ok {
						if op := lockOpOf(t, ci); op != nil && op.kind == "unlock" && op.class == "tcp.endpoint.sndBufMu" {
							if instrReaches(test, in) && instrReaches(in, pb.(ssa.Instruction)) {
								bad = in
							}
						}
					}
				})
				c.Check(bad == nil, w1, FuncName(fn)+"/closed-test-and-push-atomic", c.pos(test), "no unlock between the sndClosed test and the enqueue", "sndBufMu is released between testing sndClosed and queueing data: data can be queued behind the FIN")
			} else {
				c.Bad(w1, FuncName(fn)+"/no-sndClosed-test", c.P.Pos(fn.Pos()), "Write no longer tests sndClosed")
			}
		}
	}
	if fn := c.Fn(w1, ep+"Shutdown"); fn != nil {
		g := []string{"!$0.sndClosed", "!(($0.shutdownFlags@1 & 2) == 0)", "($0.state == 4)"}
		c.CheckSites(w1, fn, []SiteSpec{
			{Kind: "call", Target: "(*tcp.segmentList).PushBack", Args: []string{"&$0.sndQueue", "tcp.newSegmentFromView(&$0.route, $0.id, nil)"}, Guards: g, Exact: true, N: 1, Why: "the FIN is a zero-length segment queued at the BACK of the send queue, once"},
			{Kind: "store", Target: "tcp.endpoint.sndClosed", Args: []string{"$0", "true"}, Guards: g, Exact: true, N: 1, Why: "the send side is marked closed together with queueing the FIN"},
			{Kind: "call", Target: "(*sleep.Waker).Assert", Args: []string{"&$0.sndCloseWaker"}, Guards: g, Exact: true, N: 1, Why: "the protocol goroutine is told to process the close"},
		})
		sts := StoresTo(fn, "tcp.endpoint", "sndClosed")
		pbs := c.Calls(fn, Is("(*tcp.segmentList).PushBack"), false)
		if len(sts) == 1 && len(pbs) == 1 {
			l1, l2 := c.Locks().At[sts[0]], c.Locks().At[pbs[0].(ssa.Instruction)]
			ok := false
			for _, h := range l1 {
				if h.Class == "tcp.endpoint.sndBufMu" {
					for _, h2 := range l2 {
						if h2.Class == h.Class {
							ok = true
						}
					}
				}
			}
			c.Check(ok, w1, FuncName(fn)+"/fin-and-flag-one-critical-section", c.pos(sts[0]), "FIN push and sndClosed=true under sndBufMu", "FIN push and sndClosed update are not both under sndBufMu")
		}
	}
	c.OnlyIn(w1, "store sndClosed=true", filterStores(c.FieldStores("tcp.endpoint", "sndClosed"), "true"), ep+"Shutdown")
	if fn := c.Fn(w1, "(*tcp.receiver).nonZeroWindow"); fn != nil {
		c.CheckSites(w1, fn, []SiteSpec{
			{Kind: "call", Target: "(*tcp.sender).sendAck", Args: []string{"$0.ep.snd"}, Guards: []string{"((($0.rcvAcc - $0.rcvNxt) >> $0.rcvWndScale) == 0)"}, Exact: true, N: 1,
				Why: "the window-reopening ACK is sent exactly when the window last ANNOUNCED - (rcvAcc-rcvNxt) after scaling - was zero"},
		})
	}
	if fn := c.Fn(w1, ep+"readLocked"); fn != nil {
		z := "(*tcp.endpoint).zeroReceiveWindow($0, $0.rcv.rcvWndScale)"
		c.CheckSites(w1, fn, []SiteSpec{
			{Kind: "call", Target: ep + "notifyProtocolGoroutine", Args: []string{"$0", "1"}, Guards: []string{"!($0.rcvBufUsed == 0)", z, "!" + z}, Exact: true, N: 1,
				Why: "reading notifies the protocol goroutine exactly on a zero -> non-zero window transition (tested before and after the buffer accounting)"},
		})
		// the two zeroReceiveWindow evaluations bracket the rcvBufUsed update
		zs := c.Calls(fn, Is(ep+"zeroReceiveWindow"), false)
		st := StoresTo(fn, "tcp.endpoint", "rcvBufUsed")
		if len(zs) == 2 && len(st) == 1 {
			a, b := zs[0].(ssa.Instruction), zs[1].(ssa.Instruction)
			if InstrDominates(b, a) {
				a, b = b, a
			}
			c.Check(InstrDominates(a, st[0]) && InstrDominates(st[0], b), w1, FuncName(fn)+"/window-tests-bracket-update", c.pos(st[0]), "window tested before and after rcvBufUsed shrinks", "the two window tests do not bracket the rcvBufUsed update")
		} else {
			c.Bad(w1, FuncName(fn)+"/window-tests", c.P.Pos(fn.Pos()), "expected two zeroReceiveWindow evaluations around one rcvBufUsed update")
		}
	}

	// ---- W2
	w2 := c.Rule("W2", "K6 exhaustive", "every waker and notify flag has a handler", 10)
	if fn := c.Fn(w2, ep+"protocolMainLoop"); fn != nil {
		// registered wakers: the w fields of the funcs table
		reg := map[string]bool{}
		Instrs(fn, func(in ssa.Instruction) {
			if st, ok := in.(*ssa.Store); ok {
				if fa, ok := st.Addr.(*ssa.FieldAddr); ok {
					if fv, _ := fieldOf(fa); fv != nil && fv.Name() == "w" {
						reg[stripVer(Term(st.Val))] = true
					}
				}
			}
		})
		// and the loop that adds them all
		adds := c.Calls(fn, Is("(*sleep.Sleeper).AddWaker"), false)
		c.Check(len(adds) == 1 && strings.Contains(Term(CallArgs(adds[0])[1]), ".w"), w2, FuncName(fn)+"/adds-all-rows", c.P.Pos(fn.Pos()), "AddWaker(funcs[i].w, i) for every row", "the sleeper is no longer fed from every row of funcs")
		want := map[string]string{}
		for _, st := range []struct{ typ, path string }{{"endpoint", "&$0."}, {"sender", "&$0.snd."}, {"keepalive", "&$0.keepalive."}} {
			for _, f := range wakerFields(c.P, "protocol/transport/tcp", st.typ) {
				want[st.path+f] = st.typ + "." + f
			}
		}
		var keys []string
		for k := range want {
			keys = append(keys, k)
		}
		sort.Strings(keys)
		for _, k := range keys {
			c.Check(reg[k], w2, FuncName(fn)+"/waker-registered:"+want[k], c.P.Pos(fn.Pos()), "waker has a row in funcs", "waker field "+want[k]+" is asserted by the stack but has no handler row in protocolMainLoop: its wake-ups are lost")
		}
		c.Extra["registered_wakers"] = keysOf(reg)
	}
	// notify flags: each declared constant is tested by the main-loop handler or the listen loop
	flags := map[string]string{}
	if pk := c.P.Pkg("protocol/transport/tcp"); pk != nil {
		for _, n := range pk.Scope().Names() {
			if k, ok := pk.Scope().Lookup(n).(*types.Const); ok && strings.HasPrefix(n, "notify") && k.Val().Kind() == constant.Int {
				flags[k.Val().ExactString()] = n
			}
		}
	}
	tested := map[string]bool{}
	for _, name := range []string{ep + "protocolMainLoop$4", ep + "protocolListenLoop"} {
		if fn := c.Fn(w2, name); fn != nil {
			for _, e := range CondEdges(fn) {
				if strings.Contains(e.Atom, "fetchNotifications(") {
					for v := range flags {
						if strings.Contains(e.Atom, " & "+v+") == 0)") {
							tested[v+"@"+name] = true
						}
					}
				}
			}
		}
	}
	var fv []string
	for v := range flags {
		fv = append(fv, v)
	}
	sort.Strings(fv)
	for _, v := range fv {
		c.Check(tested[v+"@"+ep+"protocolMainLoop$4"], w2, "notify-flag-handled:"+flags[v], "", "tested by the notification handler of the main loop", "notify flag "+flags[v]+" is never tested by the main loop's notification handler: such notifications are dropped")
	}
	if fn := c.Fn(w2, "(*tcp.handshake).execute"); fn != nil {
		var regd []string
		for _, a := range c.Calls(fn, Is("(*sleep.Sleeper).AddWaker"), false) {
			regd = append(regd, Term(CallArgs(a)[1]))
		}
		sort.Strings(regd)
		c.Check(strings.Join(regd, ",") == "&$0.ep.newSegmentWaker,&$0.ep.notificationWaker,&new(sleep.Waker)", w2, FuncName(fn)+"/handshake-wakers", c.P.Pos(fn.Pos()), "resend, notification and new-segment wakers registered", "handshake registers "+strings.Join(regd, ","))
	}

	// ---- W3
	w3 := c.Rule("W3", "K1/K2 site tables", "retransmission timers armed while something is outstanding", 4)
	if fn := c.Fn(w3, "(*tcp.sender).sendData"); fn != nil {
		c.CheckSitesPresent(w3, fn, pick(sendDataTable(), "C02"))
		// every return is preceded by the timer decision (it is after the loop)
		for _, en := range c.Calls(fn, Is("(*tcp.timer).enable"), false) {
			loopCall := c.Calls(fn, Is("(*tcp.sender).sendSegment"), false)
			if len(loopCall) == 1 {
				c.Check(!instrReaches(en.(ssa.Instruction), loopCall[0].(ssa.Instruction)), w3, FuncName(fn)+"/timer-after-loop", c.pos(en), "timer decision after the send loop", "timer decision moved inside/before the send loop")
			}
		}
	}
	if fn := c.Fn(w3, "(*tcp.handshake).execute"); fn != nil {
		af := c.Calls(fn, Is("time.AfterFunc"), false)
		syn := c.Calls(fn, Is("tcp.sendSynTCP"), false)
		rs := c.Calls(fn, Is("(*time.Timer).Reset"), false)
		ok := len(af) == 1 && len(syn) == 2 && len(rs) == 1
		if ok {
			for _, s := range syn {
				if !InstrDominates(af[0].(ssa.Instruction), s.(ssa.Instruction)) {
					ok = false
				}
			}
			// the Reset and the resend are in the same block sequence (resend branch)
			ok = ok && (InstrDominates(rs[0].(ssa.Instruction), syn[1].(ssa.Instruction)) || InstrDominates(rs[0].(ssa.Instruction), syn[0].(ssa.Instruction)))
		}
		c.Check(ok, w3, FuncName(fn)+"/syn-resend-timer", c.P.Pos(fn.Pos()), "resend timer created before the first SYN and reset before each resend", "SYN resend timer is not created before the first SYN / not reset on resend")
		for _, cl := range fn.AnonFuncs {
			as := c.Calls(cl, Is("(*sleep.Waker).Assert"), false)
			c.Check(len(as) == 1, w3, FuncName(cl)+"/timer-asserts-resend-waker", c.P.Pos(cl.Pos()), "timer callback asserts the resend waker", "timer callback no longer asserts the resend waker")
		}
	}

	// ---- W4 receive side
	w4 := c.Rule("W4", "K1 site tables", "FIN last, nothing after it", 6)
	if fn := c.Fn(w4, "(*tcp.receiver).consumeSegment"); fn != nil {
		c.CheckSitesPresent(w4, fn, pick(consumeSegmentTable(), "C02"))
	}
	if fn := c.Fn(w4, "(*tcp.receiver).handleRcvdSegment"); fn != nil {
		// every segment - arriving or parked - is offered to consumeSegment with its
		// PAYLOAD length: the FIN's sequence number is added by consumeSegment itself,
		// once (a parked FIN offered with its logical length would be acknowledged as
		// FIN+2 and the peer's close never completes)
		c.CheckSitesPresent(w4, fn, pick(rcvHandleSegmentTable(), "C02"))
	}
	c.OnlyIn(w4, "store receiver.closed", c.FieldStores("tcp.receiver", "closed"), "(*tcp.receiver).consumeSegment")
	if fn := c.Fn(w4, "(*tcp.receiver).handleRcvdSegment"); fn != nil {
		// everything but the first test is dominated by !closed
		for _, s := range Sites(fn) {
			if s.Kind == "call" && (s.Target == "(*tcp.receiver).acceptable" || s.Target == "(*tcp.receiver).consumeSegment" || s.Target == "container/heap.Push") {
				has := false
				for _, g := range s.Guards {
					if g == "!$0.closed" {
						has = true
					}
				}
				c.Check(has, w4, FuncName(fn)+"/after-close-ignored:"+s.Target, c.pos(s.Instr), "not reached once the receive side is closed", "segments are still processed after end-of-stream")
			}
		}
	}

	// ---- W10..W13: effects of tabled functions no row mentioned (effects.go)
	senderAckRule(c, c.Rule("W10", "K7 exact-guard site table (shared with C01/R11)", "an acceptable ACK frees exactly the acknowledged amount of send buffer and releases exactly the acknowledged segments; every segment ends with an attempt to send", 9))
	readerWakeRule(c, c.Rule("W11", "K7 exact-guard site tables (shared with C01/R13)", "every hand-off to the receive list wakes readers", 3))
	ackGenerationRule(c, c.Rule("W12", "K7 exact-guard site table", "received data is acknowledged at the end of every batch; leftover segments re-arm the worker", 2))
	shutdownRule(c, c.Rule("W13", "K7 exact-guard site table", "Shutdown accounts for the FIN in the send queue and notifies the worker", 4))

	sendResultRule(c, c.Rule("W14", "K7 closed return tables (shared with C06/E10)", "the TCP emitters return the result of the one packet write they perform", 2), "tcp.sendTCP", "tcp.sendSynTCP")
	segmentQueueRule(c, c.Rule("W15", "K7 closed site tables (shared with C05/L10, C01/R14)", "the inbound segment queue: charged on enqueue, credited by the same amount on dequeue, empty exactly when nothing is charged", 7))
	w16 := c.Rule("W16", "K7 exact-guard site table + K2 order (shared with C05/L2,L4)", "a genuine expiry of the retransmission timer always restarts transmission from the head of the write list: nothing but the expiry itself and the give-up bound decides it (a lone FIN is retransmitted: the in-flight packet count is not consulted)", 6)
	rtoExpiryRule(c, w16, w16)
	acceptableRule(c, c.Rule("W17", "K9 path table (shared with C04/N6)", "a segment that starts below rcvNxt but reaches into the window is acceptable (first byte in the window OR overlap): a coalesced retransmission is consumed instead of being answered with duplicate ACKs for ever", 3))
	// ---- W5
	mainLoopExitRule(c, c.Rule("W5", "K5", "main loop exit condition", 3))
	// W9: who cleans up. Close hands the cleanup to the worker exactly when one
	// is running (and wakes it), otherwise does it itself; the worker records
	// its end and performs the cleanup it was asked for; the running flag is
	// set before the goroutine exists.
	w9 := c.Rule("W9", "K7 exact-guard site tables + K2 order", "endpoint teardown is done exactly once: by the worker if one runs, else by Close", 10)
	if fn := c.Fn(w9, ep+"Close"); fn != nil {
		c.CheckSitesPresent(w9, fn, []SiteSpec{
			{Kind: "call", Target: ep + "Shutdown", Args: []string{"$0", "3"}, Guards: []string{}, Exact: true, N: 1, Why: "Close first shuts down both directions (queues the FIN)"},
			{Kind: "call", Target: ep + "cleanupLocked", Args: []string{"$0"}, Guards: []string{"!$0.workerRunning"}, Exact: true, N: 1, Why: "no worker: Close cleans up itself"},
			{Kind: "store", Target: "tcp.endpoint.workerCleanup", Args: []string{"$0", "true"}, Guards: []string{"$0.workerRunning"}, Exact: true, N: 1, Why: "a worker runs: it is asked to clean up when it exits"},
			{Kind: "call", Target: ep + "notifyProtocolGoroutine", Args: []string{"$0", "4"}, Guards: []string{"$0.workerRunning"}, Exact: true, N: 1, Why: "... and woken with notifyClose"},
		})
	}
	if fn := c.Fn(w9, ep+"completeWorkerLocked"); fn != nil {
		c.CheckSites(w9, fn, []SiteSpec{
			{Kind: "store", Target: "tcp.endpoint.workerRunning", Args: []string{"$0", "false"}, Guards: []string{}, Exact: true, N: 1, Why: "the worker records its end"},
			{Kind: "call", Target: ep + "cleanupLocked", Args: []string{"$0"}, Guards: []string{"$0.workerCleanup"}, Exact: true, N: 1, Why: "... and cleans up exactly when Close asked it to"},
		})
	}
	for _, name := range []string{ep + "connect", ep + "Listen", ep + "startAcceptedLoop"} {
		if fn := c.Fn(w9, name); fn != nil {
			c.Ordered(w9, fn, []string{"workerRunning = true", "go worker"}, []func(Site) bool{
				func(s Site) bool {
					return s.Kind == "store" && s.Target == "tcp.endpoint.workerRunning" && len(s.Args) == 2 && s.Args[1] == "true"
				},
				func(s Site) bool {
					return s.Kind == "go" && (s.Target == ep+"protocolMainLoop" || s.Target == ep+"protocolListenLoop")
				},
			})
		}
	}
	c.OnlyIn(w9, "store to tcp.endpoint.workerRunning", c.FieldStores("tcp.endpoint", "workerRunning"), ep+"connect", ep+"Listen", ep+"startAcceptedLoop", ep+"completeWorkerLocked")
	c.OnlyIn(w9, "store to tcp.endpoint.workerCleanup", c.FieldStores("tcp.endpoint", "workerCleanup"), ep+"Close", ep+"cleanupLocked")
	goMain := c.CallSites(func(s string) bool { return s == ep+"protocolMainLoop" || s == ep+"protocolListenLoop" })
	c.OnlyIn(w9, "start of a protocol goroutine", goMain, ep+"connect", ep+"Listen", ep+"startAcceptedLoop")

	w8 := c.Rule("W8", "typestate: K3 confinement + K7 exact-guard site tables (shared with C05/L6)", "the lazy retransmission timer re-arms after every expiry: its state word goes enabled -> disabled on expiry, orphaned only on disable", 14)
	timerTypestateRule(c, w8)

	w7 := c.Rule("W7", "K9 path table (shared with C01/R6, C03/H8)", "a segment's sequence-space length = payload + SYN + FIN: a FIN is acknowledged and consumed as exactly one sequence number", 5)
	logicalLenRule(c, w7)

	w6 := c.Rule("W6", "K3 closed call-site table", "every wake-up of the protocol goroutine is one of the reviewed sites", 12)
	A := "(*sleep.Waker).Assert"
	c.CheckCallers(w6, []string{A}, []CallerSpec{
		{Fn: "(*tcp.endpoint).HandlePacket", Target: A, Args: []string{"&$0.newSegmentWaker"}, Guards: []string{"(*tcp.segment).parse(tcp.newSegment($1, $2, $3))", "(*tcp.segmentQueue).enqueue(&$0.segmentQueue, tcp.newSegment($1, $2, $3))"}, Why: "a parsed segment that was queued wakes the worker"},
		{Fn: "(*tcp.endpoint).Shutdown", Target: A, Args: []string{"&$0.sndCloseWaker"}, Why: "the FIN request wakes the worker"},
		{Fn: "(*tcp.endpoint).Write", Target: A, Args: []string{"&$0.sndWaker"}, Why: "queued data wakes the worker when the writer could not process it inline"},
		{Fn: "(*tcp.endpoint).connect", Target: A, Args: []string{"&$0.sndWaker"}, Why: "restored endpoints with queued data"},
		{Fn: "(*tcp.endpoint).handleSegments", Target: A, Args: []string{"&$0.newSegmentWaker"}, Guards: []string{"!(*tcp.segmentQueue).empty(&$0.segmentQueue)", "phi{false | true}"}, Why: "a budget-limited drain that left segments queued re-arms itself: without it the remaining segments wait for the next arrival"},
		{Fn: "(*tcp.endpoint).notifyProtocolGoroutine", Target: A, Args: []string{"&$0.notificationWaker"}, Why: "notifications (close, MTU, window reopening, ...)"},
		{Fn: "(*tcp.endpoint).protocolListenLoop", Target: A, Args: []string{"&$0.newSegmentWaker"}, Why: "listen loop: same re-arm after a budget-limited drain"},
		{Fn: "(*tcp.endpoint).protocolMainLoop", Target: A, Args: []string{"&$0.newSegmentWaker"}, Why: "segments that arrived during the handshake are processed once the loop starts"},
		{Fn: "(*tcp.endpoint).protocolMainLoop$4$1", Target: A, Args: []string{"^^&new(sleep.Waker)"}, Why: "close timer"},
		{Fn: "(*tcp.handshake).execute$1", Target: A, Args: []string{"^&new(sleep.Waker)"}, Guards: []string{}, Why: "SYN resend timer callback"},
		{Fn: "(*tcp.handshake).processSegments", Target: A, Args: []string{"&$0.ep.newSegmentWaker"}, Guards: []string{"!(*tcp.segmentQueue).empty(&$0.ep.segmentQueue)"}, Why: "handshake drain: re-arm when segments remain"},
		{Fn: "(*tcp.timer).init$1", Target: A, Args: []string{"^$1"}, Guards: []string{}, Why: "retransmission/keepalive timer callback"},
		{Fn: "(*stack.linkAddrEntry).changeState", Target: A, Args: []string{"next(range($0.wakers))#1"}, Why: "neighbour resolution (C12)"},
	})

}

func filterStores(ins []ssa.Instruction, val string) []ssa.Instruction {
	var out []ssa.Instruction
	for _, in := range ins {
		if st, ok := in.(*ssa.Store); ok && Term(st.Val) == val {
			out = append(out, in)
		}
	}
	return out
}

// wakerFields lists the fields of type sleep.Waker of a struct.
func wakerFields(p *Program, rel, typ string) []string {
	pk := p.Pkg(rel)
	if pk == nil {
		return nil
	}
	obj := pk.Scope().Lookup(typ)
	if obj == nil {
		return nil
	}
	st, ok := obj.Type().Underlying().(*types.Struct)
	if !ok {
		return nil
	}
	var out []string
	for i := 0; i < st.NumFields(); i++ {
		if TypeStr(st.Field(i).Type()) == "sleep.Waker" {
			out = append(out, st.Field(i).Name())
		}
	}
	return out
}

// stripVer removes load-version suffixes (@1, @u, ...) from a term.
func stripVer(s string) string {
	var b strings.Builder
	for i := 0; i < len(s); i++ {
		if s[i] == '@' {
			j := i + 1
			for j < len(s) && (s[j] == 'u' || (s[j] >= '0' && s[j] <= '9')) {
				j++
			}
			i = j - 1
			continue
		}
		b.WriteByte(s[i])
	}
	return b.String()
}

// mainLoopExitRule: the connection worker leaves its loop only after the
// receive side is closed, the send side is closed and everything queued has
// been acknowledged. Dropping the receive test abandons bytes still in
// flight from the peer (C01); dropping a send test abandons unacknowledged
// data (C02).
func mainLoopExitRule(c *Ctx, rule string) {
	fn := c.Fn(rule, "(*tcp.endpoint).protocolMainLoop")
	if fn == nil {
		return
	}
	atoms := map[string]bool{}
	for _, e := range CondEdges(fn) {
		atoms[stripVer(e.Atom)] = true
	}
	for _, a := range []string{"$0.rcv.closed", "$0.snd.closed", "($0.snd.sndNxtList == $0.snd.sndUna)"} {
		c.Check(atoms[a], rule, FuncName(fn)+"/exit-tests:"+a, c.P.Pos(fn.Pos()), "loop condition reads "+a, "main loop no longer tests "+a+" before exiting")
	}
}
