package np

import (
	"sort"
	"strings"

	"golang.org/x/tools/go/ssa"
)

// inboundRoots: entry points of frames arriving from the network, plus the
// TCP worker goroutines (segments cross a queue into them).
var inboundRoots = []string{
	"(*stack.NIC).DeliverNetworkPacket",
	"(*fdbased.endpoint).dispatchLoop",
	"(*channel.Endpoint).Inject",
	"(*channel.Endpoint).InjectLinkAddr",
	"(*loopback.endpoint).WritePacket",
	"(*tcp.endpoint).protocolMainLoop",
	"(*tcp.endpoint).protocolListenLoop",
	"(*tcp.endpoint).handleSynSegment",
	"(*ipv4.endpoint).echoReplier",
	"(*tcp.Forwarder).HandlePacket",
}

// notInbound: packages in the tree that no property covers; reported, not armed.
var notInboundPkgs = []string{"/link/sniffer", "/transport/ping", "/pkg/logging", "/tcp/testing/", "/pkg/checker", "/cmd/", "/tool"}

// ReachFrom returns the module functions reachable from the named roots.
func (p *Program) ReachFrom(roots []string) map[*ssa.Function]bool {
	cg := p.CallGraph()
	seen := map[*ssa.Function]bool{}
	var stack []*ssa.Function
	for _, r := range roots {
		if f := p.Func(r); f != nil {
			stack = append(stack, f)
		}
	}
	inMod := map[*ssa.Function]bool{}
	for _, f := range p.Funcs {
		inMod[f] = true
	}
	for len(stack) > 0 {
		f := stack[len(stack)-1]
		stack = stack[:len(stack)-1]
		if seen[f] {
			continue
		}
		seen[f] = true
		if n := cg.Nodes[f]; n != nil {
			for _, e := range n.Out {
				g := e.Callee.Func
				if g == nil {
					continue
				}
				if inMod[g] || g.Synthetic != "" {
					if !seen[g] {
						stack = append(stack, g)
					}
				}
			}
		}
	}
	out := map[*ssa.Function]bool{}
	for f := range seen {
		if !inMod[f] {
			continue
		}
		skip := false
		if f.Pkg != nil {
			for _, s := range notInboundPkgs {
				if strings.Contains(f.Pkg.Pkg.Path()+"/", s) {
					skip = true
				}
			}
		}
		if !skip {
			out[f] = true
		}
	}
	return out
}

func sortedFuncs(m map[*ssa.Function]bool) []*ssa.Function {
	var fs []*ssa.Function
	for f := range m {
		fs = append(fs, f)
	}
	sort.Slice(fs, func(i, j int) bool { return FuncName(fs[i]) < FuncName(fs[j]) })
	return fs
}
