package np

import (
	"fmt"
	"go/token"
	"go/types"
	"sort"
	"strings"

	"golang.org/x/tools/go/ssa"
)

// PathSummary is one acyclic path through a function: the branch literals
// taken (in order), the observable effects, and the result.
type PathSummary struct {
	Conds   []string // "atom" / "!atom"
	Effects []string // "call f(args)", "store path = v", "mapupdate m[k] = v", "send ch <- v", "panic v"
	Result  string   // rendered return values, "panic", or "backedge" (loop body walked once)
}

// WalkPaths enumerates the acyclic paths of fn with a flow-sensitive view of
// non-escaping local variables (struct copies modified field by field are
// rendered with the values they hold at that point of the path). Back edges
// end a path with Result "backedge". maxPaths bounds the enumeration.
func WalkPaths(fn *ssa.Function, maxPaths int) ([]PathSummary, string) {
	if len(fn.Blocks) == 0 {
		return nil, "no body"
	}
	var out []PathSummary
	errS := ""
	base := NewTermer(fn)
	type frame struct {
		env    map[ssa.Value]string
		mem    map[string]string // lvalue path -> term, for non-escaping local allocs
		conds  []string
		effs   []string
		onPath map[int]bool
	}
	cloneF := func(f frame) frame {
		n := frame{env: map[ssa.Value]string{}, mem: map[string]string{}, onPath: map[int]bool{}}
		for k, v := range f.env {
			n.env[k] = v
		}
		for k, v := range f.mem {
			n.mem[k] = v
		}
		for k, v := range f.onPath {
			n.onPath[k] = v
		}
		n.conds = append([]string{}, f.conds...)
		n.effs = append([]string{}, f.effs...)
		return n
	}
	localAlloc := func(addr ssa.Value) (*ssa.Alloc, bool) {
		root, _ := allocRoot(addr)
		if root == nil || escapesBeyondClosures(root) {
			return nil, false
		}
		return root, true
	}
	var walk func(b, pred *ssa.BasicBlock, f frame)
	walk = func(b, pred *ssa.BasicBlock, f frame) {
		if errS != "" {
			return
		}
		if len(out) >= maxPaths {
			errS = "too many paths"
			return
		}
		if f.onPath[b.Index] {
			out = append(out, PathSummary{Conds: f.conds, Effects: f.effs, Result: "backedge"})
			return
		}
		f.onPath[b.Index] = true
		// term of a value on this path
		var T func(v ssa.Value) string
		T = func(v ssa.Value) string {
			if s, ok := f.env[v]; ok {
				return s
			}
			return base.T(v)
		}
		lpath := func(addr ssa.Value) string {
			// lvalue path with local alloc identity
			root, fp := allocRoot(addr)
			if root != nil {
				s := fmt.Sprintf("%s#%s", root.Name(), TypeStr(root.Type().(*types.Pointer).Elem()))
				ty := root.Type().(*types.Pointer).Elem()
				for _, fi := range fp {
					if st, ok := ty.Underlying().(*types.Struct); ok {
						s += "." + st.Field(fi).Name()
						ty = st.Field(fi).Type()
					}
				}
				return s
			}
			return base.path(addr)
		}
		// loadLocal renders the content of a local lvalue (recursively for structs)
		var loadLocal func(p string, ty types.Type) string
		loadLocal = func(p string, ty types.Type) string {
			if v, ok := f.mem[p]; ok {
				return v
			}
			if st, ok := ty.Underlying().(*types.Struct); ok {
				// composite of fields if any field known
				known := false
				var parts []string
				for i := 0; i < st.NumFields(); i++ {
					fp := p + "." + st.Field(i).Name()
					has := false
					for k := range f.mem {
						if k == fp || strings.HasPrefix(k, fp+".") {
							has = true
						}
					}
					if has {
						known = true
					}
					parts = append(parts, st.Field(i).Name()+": "+loadLocal(fp, st.Field(i).Type()))
				}
				if known {
					return TypeStr(ty) + "{" + strings.Join(parts, ", ") + "}"
				}
			}
			return "zero"
		}
		storeLocal := func(p string, val string, ty types.Type) {
			// overwrite p and forget sub-fields
			for k := range f.mem {
				if strings.HasPrefix(k, p+".") {
					delete(f.mem, k)
				}
			}
			f.mem[p] = val
			// a store to a sub-field invalidates whole-struct entries of its parents:
			// split parent composites lazily: if parent has a whole value, expand it
			for {
				i := strings.LastIndex(p, ".")
				if i < 0 {
					break
				}
				parent := p[:i]
				if pv, ok := f.mem[parent]; ok {
					// expand parent into field projections
					delete(f.mem, parent)
					f.mem[parent+".$whole"] = pv
				}
				p = parent
			}
		}
		for _, in := range b.Instrs {
			switch x := in.(type) {
			case *ssa.DebugRef:
			case *ssa.Phi:
				for i, p := range b.Preds {
					if p == pred {
						f.env[x] = T(x.Edges[i])
					}
				}
			case *ssa.UnOp:
				if x.Op == token.MUL {
					if _, ok := localAlloc(x.X); ok {
						p := lpath(x.X)
						// look for whole-parent values
						v := ""
						if mv, ok := f.mem[p]; ok {
							v = mv
						} else {
							// parent whole value?
							q := p
							suffix := ""
							found := false
							for {
								i := strings.LastIndex(q, ".")
								if i < 0 {
									break
								}
								suffix = q[i:] + suffix
								q = q[:i]
								if pv, ok := f.mem[q]; ok {
									v = pv + suffix
									found = true
									break
								}
								if pv, ok := f.mem[q+".$whole"]; ok {
									v = pv + suffix
									found = true
									break
								}
							}
							if !found {
								if pv, ok := f.mem[p+".$whole"]; ok {
									// whole value with some fields overwritten
									ty := x.Type()
									if st, ok := ty.Underlying().(*types.Struct); ok {
										var parts []string
										for i := 0; i < st.NumFields(); i++ {
											fp := p + "." + st.Field(i).Name()
											if fv, ok := f.mem[fp]; ok {
												parts = append(parts, st.Field(i).Name()+": "+fv)
											} else {
												parts = append(parts, st.Field(i).Name()+": "+pv+"."+st.Field(i).Name())
											}
										}
										v = TypeStr(ty) + "{" + strings.Join(parts, ", ") + "}"
									} else {
										v = pv
									}
								} else {
									v = loadLocal(p, x.Type())
								}
							}
						}
						f.env[x] = v
						continue
					}
				}
				f.env[x] = pathTerm(base, x, T)
			case *ssa.Store:
				if _, ok := localAlloc(x.Addr); ok {
					storeLocal(lpath(x.Addr), T(x.Val), x.Val.Type())
				} else {
					f.effs = append(f.effs, "store "+pathOf(base, x.Addr, T)+" = "+T(x.Val))
				}
			case *ssa.MapUpdate:
				f.effs = append(f.effs, "mapupdate "+T(x.Map)+"["+T(x.Key)+"] = "+T(x.Value))
			case *ssa.Send:
				f.effs = append(f.effs, "send "+T(x.Chan)+" <- "+T(x.X))
			case *ssa.Go, *ssa.Defer:
				ci := in.(ssa.CallInstruction)
				var as []string
				for _, a := range CallArgs(ci) {
					as = append(as, T(a))
				}
				kind := "go"
				if _, ok := in.(*ssa.Defer); ok {
					kind = "defer"
				}
				f.effs = append(f.effs, kind+" "+CalleeName(ci)+"("+strings.Join(as, ", ")+")")
			case *ssa.Call:
				var as []string
				for _, a := range CallArgs(x) {
					as = append(as, T(a))
				}
				if g := x.Common().StaticCallee(); g != nil && inlineable(g) && effectFree(g) {
					// a value helper extracted later (inline.go): its result is the expression it computes
					if rt, ok := singleReturnTerm(g, as, x); ok {
						f.env[x] = rt
						continue
					}
				}
				s := CalleeName(x) + "(" + strings.Join(as, ", ") + ")"
				f.env[x] = s
				f.effs = append(f.effs, "call "+s)
			case *ssa.RunDefers:
			case *ssa.If:
				a, pol := pathCondAtom(base, x.Cond, T)
				for i, s := range b.Succs {
					holds := pol
					if i == 1 {
						holds = !pol
					}
					lit := a
					neg := "!" + a
					if !holds {
						lit, neg = neg, lit
					}
					contra := false
					for _, c0 := range f.conds {
						if c0 == neg {
							contra = true
						}
					}
					if contra {
						continue
					}
					if a == "true" && !holds || a == "false" && holds {
						continue
					}
					nf := cloneF(f)
					dup := false
					for _, c0 := range nf.conds {
						if c0 == lit {
							dup = true
						}
					}
					if !dup && a != "true" && a != "false" {
						nf.conds = append(nf.conds, lit)
					}
					walk(s, b, nf)
				}
				return
			case *ssa.Jump:
				walk(b.Succs[0], b, cloneF(f))
				return
			case *ssa.Return:
				var rs []string
				for _, r := range x.Results {
					rs = append(rs, T(r))
				}
				out = append(out, PathSummary{Conds: f.conds, Effects: f.effs, Result: "return " + strings.Join(rs, ", ")})
				return
			case *ssa.Panic:
				out = append(out, PathSummary{Conds: f.conds, Effects: f.effs, Result: "panic " + T(x.X)})
				return
			default:
				if v, ok := in.(ssa.Value); ok {
					f.env[v] = pathTerm(base, v, T)
				}
			}
		}
	}
	walk(fn.Blocks[0], nil, frame{env: map[ssa.Value]string{}, mem: map[string]string{}, onPath: map[int]bool{}})
	return out, errS
}

// pathTerm renders v like Termer.term but takes operand terms from T.
func pathTerm(base *Termer, v ssa.Value, T func(ssa.Value) string) string {
	switch x := v.(type) {
	case *ssa.BinOp:
		a, b := T(x.X), T(x.Y)
		op := x.Op
		switch op {
		case token.GTR:
			a, b, op = b, a, token.LSS
		case token.GEQ:
			a, b, op = b, a, token.LEQ
		case token.ADD, token.MUL, token.AND, token.OR, token.XOR, token.EQL, token.NEQ:
			if isCommutative(x) && a > b {
				a, b = b, a
			}
		}
		return "(" + a + " " + op.String() + " " + b + ")"
	case *ssa.UnOp:
		switch x.Op {
		case token.MUL:
			return pathOf(base, x.X, T)
		case token.NOT:
			return "!" + T(x.X)
		case token.SUB:
			return "-" + T(x.X)
		case token.ARROW:
			return "<-" + T(x.X)
		}
		return x.Op.String() + T(x.X)
	case *ssa.Convert:
		return T(x.X)
	case *ssa.ChangeType:
		return T(x.X)
	case *ssa.MakeInterface:
		return T(x.X)
	case *ssa.ChangeInterface:
		return T(x.X)
	case *ssa.FieldAddr:
		fv, _ := fieldOf(x)
		return "&" + pathOf(base, x.X, T) + "." + fv.Name()
	case *ssa.Field:
		fv, _ := fieldOf(x)
		return T(x.X) + "." + fv.Name()
	case *ssa.IndexAddr:
		return "&" + pathOf(base, x.X, T) + "[" + T(x.Index) + "]"
	case *ssa.Index:
		return T(x.X) + "[" + T(x.Index) + "]"
	case *ssa.Lookup:
		return T(x.X) + "[" + T(x.Index) + "]"
	case *ssa.Extract:
		return T(x.Tuple) + "#" + fmt.Sprint(x.Index)
	case *ssa.Slice:
		lo, hi := "", ""
		if x.Low != nil {
			lo = T(x.Low)
		}
		if x.High != nil {
			hi = T(x.High)
		}
		s := pathOf(base, x.X, T) + "[" + lo + ":" + hi
		if x.Max != nil {
			s += ":" + T(x.Max)
		}
		return s + "]"
	case *ssa.TypeAssert:
		return T(x.X) + ".(" + TypeStr(x.AssertedType) + ")"
	}
	return base.T(v)
}

func pathOf(base *Termer, addr ssa.Value, T func(ssa.Value) string) string {
	s := T(addr)
	return strings.TrimPrefix(s, "&")
}

func pathCondAtom(base *Termer, v ssa.Value, T func(ssa.Value) string) (string, bool) {
	switch x := v.(type) {
	case *ssa.UnOp:
		if x.Op == token.NOT {
			a, p := pathCondAtom(base, x.X, T)
			return a, !p
		}
	case *ssa.BinOp:
		if a, pol, ok := cmpAtom(x, T(x.X), T(x.Y)); ok {
			return a, pol
		}
	}
	return T(v), true
}

// FormatPaths renders path summaries deterministically (for evidence and debugging).
func FormatPaths(ps []PathSummary, withEffects bool) []string {
	var out []string
	for _, p := range ps {
		s := "[" + strings.Join(p.Conds, " && ") + "] => " + p.Result
		if withEffects && len(p.Effects) > 0 {
			s += "  {" + strings.Join(p.Effects, "; ") + "}"
		}
		out = append(out, s)
	}
	sort.Strings(out)
	return out
}
