package np

import (
	"strings"

	"golang.org/x/tools/go/ssa"
)

func init() { register("C18", propC18) }

func propC18(c *Ctx) {
	c.Explanation = "Mutual exclusion and freedom from lost wake-ups quantify over interleavings of the mutex's atomic operations; no static argument in reach enumerates schedules, so they are NOT decided. Decided are the structural necessary conditions the published protocol (v: 1 free, 0 held, negative held-with-waiters; one token in a 1-buffered channel) rests on: (M1) TryLock and Unlock contain no operation that can block (no receive, no blocking send/select, no lock or park call, no dynamic call), and Lock's only blocking operation is the receive on m.ch; (M2) the state word v is touched only as &m.v handed to sync/atomic functions, except the plain store in Init, and ch is written only in Init with make(chan struct{}, 1) - capacity exactly 1; (M3) the exact protocol tables: TryLock returns false when the loaded state is <= 0 and otherwise exactly the result of CompareAndSwapInt32(&v,1,0); Unlock swaps in 1 and sends the token, through a non-blocking select, exactly when the old value was not 0 - no other condition may suppress or add the signal; Lock returns only when AddInt32(&v,-1) == 0 or when, in the slow path, the state was >= 0 and SwapInt32(&v,-1) returned 1, and it sleeps on the channel only after that test failed. Any edit that adds, drops or re-guards an atomic operation, the signal or the sleep changes one of these tables. (M4) package tmutex converts its state word to no narrower type. NOT decided: that the protocol itself is correct under every interleaving (that is a model-checking question)."
	tm := "(*tmutex.Mutex)."
	av := func(op, args string) string { return "sync/atomic." + op + "(&$0.v" + args + ")" }

	c.NoNewNarrowing(c.Rule("M4", "K8 narrowing (closed world, reviewed table)", "package tmutex converts its state word to no narrower type", 2), []string{"/pkg/tmutex"}, nil)
	m1 := c.Rule("M1", "K11 effect confinement", "TryLock/Unlock cannot block; Lock blocks only on m.ch", 3)
	for _, name := range []string{"TryLock", "Unlock"} {
		if fn := c.Fn(m1, tm+name); fn != nil {
			ops := c.BlockingOps(fn, 3)
			c.Check(len(ops) == 0, m1, FuncName(fn)+"/non-blocking", c.P.Pos(fn.Pos()), "no blocking operation reachable", "may block: "+strings.Join(ops, "; "))
		}
	}
	if fn := c.Fn(m1, tm+"Lock"); fn != nil {
		ops := c.BlockingOps(fn, 3)
		c.Check(len(ops) == 1 && ops[0] == "recv $0.ch", m1, FuncName(fn)+"/blocks-only-on-ch", c.P.Pos(fn.Pos()), "only blocking operation: receive on m.ch", "blocking operations: "+strings.Join(ops, "; "))
	}

	m2 := c.Rule("M2", "K3 access confinement", "v only through sync/atomic; ch made once with capacity 1", 6)
	c.AtomicOnly(m2, "tmutex.Mutex", "v", map[string]string{"(*tmutex.Mutex).Init": "initialisation before the mutex is shared"})
	c.OnlyIn(m2, "store to Mutex.ch", c.FieldStores("tmutex.Mutex", "ch"), tm+"Init")
	if fn := c.Fn(m2, tm+"Init"); fn != nil {
		c.CheckSites(m2, fn, []SiteSpec{
			{Kind: "store", Target: "tmutex.Mutex.v", Args: []string{"$0", "1"}, Guards: []string{}, Exact: true, N: 1, Why: "initial state: free"},
			{Kind: "store", Target: "tmutex.Mutex.ch", Args: []string{"$0", "make(chan struct{}, 1)"}, Guards: []string{}, Exact: true, N: 1, Why: "token channel with capacity exactly 1: Unlock's non-blocking send never loses the (single) token and never blocks"},
		})
	}
	// ch is used only by the receive in Lock and the select-send in Unlock.
	for _, fn := range c.P.Funcs {
		for _, fa := range FieldAccesses(fn) {
			if fa.Field.Name() != "ch" || !typeNamed(fa.Base.Type(), "tmutex.Mutex") || fa.Write {
				continue
			}
			for _, n := range c.Owners(fn) {
				c.Check(n == tm+"Lock" || n == tm+"Unlock", m2, "Mutex.ch/read-in:"+n, c.pos(fa.Instr), "token channel used by Lock/Unlock", "token channel read outside Lock/Unlock: tokens can be stolen or added")
			}
		}
	}

	m3 := c.Rule("M3", "K7 exact-guard site tables", "protocol tables of TryLock, Unlock, Lock", 12)
	if fn := c.Fn(m3, tm+"TryLock"); fn != nil {
		held := "(" + av("LoadInt32", "") + " < 1)"
		free := "!" + held
		c.CheckSites(m3, fn, []SiteSpec{
			{Kind: "call", Target: "sync/atomic.LoadInt32", Args: []string{"&$0.v"}, Guards: []string{}, Exact: true, N: 1, Why: "one look at the state"},
			{Kind: "return", Args: []string{"false"}, Guards: []string{held}, Exact: true, N: 1, Why: "held (0) or held-with-waiters (<0): fail without touching the state"},
			{Kind: "call", Target: "sync/atomic.CompareAndSwapInt32", Args: []string{"&$0.v", "1", "0"}, Guards: []string{free}, Exact: true, N: 1, Why: "acquire only by 1 -> 0"},
			{Kind: "return", Args: []string{av("CompareAndSwapInt32", ", 1, 0")}, Guards: []string{free}, Exact: true, N: 1, Why: "success is exactly the CAS result"},
		})
	}
	if fn := c.Fn(m3, tm+"Unlock"); fn != nil {
		uncont := "(0 == " + av("SwapInt32", ", 1") + ")"
		c.CheckSites(m3, fn, []SiteSpec{
			{Kind: "call", Target: "sync/atomic.SwapInt32", Args: []string{"&$0.v", "1"}, Guards: []string{}, Exact: true, N: 1, Why: "release: state := free, old value decides the signal"},
			{Kind: "return", Guards: []string{uncont}, Exact: true, N: 1, Why: "old value 0: nobody waited, no signal"},
			{Kind: "select", Args: []string{"blocking=false", "send $0.ch <- zero"}, Guards: []string{"!" + uncont}, Exact: true, N: 1, Why: "old value != 0 (waiters): the token is sent, non-blocking, under no other condition"},
			{Kind: "return", Guards: []string{"!" + uncont}, Exact: true, N: 1, Why: "after the signal"},
		})
	}
	if fn := c.Fn(m3, tm+"Lock"); fn != nil {
		slow := "!(0 == " + av("AddInt32", ", -1") + ")"
		nonneg := "!(" + av("LoadInt32", "") + " < 0)"
		c.CheckSites(m3, fn, []SiteSpec{
			{Kind: "call", Target: "sync/atomic.AddInt32", Args: []string{"&$0.v", "-1"}, Guards: []string{}, Exact: true, N: 1, Why: "fast path: 1 -> 0 acquires; otherwise the state goes negative (waiter registered)"},
			{Kind: "return", Guards: []string{"(0 == " + av("AddInt32", ", -1") + ")"}, Exact: true, N: 1, Why: "acquired on the fast path"},
			{Kind: "call", Target: "sync/atomic.LoadInt32", Args: []string{"&$0.v"}, Guards: []string{slow}, Exact: true, N: 1, Why: "slow path re-check"},
			{Kind: "call", Target: "sync/atomic.SwapInt32", Args: []string{"&$0.v", "-1"}, Guards: []string{slow, nonneg}, Exact: true, N: 1, Why: "state >= 0: claim it, leaving -1 so that the eventual Unlock signals"},
			{Kind: "return", Guards: []string{slow, nonneg, "(1 == " + av("SwapInt32", ", -1") + ")"}, Exact: true, N: 1, Why: "acquired iff the swapped-out value was 1 (free)"},
			{Kind: "recv", Args: []string{"$0.ch"}, Guards: []string{slow}, Exact: true, N: 1, Why: "sleep for a token only on the slow path"},
		})
		// The receive is reached only after the re-check failed in the same iteration:
		// every path from the loop head to the recv passes the Load (and a failed test).
		var recv, load ssa.Instruction
		for _, st := range Sites(fn) { // Sites: the receive may sit in a helper extracted later (inline.go); its position is then the call
			if st.Kind == "recv" {
				recv = st.Instr
			}
			if st.Kind == "call" && st.Target == "sync/atomic.LoadInt32" {
				load = st.Instr
			}
		}
		if recv != nil && load != nil {
			c.Check(InstrDominates(load, recv), m3, FuncName(fn)+"/recheck-before-sleep", c.pos(recv), "the state re-check dominates the sleep", "Lock can sleep on the channel without re-checking the state first: a token sent before the sleep is the only wake-up")
			// after waking, the loop re-checks: recv's block must lead back to load without returning
			c.Check(instrReaches(recv, load), m3, FuncName(fn)+"/recheck-after-wake", c.pos(recv), "after a wake-up the state is re-checked (loop)", "a woken Lock does not loop back to re-check the state")
		} else {
			c.Broken(m3, FuncName(fn)+"/recheck-before-sleep", "receive or load not found")
		}
	}
}
