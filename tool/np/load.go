// Package np is the repository-specific static analyser for brewlin/net-protocol.
package np

import (
	"fmt"
	"go/token"
	"go/types"
	"os"
	"path/filepath"
	"sort"
	"strings"

	"golang.org/x/tools/go/callgraph"
	"golang.org/x/tools/go/callgraph/cha"
	"golang.org/x/tools/go/callgraph/vta"
	"golang.org/x/tools/go/packages"
	"golang.org/x/tools/go/ssa"
	"golang.org/x/tools/go/ssa/ssautil"
)

const Mod = "github.com/brewlin/net-protocol"

// toleratedErrPkgs are the demo directories that hold two main functions each
// (go run file.go demos) and therefore never type-check as packages.
var toleratedErrPkgs = []string{Mod + "/cmd/", Mod + "/tool"}

// Program is the loaded, type-checked, SSA-built view of /repo.
type Program struct {
	Dir    string
	Fset   *token.FileSet
	Pkgs   []*packages.Package
	ByPath map[string]*packages.Package
	SSA    *ssa.Program
	// All module functions (incl. anonymous), sorted by name.
	Funcs    []*ssa.Function
	byName   map[string]*ssa.Function
	cg       *callgraph.Graph
	chaCG    *callgraph.Graph
	Overlay  map[string][]byte
	LoadErrs []string
	la       *LockAnalysis
}

type LoadConfig struct {
	Dir     string
	GOARCH  string
	Tags    string
	Overlay map[string][]byte
}

func Load(cfg LoadConfig) (*Program, error) {
	env := []string{}
	for _, e := range os.Environ() {
		if strings.HasPrefix(e, "GOWORK=") || strings.HasPrefix(e, "GOFLAGS=") || strings.HasPrefix(e, "GOARCH=") {
			continue
		}
		env = append(env, e)
	}
	env = append(env, "GOWORK=off", "GOFLAGS=-mod=mod", "GOPROXY=off", "GOSUMDB=off", "GOTOOLCHAIN=local", "CGO_ENABLED=0")
	if cfg.GOARCH != "" {
		env = append(env, "GOARCH="+cfg.GOARCH)
	}
	pc := &packages.Config{
		Mode:    packages.LoadAllSyntax,
		Dir:     cfg.Dir,
		Env:     env,
		Tests:   false,
		Overlay: cfg.Overlay,
	}
	if cfg.Tags != "" {
		pc.BuildFlags = []string{"-tags=" + cfg.Tags}
	}
	pkgs, err := packages.Load(pc, "./...")
	if err != nil {
		return nil, fmt.Errorf("packages.Load: %v", err)
	}
	p := &Program{Dir: cfg.Dir, Pkgs: pkgs, ByPath: map[string]*packages.Package{}, byName: map[string]*ssa.Function{}, Overlay: cfg.Overlay}
	var good []*packages.Package
	for _, pk := range pkgs {
		p.ByPath[pk.PkgPath] = pk
		tolerated := false
		for _, t := range toleratedErrPkgs {
			if strings.HasPrefix(pk.PkgPath, t) {
				tolerated = true
			}
		}
		if len(pk.Errors) > 0 || pk.IllTyped {
			if !tolerated {
				for _, e := range pk.Errors {
					p.LoadErrs = append(p.LoadErrs, fmt.Sprintf("%s: %s", pk.PkgPath, e.Error()))
				}
				if len(pk.Errors) == 0 {
					p.LoadErrs = append(p.LoadErrs, pk.PkgPath+": ill-typed")
				}
			}
			if pk.IllTyped || len(pk.Errors) > 0 {
				continue
			}
		}
		if pk.Types != nil && pk.TypesInfo != nil {
			good = append(good, pk)
			p.Fset = pk.Fset
		}
	}
	if len(good) < 40 {
		return nil, fmt.Errorf("only %d packages type-checked (expected >= 40); load errors: %v", len(good), p.LoadErrs)
	}
	prog, _ := ssautil.AllPackages(good, ssa.InstantiateGenerics)
	prog.Build()
	p.SSA = prog
	p.initNames()
	for fn := range ssautil.AllFunctions(prog) {
		if fn.Pkg == nil || fn.Pkg.Pkg == nil {
			// wrappers/thunks of module types have no Pkg; keep synthetic ones out
			continue
		}
		if !strings.HasPrefix(fn.Pkg.Pkg.Path(), Mod) {
			continue
		}
		if fn.Blocks == nil {
			continue
		}
		p.Funcs = append(p.Funcs, fn)
	}
	sort.Slice(p.Funcs, func(i, j int) bool {
		a, b := p.Funcs[i], p.Funcs[j]
		if a.String() != b.String() {
			return a.String() < b.String()
		}
		return a.Pos() < b.Pos()
	})
	for _, fn := range p.Funcs {
		if fn.Synthetic != "" {
			continue
		}
		if _, dup := p.byName[FuncName(fn)]; !dup {
			p.byName[FuncName(fn)] = fn
		}
	}
	return p, nil
}

// Func resolves a function by short name; nil if absent.
func (p *Program) Func(name string) *ssa.Function { return p.byName[name] }

// Pkg returns the types.Package for a path relative to the module.
func (p *Program) Pkg(rel string) *types.Package {
	pk := p.ByPath[Mod+"/"+rel]
	if pk == nil {
		return nil
	}
	return pk.Types
}

// Field resolves "rel/pkg.Type.field" to its *types.Var.
func (p *Program) Field(rel, typ, field string) *types.Var {
	pk := p.Pkg(rel)
	if pk == nil {
		return nil
	}
	obj := pk.Scope().Lookup(typ)
	if obj == nil {
		return nil
	}
	st, ok := obj.Type().Underlying().(*types.Struct)
	if !ok {
		return nil
	}
	for i := 0; i < st.NumFields(); i++ {
		if st.Field(i).Name() == field {
			return st.Field(i)
		}
	}
	return nil
}

func (p *Program) Pos(pos token.Pos) string {
	if !pos.IsValid() {
		return "?"
	}
	po := p.Fset.Position(pos)
	f := po.Filename
	if strings.HasPrefix(f, p.Dir+"/") {
		f = f[len(p.Dir)+1:]
	}
	return fmt.Sprintf("%s:%d", f, po.Line)
}

// CallGraph returns the VTA call graph seeded by CHA.
func (p *Program) CallGraph() *callgraph.Graph {
	if p.cg == nil {
		p.cg = vta.CallGraph(ssautil.AllFunctions(p.SSA), p.CHA())
	}
	return p.cg
}

func (p *Program) CHA() *callgraph.Graph {
	if p.chaCG == nil {
		p.chaCG = cha.CallGraph(p.SSA)
	}
	return p.chaCG
}

// IsModuleFunc reports whether fn is a source function of the analysed module.
func (p *Program) IsModuleFunc(fn *ssa.Function) bool {
	return fn != nil && fn.Pkg != nil && fn.Pkg.Pkg != nil && strings.HasPrefix(fn.Pkg.Pkg.Path(), Mod) && fn.Blocks != nil
}

// ReadRepoFile reads a file of the analysed tree (overlay first), by path
// relative to the repository root - for the one non-Go source a rule looks at.
func (p *Program) ReadRepoFile(rel string) ([]byte, error) {
	full := filepath.Join(p.Dir, rel)
	if b, ok := p.Overlay[full]; ok {
		return b, nil
	}
	return os.ReadFile(full)
}
