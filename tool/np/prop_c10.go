package np

import (
	"strings"

	"golang.org/x/tools/go/ssa"
)

func init() { register("C10", propC10) }

func propC10(c *Ctx) {
	c.Explanation = "Decides structural necessary conditions of port exclusivity for all schedules and inputs: (Q1) every access to PortManager.allocatedPorts happens with PortManager.mu held (must-lockset, interprocedural, closure passed to PickEphemeralPort included) and the availability check and the insertion lie in one critical section; (Q2) bindAddresses.isAvailable computes exactly the conflict relation of the property (decision table over its branch atoms, all assignments); (Q5) isPortAvailableLocked answers 'available' only after every network of the request was examined, and reserveSpecificPort inserts for every network only after that answer; (Q3) PickEphemeralPort tries offsets i in [0,count) of the range, returns ErrNoPortAvailable only after the loop is exhausted, propagates a tester error unchanged, and its port arithmetic neither wraps nor leaves [16000,65535] (interval analysis); (Q4) reservations made by TCP Bind and UDP registerWithStack/bindLocked are released on every later error exit with the same arguments, Close releases what the endpoint holds, and ReleasePort deletes only the (network,transport,port)/address entry it was given. Q5 also tables reserveSpecificPort: a fresh address set per descriptor, the address inserted for every network. (Q7) every stack has its own fresh port manager; (Q8) a specific port is reserved exactly when it is available for every requested network. (Q9) port arithmetic narrows only where the value is below the range size. NOT decided: that the map content over a history of calls is what the sequence implies (histories quantifier)."
	c.Assumptions = []string{"math/rand.Int31n(n) returns a value in [0,n)", "closures passed to PickEphemeralPort are invoked synchronously by it (checked: it calls its parameter and never stores it)"}
	pm := "(*ports.PortManager)."

	// Q1 lockset
	stackCtorRule(c, c.Rule("Q7", "K7 exact-guard site table (shared with C12/T8)", "every stack has its own fresh port manager", 3))
	portReserveReturnsRule(c, c.Rule("Q8", "K7 closed return table", "a specific port is reserved exactly when it is available for every requested network", 2))
	c.NoNewNarrowing(c.Rule("Q9", "K8 narrowing (closed world, reviewed table)", "port arithmetic narrows only where the value is below the range size", 4), []string{"/protocol/ports"}, narrowPorts)
	q1 := c.Rule("Q1", "K4 lockset", "allocatedPorts only under PortManager.mu", 6)
	la := c.Locks()
	la.CheckGuards(c, q1, guardsPorts, nil)
	// K4a: check and insert in one critical section
	q1a := c.Rule("Q1a", "K4a atomicity", "availability check and insertion are one critical section", 2)
	if fn := c.Fn(q1a, pm+"reserveSpecificPort"); fn != nil {
		checks := c.Calls(fn, Is(pm+"isPortAvailableLocked"), false)
		if len(checks) == 0 {
			c.Bad(q1a, FuncName(fn)+"/no-check", c.P.Pos(fn.Pos()), "reserveSpecificPort no longer checks availability before inserting")
		}
		for _, chk := range checks {
			// no unlock reachable after the check inside this function
			unl := ReachAvoiding(fn, chk, nil, func(in ssa.Instruction) bool {
				if ci, ok := in.(*ssa.Call); ok {
					if op := lockOpOf(NewTermer(fn), ci); op != nil && (op.kind == "unlock" || op.kind == "runlock") {
						return true
					}
					if callee := ci.Common().StaticCallee(); callee != nil && len(la.Released[callee]) > 0 {
						return true
					}
				}
				return false
			})
			c.Check(unl == nil, q1a, FuncName(fn)+"/check-then-insert", c.pos(chk), "no unlock between availability check and insertion", "lock released between check and insertion")
			// every map insertion is dominated by the true edge of the check
			Instrs(fn, func(in ssa.Instruction) {
				if mu, ok := in.(*ssa.MapUpdate); ok {
					c.Guarded(q1a, "insert-after-check:"+Term(mu.Map), mu, AtomIs(true, Contains(pm+"isPortAvailableLocked(")), "isPortAvailableLocked(...) == true")
				}
			})
		}
		ent := la.Entry[fn]
		held := false
		for _, h := range ent {
			if h.Class == "ports.PortManager.mu" && h.Write {
				held = true
			}
		}
		c.Check(held, q1a, FuncName(fn)+"/entry-lock", c.P.Pos(fn.Pos()), "every caller holds PortManager.mu (write) at the call", "some caller reaches reserveSpecificPort without PortManager.mu held in write mode: "+ent.String())
	}

	// Q2 decision table of isAvailable
	q2 := c.Rule("Q2", "K9 decision table", "isAvailable == conflict relation of the property", 8)
	if fn := c.Fn(q2, "ports.bindAddresses.isAvailable"); fn != nil {
		any := `("" == $1)`
		hasAny := `$0[""]#1`
		hasAddr := `$0[$1]#1`
		empty := `(0 == builtin:len($0))`
		c.CheckTable(q2, fn, []string{any, hasAny, hasAddr, empty}, func(a map[string]bool) string {
			if a[any] {
				if a[empty] { // wildcard request: free iff nothing at all is bound
					return "true"
				}
				return "false"
			}
			if a[hasAny] || a[hasAddr] {
				return "false"
			}
			return "true"
		})
	}

	// Q5: all networks examined
	q5 := c.Rule("Q5", "K1 loop exits", "available only after all networks were examined; insert for all networks", 4)
	if fn := c.Fn(q5, pm+"isPortAvailableLocked"); fn != nil {
		loopEdge := AtomIs(false, func(s string) bool { return strings.Contains(s, "< builtin:len($1))") })
		Instrs(fn, func(in ssa.Instruction) {
			r, ok := in.(*ssa.Return)
			if !ok || len(r.Results) != 1 || in.Block().Comment == "recover" {
				return
			}
			t := Term(r.Results[0])
			switch t {
			case "true":
				c.Guarded(q5, "return-true", r, loopEdge, "exhaustion of the networks loop")
			case "false":
				c.Guarded(q5, "return-false", r, AtomIs(false, Contains("ports.bindAddresses.isAvailable(")), "isAvailable(...) == false for some network")
			default:
				c.Bad(q5, FuncName(fn)+"/return-other:"+t, c.pos(r), "returns a value other than the constants true (after the loop) / false (on a conflict): the verdict of one network decides for all")
			}
		})
		// isAvailable is asked about the set of the network being iterated and the requested address
		for _, ci := range c.Calls(fn, Is("ports.bindAddresses.isAvailable"), false) {
			c.ArgIs(q5, "isAvailable-set", ci, 0, "$0.allocatedPorts[ports.portDescriptor{network: $1[(1 + phi{-1 | loop})], transport: $2, port: $4}]#0")
			c.ArgIs(q5, "isAvailable-addr", ci, 1, "$3")
		}
	}
	if fn := c.Fn(q5, pm+"reserveSpecificPort"); fn != nil {
		Instrs(fn, func(in ssa.Instruction) {
			r, ok := in.(*ssa.Return)
			if !ok || len(r.Results) != 1 || in.Block().Comment == "recover" {
				return
			}
			if Term(r.Results[0]) == "true" {
				c.Guarded(q5, "reserved-all", r, AtomIs(false, func(s string) bool { return strings.Contains(s, "< builtin:len($1))") }), "exhaustion of the networks loop")
			}
		})
		n := 0
		for _, st := range Sites(fn) { // Sites: also through a helper extracted later (inline.go)
			if st.Kind == "mapupdate" && len(st.Args) == 3 && strings.HasSuffix(st.Args[0], "}") && st.Args[1] == "$3" { // inner set: m[addr] = {}
				n++
				c.Ok(q5, FuncName(fn)+"/insert-addr", c.pos(st.Instr), "m[addr] = struct{}{} with addr = $3")
			}
		}
		if n == 0 {
			c.Bad(q5, FuncName(fn)+"/insert-addr", c.P.Pos(fn.Pos()), "no insertion of the requested address into the per-port set")
		}
	}

	// Q3: PickEphemeralPort loop structure (the arithmetic is in Q3i, interval engine)
	q3 := c.Rule("Q3", "K1/K5", "ephemeral search: full range, fail only after the loop, tester error propagated", 4)
	if fn := c.Fn(q3, pm+"PickEphemeralPort"); fn != nil {
		Instrs(fn, func(in ssa.Instruction) {
			r, ok := in.(*ssa.Return)
			if !ok || len(r.Results) != 2 || in.Block().Comment == "recover" {
				return
			}
			t1 := Term(r.Results[1])
			switch {
			case t1 == "tcpip.ErrNoPortAvailable":
				c.Guarded(q3, "no-port-only-after-loop", r, AtomIs(false, Exactly("(phi{(1 + loop) | 0} < 49536)")), "the loop condition i < count (count = 49536) failing")
			case t1 == "nil":
				c.Guarded(q3, "success-needs-ok", r, AtomIs(true, func(s string) bool { return strings.HasPrefix(s, "dyn(") && strings.HasSuffix(s, "#0") }), "testPort(port) returned ok")
				c.TermIs(q3, "returned-port-is-tested-port", r, r.Results[0], "(((math/rand.Int31n(49536) + phi{(1 + loop) | 0}) % 49536) + 16000)")
			case strings.HasPrefix(t1, "dyn(") && strings.HasSuffix(t1, "#1"):
				c.Ok(q3, FuncName(fn)+"/tester-error-propagated", c.pos(r), "returns the tester's error as is")
			default:
				c.Bad(q3, FuncName(fn)+"/return-other:"+t1, c.pos(r), "unexpected error result "+t1)
			}
		})
		for _, ci := range c.Calls(fn, Is("dyn"), false) {
			c.ArgIs(q3, "tested-port", ci, 0, "(((math/rand.Int31n(49536) + phi{(1 + loop) | 0}) % 49536) + 16000)")
		}
	}
	propC10Intervals(c)

	// Q4: pairing
	c.Returns(q1, pm+"IsPortAvailable", RetSpec{Args: []string{pm + "isPortAvailableLocked($0, $1, $2, $3, $4)"}, Why: "the exported test is the locked test with the caller's arguments"})

	if fn := c.Fn(q5, pm+"reserveSpecificPort"); fn != nil {
		desc := "ports.portDescriptor{network: $1[(1 + phi{-1 | loop})], transport: $2, port: $4}"
		av := pm + "isPortAvailableLocked($0, $1, $2, $3, $4)"
		in := "((1 + phi{-1 | loop}) < builtin:len($1))"
		c.CheckSites(q5, fn, []SiteSpec{
			{Kind: "mapupdate", Args: []string{"$0.allocatedPorts", desc, "make(ports.bindAddresses)"}, Guards: []string{"!$0.allocatedPorts[" + desc + "]#1", in, av}, Exact: true, N: 1, Why: "every (network, transport, port) descriptor that has no address set yet gets its OWN fresh set - one per network, never shared between descriptors"},
			{Kind: "mapupdate", Args: []string{"phi{$0.allocatedPorts[" + desc + "]#0 | make(ports.bindAddresses)}", "$3", "zero"}, Guards: []string{in, av}, Exact: true, N: 1, Why: "the address is inserted into the set of each requested network"},
		})
	}

	q4 := c.Rule("Q4", "K2 pairing / K5", "reservations released on later error exits; ReleasePort deletes only its entry", 8)
	release := Is("(*ports.PortManager).ReleasePort")
	if fn := c.Fn(q4, "(*tcp.endpoint).Bind"); fn != nil {
		res := c.Calls(fn, Is("(*ports.PortManager).ReservePort"), false)
		if len(res) != 1 {
			c.Bad(q4, FuncName(fn)+"/reserve-sites", c.P.Pos(fn.Pos()), "expected exactly one ReservePort call")
		}
		isReleasingDefer := func(in ssa.Instruction) bool {
			d, ok := in.(*ssa.Defer)
			if !ok {
				return false
			}
			if mc, ok := d.Common().Value.(*ssa.MakeClosure); ok {
				// through the site list: the release may sit in a helper extracted later
				for _, st := range Sites(mc.Fn.(*ssa.Function)) {
					if st.Kind == "call" && release(st.Target) {
						return true
					}
				}
				return false
			}
			return release(CalleeName(d))
		}
		// once the endpoint has recorded that it holds the reservation, every
		// exit must be covered by the releasing defer
		marks := 0
		for _, st := range StoresTo(fn, "tcp.endpoint", "isPortReserved") {
			if Term(st.Val) != "true" {
				continue
			}
			marks++
			bad := ReachAvoiding(fn, st, isReleasingDefer, IsReturn)
			c.Check(bad == nil, q4, FuncName(fn)+"/release-registered-after-reserve", c.pos(st), "every exit after the reservation is recorded runs the releasing defer", "an exit after the reservation is recorded is not covered by the releasing defer")
			if len(res) == 1 {
				c.Check(InstrDominates(res[0], st), q4, FuncName(fn)+"/flag-after-reserve", c.pos(st), "isPortReserved=true only after ReservePort", "isPortReserved set without a preceding ReservePort")
			}
		}
		if marks == 0 {
			c.Bad(q4, FuncName(fn)+"/no-flag", c.P.Pos(fn.Pos()), "Bind no longer records the reservation in isPortReserved (Close relies on it to release)")
		}
		norm := func(s string) string {
			s = strings.NewReplacer("^", "", "&", "").Replace(s)
			for _, v := range []string{"@1", "@2", "@3", "@4", "@u"} {
				s = strings.ReplaceAll(s, v, "")
			}
			return s
		}
		for _, cl := range fn.AnonFuncs {
			for _, rel := range c.Calls(cl, release, false) {
				c.Guarded(q4, "release-on-error", rel, AtomIs(false, func(s string) bool { return strings.HasSuffix(s, "== nil)") }), "err != nil at function exit")
				ra := CallArgs(rel)
				if len(res) == 1 && len(ra) == 5 {
					rsv := CallArgs(res[0])
					pt := norm(Term(ra[4]))
					c.Check(strings.Contains(pt, "(*ports.PortManager).ReservePort(") && strings.HasSuffix(pt, "#0"), q4, FuncName(cl)+"/release-port", c.pos(rel), "released port is the port ReservePort returned", "released port "+pt+" is not the port ReservePort returned")
					c.Check(norm(Term(ra[3])) == norm(Term(rsv[3])), q4, FuncName(cl)+"/release-addr", c.pos(rel), "released address is the reserved address", "released address "+norm(Term(ra[3]))+" differs from the reserved "+norm(Term(rsv[3])))
				}
			}
		}
	}
	if fn := c.Fn(q4, "(*udp.endpoint).registerWithStack"); fn != nil {
		for _, e := range CondEdges(fn) {
			if strings.Contains(e.Atom, "(*stack.Stack).RegisterTransportEndpoint(") && strings.HasSuffix(e.Atom, "== nil)") && !e.Holds {
				first := e.From.Succs[e.Succ].Instrs[0]
				stop := c.CallMatcher(release)
				ok := stop(first) || ReachAvoiding(fn, first, stop, IsReturn) == nil
				c.Check(ok, q4, FuncName(fn)+"/release-on-register-error", c.pos(first), "ReleasePort on every path after RegisterTransportEndpoint failed", "registration failure path returns without ReleasePort")
			}
		}
		for _, rel := range c.Calls(fn, release, false) {
			c.ArgIs(q4, "release-addr", rel, 3, "$3.LocalAddress")
		}
	}
	if fn := c.Fn(q4, "(*udp.endpoint).bindLocked"); fn != nil {
		for _, e := range CondEdges(fn) {
			if strings.HasPrefix(e.Atom, "(dyn(") && strings.HasSuffix(e.Atom, "== nil)") && !e.Holds { // commit() != nil
				first := e.From.Succs[e.Succ].Instrs[0]
				stop := c.CallMatcher(release)
				ok := stop(first) || ReachAvoiding(fn, first, stop, IsReturn) == nil
				c.Check(ok, q4, FuncName(fn)+"/release-on-commit-error", c.pos(first), "ReleasePort on every path after commit() failed", "commit failure path returns without ReleasePort")
			}
		}
	}
	for _, name := range []string{"(*udp.endpoint).Close", "(*tcp.endpoint).Close"} {
		if fn := c.Fn(q4, name); fn != nil {
			// through the site list, so that a release moved into a helper that
			// did not exist at review time still counts (inline.go)
			var rels []Site
			for _, st := range Sites(fn) {
				if st.Kind == "call" && release(st.Target) {
					rels = append(rels, st)
				}
			}
			c.Check(len(rels) >= 1, q4, name+"/releases", c.P.Pos(fn.Pos()), "Close releases the port reservation", "Close no longer releases the port reservation")
			for _, rel := range rels {
				for _, a := range []struct {
					key  string
					idx  int
					want string
				}{{"release-addr", 3, "$0.id.LocalAddress"}, {"release-port", 4, "$0.id.LocalPort"}, {"release-nets", 1, "$0.effectiveNetProtos"}} {
					got := ""
					if a.idx < len(rel.Args) {
						got = rel.Args[a.idx]
					}
					c.Check(got == a.want, q4, name+"/"+a.key, c.pos(rel.Instr), "argument "+itoa(a.idx)+" is "+got, "argument "+itoa(a.idx)+" is "+got+", expected "+a.want)
				}
			}
		}
	}
	if fn := c.Fn(q4, pm+"ReleasePort"); fn != nil {
		desc := "ports.portDescriptor{network: $1[(1 + phi{-1 | loop})], transport: $2, port: $4}"
		dels := c.Calls(fn, Is("builtin:delete"), false)
		c.Check(len(dels) == 2, q4, FuncName(fn)+"/delete-count", c.P.Pos(fn.Pos()), "two deletes: the address, and the emptied set", "ReleasePort deletes something other than the address entry and the emptied set")
		for _, d := range dels {
			a0 := Term(CallArgs(d)[0])
			if a0 == "$0.allocatedPorts" {
				c.ArgIs(q4, "delete-set-key", d, 1, desc)
				c.Guarded(q4, "delete-set-only-when-empty", d, AtomIs(true, Exactly("(0 == builtin:len($0.allocatedPorts["+desc+"]#0))")), "len(set) == 0")
			} else {
				c.ArgIs(q4, "delete-addr-set", d, 0, "$0.allocatedPorts["+desc+"]#0")
				c.ArgIs(q4, "delete-addr-key", d, 1, "$3")
			}
		}
	}
	q6 := c.Rule("Q6", "K5 closed-world call-site table", "every reserve/release names the reservation's own key", 8)
	pmT := "$0.stack.PortManager"
	bindProtos := "phi{[(*tcp.endpoint).checkV4Mapped($0, &new(tcpip.FullAddress))#0] | [34525, 2048]}"
	tcpReserve := "(*ports.PortManager).ReservePort(^" + pmT + ", phi{[(*tcp.endpoint).checkV4Mapped(^$0, &new(tcpip.FullAddress))#0] | [34525, 2048]}, 6, new(tcpip.FullAddress).Addr@2, new(tcpip.FullAddress).Port@2)#0"
	udpProtos := "phi{[(*udp.endpoint).checkV4Mapped($0, &new(tcpip.FullAddress), true)#0] | [34525, 2048]}"
	udpReg := "(*udp.endpoint).registerWithStack($0, new(tcpip.FullAddress).NIC@2, " + udpProtos + ", loop)#0"
	udpPort := "phi{$3.LocalPort | (*ports.PortManager).ReservePort(" + pmT + ", $2, 17, $3.LocalAddress, loop)#0}"
	c.CheckCallers(q6, []string{"(*ports.PortManager).ReservePort", "(*ports.PortManager).ReleasePort"}, []CallerSpec{
		{Fn: "(*tcp.endpoint).Bind", Target: "(*ports.PortManager).ReservePort", Args: []string{pmT, bindProtos, "6", "new(tcpip.FullAddress).Addr@2", "new(tcpip.FullAddress).Port@2"}, Why: "TCP bind reserves (protocols of the address family, TCP, the requested address after v4-mapped unwrapping, the requested port)"},
		{Fn: "(*tcp.endpoint).Bind$1", Target: "(*ports.PortManager).ReleasePort", Args: []string{"^" + pmT, "^&new([]tcpip.NetworkProtocolNumber)", "6", "^&new(tcpip.FullAddress).Addr", tcpReserve}, Why: "a failed bind releases exactly what it reserved: same protocols, same address, the port ReservePort returned"},
		{Fn: "(*tcp.endpoint).Close", Target: "(*ports.PortManager).ReleasePort", Args: []string{pmT, "$0.effectiveNetProtos", "6", "$0.id.LocalAddress", "$0.id.LocalPort"}, Guards: []string{"$0.isPortReserved"}, Why: "close releases the endpoint's recorded protocols/address/port"},
		{Fn: "(*tcp.endpoint).connect", Target: "(*ports.PortManager).ReleasePort", Args: []string{pmT, "$0.effectiveNetProtos", "6", "$0.id.LocalAddress", "$0.id.LocalPort"}, Why: "connect gives up the bind-time reservation under the address and port the endpoint had ON ENTRY (unversioned terms: the snapshot taken before e.id is overwritten with the route's address)"},
		{Fn: "(*udp.endpoint).Close", Target: "(*ports.PortManager).ReleasePort", Args: []string{pmT, "$0.effectiveNetProtos", "17", "$0.id.LocalAddress", "$0.id.LocalPort"}, Why: "close releases the endpoint's recorded protocols/address/port"},
		{Fn: "(*udp.endpoint).bindLocked", Target: "(*ports.PortManager).ReleasePort", Args: []string{pmT, udpProtos, "17", "phi{" + udpReg + ".LocalAddress | new(tcpip.FullAddress).Addr@2}", "phi{" + udpReg + ".LocalPort | new(tcpip.FullAddress).Port@2}"}, Why: "bind rolled back by the commit callback: releases the id registerWithStack returned"},
		{Fn: "(*udp.endpoint).registerWithStack", Target: "(*ports.PortManager).ReservePort", Args: []string{pmT, "$2", "17", "$3.LocalAddress", udpPort}, Guards: []string{"($0.id.LocalPort == 0)"}, Why: "UDP reserves (given protocols, UDP, the id's local address, the id's port) exactly when the ENDPOINT has no local port yet (e.id, not the requested id: a bind to an explicit port must go through the port manager too)"},
		{Fn: "(*udp.endpoint).registerWithStack", Target: "(*ports.PortManager).ReleasePort", Args: []string{pmT, "$2", "17", "$3.LocalAddress", udpPort}, Guards: []string{"!((*stack.Stack).RegisterTransportEndpoint($0.stack, $1, $2, 17, phi{$3 | partial}, $0) == nil)"}, Why: "registration failed: release with the same four values"},
	})

}

// reachAvoidingEdges is ReachAvoiding that additionally refuses to follow
// conditional edges for which skip returns true.
func reachAvoidingEdges(fn *ssa.Function, from ssa.Instruction, stop, bad func(ssa.Instruction) bool, skip func(Edge) bool) ssa.Instruction {
	skipSet := map[[2]int]bool{}
	for _, e := range CondEdges(fn) {
		if skip(e) {
			skipSet[[2]int{e.From.Index, e.Succ}] = true
		}
	}
	type item struct {
		b *ssa.BasicBlock
		i int
	}
	b0 := from.Block()
	idx := 0
	for i, in := range b0.Instrs {
		if in == from {
			idx = i + 1
		}
	}
	seen := map[int]bool{}
	work := []item{{b0, idx}}
	for len(work) > 0 {
		it := work[len(work)-1]
		work = work[:len(work)-1]
		stopped := false
		for i := it.i; i < len(it.b.Instrs); i++ {
			in := it.b.Instrs[i]
			if stop != nil && stop(in) {
				stopped = true
				break
			}
			if bad(in) {
				return in
			}
		}
		if stopped {
			continue
		}
		for si, s := range it.b.Succs {
			if skipSet[[2]int{it.b.Index, si}] {
				continue
			}
			if !seen[s.Index] {
				seen[s.Index] = true
				work = append(work, item{s, 0})
			}
		}
	}
	return nil
}

func propC10Intervals(c *Ctx) {
	// filled in by the interval engine (absint.go)
	if f := absintHookC10; f != nil {
		f(c)
	}
}

var absintHookC10 func(*Ctx)
