package np

import (
	"fmt"
	"go/constant"
	"go/token"
	"go/types"
	"math"
	"sort"
	"strings"

	"golang.org/x/tools/go/ssa"
)

// ---------------------------------------------------------------- intervals

const (
	negInf = math.MinInt64 / 4
	posInf = math.MaxInt64 / 4
)

type Itv struct{ Lo, Hi int64 }

var topItv = Itv{negInf, posInf}

func (a Itv) String() string {
	lo, hi := fmt.Sprint(a.Lo), fmt.Sprint(a.Hi)
	if a.Lo <= negInf {
		lo = "-inf"
	}
	if a.Hi >= posInf {
		hi = "+inf"
	}
	return "[" + lo + "," + hi + "]"
}
func sat(x int64) int64 {
	if x < negInf {
		return negInf
	}
	if x > posInf {
		return posInf
	}
	return x
}
func satAdd(a, b int64) int64 {
	if a <= negInf || b <= negInf {
		if a >= posInf || b >= posInf {
			return 0
		}
		return negInf
	}
	if a >= posInf || b >= posInf {
		return posInf
	}
	return sat(a + b)
}
func satMul(a, b int64) int64 {
	if a == 0 || b == 0 {
		return 0
	}
	neg := (a < 0) != (b < 0)
	aa, bb := a, b
	if aa < 0 {
		aa = -aa
	}
	if bb < 0 {
		bb = -bb
	}
	if aa >= posInf || bb >= posInf || aa > posInf/bb {
		if neg {
			return negInf
		}
		return posInf
	}
	return a * b
}

var botItv = Itv{1, 0}

func (a Itv) add(b Itv) Itv {
	if a.empty() || b.empty() {
		return botItv
	}
	return Itv{satAdd(a.Lo, b.Lo), satAdd(a.Hi, b.Hi)}
}
func (a Itv) neg() Itv {
	if a.empty() {
		return botItv
	}
	return Itv{sat(-a.Hi), sat(-a.Lo)}
}
func (a Itv) scale(k int64) Itv {
	if a.empty() {
		return botItv
	}
	x, y := satMul(a.Lo, k), satMul(a.Hi, k)
	if x > y {
		x, y = y, x
	}
	return Itv{x, y}
}
func (a Itv) mul(b Itv) Itv {
	if a.empty() || b.empty() {
		return botItv
	}
	c := []int64{satMul(a.Lo, b.Lo), satMul(a.Lo, b.Hi), satMul(a.Hi, b.Lo), satMul(a.Hi, b.Hi)}
	lo, hi := c[0], c[0]
	for _, x := range c {
		if x < lo {
			lo = x
		}
		if x > hi {
			hi = x
		}
	}
	return Itv{lo, hi}
}
func (a Itv) meet(b Itv) Itv {
	if a.empty() || b.empty() {
		return botItv
	}
	r := a
	if b.Lo > r.Lo {
		r.Lo = b.Lo
	}
	if b.Hi < r.Hi {
		r.Hi = b.Hi
	}
	return r
}
func (a Itv) join(b Itv) Itv {
	if a.empty() {
		return b
	}
	if b.empty() {
		return a
	}
	r := a
	if b.Lo < r.Lo {
		r.Lo = b.Lo
	}
	if b.Hi > r.Hi {
		r.Hi = b.Hi
	}
	return r
}
func (a Itv) within(b Itv) bool { return a.Lo >= b.Lo && a.Hi <= b.Hi }
func (a Itv) empty() bool       { return a.Lo > a.Hi }

func typeRange(t types.Type) Itv {
	b, ok := t.Underlying().(*types.Basic)
	if !ok {
		return topItv
	}
	switch b.Kind() {
	case types.Uint8:
		return Itv{0, 255}
	case types.Uint16:
		return Itv{0, 65535}
	case types.Uint32:
		return Itv{0, 1<<32 - 1}
	case types.Uint64, types.Uint, types.Uintptr:
		return Itv{0, posInf}
	case types.Int8:
		return Itv{-128, 127}
	case types.Int16:
		return Itv{-32768, 32767}
	case types.Int32:
		return Itv{-(1 << 31), 1<<31 - 1}
	case types.Bool:
		return Itv{0, 1}
	}
	return topItv
}

func isIntType(t types.Type) bool {
	b, ok := t.Underlying().(*types.Basic)
	return ok && b.Info()&types.IsInteger != 0
}

// ---------------------------------------------------------------- linear forms

type LinForm struct {
	coef map[string]int64
	c    int64
}

func lfConst(c int64) LinForm { return LinForm{map[string]int64{}, c} }
func lfRoot(k string) LinForm { return LinForm{map[string]int64{k: 1}, 0} }
func (a LinForm) add(b LinForm, k int64) LinForm {
	r := LinForm{map[string]int64{}, sat(a.c + satMul(k, b.c))}
	for x, v := range a.coef {
		r.coef[x] = v
	}
	for x, v := range b.coef {
		r.coef[x] += k * v
		if r.coef[x] == 0 {
			delete(r.coef, x)
		}
	}
	return r
}
func (a LinForm) scale(k int64) LinForm { return lfConst(0).add(a, k) }
func (a LinForm) String() string {
	var ks []string
	for k := range a.coef {
		ks = append(ks, k)
	}
	sort.Strings(ks)
	var parts []string
	for _, k := range ks {
		parts = append(parts, fmt.Sprintf("%d*%s", a.coef[k], k))
	}
	parts = append(parts, fmt.Sprint(a.c))
	return strings.Join(parts, " + ")
}

// fieldInvariants: declared ranges of integer struct fields. They are used
// for loads and checked at every store (kind "inv-store"), so they hold
// inductively.
var fieldInvariants = map[string]Itv{
	"tcp.SACKInfo.NumBlocks":   {0, 6},   // number of valid entries of Blocks [MaxSACKBlocks]
	"stack.linkAddrCache.next": {0, 511}, // ring index into entries [linkAddrCacheSize]
}

// ---------------------------------------------------------------- per-function analysis

type AObl struct {
	Fn    *ssa.Function
	Instr ssa.Instruction
	Kind  string  // index-lo | index-hi | slice | need-len | div-zero | narrow | wrap | progress
	Goal  LinForm // goal <= 0
	Desc  string
	OK    bool
	How   string
}

type Absint struct {
	P        *Program
	fns      map[*ssa.Function]*absFn
	reqs     map[*ssa.Function][]LinForm
	reqBusy  map[*ssa.Function]bool
	pure     map[*ssa.Function]int // 0 unknown, 1 pure, 2 impure
	Assume   map[string][]string   // function name -> entry facts "len($i) >= K" as text (see parseAssume)
	predSum  map[*ssa.Function][]LinForm
	predBusy map[*ssa.Function]bool
	retLen   map[*ssa.Function]retLenInfo
}

func NewAbsint(p *Program) *Absint {
	return &Absint{P: p, fns: map[*ssa.Function]*absFn{}, reqs: map[*ssa.Function][]LinForm{}, reqBusy: map[*ssa.Function]bool{}, pure: map[*ssa.Function]int{}, Assume: map[string][]string{}, predSum: map[*ssa.Function][]LinForm{}, predBusy: map[*ssa.Function]bool{}, retLen: map[*ssa.Function]retLenInfo{}}
}

type absFn struct {
	an         *Absint
	fn         *ssa.Function
	t          *Termer
	facts      map[int][]LinForm
	phiBase    map[*ssa.Phi]Itv
	rootVal    map[string]ssa.Value
	keyMemo    map[ssa.Value]string
	evalMemo   map[evalKey]Itv
	busy       map[evalKey]bool
	entry      []LinForm
	obls       []*AObl
	done       bool
	inFixpoint bool
	defBusy    bool
	// paramOv: argument intervals when this function is evaluated inline for one call site
	paramOv     map[*ssa.Parameter]Itv
	inlineDepth int
}

type evalKey struct {
	v ssa.Value
	b int
}

func (an *Absint) get(fn *ssa.Function) *absFn {
	if a, ok := an.fns[fn]; ok {
		return a
	}
	a := &absFn{an: an, fn: fn, t: NewTermer(fn), facts: map[int][]LinForm{}, phiBase: map[*ssa.Phi]Itv{}, rootVal: map[string]ssa.Value{}, keyMemo: map[ssa.Value]string{}, evalMemo: map[evalKey]Itv{}, busy: map[evalKey]bool{}}
	a.t.Versioned = true
	an.fns[fn] = a
	a.init()
	return a
}

// retLenConst: every return of g yields a slice/string of one constant length
// (fixed-offset accessors such as header.IPv4.SourceAddress).
func (an *Absint) retLenConst(g *ssa.Function) (int64, bool) {
	if v, ok := an.retLen[g]; ok {
		return v.k, v.ok
	}
	an.retLen[g] = retLenInfo{}
	if g.Blocks == nil || g.Pkg == nil || !strings.HasPrefix(g.Pkg.Pkg.Path(), Mod) || g.Signature.Results().Len() != 1 {
		return 0, false
	}
	switch g.Signature.Results().At(0).Type().Underlying().(type) {
	case *types.Slice:
	case *types.Basic:
		if !isString(g.Signature.Results().At(0).Type()) {
			return 0, false
		}
	default:
		return 0, false
	}
	ag := an.get(g)
	var k int64 = -1
	ok := true
	Instrs(g, func(in ssa.Instruction) {
		r, isRet := in.(*ssa.Return)
		if !isRet || in.Block().Comment == "recover" {
			return
		}
		lf := ag.lenForm(r.Results[0], 0)
		if len(lf.coef) != 0 {
			ok = false
			return
		}
		if k >= 0 && lf.c != k {
			ok = false
		}
		k = lf.c
	})
	if ok && k >= 0 {
		an.retLen[g] = retLenInfo{k, true}
		return k, true
	}
	return 0, false
}

type retLenInfo struct {
	k  int64
	ok bool
}

func isString(t types.Type) bool {
	b, ok := t.Underlying().(*types.Basic)
	return ok && b.Info()&types.IsString != 0
}

// isPure: the function has no side effects visible to callers (so two calls
// with equal arguments between which nothing was mutated return equal values).
func (an *Absint) isPure(f *ssa.Function, depth int) bool {
	if f == nil || f.Blocks == nil {
		return false
	}
	if v := an.pure[f]; v != 0 {
		return v == 1
	}
	if depth > 4 {
		return false
	}
	an.pure[f] = 2 // provisional (recursion)
	pure := true
	Instrs(f, func(in ssa.Instruction) {
		switch x := in.(type) {
		case *ssa.Store:
			if root, _ := allocRoot(x.Addr); root == nil || root.Heap {
				if _, isAlloc := x.Addr.(*ssa.Alloc); !isAlloc {
					pure = false
				}
			}
		case *ssa.MapUpdate, *ssa.Send, *ssa.Go, *ssa.Defer, *ssa.Panic:
			pure = false
		case *ssa.Call:
			if x.Common().IsInvoke() {
				pure = false
				return
			}
			if b, ok := x.Common().Value.(*ssa.Builtin); ok {
				if b.Name() == "append" || b.Name() == "copy" || b.Name() == "delete" || b.Name() == "close" {
					pure = false
				}
				return
			}
			g := x.Common().StaticCallee()
			if g == nil {
				pure = false
				return
			}
			name := FuncName(g)
			if strings.HasPrefix(name, "encoding/binary.bigEndian.Uint") || strings.HasPrefix(name, "encoding/binary.littleEndian.Uint") {
				return
			}
			if !an.isPure(g, depth+1) {
				pure = false
			}
		}
	})
	if pure {
		an.pure[f] = 1
	} else {
		an.pure[f] = 2
	}
	return pure
}

// key gives the root identity of a value: a canonical term for pure
// expressions, a unique name otherwise.
func (a *absFn) key(v ssa.Value) string {
	if k, ok := a.keyMemo[v]; ok {
		return k
	}
	k := ""
	switch x := v.(type) {
	case *ssa.Phi:
		k = "phi:" + x.Name()
	case *ssa.Parameter:
		k = a.t.T(x)
	case *ssa.Call:
		pure := false
		if b, ok := x.Common().Value.(*ssa.Builtin); ok && (b.Name() == "len" || b.Name() == "cap") {
			pure = true
		} else if g := x.Common().StaticCallee(); g != nil && a.an.isPure(g, 0) {
			pure = true
		} else if g != nil && strings.HasPrefix(FuncName(g), "encoding/binary.bigEndian.Uint") {
			pure = true
		}
		if pure {
			k = a.t.T(x)
			if strings.Contains(k, "@u") || strings.Contains(k, "phi{") {
				k = "call:" + x.Name() + ":" + k
			}
		} else {
			k = "call:" + x.Name() + ":" + CalleeName(x)
		}
	case *ssa.Extract:
		k = a.key(x.Tuple) + "#" + fmt.Sprint(x.Index)
	case *ssa.UnOp, *ssa.Field, *ssa.FieldAddr, *ssa.Index, *ssa.IndexAddr, *ssa.Lookup, *ssa.BinOp, *ssa.Convert, *ssa.ChangeType, *ssa.Slice, *ssa.TypeAssert:
		if u, ok := v.(*ssa.UnOp); ok && u.Op == token.MUL {
			if eq := equivLoad(u); eq != u {
				k = a.key(eq)
				a.keyMemo[v] = k
				return k
			}
		}
		k = a.t.T(v)
		if strings.Contains(k, "phi{") || strings.Contains(k, "loop") || strings.Contains(k, "…") || strings.Contains(k, "dyn(") || strings.Contains(k, "iface:") || strings.Contains(k, "@u") {
			// not a pure expression of stable values: unique identity
			k = "val:" + v.Name() + "=" + k
		}
	default:
		k = "val:" + v.Name()
	}
	a.keyMemo[v] = k
	if _, ok := a.rootVal[k]; !ok {
		a.rootVal[k] = v
	}
	return k
}

func constInt(v ssa.Value) (int64, bool) {
	c, ok := v.(*ssa.Const)
	if !ok || c.Value == nil || c.Value.Kind() != constant.Int {
		return 0, false
	}
	if i, ok := constant.Int64Val(c.Value); ok {
		return sat(i), true
	}
	if _, ok := constant.Uint64Val(c.Value); ok {
		return posInf, true
	}
	return 0, false
}

// lenForm: linear form of len(s).
func (a *absFn) lenForm(s ssa.Value, depth int) LinForm {
	if depth > 12 {
		return lfRoot("len(" + a.key(s) + ")")
	}
	switch x := s.(type) {
	case *ssa.Slice:
		var hi LinForm
		if x.High != nil {
			hi = a.decompose(x.High, depth+1)
		} else {
			hi = a.lenOfSliceBase(x.X, depth+1)
		}
		if x.Low != nil {
			return hi.add(a.decompose(x.Low, depth+1), -1)
		}
		return hi
	case *ssa.Convert:
		return a.lenForm(x.X, depth+1)
	case *ssa.ChangeType:
		return a.lenForm(x.X, depth+1)
	case *ssa.MakeInterface:
		return a.lenForm(x.X, depth+1)
	case *ssa.MakeSlice:
		return a.decompose(x.Len, depth+1)
	case *ssa.UnOp:
		if x.Op == token.MUL {
			if v := forwardedStore(x); v != nil {
				return a.lenForm(v, depth+1)
			}
		}
	case *ssa.Const:
		if x.Value != nil && x.Value.Kind() == constant.String {
			return lfConst(int64(len(constant.StringVal(x.Value))))
		}
		return lfConst(0) // nil slice
	case *ssa.Call:
		if g := x.Common().StaticCallee(); g != nil {
			switch FuncName(g) {
			case "buffer.NewView":
				return a.decompose(x.Common().Args[0], depth+1)
			}
			if k, ok := a.an.retLenConst(g); ok {
				return lfConst(k)
			}
		}
	}
	k := a.key(s)
	if p, ok := s.Type().Underlying().(*types.Pointer); ok {
		if _, isSl := p.Elem().Underlying().(*types.Slice); isSl {
			k = strings.TrimPrefix(k, "&")
		}
	}
	return lfRoot("len(" + k + ")")
}

// lenOfSliceBase: the operand of a slice expression may be a slice, a
// string, or a pointer to an array.
func (a *absFn) lenOfSliceBase(x ssa.Value, depth int) LinForm {
	if p, ok := x.Type().Underlying().(*types.Pointer); ok {
		if arr, ok := p.Elem().Underlying().(*types.Array); ok {
			return lfConst(arr.Len())
		}
	}
	return a.lenForm(x, depth)
}

// decompose: linear form of an integer value over root keys.
func (a *absFn) decompose(v ssa.Value, depth int) LinForm {
	if c, ok := constInt(v); ok {
		return lfConst(c)
	}
	if depth > 12 {
		return lfRoot(a.key(v))
	}
	switch x := v.(type) {
	case *ssa.BinOp:
		if !isIntType(x.Type()) {
			break
		}
		var lf LinForm
		ok := false
		switch x.Op {
		case token.ADD:
			lf, ok = a.decompose(x.X, depth+1).add(a.decompose(x.Y, depth+1), 1), true
		case token.SUB:
			lf, ok = a.decompose(x.X, depth+1).add(a.decompose(x.Y, depth+1), -1), true
		case token.MUL:
			if k, isC := constInt(x.Y); isC && k > negInf && k < posInf {
				lf, ok = a.decompose(x.X, depth+1).scale(k), true
			} else if k, isC := constInt(x.X); isC && k > negInf && k < posInf {
				lf, ok = a.decompose(x.Y, depth+1).scale(k), true
			}
		}
		if ok {
			// fixed-width arithmetic wraps: keep the linear view only when the
			// mathematical result provably stays inside the type's range
			tr := typeRange(x.Type())
			if tr == topItv || a.lfItv(lf, x.Block().Index).within(tr) {
				return lf
			}
		}
	case *ssa.Convert:
		if isIntType(x.Type()) && isIntType(x.X.Type()) {
			src := a.eval(x.X, x.Block().Index)
			if src.within(typeRange(x.Type())) {
				return a.decompose(x.X, depth+1)
			}
		}
	case *ssa.ChangeType:
		return a.decompose(x.X, depth+1)
	case *ssa.Call:
		if b, ok := x.Common().Value.(*ssa.Builtin); ok && b.Name() == "len" {
			return a.lenForm(x.Common().Args[0], depth+1)
		}
	}
	return lfRoot(a.key(v))
}

// rootBase: interval of a root from its structure and type (no facts).
func (a *absFn) rootBase(k string, block int) Itv {
	if strings.HasPrefix(k, "len(") {
		return Itv{0, posInf}
	}
	v := a.rootVal[k]
	if v == nil {
		return topItv
	}
	return a.structItv(v, block)
}

// structItv: interval from the structure of the value (interval arithmetic
// on its operands, type ranges, intrinsics).
func (a *absFn) structItv(v ssa.Value, block int) Itv {
	if c, ok := constInt(v); ok {
		return Itv{c, c}
	}
	tr := typeRange(v.Type())
	if u, ok := v.(*ssa.UnOp); ok && u.Op == token.MUL {
		if fv, base := fieldOf(u.X); fv != nil {
			bt := base.Type()
			if p, ok := bt.Underlying().(*types.Pointer); ok {
				bt = p.Elem()
			}
			if iv, ok := fieldInvariants[TypeStr(bt)+"."+fv.Name()]; ok {
				return iv.meet(tr)
			}
		}
	}
	if f, ok := v.(*ssa.Field); ok {
		if fv, base := fieldOf(f); fv != nil {
			if iv, ok := fieldInvariants[TypeStr(base.Type())+"."+fv.Name()]; ok {
				return iv.meet(tr)
			}
		}
	}
	switch x := v.(type) {
	case *ssa.Phi:
		if b, ok := a.phiBase[x]; ok {
			return b.meet(tr)
		}
		if a.inFixpoint {
			return botItv // not yet reached
		}
		return tr
	case *ssa.BinOp:
		if !isIntType(x.Type()) {
			return tr
		}
		l, r := a.eval(x.X, block), a.eval(x.Y, block)
		if l.empty() || r.empty() {
			return botItv
		}
		var res Itv
		switch x.Op {
		case token.ADD:
			res = l.add(r)
		case token.SUB:
			res = l.add(r.neg())
		case token.MUL:
			res = l.mul(r)
		case token.QUO:
			if r.Lo > 0 && l.Lo >= 0 {
				res = Itv{l.Lo / maxI(r.Hi, 1), l.Hi / r.Lo}
				if l.Hi >= posInf {
					res.Hi = posInf
				}
			} else if r.Lo > 0 && r.Hi < posInf {
				// truncated division with a possibly negative dividend
				lo, hi := int64(negInf), int64(posInf)
				if l.Lo > negInf {
					if l.Lo < 0 {
						lo = l.Lo / r.Lo
					} else {
						lo = l.Lo / r.Hi
					}
				}
				if l.Hi < posInf {
					if l.Hi >= 0 {
						hi = l.Hi / r.Lo
					} else {
						hi = l.Hi / r.Hi
					}
				}
				res = Itv{lo, hi}
			} else {
				return tr
			}
		case token.REM:
			if r.Lo > 0 && l.Lo >= 0 {
				hi := r.Hi - 1
				if l.Hi < hi {
					hi = l.Hi
				}
				res = Itv{0, hi}
			} else if r.Lo > 0 {
				res = Itv{-(r.Hi - 1), r.Hi - 1}
			} else {
				return tr
			}
		case token.AND:
			if r.Lo >= 0 && l.Lo >= 0 {
				res = Itv{0, minI(l.Hi, r.Hi)}
			} else if r.Lo >= 0 {
				res = Itv{0, r.Hi}
			} else if l.Lo >= 0 {
				res = Itv{0, l.Hi}
			} else {
				return tr
			}
		case token.OR, token.XOR:
			if r.Lo >= 0 && l.Lo >= 0 && r.Hi < posInf && l.Hi < posInf {
				// bounded by the next power of two above both
				m := int64(1)
				for m <= l.Hi || m <= r.Hi {
					m <<= 1
				}
				res = Itv{0, m - 1}
			} else {
				return tr
			}
		case token.SHR:
			if l.Lo >= 0 && r.Lo >= 0 && r.Lo == r.Hi && r.Lo < 63 {
				res = Itv{l.Lo >> uint(r.Lo), l.Hi >> uint(r.Lo)}
				if l.Hi >= posInf {
					res.Hi = posInf
				}
			} else if l.Lo >= 0 {
				res = Itv{0, l.Hi}
			} else {
				return tr
			}
		case token.SHL:
			if l.Lo >= 0 && r.Lo >= 0 && r.Hi < 62 {
				res = Itv{satMul(l.Lo, 1<<uint(r.Lo)), satMul(l.Hi, 1<<uint(r.Hi))}
			} else {
				return tr
			}
		default:
			return tr
		}
		if tr != topItv && !res.within(tr) {
			return tr // wraps
		}
		return res
	case *ssa.Convert:
		if isIntType(x.X.Type()) {
			src := a.eval(x.X, block)
			if src.empty() {
				return botItv
			}
			if src.within(tr) {
				return src
			}
		}
		return tr
	case *ssa.ChangeType:
		return a.eval(x.X, block).meet(tr)
	case *ssa.Call:
		if b, ok := x.Common().Value.(*ssa.Builtin); ok && (b.Name() == "len" || b.Name() == "cap" || b.Name() == "copy") {
			return Itv{0, posInf}
		}
		if g := x.Common().StaticCallee(); g != nil {
			switch FuncName(g) {
			case "math/rand.Int31n", "math/rand.Int63n", "math/rand.Intn":
				n := a.eval(x.Common().Args[0], block)
				return Itv{0, n.Hi - 1}
			}
			// a value helper extracted after the review (inline.go): evaluate its
			// single return expression with the argument intervals of this call
			if inlineable(g) && effectFree(g) && a.inlineDepth < 2 {
				var ret *ssa.Return
				n := 0
				Instrs(g, func(in ssa.Instruction) {
					if r, ok := in.(*ssa.Return); ok {
						ret = r
						n++
					}
				})
				if n == 1 && len(ret.Results) == 1 {
					ca := &absFn{an: a.an, fn: g, t: NewTermer(g), facts: map[int][]LinForm{}, phiBase: map[*ssa.Phi]Itv{}, rootVal: map[string]ssa.Value{}, keyMemo: map[ssa.Value]string{}, evalMemo: map[evalKey]Itv{}, busy: map[evalKey]bool{}, paramOv: map[*ssa.Parameter]Itv{}, inlineDepth: a.inlineDepth + 1}
					ca.t.Versioned = true
					for i, p := range g.Params {
						if i < len(x.Common().Args) && isIntType(p.Type()) {
							ca.paramOv[p] = a.eval(x.Common().Args[i], block)
						}
					}
					ca.init()
					return ca.eval(ret.Results[0], ret.Block().Index).meet(tr)
				}
			}
		}
		return tr
	case *ssa.Parameter:
		if ov, ok := a.paramOv[x]; ok {
			return ov.meet(tr)
		}
		return tr
	}
	return tr
}

func maxI(a, b int64) int64 {
	if a > b {
		return a
	}
	return b
}
func minI(a, b int64) int64 {
	if a < b {
		return a
	}
	return b
}

// rootItv: base interval of a root refined by the single-root facts of the block.
func (a *absFn) rootItv(k string, block int) Itv {
	it := a.rootBase(k, block)
	for _, f := range a.factsAt(block) {
		if len(f.coef) != 1 {
			continue
		}
		co, ok := f.coef[k]
		if !ok {
			continue
		}
		// co*r + c <= 0
		if co > 0 {
			hi := floorDiv(-f.c, co)
			if hi < it.Hi {
				it.Hi = hi
			}
		} else {
			lo := ceilDiv(f.c, -co)
			if lo > it.Lo {
				it.Lo = lo
			}
		}
	}
	// two-root facts with the other root's base interval
	for _, f := range a.factsAt(block) {
		if len(f.coef) != 2 {
			continue
		}
		co, ok := f.coef[k]
		if !ok {
			continue
		}
		rest := Itv{f.c, f.c}
		for k2, c2 := range f.coef {
			if k2 != k {
				rest = rest.add(a.rootBase(k2, block).scale(c2))
			}
		}
		// co*r + rest <= 0 must hold for the actual values; the weakest bound uses rest.Lo
		if rest.Lo <= negInf {
			continue
		}
		if co > 0 {
			hi := floorDiv(-rest.Lo, co)
			if hi < it.Hi {
				it.Hi = hi
			}
		} else {
			lo := ceilDiv(rest.Lo, -co)
			if lo > it.Lo {
				it.Lo = lo
			}
		}
	}
	return it
}

func floorDiv(a, b int64) int64 {
	q := a / b
	if (a%b != 0) && ((a < 0) != (b < 0)) {
		q--
	}
	return q
}
func ceilDiv(a, b int64) int64 { return -floorDiv(-a, b) }

func (a *absFn) lfItv(lf LinForm, block int) Itv {
	it := Itv{lf.c, lf.c}
	for k, c := range lf.coef {
		it = it.add(a.rootItv(k, block).scale(c))
	}
	return it
}

// eval: interval of v at the given block.
func (a *absFn) eval(v ssa.Value, block int) Itv {
	if c, ok := constInt(v); ok {
		return Itv{c, c}
	}
	if !isIntType(v.Type()) {
		return topItv
	}
	ek := evalKey{v, block}
	if r, ok := a.evalMemo[ek]; ok {
		return r
	}
	if a.busy[ek] {
		if a.inFixpoint {
			return botItv
		}
		return typeRange(v.Type())
	}
	a.busy[ek] = true
	lf := a.decompose(v, 0)
	it := a.lfItv(lf, block).meet(a.structItv(v, block)).meet(typeRange(v.Type()))
	delete(a.busy, ek)
	a.evalMemo[ek] = it
	return it
}

// evalOnEdge evaluates v with the facts of pred plus the condition under
// which control passes from pred to succ (phi operands are selected by edges).
func (a *absFn) evalOnEdge(v ssa.Value, pred, succ *ssa.BasicBlock) Itv {
	ifi, ok := pred.Instrs[len(pred.Instrs)-1].(*ssa.If)
	if !ok || pred.Succs[0] == pred.Succs[1] {
		return a.eval(v, pred.Index)
	}
	holds := pred.Succs[0] == succ
	syn := -(pred.Index*1000 + succ.Index + 1)
	if _, done := a.facts[syn]; !done {
		a.facts[syn] = append(append([]LinForm{}, a.facts[pred.Index]...), a.condFacts(ifi.Cond, holds)...)
	}
	return a.eval(v, syn)
}

// factsAt: linear facts (<= 0) that hold at the entry of the block.
func (a *absFn) factsAt(block int) []LinForm { return a.facts[block] }

func (a *absFn) condFacts(cond ssa.Value, holds bool) []LinForm {
	switch x := cond.(type) {
	case *ssa.UnOp:
		if x.Op == token.NOT {
			return a.condFacts(x.X, !holds)
		}
	case *ssa.BinOp:
		if !isIntType(x.X.Type()) {
			// len(string)==... handled via ints only
			return nil
		}
		l, r := a.decompose(x.X, 0), a.decompose(x.Y, 0)
		d := l.add(r, -1) // X - Y
		op := x.Op
		if !holds {
			switch op {
			case token.LSS:
				op = token.GEQ
			case token.LEQ:
				op = token.GTR
			case token.GTR:
				op = token.LEQ
			case token.GEQ:
				op = token.LSS
			case token.EQL:
				op = token.NEQ
			case token.NEQ:
				op = token.EQL
			}
		}
		switch op {
		case token.LSS: // X - Y + 1 <= 0
			return []LinForm{d.add(lfConst(1), 1)}
		case token.LEQ:
			return []LinForm{d}
		case token.GTR: // Y - X + 1 <= 0
			return []LinForm{d.scale(-1).add(lfConst(1), 1)}
		case token.GEQ:
			return []LinForm{d.scale(-1)}
		case token.EQL:
			// (y % c) == 0 with y > -c  =>  y >= 0
			if rem, ok := x.X.(*ssa.BinOp); ok && rem.Op == token.REM {
				if k, isC := constInt(x.Y); isC && k == 0 {
					if cc, isC2 := constInt(rem.Y); isC2 && cc > 0 {
						if a.eval(rem.X, x.Block().Index).Lo > -cc {
							return []LinForm{d, d.scale(-1), a.decompose(rem.X, 0).scale(-1)}
						}
					}
				}
			}
			return []LinForm{d, d.scale(-1)}
		case token.NEQ:
			// (y & m) != 0  =>  y != 0; with y >= 0: y >= 1
			if band, ok := x.X.(*ssa.BinOp); ok && band.Op == token.AND {
				if k, isC := constInt(x.Y); isC && k == 0 {
					var out []LinForm
					for _, opnd := range []ssa.Value{band.X, band.Y} {
						if _, isConst := constInt(opnd); isConst {
							continue
						}
						if a.eval(opnd, x.Block().Index).Lo >= 0 {
							out = append(out, lfConst(1).add(a.decompose(opnd, 0), -1))
						}
					}
					if len(out) > 0 {
						return out
					}
				}
			}
			// x != c with x >= c known  =>  x >= c+1 (common: len != 0, n != 0)
			it := a.lfItv(d, x.Block().Index)
			if it.Lo >= 0 {
				return []LinForm{d.scale(-1).add(lfConst(1), 1)}
			}
			if it.Hi <= 0 {
				return []LinForm{d.add(lfConst(1), 1)}
			}
		}
	case *ssa.Call:
		if g := x.Common().StaticCallee(); g != nil && holds {
			return a.importPredicate(x, g)
		}
	}
	return nil
}

// importPredicate: facts that hold whenever the bool function g returned true,
// translated into the caller's frame.
func (a *absFn) importPredicate(call *ssa.Call, g *ssa.Function) []LinForm {
	sum := a.an.predicateSummary(g)
	if len(sum) == 0 {
		return nil
	}
	args := call.Common().Args
	var out []LinForm
	for _, f := range sum {
		if nf, ok := a.translateLF(f, args); ok {
			out = append(out, nf)
		}
	}
	return out
}

// paramRooted: every root of the form is a pure term over parameters only.
func paramRooted(f LinForm) bool {
	for k := range f.coef {
		if !strings.Contains(k, "$") {
			return false
		}
		for _, bad := range []string{"phi:", "phi{", "val:", "call:", "callee(", "new(", "local(", "loop", "…", "^"} {
			if strings.Contains(k, bad) {
				return false
			}
		}
	}
	return true
}

// translateLF rewrites a linear form over the callee's parameters into the
// caller's frame at a call with the given arguments (receiver first).
func (a *absFn) translateLF(f LinForm, args []ssa.Value) (LinForm, bool) {
	nf := lfConst(f.c)
	for k, co := range f.coef {
		var repl LinForm
		var i int
		switch {
		case func() bool {
			n, err := fmt.Sscanf(k, "len($%d)", &i)
			return n == 1 && err == nil && k == fmt.Sprintf("len($%d)", i)
		}():
			if i >= len(args) {
				return nf, false
			}
			repl = a.lenForm(args[i], 0)
		case func() bool {
			n, err := fmt.Sscanf(k, "$%d", &i)
			return n == 1 && err == nil && k == fmt.Sprintf("$%d", i)
		}():
			if i >= len(args) {
				return nf, false
			}
			repl = a.decompose(args[i], 0)
		default:
			nk := k
			for j := len(args) - 1; j >= 0; j-- {
				nk = strings.ReplaceAll(nk, fmt.Sprintf("$%d", j), "\x00"+fmt.Sprint(j)+"\x00")
			}
			if strings.Contains(nk, "$") {
				return nf, false // refers to a parameter the call does not supply
			}
			for j := range args {
				nk = strings.ReplaceAll(nk, "\x00"+fmt.Sprint(j)+"\x00", strings.TrimPrefix(a.t.T(args[j]), "&"))
			}
			nk = normalizeKey(nk)
			if strings.Contains(nk, "phi{") {
				return nf, false
			}
			repl = lfRoot(nk)
		}
		nf = nf.add(repl, co)
	}
	return nf, true
}

// Term axioms: frozen equivalences between terms, each established by a
// reviewed rule elsewhere (see DESIGN.md, C07/P2):
//
//	tcp.newSegment(r, id, vv).data      == Clone(vv)     (site table on newSegment, C07/P2-ax1)
//	First(Clone(X, _)) == First(X), Size(Clone(X, _)) == Size(X)   (C16/V3: Clone copies the chunk list)
func normalizeKey(k string) string {
	for iter := 0; iter < 6; iter++ {
		old := k
		k = rewriteCall(k, "tcp.newSegment(", ").data", func(args []string) string {
			if len(args) == 3 {
				return "buffer.VectorisedView.Clone(" + args[2] + ", _)"
			}
			return ""
		})
		for _, f := range []string{"First", "Size"} {
			k = rewriteCall(k, "buffer.VectorisedView."+f+"(buffer.VectorisedView.Clone(", "))", func(args []string) string {
				if len(args) == 2 {
					return "buffer.VectorisedView." + f + "(" + args[0] + ")"
				}
				return ""
			})
		}
		if k == old {
			break
		}
	}
	return k
}

// rewriteCall finds prefix ARGS suffix (ARGS balanced) and replaces the whole match by f(args).
func rewriteCall(s, prefix, suffix string, f func([]string) string) string {
	i := strings.Index(s, prefix)
	if i < 0 {
		return s
	}
	j := i + len(prefix)
	depth := 1
	k := j
	for k < len(s) && depth > 0 {
		switch s[k] {
		case '(', '[', '{':
			depth++
		case ')', ']', '}':
			depth--
		}
		k++
	}
	if depth != 0 {
		return s
	}
	// s[j:k-1] are the args, s[k-1] is ')'
	rest := s[k-1:]
	if !strings.HasPrefix(rest, suffix) {
		return s
	}
	repl := f(splitTop(s[j : k-1]))
	if repl == "" {
		return s
	}
	return s[:i] + repl + rest[len(suffix):]
}

// predicateSummary: for a bool function, the facts over its parameters that
// hold on every path returning the constant true.
func (an *Absint) predicateSummary(g *ssa.Function) []LinForm {
	if s, ok := an.predSum[g]; ok {
		return s
	}
	if an.predBusy[g] || g.Blocks == nil {
		return nil
	}
	res := g.Signature.Results()
	if res.Len() != 1 || !isBool(res.At(0).Type()) {
		an.predSum[g] = nil
		return nil
	}
	an.predBusy[g] = true
	defer delete(an.predBusy, g)
	ag := an.get(g)
	var common map[string]LinForm
	n := 0
	ok := true
	Instrs(g, func(in ssa.Instruction) {
		r, isRet := in.(*ssa.Return)
		if !isRet || in.Block().Comment == "recover" {
			return
		}
		collect := func(block int, extra []LinForm) map[string]LinForm {
			cur := map[string]LinForm{}
			for _, f := range append(append([]LinForm{}, ag.factsAt(block)...), extra...) {
				if paramRooted(f) || len(f.coef) == 0 {
					cur[f.String()] = f
				}
			}
			return cur
		}
		var contributions []map[string]LinForm
		switch res := r.Results[0].(type) {
		case *ssa.Const:
			if !constant.BoolVal(res.Value) {
				return
			}
			contributions = append(contributions, collect(in.Block().Index, nil))
		case *ssa.Phi:
			if res.Block() != in.Block() {
				ok = false
				return
			}
			for i, e := range res.Edges {
				if k, isK := e.(*ssa.Const); isK {
					if !constant.BoolVal(k.Value) {
						continue
					}
					contributions = append(contributions, collect(in.Block().Preds[i].Index, nil))
					continue
				}
				pb := in.Block().Preds[i]
				contributions = append(contributions, collect(pb.Index, ag.condFacts(e, true)))
			}
		default:
			contributions = append(contributions, collect(in.Block().Index, ag.condFacts(res, true)))
		}
		for _, cur := range contributions {
			n++
			if common == nil {
				common = cur
			} else {
				for k := range common {
					if _, ok := cur[k]; !ok {
						delete(common, k)
					}
				}
			}
		}
	})
	var out []LinForm
	if ok && n > 0 {
		var ks []string
		for k := range common {
			ks = append(ks, k)
		}
		sort.Strings(ks)
		for _, k := range ks {
			out = append(out, common[k])
		}
	}
	an.predSum[g] = out
	return out
}

func isBool(t types.Type) bool {
	b, ok := t.Underlying().(*types.Basic)
	return ok && b.Kind() == types.Bool
}

// init computes block facts and phi base intervals.
func (a *absFn) init() {
	fn := a.fn
	if len(fn.Blocks) == 0 {
		return
	}
	// entry assumptions
	for _, s := range a.an.Assume[FuncName(fn)] {
		if f, ok := parseAssume(s); ok {
			a.entry = append(a.entry, f)
		}
	}
	// phase 1: facts without phi knowledge; phase 2: phi fixpoint; phase 3: facts again
	for phase := 0; phase < 3; phase++ {
		a.facts = map[int][]LinForm{}
		a.evalMemo = map[evalKey]Itv{}
		// dominator-tree preorder
		var order []*ssa.BasicBlock
		var visit func(b *ssa.BasicBlock)
		visit = func(b *ssa.BasicBlock) {
			order = append(order, b)
			for _, d := range b.Dominees() {
				visit(d)
			}
		}
		visit(fn.Blocks[0])
		for _, b := range order {
			var fs []LinForm
			if b.Index == 0 {
				fs = append(fs, a.entry...)
			}
			if id := b.Idom(); id != nil {
				fs = append(fs, a.facts[id.Index]...)
			}
			if len(b.Preds) == 1 {
				p := b.Preds[0]
				if ifi, ok := p.Instrs[len(p.Instrs)-1].(*ssa.If); ok && p.Succs[0] != p.Succs[1] {
					holds := p.Succs[0] == b
					a.facts[b.Index] = fs // visible to condFacts' interval queries
					fs = append(fs, a.condFacts(ifi.Cond, holds)...)
				}
			}
			a.facts[b.Index] = fs
		}
		if phase == 1 {
			continue
		}
		if phase == 0 {
			// phi fixpoint with widening
			var phis []*ssa.Phi
			Instrs(fn, func(in ssa.Instruction) {
				if p, ok := in.(*ssa.Phi); ok && isIntType(p.Type()) {
					phis = append(phis, p)
				}
			})
			a.inFixpoint = true
			for iter := 0; iter < 10; iter++ {
				changed := false
				a.evalMemo = map[evalKey]Itv{}
				for _, p := range phis {
					var acc Itv
					first := true
					for i, e := range p.Edges {
						ev := a.evalOnEdge(e, p.Block().Preds[i], p.Block())
						if ev.empty() {
							continue
						}
						// the edge into the phi block may carry a condition too
						if first {
							acc = ev
							first = false
						} else {
							acc = acc.join(ev)
						}
					}
					if first {
						continue // no edge evaluated yet
					}
					old, had := a.phiBase[p]
					if had {
						if iter >= 3 {
							// widen
							if acc.Lo < old.Lo {
								acc.Lo = negInf
							}
							if acc.Hi > old.Hi {
								acc.Hi = posInf
							}
						}
						acc = acc.join(old)
					}
					if !had || acc != old {
						a.phiBase[p] = acc
						changed = true
					}
				}
				if !changed {
					break
				}
			}
			a.inFixpoint = false
			a.evalMemo = map[evalKey]Itv{}
		}
	}
}

// parseAssume parses "len($i) >= K" or "len(TERM) >= K".
func parseAssume(s string) (LinForm, bool) {
	i := strings.LastIndex(s, ">=")
	if i < 0 {
		return LinForm{}, false
	}
	lhs := strings.TrimSpace(s[:i])
	var k int64
	if _, err := fmt.Sscanf(strings.TrimSpace(s[i+2:]), "%d", &k); err != nil {
		return LinForm{}, false
	}
	return lfConst(k).add(lfRoot(lhs), -1), true
}

// prove goal <= 0 at the block: either the interval of the goal is <= 0, or
// subtracting non-negative multiples of facts (each <= 0) that cancel its
// unbounded terms leaves something whose interval is <= 0.
func (a *absFn) prove(goal LinForm, block int) (bool, string) {
	fs := a.factsAt(block)
	// definitional facts of quotient roots: c*q <= x  for q = x / c
	for k := range goal.coef {
		fs = append(fs, a.defFacts(k, block)...)
	}
	for _, f := range a.factsAt(block) {
		for k := range f.coef {
			fs = append(fs, a.defFacts(k, block)...)
		}
	}
	var used []string
	var search func(g LinForm, depth int) bool
	search = func(g LinForm, depth int) bool {
		if it := a.lfItv(g, block); !it.empty() && it.Hi <= 0 {
			return true
		}
		if depth == 0 {
			return false
		}
		// pick the terms that make the upper bound infinite/positive
		for r, gc := range g.coef {
			ri := a.rootItv(r, block)
			if (gc > 0 && ri.Hi < posInf && depth < 3) || (gc < 0 && ri.Lo > negInf && depth < 3) {
				// bounded contribution: try the unbounded ones first (depth heuristic)
			}
			for _, f := range fs {
				fc, ok := f.coef[r]
				if !ok || (fc > 0) != (gc > 0) {
					continue
				}
				// subtract k*f with k = ceil(|gc|/|fc|) so that r's coefficient cancels or flips harmlessly
				absg, absf := gc, fc
				if absg < 0 {
					absg, absf = -absg, -absf
				}
				if absg%absf != 0 {
					continue
				}
				k := absg / absf
				ng := g.add(f, -k)
				used = append(used, fmt.Sprintf("%dx(%s)", k, f.String()))
				if search(ng, depth-1) {
					return true
				}
				used = used[:len(used)-1]
			}
		}
		return false
	}
	if it := a.lfItv(goal, block); !it.empty() && it.Hi <= 0 {
		return true, "interval " + it.String()
	}
	if search(goal, 4) {
		return true, "facts " + strings.Join(used, ", ")
	}
	return false, ""
}

// defFacts: facts that hold by the definition of a root: for q = x / c with
// x >= 0, c > 0 constant: c*q - x <= 0 and x - c*q - (c-1) <= 0.
func (a *absFn) defFacts(k string, block int) []LinForm {
	v := a.rootVal[k]
	b, ok := v.(*ssa.BinOp)
	if !ok || b.Op != token.QUO {
		return nil
	}
	c, isC := constInt(b.Y)
	if !isC || c <= 0 {
		return nil
	}
	x := a.decompose(b.X, 0)
	q := lfRoot(k)
	if it := a.lfItv(x, b.Block().Index); it.empty() {
		return nil
	} else if it.Lo < 0 {
		// truncated division: c*q <= x still holds whenever q >= 1
		if a.defBusy {
			return nil
		}
		a.defBusy = true
		qi := a.rootItv(k, block)
		a.defBusy = false
		if qi.Lo >= 1 {
			return []LinForm{q.scale(c).add(x, -1)}
		}
		return nil
	}
	return []LinForm{q.scale(c).add(x, -1), x.add(q.scale(c), -1).add(lfConst(-(c - 1)), 1)}
}

func (a *absFn) oblige(in ssa.Instruction, kind string, goal LinForm, desc string) *AObl {
	ok, how := a.prove(goal, in.Block().Index)
	o := &AObl{Fn: a.fn, Instr: in, Kind: kind, Goal: goal, Desc: desc, OK: ok, How: how}
	a.obls = append(a.obls, o)
	return o
}

var needLenIntrinsics = map[string]int64{
	"encoding/binary.bigEndian.Uint16":    2,
	"encoding/binary.bigEndian.Uint32":    4,
	"encoding/binary.bigEndian.Uint64":    8,
	"encoding/binary.bigEndian.PutUint16": 2,
	"encoding/binary.bigEndian.PutUint32": 4,
	"encoding/binary.bigEndian.PutUint64": 8,
	"encoding/binary.littleEndian.Uint16": 2,
	"encoding/binary.littleEndian.Uint32": 4,
}

// Obligations computes (once) the bounds obligations of the function.
func (a *absFn) Obligations() []*AObl {
	if a.done {
		return a.obls
	}
	a.done = true
	for _, b := range a.fn.Blocks {
		if b.Comment == "recover" {
			continue
		}
		for _, in := range b.Instrs {
			switch x := in.(type) {
			case *ssa.IndexAddr:
				a.indexObl(in, x.X, x.Index)
			case *ssa.Index:
				a.indexObl(in, x.X, x.Index)
			case *ssa.Lookup:
				if _, isMap := x.X.Type().Underlying().(*types.Map); !isMap {
					a.indexObl(in, x.X, x.Index)
				}
			case *ssa.Store:
				if fv, base := fieldOf(x.Addr); fv != nil {
					bt := base.Type()
					if p, ok := bt.Underlying().(*types.Pointer); ok {
						bt = p.Elem()
					}
					if iv, ok := fieldInvariants[TypeStr(bt)+"."+fv.Name()]; ok {
						it := a.eval(x.Val, b.Index)
						o := &AObl{Fn: a.fn, Instr: in, Kind: "inv-store", Desc: TypeStr(bt) + "." + fv.Name() + " = " + a.t.T(x.Val) + " stays in " + iv.String(), OK: !it.empty() && it.within(iv), How: "interval " + it.String(), Goal: lfConst(1)}
						a.obls = append(a.obls, o)
					}
				}
			case *ssa.Slice:
				a.sliceObl(x)
			case *ssa.BinOp:
				if (x.Op == token.QUO || x.Op == token.REM) && isIntType(x.Type()) {
					if _, isC := constInt(x.Y); !isC {
						it := a.eval(x.Y, b.Index)
						o := &AObl{Fn: a.fn, Instr: in, Kind: "div-zero", Desc: "divisor " + a.t.T(x.Y) + " != 0", OK: it.Lo > 0 || it.Hi < 0, How: "interval " + it.String()}
						a.obls = append(a.obls, o)
					}
				}
			case *ssa.Call:
				if g := x.Common().StaticCallee(); g != nil {
					if n, ok := needLenIntrinsics[FuncName(g)]; ok {
						arg := x.Common().Args[len(x.Common().Args)-1]
						if strings.Contains(FuncName(g), "Put") {
							arg = x.Common().Args[1]
						} else {
							arg = x.Common().Args[1]
						}
						a.oblige(in, "need-len", lfConst(n).add(a.lenForm(arg, 0), -1), fmt.Sprintf("%s needs %d bytes in %s", FuncName(g), n, a.t.T(arg)))
						continue
					}
					if g.Blocks != nil && g.Pkg != nil && strings.HasPrefix(g.Pkg.Pkg.Path(), Mod) {
						for _, rq := range a.an.Requirements(g) {
							if goal, ok := a.translateLF(rq, x.Common().Args); ok {
								a.oblige(in, "need-len", goal, fmt.Sprintf("%s requires %s <= 0", FuncName(g), rq.String()))
							} else {
								// keep the callee's roots recognisable as such: they are not this
								// function's parameters and must not be deferred further up
								loc := LinForm{coef: map[string]int64{}, c: rq.c}
								for k, v := range rq.coef {
									loc.coef["callee("+FuncName(g)+"):"+k] = v
								}
								o := &AObl{Fn: a.fn, Instr: in, Kind: "need-len", Goal: loc, Desc: fmt.Sprintf("%s requires %s <= 0 (untranslatable)", FuncName(g), rq.String())}
								a.obls = append(a.obls, o)
							}
						}
					}
				}
			}
		}
	}
	return a.obls
}

func (a *absFn) indexObl(in ssa.Instruction, x, idx ssa.Value) {
	var ln LinForm
	t := x.Type().Underlying()
	if p, ok := t.(*types.Pointer); ok {
		t = p.Elem().Underlying()
	}
	if arr, ok := t.(*types.Array); ok {
		ln = lfConst(arr.Len())
	} else {
		ln = a.lenForm(x, 0)
	}
	i := a.decompose(idx, 0)
	a.oblige(in, "index-lo", i.scale(-1), "0 <= "+a.t.T(idx))
	a.oblige(in, "index-hi", i.add(ln, -1).add(lfConst(1), 1), a.t.T(idx)+" < len("+a.t.T(x)+")")
}

func (a *absFn) sliceObl(x *ssa.Slice) {
	base := a.lenOfSliceBase(x.X, 0)
	// Go permits re-slicing up to cap; we only know len (>= is sound for lo, conservative for hi)
	if x.Low != nil {
		lo := a.decompose(x.Low, 0)
		a.oblige(x, "slice-lo", lo.scale(-1), "0 <= "+a.t.T(x.Low))
		if x.High == nil {
			a.oblige(x, "slice", lo.add(base, -1), a.t.T(x.Low)+" <= len("+a.t.T(x.X)+")")
		}
	}
	if x.High != nil {
		if call, ok := x.High.(*ssa.Call); ok {
			if b, isB := call.Common().Value.(*ssa.Builtin); isB && b.Name() == "cap" && call.Common().Args[0] == x.X {
				return // v[:cap(v)] is always legal
			}
		}
		hi := a.decompose(x.High, 0)
		a.oblige(x, "slice", hi.add(base, -1), a.t.T(x.High)+" <= len("+a.t.T(x.X)+")  [cap unknown: len used]")
		if x.Low != nil {
			a.oblige(x, "slice-order", a.decompose(x.Low, 0).add(hi, -1), a.t.T(x.Low)+" <= "+a.t.T(x.High))
		}
	}
}

// Requirements: obligations of g that g cannot discharge itself but that are
// expressed purely over its parameters; every caller must discharge them.
func (an *Absint) Requirements(g *ssa.Function) []LinForm {
	if r, ok := an.reqs[g]; ok {
		return r
	}
	if an.reqBusy[g] {
		return nil
	}
	an.reqBusy[g] = true
	defer delete(an.reqBusy, g)
	ag := an.get(g)
	seen := map[string]bool{}
	var out []LinForm
	for _, o := range ag.Obligations() {
		if o.OK || o.Kind == "div-zero" {
			continue
		}
		if deferrable(o.Goal) && !seen[o.Goal.String()] {
			seen[o.Goal.String()] = true
			out = append(out, o.Goal)
		}
	}
	an.reqs[g] = out
	return out
}

// deferrable: the goal is a linear inequality purely over the function's
// parameters (their values, lengths and pure accessors of them), so that a
// caller can discharge it in its own frame.
func deferrable(g LinForm) bool {
	if len(g.coef) == 0 || !paramRooted(g) {
		return false
	}
	return true
}

// stripCalls removes qualified function names so that only value paths remain
// ("header.TCP.DataOffset($0)" -> "($0)"; "$0.holes" keeps its dot).
func stripCalls(k string) string {
	var b strings.Builder
	i := 0
	for i < len(k) {
		// an identifier path followed by '(' is a callee name
		j := i
		for j < len(k) && (isIdentByte(k[j]) || k[j] == '.' || k[j] == '*' || k[j] == '/' || k[j] == ':') {
			j++
		}
		if j > i && j < len(k) && k[j] == '(' && !strings.HasPrefix(k[i:j], "$") {
			i = j
			continue
		}
		if j > i {
			b.WriteString(k[i:j])
			i = j
			continue
		}
		b.WriteByte(k[i])
		i++
	}
	return b.String()
}

func isIdentByte(c byte) bool {
	return c == '_' || c == '$' || (c >= '0' && c <= '9') || (c >= 'a' && c <= 'z') || (c >= 'A' && c <= 'Z')
}

func summaryForm(g LinForm) (int, int64, bool) {
	if !deferrable(g) || len(g.coef) != 1 {
		return 0, 0, false
	}
	for k, c := range g.coef {
		if c != -1 {
			return 0, 0, false
		}
		var i int
		if n, err := fmt.Sscanf(k, "len($%d)", &i); n == 1 && err == nil && k == fmt.Sprintf("len($%d)", i) {
			return i, g.c, true
		}
	}
	return 0, 0, false
}
