package np

import (
	"encoding/json"
	"fmt"
	"golang.org/x/tools/go/ssa"
	"os"
	"path/filepath"
	"sort"
	"strings"
	"time"
)

// Status of one obligation.
type Status string

const (
	OK        Status = "discharged"
	Viol      Status = "violation"
	Assumed   Status = "assumed"
	Info      Status = "info"
	Integrity Status = "integrity"
)

// Obl is one rule instance evaluated on the current tree.
// Key is rule/function/construct: never a line number.
type Obl struct {
	Rule   string `json:"rule"`
	Key    string `json:"key"`
	Pos    string `json:"pos,omitempty"`
	Status Status `json:"status"`
	Detail string `json:"detail,omitempty"`
}

type Finding struct {
	Property string `json:"property"`
	Key      string `json:"key"`
	Status   string `json:"status"` // known | fixed
	Commit   string `json:"commit,omitempty"`
	What     string `json:"what"`
}

// Ctx collects the obligations of one property check.
type Ctx struct {
	P           *Program
	Prop        string
	Tier        string
	Config      string
	Obls        []*Obl
	rules       map[string]*ruleInfo
	Notes       []string
	Assumptions []string
	Explanation string
	Extra       map[string]interface{}
	vacuityDone bool
	mutated     map[string]bool
	reviewed    []*ssa.Function
}

type ruleInfo struct {
	ID, Kind, Doc string
	Min           int
	Instances     int
	Violations    int
}

func NewCtx(p *Program, prop, tier string) *Ctx {
	if canonProg != p {
		canonProg, arithTemplates, canonMemo = p, nil, map[string]string{}
	}
	return &Ctx{P: p, Prop: prop, Tier: tier, rules: map[string]*ruleInfo{}, Extra: map[string]interface{}{}}
}

// Rule declares a rule with the minimum instance count it must reach
// (vacuity guard) and returns its id for chaining.
func (c *Ctx) Rule(id, kind, doc string, min int) string {
	if _, ok := c.rules[id]; !ok {
		c.rules[id] = &ruleInfo{ID: id, Kind: kind, Doc: doc, Min: min}
	}
	return id
}

func (c *Ctx) add(rule, key, pos string, st Status, detail string) {
	ri := c.rules[rule]
	if ri == nil {
		ri = &ruleInfo{ID: rule, Kind: "?", Min: 0}
		c.rules[rule] = ri
	}
	if st != Info && st != Integrity {
		ri.Instances++
	}
	if st == Viol || st == Integrity {
		ri.Violations++
	}
	c.Obls = append(c.Obls, &Obl{Rule: rule, Key: rule + "/" + key, Pos: pos, Status: st, Detail: detail})
}

func (c *Ctx) Ok(rule, key, pos, detail string)     { c.add(rule, key, pos, OK, detail) }
func (c *Ctx) Bad(rule, key, pos, detail string)    { c.add(rule, key, pos, Viol, detail) }
func (c *Ctx) Assume(rule, key, pos, detail string) { c.add(rule, key, pos, Assumed, detail) }
func (c *Ctx) Note(rule, key, pos, detail string)   { c.add(rule, key, pos, Info, detail) }
func (c *Ctx) Broken(rule, key, detail string)      { c.add(rule, key, "", Integrity, detail) }

// Check records ok/violation by a boolean.
func (c *Ctx) Check(cond bool, rule, key, pos, okDetail, badDetail string) bool {
	if cond {
		c.Ok(rule, key, pos, okDetail)
	} else {
		c.Bad(rule, key, pos, badDetail)
	}
	return cond
}

func verifRoot() string {
	if r := os.Getenv("NP_VERIF_ROOT"); r != "" {
		return r
	}
	exe, err := os.Executable()
	if err == nil {
		d := filepath.Dir(filepath.Dir(filepath.Dir(exe))) // tool/bin/npcheck -> /verif
		if _, err := os.Stat(filepath.Join(d, "properties.jsonl")); err == nil {
			return d
		}
	}
	return "/verif"
}

func loadFindings() []Finding {
	var fs []Finding
	b, err := os.ReadFile(filepath.Join(verifRoot(), "known_findings.json"))
	if err != nil {
		return nil
	}
	var doc struct {
		Findings []Finding `json:"findings"`
	}
	if json.Unmarshal(b, &doc) == nil {
		fs = doc.Findings
	}
	return fs
}

// Finish applies vacuity guards and known findings, writes the evidence
// file, prints VIOLATION / KNOWN-FINDING lines and returns the exit code.
// vacuity adds an integrity failure for every rule that matched fewer
// instances than were confirmed by hand (idempotent).
func (c *Ctx) vacuity() {
	if c.vacuityDone {
		return
	}
	c.vacuityDone = true
	var rids []string
	for id := range c.rules {
		rids = append(rids, id)
	}
	sort.Strings(rids)
	for _, id := range rids {
		ri := c.rules[id]
		if ri.Instances < ri.Min {
			c.add(id, "vacuous", "", Integrity, fmt.Sprintf("rule matched %d instances, needs >= %d (anchors moved or rule no longer sees the code)", ri.Instances, ri.Min))
		}
	}
}

// Unlisted returns the violations that known_findings.json does not list.
func (c *Ctx) Unlisted() []*Obl {
	c.vacuity()
	known := map[string]bool{}
	for _, f := range loadFindings() {
		if f.Property == c.Prop && f.Status == "known" {
			known[f.Key] = true
		}
	}
	var out []*Obl
	for _, o := range c.Obls {
		if o.Status == Integrity || (o.Status == Viol && !known[o.Key]) {
			out = append(out, o)
		}
	}
	return out
}

// Merge adds the obligations of a second build configuration that the first
// one does not already have with the same outcome.
func (c *Ctx) Merge(o *Ctx) {
	o.vacuity()
	have := map[string]bool{}
	for _, x := range c.Obls {
		have[x.Rule+"|"+x.Key+"|"+fmt.Sprint(x.Status)] = true
	}
	for _, x := range o.Obls {
		if have[x.Rule+"|"+x.Key+"|"+fmt.Sprint(x.Status)] {
			continue
		}
		y := *x
		y.Detail = "[" + o.Config + "] " + y.Detail
		c.Obls = append(c.Obls, &y)
		if ri := c.rules[y.Rule]; ri != nil && y.Status != Info {
			ri.Instances++
			if y.Status == Viol || y.Status == Integrity {
				ri.Violations++
			}
		}
	}
	c.Config += "+" + o.Config
}

func (c *Ctx) Finish(t0 time.Time, writeEvidence bool) int {
	c.vacuity()
	known := map[string]Finding{}
	for _, f := range loadFindings() {
		if f.Property == c.Prop && f.Status == "known" {
			known[f.Key] = f
		}
	}
	nViol, nKnown, nOK, nAssumed := 0, 0, 0, 0
	root := verifRoot()
	vdir := filepath.Join(root, "evidence", "violations")
	var lines []string
	seenKnown := map[string]bool{}
	for _, o := range c.Obls {
		switch o.Status {
		case OK:
			nOK++
		case Assumed:
			nAssumed++
		case Viol, Integrity:
			if f, ok := known[o.Key]; ok && o.Status == Viol {
				nKnown++
				if !seenKnown[o.Key] {
					seenKnown[o.Key] = true
					lines = append(lines, fmt.Sprintf("KNOWN-FINDING: property=%s key=%s at %s: %s", c.Prop, o.Key, o.Pos, f.What))
				}
				continue
			}
			nViol++
			rp := filepath.Join(vdir, fmt.Sprintf("%s-%d.json", c.Prop, nViol))
			if writeEvidence {
				os.MkdirAll(vdir, 0o755)
				b, _ := json.MarshalIndent(map[string]interface{}{"property": c.Prop, "config": c.Config, "obligation": o}, "", " ")
				os.WriteFile(rp, b, 0o644)
			}
			lines = append(lines, fmt.Sprintf("VIOLATION property=%s replay=%s rule=%s key=%s at=%s :: %s", c.Prop, rp, o.Rule, o.Key, o.Pos, o.Detail))
		}
	}
	for _, l := range lines {
		fmt.Println(l)
	}
	if writeEvidence {
		c.writeEvidence(t0, nViol, nKnown, nOK, nAssumed)
	}
	fmt.Printf("%s %s[%s]: obligations=%d discharged=%d assumed=%d known=%d violations=%d rules=%d wall=%.1fs\n",
		c.Prop, c.Tier, c.Config, nOK+nAssumed+nKnown+nViol, nOK, nAssumed, nKnown, nViol, len(c.rules), time.Since(t0).Seconds())
	if nViol > 0 {
		return 1
	}
	return 0
}

func (c *Ctx) writeEvidence(t0 time.Time, nViol, nKnown, nOK, nAssumed int) {
	root := verifRoot()
	os.MkdirAll(filepath.Join(root, "evidence"), 0o755)
	type ruleOut struct {
		ID         string `json:"id"`
		Kind       string `json:"kind"`
		Doc        string `json:"doc"`
		Instances  int    `json:"instances"`
		Violations int    `json:"violations"`
	}
	var rules []ruleOut
	var rids []string
	for id := range c.rules {
		rids = append(rids, id)
	}
	sort.Strings(rids)
	for _, id := range rids {
		r := c.rules[id]
		rules = append(rules, ruleOut{r.ID, r.Kind, r.Doc, r.Instances, r.Violations})
	}
	// samples: every violation/assumed, and up to 3 discharged per rule
	var samples []*Obl
	per := map[string]int{}
	distinct := map[string]bool{}
	for _, o := range c.Obls {
		if o.Status != Info {
			distinct[o.Key] = true
		}
		if o.Status == OK {
			if per[o.Rule] >= 3 {
				continue
			}
			per[o.Rule]++
		}
		if o.Status == Info && per["info:"+o.Rule] >= 2 {
			continue
		}
		if o.Status == Info {
			per["info:"+o.Rule]++
		}
		samples = append(samples, o)
	}
	seed := 0
	fmt.Sscanf(os.Getenv("VERIF_SEED"), "%d", &seed)
	cov := map[string]interface{}{
		"explanation":         c.Explanation,
		"obligations":         nOK + nAssumed + nKnown + nViol,
		"discharged":          nOK,
		"assumed":             nAssumed,
		"known_findings":      nKnown,
		"evaluations":         nOK + nAssumed + nKnown + nViol,
		"distinct_nontrivial": len(distinct),
		"rule":                "one evaluation = one rule instance (rule/function/construct) found in the current source of /repo and decided; distinct = distinct instance keys",
		"rules":               rules,
		"samples":             samples,
		"packages_loaded":     len(c.P.Pkgs),
		"functions_analysed":  len(c.P.Funcs),
		"config":              c.Config,
		"checker_cmd":         "tool/bin/npcheck -prop " + c.Prop + " -tier " + c.Tier,
		"trusted_base":        []string{"go/types, go/ssa, go/callgraph (x/tools v0.29.0)", "npcheck rule engine and frozen rule tables under /verif/tool/np"},
		"notes":               c.Notes,
	}
	for k, v := range c.Extra {
		cov[k] = v
	}
	ev := map[string]interface{}{
		"property_id": c.Prop,
		"tier":        c.Tier,
		"seed":        seed,
		"level":       "other",
		"coverage":    cov,
		"assumptions": c.Assumptions,
		"wall_s":      time.Since(t0).Seconds(),
		"violations":  nViol,
	}
	if c.Assumptions == nil {
		ev["assumptions"] = []string{}
	}
	b, _ := json.MarshalIndent(ev, "", " ")
	os.WriteFile(filepath.Join(root, "evidence", c.Prop+".json"), b, 0o644)
}

func joinNonEmpty(parts ...string) string {
	var out []string
	for _, p := range parts {
		if p != "" {
			out = append(out, p)
		}
	}
	return strings.Join(out, "; ")
}
