package np

import (
	"fmt"
	"go/constant"
	"go/token"
	"go/types"

	"golang.org/x/tools/go/ssa"
)

// NumericObligations: inside one named function, every fixed-width integer
// addition/subtraction/multiplication must not wrap and every narrowing
// conversion must be lossless (interval analysis).
func (c *Ctx) NumericObligations(rule string, an *Absint, fn *ssa.Function) {
	c.numericObligations(rule, an, fn, true)
}

// NarrowingObligations checks only the conversions (modular arithmetic such
// as hash sums is allowed to wrap).
func (c *Ctx) NarrowingObligations(rule string, an *Absint, fn *ssa.Function) {
	c.numericObligations(rule, an, fn, false)
}

func (c *Ctx) numericObligations(rule string, an *Absint, fn *ssa.Function, wrap bool) {
	a := an.get(fn)
	name := FuncName(fn)
	for _, b := range fn.Blocks {
		for _, in := range b.Instrs {
			switch x := in.(type) {
			case *ssa.BinOp:
				if !isIntType(x.Type()) || !wrap {
					continue
				}
				tr := typeRange(x.Type())
				if tr == topItv {
					continue
				}
				var m Itv
				l, r := a.eval(x.X, b.Index), a.eval(x.Y, b.Index)
				switch x.Op {
				case token.ADD:
					m = l.add(r)
				case token.SUB:
					m = l.add(r.neg())
				case token.MUL:
					m = l.mul(r)
				default:
					continue
				}
				key := name + "/wrap:" + a.t.T(x)
				c.Check(!m.empty() && m.within(tr), rule, key, c.pos(in), fmt.Sprintf("%s in %s fits %s", x.Op, m, TypeStr(x.Type())), fmt.Sprintf("%s %s can reach %s, outside %s %s: the fixed-width result wraps", a.t.T(x), x.Op, m, TypeStr(x.Type()), tr))
			case *ssa.Convert:
				if !isIntType(x.Type()) || !isIntType(x.X.Type()) {
					continue
				}
				tr := typeRange(x.Type())
				if tr == topItv {
					continue
				}
				src := a.eval(x.X, b.Index)
				if typeRange(x.X.Type()).within(tr) {
					continue // widening
				}
				key := name + "/narrow:" + TypeStr(x.Type()) + "(" + a.t.T(x.X) + ")"
				c.Check(!src.empty() && src.within(tr), rule, key, c.pos(in), fmt.Sprintf("operand in %s fits %s", src, TypeStr(x.Type())), fmt.Sprintf("conversion to %s loses bits: operand can be %s", TypeStr(x.Type()), src))
			}
		}
	}
}

func init() {
	absintHookC10 = func(c *Ctx) {
		r := c.Rule("Q3i", "K8 intervals", "ephemeral port arithmetic neither wraps nor leaves [16000,65535]", 4)
		fn := c.Fn(r, "(*ports.PortManager).PickEphemeralPort")
		if fn == nil {
			return
		}
		an := NewAbsint(c.P)
		c.NumericObligations(r, an, fn)
		a := an.get(fn)
		// the port handed to the tester and returned
		for _, ci := range c.Calls(fn, Is("dyn"), false) {
			it := a.eval(ci.Common().Args[0], ci.Block().Index)
			c.Check(it.Lo >= 16000 && it.Hi <= 65535, r, FuncName(fn)+"/port-range", c.pos(ci), "tested port in "+it.String(), "tested port can be "+it.String()+", outside [16000,65535]")
		}
		// the loop covers i in [0,count): the constant 49536 is MaxUint16 - FirstEphemeral + 1
		if k := pkgConst(c.P, "protocol/ports", "FirstEphemeral"); k != nil {
			fe, _ := constant.Int64Val(k)
			c.Check(65535-fe+1 == 49536 && fe == 16000, r, FuncName(fn)+"/range-constants", c.P.Pos(fn.Pos()), "FirstEphemeral=16000, count=49536", "ephemeral range constants changed: FirstEphemeral="+k.ExactString())
		} else {
			c.Broken(r, "anchor-unresolved:ports.FirstEphemeral", "constant not found")
		}
	}
	absintHookC11 = func(c *Ctx) {
		r := c.Rule("U6", "K12", "Write's size guard keeps payload + 8-byte header within the 16-bit length field", 1)
		k := pkgConst(c.P, "protocol/header", "UDPMinimumSize")
		if k == nil {
			c.Broken(r, "anchor-unresolved:header.UDPMinimumSize", "constant not found")
			return
		}
		hs, _ := constant.Int64Val(k)
		fn := c.Fn(r, "(*udp.endpoint).Write")
		if fn == nil {
			return
		}
		want := fmt.Sprintf("(iface:tcpip.Payload.Size($1) < %d)", 65535-hs+1)
		found := false
		for _, e := range CondEdges(fn) {
			if e.Atom == want {
				found = true
			}
		}
		c.Check(found, r, FuncName(fn)+"/size-guard", c.P.Pos(fn.Pos()), "rejects payloads larger than 65535 - UDPMinimumSize", "no test of the payload size against 65535 - UDPMinimumSize ("+want+"): the 16-bit UDP length field can wrap")
	}
}

func pkgConst(p *Program, rel, name string) constant.Value {
	pk := p.Pkg(rel)
	if pk == nil {
		return nil
	}
	if k, ok := pk.Scope().Lookup(name).(*types.Const); ok {
		return k.Val()
	}
	return nil
}
