package np

import (
	"bufio"
	"encoding/json"
	"fmt"
	"os"
	"path/filepath"
	"sort"
	"strconv"
	"strings"
)

// printUncovered (dev aid): which functions in the files a property is
// anchored in are not referred to by any obligation of its check.
func printUncovered(c *Ctx, prop string) {
	f, err := os.Open(filepath.Join(verifRoot(), "properties.jsonl"))
	if err != nil {
		fmt.Println("uncovered:", err)
		return
	}
	defer f.Close()
	var files []string
	sc := bufio.NewScanner(f)
	sc.Buffer(make([]byte, 1<<20), 1<<24)
	for sc.Scan() {
		var p struct {
			ID      string `json:"id"`
			Anchors struct {
				Files []string `json:"files"`
			} `json:"anchors"`
		}
		if json.Unmarshal(sc.Bytes(), &p) == nil && p.ID == prop {
			files = p.Anchors.Files
		}
	}
	type span struct {
		name    string
		file    string
		lo, hi  int
		n       int
		covered bool
	}
	var spans []*span
	for _, fn := range c.P.Funcs {
		if fn.Syntax() == nil {
			continue
		}
		lo := c.P.Fset.Position(fn.Syntax().Pos())
		hi := c.P.Fset.Position(fn.Syntax().End())
		rel := lo.Filename
		if i := strings.Index(rel, "/repo/"); i >= 0 {
			rel = rel[i+6:]
		}
		in := false
		for _, a := range files {
			if strings.HasSuffix(rel, a) {
				in = true
			}
		}
		if !in {
			continue
		}
		n := 0
		for _, b := range fn.Blocks {
			n += len(b.Instrs)
		}
		spans = append(spans, &span{name: FuncName(fn), file: rel, lo: lo.Line, hi: hi.Line, n: n})
	}
	for _, o := range c.Obls {
		file, line := "", 0
		if i := strings.LastIndex(o.Pos, ":"); i > 0 {
			file = o.Pos[:i]
			line, _ = strconv.Atoi(o.Pos[i+1:])
		}
		for _, s := range spans {
			if strings.Contains(o.Key, s.name) || (file != "" && strings.HasSuffix(s.file, file) && line >= s.lo && line <= s.hi) {
				s.covered = true
			}
		}
	}
	if os.Getenv("NPCHECK_COVERED_OUT") != "" {
		// dev: append the names of ALL module functions some obligation refers to
		var all []*span
		for _, fn := range c.P.Funcs {
			if fn.Syntax() == nil || inTesting(fn) {
				continue
			}
			lo := c.P.Fset.Position(fn.Syntax().Pos())
			hi := c.P.Fset.Position(fn.Syntax().End())
			rel := lo.Filename
			if i := strings.Index(rel, "/repo/"); i >= 0 {
				rel = rel[i+6:]
			}
			n := 0
			for _, b := range fn.Blocks {
				n += len(b.Instrs)
			}
			all = append(all, &span{name: FuncName(fn), file: rel, lo: lo.Line, hi: hi.Line, n: n})
		}
		for _, o := range c.Obls {
			file, line := "", 0
			if i := strings.LastIndex(o.Pos, ":"); i > 0 {
				file = o.Pos[:i]
				line, _ = strconv.Atoi(o.Pos[i+1:])
			}
			for _, s := range all {
				if strings.Contains(o.Key, s.name) || (file != "" && strings.HasSuffix(s.file, file) && line >= s.lo && line <= s.hi) {
					s.covered = true
				}
			}
		}
		f, err := os.OpenFile(os.Getenv("NPCHECK_COVERED_OUT"), os.O_APPEND|os.O_CREATE|os.O_WRONLY, 0644)
		if err == nil {
			for _, s := range all {
				st := "U"
				if s.covered {
					st = "C"
				}
				fmt.Fprintf(f, "%s\t%s\t%s:%d\t%d\n", st, s.name, s.file, s.lo, s.n)
			}
			f.Close()
		}
	}
	sort.Slice(spans, func(i, j int) bool { return spans[i].n > spans[j].n })
	tot, unc := 0, 0
	for _, s := range spans {
		tot++
		if !s.covered {
			unc++
			fmt.Printf("UNCOVERED %-60s %s:%d  (%d instrs)\n", s.name, s.file, s.lo, s.n)
		}
	}
	fmt.Printf("uncovered: %d of %d functions in %d anchor files\n", unc, tot, len(files))
}
