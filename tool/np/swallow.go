package np

import (
	"go/token"
	"go/types"
	"strings"

	"golang.org/x/tools/go/ssa"
)

// SwallowedErrors: in a function that itself returns *tcpip.Error, a call
// produced an error value e, and a return of the constant nil (in the error
// position) is reachable from that call without passing a branch on which e is
// known to be nil (e == nil taken, or e != nil not taken). Such a path reports
// success although the callee may have failed. Returns the findings as
// (function, call position, return instruction).
type Swallow struct {
	Fn   *ssa.Function
	Call ssa.Instruction
	Ret  ssa.Instruction
	Desc string
}

func isTcpipError(t types.Type) bool {
	p, ok := t.(*types.Pointer)
	if !ok {
		return false
	}
	n, ok := p.Elem().(*types.Named)
	return ok && n.Obj().Name() == "Error" && n.Obj().Pkg() != nil && strings.HasSuffix(n.Obj().Pkg().Path(), "/protocol")
}

func SwallowedErrors(fn *ssa.Function) []Swallow {
	res := fn.Signature.Results()
	if res.Len() == 0 || !isTcpipError(res.At(res.Len()-1).Type()) || len(fn.Blocks) == 0 {
		return nil
	}
	errIdx := res.Len() - 1
	var out []Swallow
	Instrs(fn, func(in ssa.Instruction) {
		call, ok := in.(*ssa.Call)
		if !ok {
			return
		}
		// the error value produced by the call
		var ev ssa.Value
		rt := call.Type()
		if tup, ok := rt.(*types.Tuple); ok {
			if tup.Len() == 0 || !isTcpipError(tup.At(tup.Len()-1).Type()) {
				return
			}
			if refs := call.Referrers(); refs != nil {
				for _, r := range *refs {
					if ex, ok := r.(*ssa.Extract); ok && ex.Index == tup.Len()-1 {
						ev = ex
					}
				}
			}
			if ev == nil {
				return // discarded entirely: a different rule's business
			}
		} else if isTcpipError(rt) {
			ev = call
		} else {
			return
		}
		// an error value nobody looks at is a deliberate fire-and-forget
		// (TCP's sends are repaired by retransmission); this rule is about
		// values that ARE examined and still lead to a nil return
		used := false
		if refs := ev.Referrers(); refs != nil {
			for _, r := range *refs {
				if _, dbg := r.(*ssa.DebugRef); !dbg {
					used = true
				}
			}
		}
		if !used {
			return
		}
		carries := map[ssa.Value]bool{ev: true}
		for changed := true; changed; {
			changed = false
			Instrs(fn, func(i2 ssa.Instruction) {
				if phi, ok := i2.(*ssa.Phi); ok && !carries[phi] {
					for _, e := range phi.Edges {
						if carries[e] {
							carries[phi] = true
							changed = true
						}
					}
				}
			})
		}
		type pos struct {
			b *ssa.BasicBlock
			i int
		}
		start := pos{call.Block(), 0}
		for i, x := range call.Block().Instrs {
			if x == ssa.Instruction(call) {
				start.i = i + 1
			}
		}
		seen := map[*ssa.BasicBlock]bool{}
		var walk func(p pos)
		walk = func(p pos) {
			for i := p.i; i < len(p.b.Instrs); i++ {
				x := p.b.Instrs[i]
				if x == ssa.Instruction(call) {
					return // the call runs again (loop): a new error value
				}
				if ret, ok := x.(*ssa.Return); ok {
					if len(ret.Results) > errIdx {
						r := ret.Results[errIdx]
						// spilled result
						if ld, ok := r.(*ssa.UnOp); ok && ld.Op == token.MUL {
							if root, ok := ld.X.(*ssa.Alloc); ok && !root.Heap {
								if v := reachingStore(root, ld); v != nil {
									r = v
								}
							}
						}
						if k, ok := r.(*ssa.Const); ok && k.IsNil() {
							out = append(out, Swallow{Fn: fn, Call: call, Ret: ret, Desc: CalleeName(call)})
						}
					}
					return
				}
				if ifi, ok := x.(*ssa.If); ok {
					if bo, ok := ifi.Cond.(*ssa.BinOp); ok && (bo.Op == token.EQL || bo.Op == token.NEQ) {
						var other ssa.Value
						if carries[bo.X] {
							other = bo.Y
						} else if carries[bo.Y] {
							other = bo.X
						}
						if k, isC := other.(*ssa.Const); isC && k.IsNil() {
							nonNil := 1 // false edge of ==
							if bo.Op == token.NEQ {
								nonNil = 0
							}
							s := p.b.Succs[nonNil]
							if !seen[s] {
								seen[s] = true
								walk(pos{s, 0})
							}
							return
						}
					}
				}
			}
			for _, s := range p.b.Succs {
				if !seen[s] {
					seen[s] = true
					walk(pos{s, 0})
				}
			}
		}
		walk(start)
	})
	return out
}
