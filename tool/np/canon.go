package np

import (
	"go/token"
	"regexp"
	"sort"
	"strconv"
	"strings"

	"golang.org/x/tools/go/ssa"
)

// Term canonicalisation used when a reviewed term and the term computed from
// the current source differ as strings. It never changes what the Termer
// prints; it is applied to BOTH sides of a comparison and only widens equality
// by identities that hold for every value in modular integer arithmetic:
//
//   - associativity/commutativity of + and -, folding of integer literals:
//     ((a + 1) + b) = (b + (a + 1)) = (a + b + 1)
//   - an equality is a statement about the difference of its sides:
//     (a == (b + 1))  =  ((a - 1) == b)  =  (0 == a - b - 1)
//   - pure arithmetic helpers of the module are replaced by their own body,
//     read from the current source (seqnum.Value.Add(v, s) = v + s,
//     seqnum.Value.Size(v, w) = w - v, segmentHeap.Len(h) = len(h)); if such a
//     body is changed, both sides change alike here and the rules that decide
//     the helper itself (C14/S1, C04/N6s) report it
//   - ("" == s) = (0 == len(s));  time.Since(t) = time.Now().Sub(t)
//
// Ordering comparisons are NOT rearranged (a+1 < b and a < b-1 differ on
// overflow). Anything the small parser below is not sure about is left as it
// is, which can only make two terms differ.

var canonProg *Program
var canonMemo = map[string]string{}
var arithTemplates map[string]string

var canonParamRe = regexp.MustCompile(`\$(\d+)`)

// termEq: equal as printed, or equal after canonicalisation.
func termEq(a, b string) bool {
	if a == b {
		return true
	}
	return canonTerm(a) == canonTerm(b)
}

func canonTerm(s string) string {
	if r, ok := canonMemo[s]; ok {
		return r
	}
	r := canon(s, 0)
	canonMemo[s] = r
	return r
}

// arithmetic helpers: module functions whose body is a single return of an
// expression over their parameters built from + - conversions, constants and
// len().
func buildArithTemplates(p *Program) map[string]string {
	out := map[string]string{"time.Since": "time.Time.Sub(time.Now(), $0)"}
	if p == nil {
		return out
	}
	var pure func(v ssa.Value, depth int) bool
	pure = func(v ssa.Value, depth int) bool {
		if depth > 6 {
			return false
		}
		switch x := v.(type) {
		case *ssa.Parameter:
			return true
		case *ssa.Const:
			return isIntType(x.Type())
		case *ssa.Convert:
			return isIntType(x.Type()) && isIntType(x.X.Type()) && pure(x.X, depth+1)
		case *ssa.ChangeType:
			return pure(x.X, depth+1)
		case *ssa.BinOp:
			return (x.Op == token.ADD || x.Op == token.SUB) && isIntType(x.Type()) && pure(x.X, depth+1) && pure(x.Y, depth+1)
		case *ssa.Call:
			if b, ok := x.Common().Value.(*ssa.Builtin); ok && b.Name() == "len" && len(x.Common().Args) == 1 {
				_, isParam := x.Common().Args[0].(*ssa.Parameter)
				return isParam
			}
		}
		return false
	}
	for _, fn := range p.Funcs {
		if len(fn.Blocks) != 1 || fn.Parent() != nil || fn.Signature.Results().Len() != 1 {
			continue
		}
		ret, ok := fn.Blocks[0].Instrs[len(fn.Blocks[0].Instrs)-1].(*ssa.Return)
		if !ok || len(ret.Results) != 1 {
			continue
		}
		// pure conversions of a parameter (usleeper(s) = unsafe.Pointer(s),
		// linkerFor(e) = e): the helper is the identity on the value
		if id := identityParam(ret.Results[0]); id != nil {
			clean := true
			for _, in := range fn.Blocks[0].Instrs {
				switch in.(type) {
				case *ssa.Return, *ssa.Convert, *ssa.ChangeType, *ssa.MakeInterface, *ssa.DebugRef:
				default:
					clean = false
				}
			}
			if clean {
				out[FuncName(fn)] = "$" + strconv.Itoa(paramIndex(id))
			}
			continue
		}
		// pure accessor: return p.f  (List.Front() = l.head, VectorisedView.Size() = vv.size)
		if ld, ok := ret.Results[0].(*ssa.UnOp); ok && ld.Op == token.MUL {
			if fa, ok := ld.X.(*ssa.FieldAddr); ok {
				if par, ok := fa.X.(*ssa.Parameter); ok && len(fn.Blocks[0].Instrs) <= 4 {
					if fv, _ := fieldOf(fa); fv != nil {
						out[FuncName(fn)] = "$" + strconv.Itoa(paramIndex(par)) + "." + fv.Name()
					}
				}
			}
			continue
		}
		if fl, ok := ret.Results[0].(*ssa.Field); ok {
			if par, ok := fl.X.(*ssa.Parameter); ok && len(fn.Blocks[0].Instrs) <= 4 {
				if fv, _ := fieldOf(fl); fv != nil {
					out[FuncName(fn)] = "$" + strconv.Itoa(paramIndex(par)) + "." + fv.Name()
				}
			}
			continue
		}
		if !pure(ret.Results[0], 0) {
			continue
		}
		// no other effects in the body
		clean := true
		for _, in := range fn.Blocks[0].Instrs {
			switch in.(type) {
			case *ssa.Store, *ssa.MapUpdate, *ssa.Send, *ssa.Go, *ssa.Defer, *ssa.Panic:
				clean = false
			}
		}
		if clean {
			tpl := NewTermer(fn).T(ret.Results[0])
			if strings.Contains(tpl, "$") && (strings.Contains(tpl, " + ") || strings.Contains(tpl, " - ") || strings.Contains(tpl, "builtin:len(")) {
				out[FuncName(fn)] = tpl
			}
		}
	}
	return out
}

func templates() map[string]string {
	if arithTemplates == nil {
		arithTemplates = buildArithTemplates(canonProg)
	}
	return arithTemplates
}

// ---------------------------------------------------------------- scanning

// matchClose returns the index of the bracket closing the one at s[i], -1 if
// unbalanced. String literals are skipped.
func matchClose(s string, i int) int {
	depth := 0
	for j := i; j < len(s); j++ {
		switch s[j] {
		case '"':
			j = skipString(s, j)
			if j < 0 {
				return -1
			}
		case '(', '[', '{':
			depth++
		case ')', ']', '}':
			depth--
			if depth == 0 {
				return j
			}
			if depth < 0 {
				return -1
			}
		}
	}
	return -1
}

// matchOpen returns the index of the bracket opening the one that closes at
// s[i] (scanning backwards); string literals make it give up (-1).
func matchOpen(s string, i int) int {
	if strings.Contains(s, `"`) {
		// forward scan to be safe with literals
		for k := 0; k < i; k++ {
			switch s[k] {
			case '"':
				k = skipString(s, k)
				if k < 0 {
					return -1
				}
			case '(', '[', '{':
				if matchClose(s, k) == i {
					return k
				}
			}
		}
		return -1
	}
	depth := 0
	for j := i; j >= 0; j-- {
		switch s[j] {
		case ')', ']', '}':
			depth++
		case '(', '[', '{':
			depth--
			if depth == 0 {
				return j
			}
		}
	}
	return -1
}

func skipString(s string, i int) int {
	for j := i + 1; j < len(s); j++ {
		if s[j] == '\\' {
			j++
			continue
		}
		if s[j] == '"' {
			return j
		}
	}
	return -1
}

// splitTop splits s at top-level occurrences of sep.
func splitTopSep(s, sep string) []string {
	var out []string
	depth, start := 0, 0
	for j := 0; j < len(s); j++ {
		switch s[j] {
		case '"':
			k := skipString(s, j)
			if k < 0 {
				return []string{s}
			}
			j = k
			continue
		case '(', '[', '{':
			depth++
		case ')', ']', '}':
			depth--
		}
		if depth == 0 && strings.HasPrefix(s[j:], sep) {
			out = append(out, s[start:j])
			start = j + len(sep)
			j += len(sep) - 1
		}
	}
	return append(out, s[start:])
}

var binOps = []string{"==", "!=", "<=", "<", "&&", "||", "+", "-", "*", "/", "%", "&^", "&", "|", "^", "<<", ">>"}

// splitBinary finds the single top-level " op " of the inside of a
// parenthesised binary term.
func splitBinary(inner string) (l, op, r string, ok bool) {
	depth := 0
	for j := 0; j < len(inner); j++ {
		switch inner[j] {
		case '"':
			k := skipString(inner, j)
			if k < 0 {
				return
			}
			j = k
			continue
		case '(', '[', '{':
			depth++
		case ')', ']', '}':
			depth--
		case ' ':
			if depth != 0 {
				continue
			}
			for _, o := range binOps {
				if strings.HasPrefix(inner[j+1:], o+" ") {
					return inner[:j], o, inner[j+len(o)+2:], true
				}
			}
		}
	}
	return
}

func isIntLit(s string) (int64, bool) {
	if s == "" {
		return 0, false
	}
	n, err := strconv.ParseInt(s, 10, 64)
	return n, err == nil
}

func nonArithOperand(s string) bool {
	return s == "nil" || s == "true" || s == "false" || s == "zero" || strings.HasPrefix(s, `"`) || strings.Contains(s, "e+") || (strings.Contains(s, ".") && func() bool { _, err := strconv.ParseFloat(s, 64); return err == nil }())
}

// ---------------------------------------------------------------- canon

type linsum struct {
	terms map[string]int64
	k     int64
	ok    bool
}

func (ls *linsum) add(s string, sign int64, depth int) {
	if !ls.ok {
		return
	}
	s = strings.TrimSpace(s)
	if n, ok := isIntLit(s); ok {
		ls.k += sign * n
		return
	}
	if len(s) > 2 && s[0] == '(' && matchClose(s, 0) == len(s)-1 {
		if l, op, r, ok := splitBinary(s[1 : len(s)-1]); ok && (op == "+" || op == "-") {
			if nonArithOperand(l) || nonArithOperand(r) {
				ls.ok = false
				return
			}
			ls.add(l, sign, depth+1)
			if op == "-" {
				ls.add(r, -sign, depth+1)
			} else {
				ls.add(r, sign, depth+1)
			}
			return
		}
	}
	c := canon(s, depth+1)
	// a canonical sub-term may itself have become a sum (helper expansion)
	if c != s && len(c) > 2 && c[0] == '(' && matchClose(c, 0) == len(c)-1 {
		if _, op, _, ok := splitBinary(c[1 : len(c)-1]); ok && (op == "+" || op == "-") && depth < 40 {
			ls.add(c, sign, depth+1)
			return
		}
	}
	ls.terms[c] += sign
}

func (ls *linsum) String() string {
	var pos, neg []string
	keys := make([]string, 0, len(ls.terms))
	for t := range ls.terms {
		keys = append(keys, t)
	}
	sort.Strings(keys)
	for _, t := range keys {
		n := ls.terms[t]
		for i := int64(0); i < n && i < 8; i++ {
			pos = append(pos, t)
		}
		for i := int64(0); i > n && i > -8; i-- {
			neg = append(neg, t)
		}
	}
	if len(pos) == 0 && len(neg) == 0 {
		return strconv.FormatInt(ls.k, 10)
	}
	if len(pos) == 1 && len(neg) == 0 && ls.k == 0 {
		return pos[0]
	}
	var b strings.Builder
	b.WriteString("(")
	first := true
	for _, t := range pos {
		if !first {
			b.WriteString(" + ")
		}
		b.WriteString(t)
		first = false
	}
	if first {
		b.WriteString("0")
	}
	for _, t := range neg {
		b.WriteString(" - " + t)
	}
	if ls.k > 0 {
		b.WriteString(" + " + strconv.FormatInt(ls.k, 10))
	} else if ls.k < 0 {
		b.WriteString(" - " + strconv.FormatInt(-ls.k, 10))
	}
	b.WriteString(")")
	return b.String()
}

func canon(s string, depth int) string {
	if depth > 60 || len(s) < 2 {
		return s
	}
	if r, ok := canonMemo[s]; ok {
		return r
	}
	switch {
	case s[0] == '"':
		return s
	case s[0] == '!':
		in := canon(s[1:], depth+1)
		if strings.HasPrefix(in, "!") {
			return in[1:]
		}
		return "!" + in
	case s[0] == '&' && len(s) > 1 && s[1] != ' ':
		return "&" + canon(s[1:], depth+1)
	case strings.HasPrefix(s, "<-"):
		return "<-" + canon(s[2:], depth+1)
	}
	last := s[len(s)-1]
	// ( a op b )
	if s[0] == '(' && matchClose(s, 0) == len(s)-1 {
		l, op, r, ok := splitBinary(s[1 : len(s)-1])
		if !ok {
			return s
		}
		switch op {
		case "+", "-":
			ls := &linsum{terms: map[string]int64{}, ok: true}
			ls.add(s, 1, depth)
			if ls.ok {
				return ls.String()
			}
			return "(" + canon(l, depth+1) + " " + op + " " + canon(r, depth+1) + ")"
		case "==", "!=":
			cl, cr := canon(l, depth+1), canon(r, depth+1)
			if cl == `""` || cr == `""` {
				other := cl
				if cl == `""` {
					other = cr
				}
				return "(0 " + op + " builtin:len(" + other + "))"
			}
			if nonArithOperand(cl) || nonArithOperand(cr) {
				if cl > cr {
					cl, cr = cr, cl
				}
				return "(" + cl + " " + op + " " + cr + ")"
			}
			ls := &linsum{terms: map[string]int64{}, ok: true}
			ls.add(cl, 1, depth)
			ls.add(cr, -1, depth)
			if !ls.ok {
				return "(" + cl + " " + op + " " + cr + ")"
			}
			// sign normalisation: the smallest term positive
			keys := make([]string, 0, len(ls.terms))
			for t, n := range ls.terms {
				if n != 0 {
					keys = append(keys, t)
				} else {
					delete(ls.terms, t)
				}
			}
			sort.Strings(keys)
			if len(keys) > 0 && ls.terms[keys[0]] < 0 {
				for t := range ls.terms {
					ls.terms[t] = -ls.terms[t]
				}
				ls.k = -ls.k
			}
			return "(0 " + op + " " + ls.String() + ")"
		case "*", "&", "|", "^", "&&", "||":
			cl, cr := canon(l, depth+1), canon(r, depth+1)
			if cl > cr {
				cl, cr = cr, cl
			}
			return "(" + cl + " " + op + " " + cr + ")"
		case "<=":
			// integers are totally ordered: a <= b  =  !(b < a)
			cl, cr := canon(l, depth+1), canon(r, depth+1)
			if nonArithOperand(cl) || nonArithOperand(cr) {
				return "(" + cl + " <= " + cr + ")"
			}
			return "!" + canon("("+cr+" < "+cl+")", depth+1)
		case "<":
			cl, cr := canon(l, depth+1), canon(r, depth+1)
			// a length is never negative: len(x) < 1  =  0 == len(x)
			if cr == "1" && strings.HasPrefix(cl, "builtin:len(") {
				return "(0 == " + cl + ")"
			}
			return "(" + cl + " < " + cr + ")"
		default:
			return "(" + canon(l, depth+1) + " " + op + " " + canon(r, depth+1) + ")"
		}
	}
	// phi{a | b}
	if strings.HasPrefix(s, "phi{") && matchClose(s, 3) == len(s)-1 {
		parts := splitTopSep(s[4:len(s)-1], " | ")
		set := map[string]bool{}
		for _, p := range parts {
			cp := canon(p, depth+1)
			// phi{a | phi{a | b}} = phi{a | b}
			if strings.HasPrefix(cp, "phi{") && matchClose(cp, 3) == len(cp)-1 {
				for _, q := range splitTopSep(cp[4:len(cp)-1], " | ") {
					set[q] = true
				}
				continue
			}
			set[cp] = true
		}
		var ss []string
		for p := range set {
			ss = append(ss, p)
		}
		sort.Strings(ss)
		if len(ss) == 1 {
			return ss[0]
		}
		return "phi{" + strings.Join(ss, " | ") + "}"
	}
	// name(args)
	if last == ')' {
		if k := matchOpen(s, len(s)-1); k > 0 {
			name := s[:k]
			if !strings.Contains(name, " ") || (strings.HasPrefix(name, "(*") && !strings.Contains(name[strings.Index(name, ")")+1:], " ")) {
				var args []string
				if k+1 < len(s)-1 {
					for _, a := range splitTopSep(s[k+1:len(s)-1], ", ") {
						args = append(args, canon(a, depth+1))
					}
				}
				if tpl, ok := templates()[name]; ok {
					okSub := true
					res := canonParamRe.ReplaceAllStringFunc(tpl, func(m string) string {
						i, _ := strconv.Atoi(m[1:])
						if i >= len(args) {
							okSub = false
							return m
						}
						return args[i]
					})
					if okSub {
						return canon(res, depth+1)
					}
				}
				return name + "(" + strings.Join(args, ", ") + ")"
			}
		}
		return s
	}
	// x[...]  /  [a, b]
	if last == ']' {
		if k := matchOpen(s, len(s)-1); k >= 0 {
			inside := s[k+1 : len(s)-1]
			if k == 0 {
				var es []string
				for _, e := range splitTopSep(inside, ", ") {
					es = append(es, canon(e, depth+1))
				}
				return "[" + strings.Join(es, ", ") + "]"
			}
			parts := splitTopSep(inside, ":")
			for i := range parts {
				parts[i] = canon(parts[i], depth+1)
			}
			return canon(s[:k], depth+1) + "[" + strings.Join(parts, ":") + "]"
		}
		return s
	}
	// T{f: v, ...}
	if last == '}' {
		if k := matchOpen(s, len(s)-1); k > 0 && !strings.Contains(s[:k], " ") {
			var fs []string
			for _, f := range splitTopSep(s[k+1:len(s)-1], ", ") {
				if i := strings.Index(f, ": "); i > 0 && !strings.ContainsAny(f[:i], "([{\"") {
					v := canon(f[i+2:], depth+1)
					// a field set to its zero value is the same as a field left out
					if v == "0" || v == "nil" || v == "false" || v == `""` || v == "zero" {
						continue
					}
					fs = append(fs, f[:i+2]+v)
				} else {
					fs = append(fs, canon(f, depth+1))
				}
			}
			return s[:k] + "{" + strings.Join(fs, ", ") + "}"
		}
		return s
	}
	// suffixes: X.field  X#n  X@n
	for j := len(s) - 1; j > 0; j-- {
		c := s[j]
		if c == '.' || c == '#' || c == '@' {
			suf := s[j+1:]
			if suf == "" || strings.ContainsAny(suf, " ()[]{}\"") {
				break
			}
			head := s[:j]
			// only when the head ends a bracketed construct (otherwise it is a plain dotted name)
			if hl := head[len(head)-1]; hl == ')' || hl == ']' || hl == '}' {
				return canon(head, depth+1) + string(c) + suf
			}
			continue
		}
		if !(c == '_' || c >= '0' && c <= '9' || c >= 'a' && c <= 'z' || c >= 'A' && c <= 'Z') {
			break
		}
	}
	return s
}

// canonRow canonicalises a path-table row "[c1 && c2] => return X".
func canonRow(row string) string {
	i := strings.Index(row, "] => ")
	if !strings.HasPrefix(row, "[") || i < 0 {
		return row
	}
	conds := splitTopSep(row[1:i], " && ")
	for k := range conds {
		conds[k] = canonTerm(conds[k])
	}
	sort.Strings(conds)
	res := row[i+5:]
	if strings.HasPrefix(res, "return ") {
		vals := splitTopSep(res[7:], ", ")
		for k := range vals {
			vals[k] = canonTerm(vals[k])
		}
		res = "return " + strings.Join(vals, ", ")
	}
	return "[" + strings.Join(conds, " && ") + "] => " + res
}

func canonAll(l []string) []string {
	out := make([]string, len(l))
	for i, x := range l {
		out[i] = canonTerm(x)
	}
	return out
}

func identityParam(v ssa.Value) *ssa.Parameter {
	for i := 0; i < 6; i++ {
		switch x := v.(type) {
		case *ssa.Parameter:
			return x
		case *ssa.Convert:
			v = x.X
		case *ssa.ChangeType:
			v = x.X
		default:
			return nil
		}
	}
	return nil
}
