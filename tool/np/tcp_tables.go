package np

import (
	"fmt"
	"strings"

	"golang.org/x/tools/go/ssa"
)

// Reviewed site tables of the TCP sender/receiver core, shared by C01-C05.
// Each entry was printed by `npcheck -dump spec:...` from the tree, read
// against the RFC 793/5681/6298 mechanism it implements, and given a reason.
// Tags say which property's clause the entry decides.

type taggedSpec struct {
	Tags string // e.g. "C01 C04"
	SiteSpec
}

func pick(tab []taggedSpec, tag string) []SiteSpec {
	var out []SiteSpec
	for _, t := range tab {
		for _, x := range strings.Fields(t.Tags) {
			if x == tag {
				out = append(out, t.SiteSpec)
			}
		}
	}
	return out
}

var sendDataAbbr = map[string]string{
	"SEG":    "phi{$0.writeNext | (*tcp.segmentEntry).Next(&loop.segmentEntry)}",
	"END":    "seqnum.Value.Add($0.sndUna, $0.sndWnd)",
	"SEQ":    "{SEG}.sequenceNumber@u",
	"AVAIL":  "phi{$0.maxPayloadSize | seqnum.Value.Size({SEQ}, {END})}",
	"NONNIL": "!(nil == {SEG})",
	"CWND":   "($0.outstanding@u < $0.sndCwnd@u)",
	"DATA":   "!(0 == buffer.VectorisedView.Size({SEG}.data))",
	"ISFIN":  "(0 == buffer.VectorisedView.Size({SEG}.data))",
	"NOFIN":  "((1 & {SEG}.flags@u) == 0)",
	"INWND":  "seqnum.Value.LessThan({SEQ}, {END})",
	"SPLIT":  "({AVAIL} < buffer.VectorisedView.Size({SEG}.data))",
	"SEGEND": "phi{seqnum.Value.Add({SEQ}, 1) | seqnum.Value.Add({SEQ}, buffer.VectorisedView.Size({SEG}.data))}",
	"CLONE":  "(*tcp.segment).clone({SEG})",
}

func sd(ss ...string) []string { return sub(sendDataAbbr, ss...) }

func sendDataTable() []taggedSpec {
	return []taggedSpec{
		{"C01", SiteSpec{Kind: "store", Target: "tcp.segment.sequenceNumber", Args: sd("{SEG}", "$0.sndNxt@u"), Guards: sd("{NONNIL}", "{CWND}", "(0 == {SEG}.flags@u)"), Exact: true, N: 1,
			Why: "a segment gets its sequence number (= sndNxt) exactly once, when it is first sent (flags still 0)"}},
		{"C01 C04", SiteSpec{Kind: "call", Target: "(*tcp.segment).clone", Args: sd("{SEG}"), Guards: sd("{DATA}", "{NONNIL}", "{CWND}", "{NOFIN}", "{SPLIT}", "{INWND}"), Exact: true, N: 1,
			Why: "a data segment is split exactly when it is larger than min(window room, maxPayloadSize)"}},
		{"C01 C04", SiteSpec{Kind: "call", Target: "(*buffer.VectorisedView).TrimFront", Args: sd("&{CLONE}.data", "{AVAIL}"), Guards: sd("{DATA}", "{NONNIL}", "{CWND}", "{NOFIN}", "{SPLIT}", "{INWND}"), Exact: true, N: 1,
			Why: "the second half starts after exactly `available` bytes"}},
		{"C01 C04", SiteSpec{Kind: "call", Target: "(*seqnum.Value).UpdateForward", Args: sd("&{CLONE}.sequenceNumber", "{AVAIL}"), Guards: sd("{DATA}", "{NONNIL}", "{CWND}", "{NOFIN}", "{SPLIT}", "{INWND}"), Exact: true, N: 1,
			Why: "... and its sequence number advances by the same amount"}},
		{"C01 C04", SiteSpec{Kind: "call", Target: "(*buffer.VectorisedView).CapLength", Args: sd("&{SEG}.data", "{AVAIL}"), Guards: sd("{DATA}", "{NONNIL}", "{CWND}", "{NOFIN}", "{SPLIT}", "{INWND}"), Exact: true, N: 1,
			Why: "the first half keeps exactly `available` bytes: nothing lost, nothing repeated"}},
		{"C01", SiteSpec{Kind: "call", Target: "(*tcp.segmentList).InsertAfter", Args: sd("&$0.writeList", "{SEG}", "{CLONE}"), Guards: sd("{DATA}", "{NONNIL}", "{CWND}", "{NOFIN}", "{SPLIT}", "{INWND}"), Exact: true, N: 1,
			Why: "the second half is queued right behind the first"}},
		{"C01 C04 C05", SiteSpec{Kind: "call", Target: "(*tcp.sender).sendSegment", Args: sd("$0", "{SEG}.data", "{SEG}.flags@u", "{SEQ}"), Guards: sd("{NONNIL}", "{CWND}"), Exact: true, N: 1,
			Why: "one transmission per loop iteration, of this segment's own data/flags/sequence number, only while outstanding < cwnd"}},
		{"C04", SiteSpec{Kind: "call", Target: "seqnum.Value.LessThan", Args: sd("{SEQ}", "{END}"), Guards: sd("{DATA}", "{NONNIL}", "{CWND}", "{NOFIN}"), Exact: true, N: 1,
			Why: "data is sent only when it starts before sndUna+sndWnd (the right edge of the peer's window)"}},
		{"C05", SiteSpec{Kind: "store", Target: "tcp.sender.outstanding", Args: sd("$0", "($0.outstanding@u + 1)"), Guards: sd("{DATA}", "{NONNIL}", "{CWND}", "{NOFIN}", "{INWND}"), Exact: true, N: 1,
			Why: "every data segment sent counts against the congestion window"}},
		{"C01 C02", SiteSpec{Kind: "store", Target: "tcp.sender.sndNxt", Args: sd("$0", "{SEGEND}"), Guards: sd("{NONNIL}", "{CWND}", "seqnum.Value.LessThan($0.sndNxt@u, {SEGEND})"), Exact: true, N: 1,
			Why: "sndNxt moves to the end of what was sent (data length, or 1 for a FIN), only forward, compared in sequence space"}},
		{"C02", SiteSpec{Kind: "store", Target: "tcp.segment.flags", Args: sd("{SEG}", "17"), Guards: sd("{NONNIL}", "{CWND}", "((*tcp.segmentList).Back(&$0.writeList) == {SEG})", "{ISFIN}"), Exact: true, N: 1,
			Why: "the zero-length segment, and only the last one in the write list, becomes FIN|ACK"}},
		{"C02 C05", SiteSpec{Kind: "call", Target: "(*tcp.timer).enable", Args: []string{"&$0.resendTimer", "$0.rto"}, Guards: []string{"!($0.sndNxt@u == $0.sndUna)", "!(*tcp.timer).enabled(&$0.resendTimer)"}, Exact: true, N: 1,
			Why: "the retransmission timer is (re)armed with the current RTO whenever anything - data or FIN - is unacknowledged (sndUna != sndNxt) and it is not already running"}},
	}
}

func consumeSegmentTable() []taggedSpec {
	inw := "seqnum.Value.InWindow($0.rcvNxt, $2, $3)"
	lt := "seqnum.Value.LessThan($2, $0.rcvNxt)"
	diff := "seqnum.Value.Size($2, $0.rcvNxt)"
	fin := "(*tcp.segment).flagIsSet($1, 1)"
	return []taggedSpec{
		{"C01 C04", SiteSpec{Kind: "call", Target: "seqnum.Value.InWindow", Args: []string{"$0.rcvNxt", "$2", "$3"}, Guards: []string{"!($3 == 0)"}, Exact: true, N: 1,
			Why: "data is consumable only if the segment [segSeq, segSeq+segLen) contains the next expected byte rcvNxt"}},
		{"C01", SiteSpec{Kind: "return", Target: "", Args: []string{"false"}, Guards: []string{"!" + inw, "!($3 == 0)"}, Exact: true, N: 1, Why: "otherwise a gap remains: not consumed"}},
		{"C01", SiteSpec{Kind: "call", Target: "seqnum.Value.LessThan", Args: []string{"$2", "$0.rcvNxt"}, Guards: []string{"!($3 == 0)", inw}, Exact: true, N: 1, Why: "already-received prefix detected in sequence space"}},
		{"C01", SiteSpec{Kind: "call", Target: "(*buffer.VectorisedView).TrimFront", Args: []string{"&$1.data", diff}, Guards: []string{"!($3 == 0)", inw, lt}, Exact: true, N: 1,
			Why: "exactly rcvNxt-segSeq already-delivered bytes are dropped from the front"}},
		{"C01", SiteSpec{Kind: "call", Target: "(*seqnum.Value).UpdateForward", Args: []string{"&$1.sequenceNumber", diff}, Guards: []string{"!($3 == 0)", inw, lt}, Exact: true, N: 1,
			Why: "... and the segment's sequence number advances with its data"}},
		{"C01", SiteSpec{Kind: "call", Target: "(*seqnum.Value).UpdateForward", Args: []string{"&new(seqnum.Value)", diff}, Guards: []string{"!($3 == 0)", inw, lt}, Exact: true, N: 1,
			Why: "... and so does the local segSeq from which rcvNxt is computed"}},
		{"C01 C04", SiteSpec{Kind: "call", Target: "(*tcp.endpoint).readyToRead", Args: []string{"$0.ep", "$1"}, Guards: []string{"!($3 == 0)", inw}, Exact: true, N: 1,
			Why: "data is handed to the reader exactly when it contains rcvNxt (in order, inside the window), after trimming"}},
		{"C01 C02", SiteSpec{Kind: "return", Target: "", Args: []string{"false"}, Guards: []string{"!($0.rcvNxt == $2)", "($3 == 0)"}, Exact: true, N: 1, Why: "an empty segment (bare FIN, pure ACK) is consumable only exactly at rcvNxt: end-of-stream is never signalled across a gap"}},
		{"C01", SiteSpec{Kind: "store", Target: "tcp.receiver.rcvNxt", Args: []string{"$0", "seqnum.Value.Add(new(seqnum.Value)@u, phi{$3 | phi{$3 | ($3 - " + diff + ")}})"}, Guards: []string{}, Exact: true, N: 1,
			Why: "rcvNxt = (trimmed) segSeq + (trimmed) segLen: advances by exactly the bytes handed to the reader"}},
		{"C01 C02", SiteSpec{Kind: "store", Target: "tcp.receiver.rcvNxt", Args: []string{"$0", "($0.rcvNxt@1 + 1)"}, Guards: []string{fin}, Exact: true, N: 1, Why: "a FIN consumes one sequence number"}},
		{"C02", SiteSpec{Kind: "call", Target: "(*tcp.sender).sendAck", Args: []string{"$0.ep.snd"}, Guards: []string{fin}, Exact: true, N: 1, Why: "FIN is acknowledged at once"}},
		{"C01 C02", SiteSpec{Kind: "return", Target: "", Args: []string{"true"}, Guards: []string{}, N: 1, Why: "consumed"}},
		{"C02", SiteSpec{Kind: "store", Target: "tcp.receiver.closed", Args: []string{"$0", "true"}, Guards: []string{fin}, Exact: true, N: 1, Why: "receive side closes only on a consumed (in-order) FIN"}},
		{"C01 C02", SiteSpec{Kind: "call", Target: "(*tcp.endpoint).readyToRead", Args: []string{"$0.ep", "nil"}, Guards: []string{fin}, Exact: true, N: 1, Why: "readers are told end-of-stream (nil segment) on FIN"}},
	}
}

func rcvHandleSegmentTable() []taggedSpec {
	s := "$1"
	seq := "$1.sequenceNumber"
	ln := "buffer.VectorisedView.Size($1.data)"
	acc := "(*tcp.receiver).acceptable($0, " + seq + ", " + ln + ")"
	cons := "(*tcp.receiver).consumeSegment($0, " + s + ", " + seq + ", " + ln + ")"
	p0 := "$0.pendingRcvdSegments[0]"
	return []taggedSpec{
		{"C01 C04", SiteSpec{Kind: "call", Target: "(*tcp.receiver).acceptable", Args: []string{"$0", seq, ln}, Guards: []string{"!$0.closed"}, Exact: true, N: 1,
			Why: "every arriving segment is tested against the receive window with its own sequence number and payload length; nothing is processed after the receive side closed"}},
		{"C01 C02", SiteSpec{Kind: "call", Target: "(*tcp.receiver).consumeSegment", Args: []string{"$0", s, seq, ln}, Guards: []string{"!$0.closed", acc}, Exact: true, N: 1,
			Why: "an acceptable segment is offered for consumption with its own sequence number and length"}},
		{"C01", SiteSpec{Kind: "call", Target: "container/heap.Push", Args: []string{"&$0.pendingRcvdSegments", s}, Guards: []string{"!$0.closed", "!" + cons, "($0.pendingBufUsed < $0.pendingBufSize)", acc}, N: 1,
			Why: "an acceptable but not yet consumable segment is parked in the sequence-ordered heap (if the out-of-order budget allows)"}},
		{"C01 C02", SiteSpec{Kind: "call", Target: "(*tcp.receiver).consumeSegment", Args: []string{"$0", p0, p0 + ".sequenceNumber", "buffer.VectorisedView.Size(" + p0 + ".data)"}, N: 1,
			Guards: []string{"!$0.closed", acc, cons, "!(tcp.segmentHeap.Len($0.pendingRcvdSegments) < 1)", "!seqnum.Value.LessThan(seqnum.Value.Add(" + p0 + ".sequenceNumber, (buffer.VectorisedView.Size(" + p0 + ".data) - 1)), $0.rcvNxt)"},
			Why:    "after the gap closed, each parked segment (heap minimum) is consumed with ITS OWN sequence number and ITS OWN length; wholly acknowledged ones are skipped"}},
		{"C01", SiteSpec{Kind: "call", Target: "container/heap.Pop", Args: []string{"&$0.pendingRcvdSegments"}, Guards: []string{"!$0.closed", acc, cons, "!(tcp.segmentHeap.Len($0.pendingRcvdSegments) < 1)"}, Exact: true, N: 1,
			Why: "a parked segment leaves the heap only inside the drain loop (consumed or already acknowledged)"}},
		{"C01 C05", SiteSpec{Kind: "call", Target: "(*tcp.sender).sendAck", Args: []string{"$0.ep.snd"}, Guards: []string{"!$0.closed", "!" + acc}, Exact: true, N: 1, Why: "an unacceptable segment only triggers an ACK (RFC 793 p.37)"}},
		{"C01 C05", SiteSpec{Kind: "call", Target: "(*tcp.sender).sendAck", Args: []string{"$0.ep.snd"}, Guards: []string{"!$0.closed", "!" + cons, acc}, N: 1, Why: "an out-of-order segment triggers an immediate (duplicate) ACK so the peer can fast-retransmit"}},
	}
}

// logicalLenRule: a segment's length in sequence space is its payload size
// plus one for SYN and plus one for FIN, each flag tested on its own (all four
// combinations are enumerated from the code's paths). Everything that moves
// through sequence space by "the length of a segment" relies on it: the
// receiver's rcvNxt advance and FIN consumption (C01, C02), the ACK number of a
// reset answering a stray segment (C03), the sender's accounting of
// acknowledged segments.
func logicalLenRule(c *Ctx, rule string) {
	fn := c.Fn(rule, "(*tcp.segment).logicalLen")
	if fn == nil {
		return
	}
	pos := c.P.Pos(fn.Pos())
	ps, es := WalkPaths(fn, 32)
	if es != "" {
		c.Bad(rule, FuncName(fn)+"/undecided", pos, es)
		return
	}
	const size = "buffer.VectorisedView.Size($0.data)"
	syn, fin := "(*tcp.segment).flagIsSet($0, 2)", "(*tcp.segment).flagIsSet($0, 1)"
	seen := map[string]bool{}
	for _, p := range ps {
		nSyn, nFin, okAtoms := -1, -1, true
		for _, cnd := range p.Conds {
			neg := strings.HasPrefix(cnd, "!")
			a := strings.TrimPrefix(cnd, "!")
			v := 1
			if neg {
				v = 0
			}
			switch a {
			case syn:
				nSyn = v
			case fin:
				nFin = v
			default:
				okAtoms = false
			}
		}
		key := FuncName(fn) + "/row:[" + strings.Join(p.Conds, " && ") + "]"
		if !okAtoms || nSyn < 0 || nFin < 0 {
			c.Bad(rule, key, pos, "the length is decided by a test other than 'SYN set' and 'FIN set', each on its own: "+strings.Join(p.Conds, " && "))
			continue
		}
		seen[fmt.Sprintf("%d%d", nSyn, nFin)] = true
		res := strings.TrimPrefix(p.Result, "return ")
		extra, ok := sumOfOnes(strings.Replace(res, size, "0", 1))
		if !ok || !strings.Contains(res, size) {
			c.Bad(rule, key, pos, "result "+res+" is not payload size plus a constant")
			continue
		}
		c.Check(extra == nSyn+nFin, rule, key, pos, fmt.Sprintf("length = payload size + %d", extra), fmt.Sprintf("length = payload size + %d for a segment with SYN=%d FIN=%d; each of SYN and FIN occupies one sequence number (expected + %d)", extra, nSyn, nFin, nSyn+nFin))
	}
	c.Check(len(seen) == 4, rule, FuncName(fn)+"/four-combinations", pos, "all four SYN/FIN combinations have their own path", "not every SYN/FIN combination is distinguished")
	if g := c.Fn(rule, "(*tcp.segment).flagIsSet"); g != nil {
		gp, ges := WalkPaths(g, 8)
		rows := FormatPaths(gp, false)
		ok := ges == "" && len(rows) == 1 && rows[0] == "[] => return (($0.flags & $1) != 0)"
		c.Check(ok, rule, FuncName(g)+"/mask-test", c.P.Pos(g.Pos()), "flagIsSet(f) = flags&f != 0", "flagIsSet is no longer flags&f != 0: "+strings.Join(rows, "; "))
	}
}

// sumOfOnes evaluates an expression made of integer literals, '+' and
// parentheses.
func sumOfOnes(s string) (int, bool) {
	total, cur, has := 0, 0, false
	for _, r := range s {
		switch {
		case r >= '0' && r <= '9':
			cur = cur*10 + int(r-'0')
			has = true
		case r == '+' || r == '(' || r == ')' || r == ' ':
			if has {
				total += cur
				cur, has = 0, false
			}
		default:
			return 0, false
		}
	}
	if has {
		total += cur
	}
	return total, true
}

// registrationFlagRule: tcp.endpoint.isRegistered is the endpoint's own record
// of "the demultiplexer knows me"; cleanupLocked unregisters exactly when it is
// set. The flag therefore has to follow the registration at once:
//   - after a successful RegisterTransportEndpoint the flag is set before the
//     function can return (a handshake that fails later still reaches
//     cleanupLocked with the flag set, so no dead endpoint stays registered and
//     swallows segments for its 4-tuple);
//   - Close's inline unregistration of a listener clears it in the same branch
//     (otherwise the worker's cleanupLocked unregisters the id a second time -
//     by then possibly a new listener's registration).
//
// Shared by C09 (D8) and C03 (H9).
func registrationFlagRule(c *Ctx, rule string) {
	isFlagStore := func(val string) func(ssa.Instruction) bool {
		return func(in ssa.Instruction) bool {
			st, ok := in.(*ssa.Store)
			if !ok {
				return false
			}
			fv, base := fieldOf(st.Addr)
			return fv != nil && fv.Name() == "isRegistered" && typeNamed(base.Type(), "tcp.endpoint") && Term(st.Val) == val
		}
	}
	for _, name := range []string{"(*tcp.listenContext).createConnectedEndpoint", "(*tcp.endpoint).Listen"} {
		fn := c.Fn(rule, name)
		if fn == nil {
			continue
		}
		regs := c.Calls(fn, Is("(*stack.Stack).RegisterTransportEndpoint"), false)
		c.Check(len(regs) == 1, rule, name+"/one-registration", c.P.Pos(fn.Pos()), "one RegisterTransportEndpoint call", "expected exactly one RegisterTransportEndpoint call")
		for _, r := range regs {
			bad := reachAvoidingEdges(fn, r.(ssa.Instruction), isFlagStore("true"), IsReturn, func(e Edge) bool {
				// the error path of the registration itself needs no flag
				return strings.Contains(e.Atom, "RegisterTransportEndpoint(") && strings.HasSuffix(e.Atom, " == nil)") && !e.Holds
			})
			c.Check(bad == nil, rule, name+"/flag-follows-registration", c.pos(r), "isRegistered = true is stored on every path from the successful registration to a return", "a path from the successful registration reaches the return at "+posOf(c, bad)+" without recording it in isRegistered: if the handshake fails later, cleanupLocked will not unregister the endpoint and it keeps swallowing segments for its 4-tuple")
		}
	}
	if fn := c.Fn(rule, "(*tcp.endpoint).connect"); fn != nil {
		c.CheckSitesPresent(rule, fn, []SiteSpec{{Kind: "store", Target: "tcp.endpoint.isRegistered", Args: []string{"$0", "true"}, N: 1, Why: "an active open records its registration"}})
	}
	if fn := c.Fn(rule, "(*tcp.endpoint).Close"); fn != nil {
		g := []string{"$0.isPortReserved", "$0.isRegistered"}
		c.CheckSitesPresent(rule, fn, []SiteSpec{
			{Kind: "call", Target: "(*stack.Stack).UnregisterTransportEndpoint", Args: []string{"$0.stack", "$0.boundNICID", "$0.effectiveNetProtos", "6", "$0.id"}, Guards: g, Exact: true, N: 1, Why: "a listener (or bound endpoint) is unregistered inline by Close"},
			{Kind: "store", Target: "tcp.endpoint.isRegistered", Args: []string{"$0", "false"}, Guards: g, Exact: true, N: 1, Why: "... and the flag is cleared in the same branch, so that cleanupLocked does not unregister the id a second time"},
		})
	}
	if fn := c.Fn(rule, "(*tcp.endpoint).cleanupLocked"); fn != nil {
		c.CheckSitesPresent(rule, fn, []SiteSpec{
			{Kind: "call", Target: "(*stack.Stack).UnregisterTransportEndpoint", Args: []string{"$0.stack", "$0.boundNICID", "$0.effectiveNetProtos", "6", "$0.id"}, Guards: []string{"$0.isRegistered"}, Exact: true, N: 1, Why: "the worker's cleanup unregisters exactly when the flag says the endpoint is registered"},
		})
	}
	c.OnlyIn(rule, "store to tcp.endpoint.isRegistered", c.FieldStores("tcp.endpoint", "isRegistered"), "(*tcp.listenContext).createConnectedEndpoint", "(*tcp.endpoint).Listen", "(*tcp.endpoint).connect", "(*tcp.endpoint).Close")
}

// segmentConstructorRule: a new segment holds the whole payload it was made
// from (every view of an inbound packet: Clone allocates when there are more
// views than the inline array; the single view of an outbound write with its
// own length), one reference, the id and a clone of the route. The interval
// analysis assumes newSegment(...).data == Clone(payload); this rule is what
// makes that assumption a checked fact.
func segmentConstructorRule(c *Ctx, rule string) {
	if fn := c.Fn(rule, "tcp.newSegment"); fn != nil {
		c.CheckSites(rule, fn, []SiteSpec{
			{Kind: "store", Target: "tcp.segment.refCnt", Args: []string{"new(tcp.segment)", "1"}, Guards: []string{}, Exact: true, N: 1, Why: "one reference for the creator"},
			{Kind: "store", Target: "tcp.segment.id", Args: []string{"new(tcp.segment)", "$1"}, Guards: []string{}, Exact: true, N: 1, Why: "the 4-tuple handed in"},
			{Kind: "store", Target: "tcp.segment.route", Args: []string{"new(tcp.segment)", "(*stack.Route).Clone($0)"}, Guards: []string{}, Exact: true, N: 1, Why: "its own route reference"},
			{Kind: "call", Target: "buffer.VectorisedView.Clone", Args: []string{"$2", "new(tcp.segment).views[:]"}, Guards: []string{}, Exact: true, N: 1, Why: "all views of the payload are kept (Clone allocates beyond the inline array)"},
			{Kind: "store", Target: "tcp.segment.data", Args: []string{"new(tcp.segment)", "buffer.VectorisedView.Clone($2, new(tcp.segment).views[:])"}, Guards: []string{}, Exact: true, N: 1, Why: "the segment's data is the clone of the WHOLE payload: size and views agree"},
		})
	}
	if fn := c.Fn(rule, "tcp.newSegmentFromView"); fn != nil {
		c.CheckSites(rule, fn, []SiteSpec{
			{Kind: "store", Target: "tcp.segment.refCnt", Args: []string{"new(tcp.segment)", "1"}, Guards: []string{}, Exact: true, N: 1, Why: "one reference for the creator"},
			{Kind: "store", Target: "tcp.segment.id", Args: []string{"new(tcp.segment)", "$1"}, Guards: []string{}, Exact: true, N: 1, Why: "the 4-tuple handed in"},
			{Kind: "store", Target: "tcp.segment.route", Args: []string{"new(tcp.segment)", "(*stack.Route).Clone($0)"}, Guards: []string{}, Exact: true, N: 1, Why: "its own route reference"},
			{Kind: "elemstore", Target: "&new(tcp.segment).views", Args: []string{"0", "$2"}, Guards: []string{}, Exact: true, N: 1, Why: "the one view is the caller's view"},
			{Kind: "call", Target: "buffer.NewVectorisedView", Args: []string{"builtin:len($2)", "new(tcp.segment).views[:1]"}, Guards: []string{}, Exact: true, N: 1, Why: "size = length of that view, views = exactly that view"},
			{Kind: "store", Target: "tcp.segment.data", Args: []string{"new(tcp.segment)", "buffer.NewVectorisedView(builtin:len($2), new(tcp.segment).views[:1])"}, Guards: []string{}, Exact: true, N: 1, Why: "the segment's data is that one view"},
		})
	}
}
