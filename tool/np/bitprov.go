package np

import (
	"fmt"
	"go/constant"
	"go/token"
	"go/types"
	"sort"
	"strings"

	"golang.org/x/tools/go/ssa"
)

// bitprov: bit-provenance evaluation of the straight-line header codecs.
// Every integer is a vector of bits, each bit a constant, a bit of the
// header buffer, a bit of a parameter/field, or unknown.

type pbit struct {
	kind byte   // '0' '1' 'B' (buffer) 'P' (parameter/field) 'T' (unknown)
	name string // P: "$1", "$1.IHL", "$1[3]" (byte 3 of a string/slice parameter)
	idx  int    // B: byte index
	bit  int    // bit number inside the byte (B) or the parameter (P); 0 = least significant
}

func (b pbit) String() string {
	switch b.kind {
	case '0':
		return "0"
	case '1':
		return "1"
	case 'B':
		return fmt.Sprintf("buf[%d].%d", b.idx, b.bit)
	case 'P':
		return fmt.Sprintf("%s.%d", b.name, b.bit)
	}
	return "?"
}

type bvec []pbit // least significant first

func bzero(n int) bvec {
	v := make(bvec, n)
	for i := range v {
		v[i] = pbit{kind: '0'}
	}
	return v
}
func btop(n int) bvec {
	v := make(bvec, n)
	for i := range v {
		v[i] = pbit{kind: 'T'}
	}
	return v
}
func bconst(c uint64, n int) bvec {
	v := make(bvec, n)
	for i := range v {
		if c>>uint(i)&1 == 1 {
			v[i] = pbit{kind: '1'}
		} else {
			v[i] = pbit{kind: '0'}
		}
	}
	return v
}
func (v bvec) resize(n int) bvec {
	out := make(bvec, n)
	for i := range out {
		if i < len(v) {
			out[i] = v[i]
		} else {
			out[i] = pbit{kind: '0'}
		}
	}
	return out
}
func (v bvec) isConst() (uint64, bool) {
	var c uint64
	for i, b := range v {
		switch b.kind {
		case '1':
			c |= 1 << uint(i)
		case '0':
		default:
			return 0, false
		}
	}
	return c, true
}

// sliceRef: a byte slice/string value with a constant window into the header
// buffer ("buf") or into a parameter.
type sliceRef struct {
	base string // "buf" or parameter name
	off  int
	n    int // -1 unknown
}

type bpVal struct {
	bits      bvec
	slice     *sliceRef
	ptr       *sliceRef // address of one byte: base/off
	field     string    // address of a struct field of a parameter: "$1.IHL"
	fieldBits int
}

type bpResult struct {
	Returns []bpVal
	Writes  map[int][8]pbit // buffer byte -> bits (0 = LSB)
	Order   []int
	Double  []int  // bytes written twice with different content
	Err     string // left the straight-line class
}

type bitprov struct {
	p     *Program
	depth int
}

func typeBits(t types.Type) int {
	b, ok := t.Underlying().(*types.Basic)
	if !ok {
		return 0
	}
	switch b.Kind() {
	case types.Uint8, types.Int8, types.Bool:
		return 8
	case types.Uint16, types.Int16:
		return 16
	case types.Uint32, types.Int32:
		return 32
	case types.Uint64, types.Int64, types.Int, types.Uint, types.Uintptr:
		return 64
	}
	return 0
}

func isByteSeq(t types.Type) bool {
	switch u := t.Underlying().(type) {
	case *types.Slice:
		b, ok := u.Elem().Underlying().(*types.Basic)
		return ok && b.Kind() == types.Uint8
	case *types.Basic:
		return u.Info()&types.IsString != 0
	}
	return false
}

// eval evaluates fn with the receiver bound to recv (a window of the buffer)
// and the other parameters bound to args (nil = symbolic parameter).
func (bp *bitprov) eval(fn *ssa.Function, args []bpVal) *bpResult {
	res := &bpResult{Writes: map[int][8]pbit{}}
	if fn.Blocks == nil {
		res.Err = "no body"
		return res
	}
	path := mainPath(fn)
	if path == nil {
		res.Err = "not straight-line (" + fmt.Sprint(len(fn.Blocks)) + " blocks)"
		return res
	}
	if bp.depth > 4 {
		res.Err = "inlining depth"
		return res
	}
	env := map[ssa.Value]bpVal{}
	for i, p := range fn.Params {
		if i < len(args) && (args[i].bits != nil || args[i].slice != nil || args[i].field != "") {
			env[p] = args[i]
			continue
		}
		name := fmt.Sprintf("$%d", i)
		switch {
		case isByteSeq(p.Type()):
			env[p] = bpVal{slice: &sliceRef{base: name, off: 0, n: -1}}
		case typeBits(p.Type()) > 0:
			n := typeBits(p.Type())
			v := make(bvec, n)
			for j := range v {
				v[j] = pbit{kind: 'P', name: name, bit: j}
			}
			env[p] = bpVal{bits: v}
		default:
			env[p] = bpVal{field: name} // pointer to a fields struct
		}
	}
	get := func(v ssa.Value) bpVal {
		if c, ok := v.(*ssa.Const); ok {
			n := typeBits(c.Type())
			if n > 0 && c.Value != nil {
				if c.Value.Kind() == constant.Int {
					if u, ok := constant.Uint64Val(c.Value); ok {
						return bpVal{bits: bconst(u, n)}
					}
					if i, ok := constant.Int64Val(c.Value); ok {
						return bpVal{bits: bconst(uint64(i), n)}
					}
				}
				if c.Value.Kind() == constant.Bool {
					if constant.BoolVal(c.Value) {
						return bpVal{bits: bconst(1, 8)}
					}
					return bpVal{bits: bconst(0, 8)}
				}
			}
			if n > 0 {
				return bpVal{bits: bzero(n)}
			}
			return bpVal{}
		}
		if x, ok := env[v]; ok {
			return x
		}
		if n := typeBits(v.Type()); n > 0 {
			return bpVal{bits: btop(n)}
		}
		return bpVal{}
	}
	write := func(base string, idx int, bits [8]pbit) {
		if base != "buf" {
			res.Err = "write to a non-buffer slice " + base
			return
		}
		if old, ok := res.Writes[idx]; ok && old != bits {
			res.Double = append(res.Double, idx)
		} else if !ok {
			res.Order = append(res.Order, idx)
		}
		res.Writes[idx] = bits
	}
	readByte := func(s *sliceRef, k int) bvec {
		v := make(bvec, 8)
		for j := range v {
			if s.base == "buf" {
				v[j] = pbit{kind: 'B', idx: s.off + k, bit: j}
			} else {
				v[j] = pbit{kind: 'P', name: fmt.Sprintf("%s[%d]", s.base, s.off+k), bit: j}
			}
		}
		return v
	}
	for _, b := range path {
		for _, in := range b.Instrs {
			if res.Err != "" {
				return res
			}
			switch x := in.(type) {
			case *ssa.DebugRef:
			case *ssa.Slice:
				s := get(x.X).slice
				if s == nil {
					continue
				}
				lo, hi := 0, -1
				if x.Low != nil {
					c, ok := get(x.Low).bits.isConst()
					if !ok {
						env[x] = bpVal{}
						continue
					}
					lo = int(c)
				}
				if x.High != nil {
					c, ok := get(x.High).bits.isConst()
					if !ok {
						env[x] = bpVal{slice: &sliceRef{base: s.base, off: s.off + lo, n: -1}}
						continue
					}
					hi = int(c)
				}
				n := -1
				if hi >= 0 {
					n = hi - lo
				} else if s.n >= 0 {
					n = s.n - lo
				}
				env[x] = bpVal{slice: &sliceRef{base: s.base, off: s.off + lo, n: n}}
			case *ssa.ChangeType:
				env[x] = get(x.X)
			case *ssa.Convert:
				src := get(x.X)
				if src.slice != nil {
					env[x] = src
				} else if n := typeBits(x.Type()); n > 0 && src.bits != nil {
					env[x] = bpVal{bits: src.bits.resize(n)}
				}
			case *ssa.IndexAddr:
				s := get(x.X).slice
				k, ok := get(x.Index).bits.isConst()
				if s != nil && ok {
					env[x] = bpVal{ptr: &sliceRef{base: s.base, off: s.off + int(k)}}
				}
			case *ssa.Index:
				s := get(x.X).slice
				k, ok := get(x.Index).bits.isConst()
				if s != nil && ok {
					env[x] = bpVal{bits: readByte(s, int(k))}
				}
			case *ssa.Lookup:
				s := get(x.X).slice
				k, ok := get(x.Index).bits.isConst()
				if s != nil && ok {
					env[x] = bpVal{bits: readByte(s, int(k))}
				}
			case *ssa.FieldAddr:
				base := get(x.X)
				if base.field != "" {
					fv, _ := fieldOf(x)
					env[x] = bpVal{field: base.field + "." + fv.Name(), fieldBits: typeBits(fv.Type())}
					if isByteSeq(fv.Type()) {
						env[x] = bpVal{field: base.field + "." + fv.Name(), fieldBits: -1}
					}
				}
			case *ssa.UnOp:
				switch x.Op {
				case token.MUL:
					a := get(x.X)
					switch {
					case a.ptr != nil:
						env[x] = bpVal{bits: readByte(&sliceRef{base: a.ptr.base, off: a.ptr.off}, 0)}
					case a.field != "" && a.fieldBits > 0:
						v := make(bvec, a.fieldBits)
						for j := range v {
							v[j] = pbit{kind: 'P', name: a.field, bit: j}
						}
						env[x] = bpVal{bits: v}
					case a.field != "" && a.fieldBits == -1:
						env[x] = bpVal{slice: &sliceRef{base: a.field, off: 0, n: -1}}
					}
				case token.XOR:
					a := get(x.X).bits
					if a != nil {
						out := make(bvec, len(a))
						for i, bb := range a {
							switch bb.kind {
							case '0':
								out[i] = pbit{kind: '1'}
							case '1':
								out[i] = pbit{kind: '0'}
							default:
								out[i] = pbit{kind: 'T'}
							}
						}
						env[x] = bpVal{bits: out}
					}
				}
			case *ssa.BinOp:
				l, r := get(x.X).bits, get(x.Y).bits
				n := typeBits(x.Type())
				if l == nil || r == nil || n == 0 {
					continue
				}
				l, r = l.resize(n), r
				out := btop(n)
				rc, rConst := r.isConst()
				lc, lConst := l.isConst()
				switch x.Op {
				case token.SHL:
					if rConst {
						out = bzero(n)
						for i := 0; i+int(rc) < n; i++ {
							out[i+int(rc)] = l[i]
						}
					}
				case token.SHR:
					if rConst {
						out = bzero(n)
						for i := int(rc); i < n; i++ {
							out[i-int(rc)] = l[i]
						}
					}
				case token.AND:
					r = r.resize(n)
					out = make(bvec, n)
					for i := range out {
						switch {
						case l[i].kind == '0' || r[i].kind == '0':
							out[i] = pbit{kind: '0'}
						case l[i].kind == '1':
							out[i] = r[i]
						case r[i].kind == '1':
							out[i] = l[i]
						case l[i] == r[i]:
							out[i] = l[i]
						default:
							out[i] = pbit{kind: 'T'}
						}
					}
				case token.OR, token.ADD, token.XOR:
					r = r.resize(n)
					out = make(bvec, n)
					disjoint := true
					for i := range out {
						switch {
						case l[i].kind == '0':
							out[i] = r[i]
						case r[i].kind == '0':
							out[i] = l[i]
						case x.Op == token.OR && (l[i].kind == '1' || r[i].kind == '1'):
							out[i] = pbit{kind: '1'}
						default:
							disjoint = false
							out[i] = pbit{kind: 'T'}
						}
					}
					if !disjoint && x.Op != token.OR {
						if lConst && rConst {
							var c uint64
							if x.Op == token.ADD {
								c = lc + rc
							} else {
								c = lc ^ rc
							}
							out = bconst(c, n)
						} else {
							out = btop(n)
						}
					}
				case token.MUL:
					if rConst && rc != 0 && rc&(rc-1) == 0 {
						sh := 0
						for (rc >> uint(sh)) != 1 {
							sh++
						}
						out = bzero(n)
						for i := 0; i+sh < n; i++ {
							out[i+sh] = l[i]
						}
					} else if lConst && rConst {
						out = bconst(lc*rc, n)
					}
				case token.QUO:
					if rConst && rc != 0 && rc&(rc-1) == 0 {
						sh := 0
						for (rc >> uint(sh)) != 1 {
							sh++
						}
						out = bzero(n)
						for i := sh; i < n; i++ {
							out[i-sh] = l[i]
						}
					}
				case token.SUB:
					if lConst && rConst {
						out = bconst(lc-rc, n)
					}
				}
				env[x] = bpVal{bits: out}
			case *ssa.Store:
				a := get(x.Addr)
				v := get(x.Val).bits
				if a.ptr != nil && v != nil {
					var by [8]pbit
					copy(by[:], v.resize(8))
					write(a.ptr.base, a.ptr.off, by)
				} else if a.ptr != nil {
					var by [8]pbit
					for i := range by {
						by[i] = pbit{kind: 'T'}
					}
					write(a.ptr.base, a.ptr.off, by)
				}
				// stores to locals (named results) are ignored
			case *ssa.Call:
				bp.call(fn, x, get, env, write, readByte, res)
			case *ssa.Return:
				for _, r := range x.Results {
					res.Returns = append(res.Returns, get(r))
				}
			case *ssa.Alloc, *ssa.MakeInterface, *ssa.Extract, *ssa.Phi, *ssa.RunDefers:
				if ex, ok := in.(*ssa.Extract); ok {
					if t, ok := env[ex.Tuple]; ok && ex.Index == 0 {
						env[ex] = t
					}
				}
			default:
			}
		}
	}
	return res
}

func (bp *bitprov) call(fn *ssa.Function, x *ssa.Call, get func(ssa.Value) bpVal, env map[ssa.Value]bpVal, write func(string, int, [8]pbit), readByte func(*sliceRef, int) bvec, res *bpResult) {
	if b, ok := x.Common().Value.(*ssa.Builtin); ok {
		switch b.Name() {
		case "copy":
			dst, src := get(x.Common().Args[0]).slice, get(x.Common().Args[1]).slice
			if dst != nil && dst.n > 0 {
				for i := 0; i < dst.n; i++ {
					var by [8]pbit
					if src != nil {
						copy(by[:], readByte(src, i))
					} else {
						for j := range by {
							by[j] = pbit{kind: 'T'}
						}
					}
					write(dst.base, dst.off+i, by)
				}
			} else if dst != nil && dst.base == "buf" {
				res.Err = "copy into the buffer with non-constant length"
			}
		case "len":
			env[x] = bpVal{bits: btop(64)}
		}
		return
	}
	g := x.Common().StaticCallee()
	if g == nil {
		return
	}
	name := FuncName(g)
	args := x.Common().Args
	endian := func(n int, put bool) {
		// args[0] is the ByteOrder receiver
		s := get(args[1]).slice
		if s == nil {
			return
		}
		if put {
			v := get(args[2]).bits
			if v == nil {
				v = btop(n * 8)
			}
			v = v.resize(n * 8)
			for i := 0; i < n; i++ {
				var by [8]pbit
				copy(by[:], v[(n-1-i)*8:(n-i)*8])
				write(s.base, s.off+i, by)
			}
			return
		}
		out := make(bvec, n*8)
		for i := 0; i < n; i++ {
			copy(out[(n-1-i)*8:(n-i)*8], readByte(s, i))
		}
		env[x] = bpVal{bits: out}
	}
	switch name {
	case "encoding/binary.bigEndian.Uint16":
		endian(2, false)
		return
	case "encoding/binary.bigEndian.Uint32":
		endian(4, false)
		return
	case "encoding/binary.bigEndian.Uint64":
		endian(8, false)
		return
	case "encoding/binary.bigEndian.PutUint16":
		endian(2, true)
		return
	case "encoding/binary.bigEndian.PutUint32":
		endian(4, true)
		return
	case "encoding/binary.bigEndian.PutUint64":
		endian(8, true)
		return
	}
	if g.Pkg == nil || g.Pkg != fn.Pkg || g.Blocks == nil {
		if n := typeBits(x.Type()); n > 0 {
			env[x] = bpVal{bits: btop(n)}
		}
		return
	}
	var as []bpVal
	for _, a := range args {
		as = append(as, get(a))
	}
	bp.depth++
	sub := bp.eval(g, as)
	bp.depth--
	if sub.Err != "" {
		if n := typeBits(x.Type()); n > 0 {
			env[x] = bpVal{bits: btop(n)}
		}
		if len(sub.Writes) > 0 || strings.HasPrefix(g.Name(), "Set") || strings.HasPrefix(g.Name(), "Encode") {
			res.Err = "callee " + name + ": " + sub.Err
		}
		return
	}
	for _, k := range sub.Order {
		write("buf", k, sub.Writes[k])
	}
	res.Double = append(res.Double, sub.Double...)
	if len(sub.Returns) >= 1 {
		env[x] = sub.Returns[0]
	}
}

// evalMethod evaluates a method of a byte-slice header type with the receiver
// bound to the whole buffer.
func (bp *bitprov) evalMethod(fn *ssa.Function) *bpResult {
	return bp.eval(fn, []bpVal{{slice: &sliceRef{base: "buf", off: 0, n: -1}}})
}

// fieldBit: the buffer bit holding bit j (0 = LSB) of a big-endian field that
// starts at absolute bit position start (0 = most significant bit of byte 0)
// and is width bits wide.
func fieldBit(start, width, j int) pbit {
	pos := start + width - 1 - j
	return pbit{kind: 'B', idx: pos / 8, bit: 7 - pos%8}
}

func bvecStr(v bvec) string {
	var ss []string
	for i := len(v) - 1; i >= 0; i-- {
		ss = append(ss, v[i].String())
	}
	return strings.Join(ss, " ")
}

func sortedKeysInt(m map[int][8]pbit) []int {
	var ks []int
	for k := range m {
		ks = append(ks, k)
	}
	sort.Ints(ks)
	return ks
}

// mainPath returns the single path of a guarded straight-line function: at
// each branch exactly one successor is a block that only returns constants
// (a size/validity guard); the other one is followed.
func mainPath(fn *ssa.Function) []*ssa.BasicBlock {
	var path []*ssa.BasicBlock
	b := fn.Blocks[0]
	seen := map[int]bool{}
	for {
		if seen[b.Index] {
			return nil
		}
		seen[b.Index] = true
		path = append(path, b)
		switch len(b.Succs) {
		case 0:
			return path
		case 1:
			b = b.Succs[0]
		case 2:
			r0, r1 := constReturnBlock(b.Succs[0]), constReturnBlock(b.Succs[1])
			switch {
			case r0 && !r1:
				b = b.Succs[1]
			case r1 && !r0:
				b = b.Succs[0]
			default:
				return nil
			}
		default:
			return nil
		}
	}
}

func constReturnBlock(b *ssa.BasicBlock) bool {
	for _, in := range b.Instrs {
		switch x := in.(type) {
		case *ssa.Return:
			for _, r := range x.Results {
				if _, ok := r.(*ssa.Const); !ok {
					return false
				}
			}
			return true
		case *ssa.DebugRef, *ssa.RunDefers:
		default:
			return false
		}
	}
	return false
}
