package np

import (
	"fmt"
	"go/token"
	"go/types"
	"strings"

	"golang.org/x/tools/go/ssa"
)

// CondAtom normalises a branch condition to (atom, polarity): the condition
// is true iff atom == polarity. Only "<" and "==" appear as comparison
// operators in atoms; operands of "==" are sorted.
func CondAtom(v ssa.Value) (string, bool) {
	t := NewTermer(valueFn(v))
	return condAtom(t, v)
}

func valueFn(v ssa.Value) *ssa.Function {
	if in, ok := v.(ssa.Instruction); ok {
		return in.Parent()
	}
	if pa, ok := v.(*ssa.Parameter); ok {
		return pa.Parent()
	}
	if fv, ok := v.(*ssa.FreeVar); ok {
		return fv.Parent()
	}
	return nil
}

func condAtom(t *Termer, v ssa.Value) (string, bool) {
	switch x := v.(type) {
	case *ssa.UnOp:
		if x.Op == token.NOT {
			a, p := condAtom(t, x.X)
			return a, !p
		}
	case *ssa.BinOp:
		if a, p, ok := cmpAtom(x, t.T(x.X), t.T(x.Y)); ok {
			return a, p
		}
	}
	return t.T(v), true
}

// cmpAtom normalises a comparison to an atom with polarity. Only "<" and
// "==" appear in atoms. Comparisons with an integer constant are all brought
// to the form (x < K) - x > c, x >= c+1, !(x <= c), c < x ... are one atom -
// and for a value that cannot be negative (len, cap, unsigned types) a test
// against zero is (0 == x) whichever way it was written (x == 0, x < 1,
// !(x > 0), x <= 0).
func cmpAtom(x *ssa.BinOp, a, b string) (string, bool, bool) {
	op := x.Op
	switch op {
	case token.EQL, token.NEQ, token.LSS, token.GTR, token.LEQ, token.GEQ:
	default:
		return "", false, false
	}
	ca, aConst := constInt(x.X)
	cb, bConst := constInt(x.Y)
	lhs := x.X
	if aConst && !bConst { // put the constant on the right
		a, b = b, a
		cb, bConst, aConst = ca, true, false
		switch op {
		case token.LSS:
			op = token.GTR
		case token.GTR:
			op = token.LSS
		case token.LEQ:
			op = token.GEQ
		case token.GEQ:
			op = token.LEQ
		}
		lhs = x.Y
	}
	if bConst && !aConst && isIntType(lhs.Type()) && cb > negInf+1 && cb < posInf-1 {
		nonNeg := valueNonNegative(lhs)
		k := cb
		pol := true
		switch op {
		case token.LSS: // x < k
		case token.LEQ: // x <= k  ==  x < k+1
			k++
		case token.GTR: // x > k   ==  !(x < k+1)
			k, pol = k+1, false
		case token.GEQ: // x >= k  ==  !(x < k)
			pol = false
		case token.EQL, token.NEQ:
			lo, hi := a, constTermInt(k)
			if lo > hi {
				lo, hi = hi, lo
			}
			return "(" + lo + " == " + hi + ")", op == token.EQL, true
		}
		if nonNeg && k == 1 { // x < 1  ==  x == 0
			lo, hi := a, "0"
			if lo > hi {
				lo, hi = hi, lo
			}
			return "(" + lo + " == " + hi + ")", pol, true
		}
		if nonNeg && k <= 0 { // x < 0 is false for such x; keep it recognisable
			return "(" + a + " < " + constTermInt(k) + ")", pol, true
		}
		return "(" + a + " < " + constTermInt(k) + ")", pol, true
	}
	switch op {
	case token.EQL, token.NEQ:
		if a > b {
			a, b = b, a
		}
		return "(" + a + " == " + b + ")", op == token.EQL, true
	case token.LSS:
		return "(" + a + " < " + b + ")", true, true
	case token.GTR:
		return "(" + b + " < " + a + ")", true, true
	case token.LEQ: // a<=b == !(b<a)
		return "(" + b + " < " + a + ")", false, true
	case token.GEQ: // a>=b == !(a<b)
		return "(" + a + " < " + b + ")", false, true
	}
	return "", false, false
}

func constTermInt(k int64) string { return fmt.Sprint(k) }

// valueNonNegative: len/cap results and values of unsigned integer types.
func valueNonNegative(v ssa.Value) bool {
	if bt, ok := v.Type().Underlying().(*types.Basic); ok && bt.Info()&types.IsUnsigned != 0 {
		return true
	}
	for {
		switch x := v.(type) {
		case *ssa.Convert:
			v = x.X
			continue
		case *ssa.ChangeType:
			v = x.X
			continue
		case *ssa.Call:
			if b, ok := x.Common().Value.(*ssa.Builtin); ok && (b.Name() == "len" || b.Name() == "cap") {
				return true
			}
		}
		return false
	}
}

// Edge is a conditional CFG edge with what it asserts.
type Edge struct {
	From  *ssa.BasicBlock
	Succ  int
	Atom  string
	Holds bool
	Cond  ssa.Value
}

// CondEdges lists, for every If in fn, both outgoing edges with the atom they assert.
func CondEdges(fn *ssa.Function) []Edge {
	var out []Edge
	t := NewTermer(fn)
	for _, b := range fn.Blocks {
		if len(b.Instrs) == 0 {
			continue
		}
		ifi, ok := b.Instrs[len(b.Instrs)-1].(*ssa.If)
		if !ok {
			continue
		}
		a, p := condAtom(t, ifi.Cond)
		out = append(out, Edge{b, 0, a, p, ifi.Cond}, Edge{b, 1, a, !p, ifi.Cond})
	}
	return out
}

// GuardedBy reports whether every path from fn's entry to target passes
// through at least one conditional edge accepted by accept (an edge cut).
// For a single accepted edge this is ordinary dominance by that edge.
func GuardedBy(fn *ssa.Function, target *ssa.BasicBlock, accept func(e Edge) bool) bool {
	cut := map[[2]int]bool{}
	for _, e := range CondEdges(fn) {
		if accept(e) {
			cut[[2]int{e.From.Index, e.Succ}] = true
		}
	}
	if len(fn.Blocks) == 0 {
		return false
	}
	seen := map[int]bool{}
	var stack []*ssa.BasicBlock
	stack = append(stack, fn.Blocks[0])
	seen[0] = true
	for len(stack) > 0 {
		b := stack[len(stack)-1]
		stack = stack[:len(stack)-1]
		if b == target {
			return false
		}
		for i, s := range b.Succs {
			if cut[[2]int{b.Index, i}] {
				continue
			}
			if !seen[s.Index] {
				seen[s.Index] = true
				stack = append(stack, s)
			}
		}
	}
	return true
}

// AtomIs builds an edge acceptor: atom satisfies m and holds == want.
func AtomIs(want bool, m func(string) bool) func(Edge) bool {
	return func(e Edge) bool { return e.Holds == want && m(e.Atom) }
}

func AnyOf(fs ...func(Edge) bool) func(Edge) bool {
	return func(e Edge) bool {
		for _, f := range fs {
			if f(e) {
				return true
			}
		}
		return false
	}
}

func Contains(sub string) func(string) bool {
	return func(s string) bool { return strings.Contains(s, sub) }
}

func Exactly(s0 string) func(string) bool {
	return func(s string) bool { return s == s0 }
}

// ReachAvoiding searches forward from the instruction after `from` (or from
// the function entry when from is nil) and returns the first instruction
// satisfying bad that is reachable without executing an instruction that
// satisfies stop. nil means no such path.
func ReachAvoiding(fn *ssa.Function, from ssa.Instruction, stop, bad func(ssa.Instruction) bool) ssa.Instruction {
	if len(fn.Blocks) == 0 {
		return nil
	}
	type item struct {
		b *ssa.BasicBlock
		i int
	}
	var start item
	if from == nil {
		start = item{fn.Blocks[0], 0}
	} else {
		b := from.Block()
		idx := 0
		for i, in := range b.Instrs {
			if in == from {
				idx = i + 1
			}
		}
		start = item{b, idx}
	}
	seen := map[int]bool{}
	work := []item{start}
	for len(work) > 0 {
		it := work[len(work)-1]
		work = work[:len(work)-1]
		stopped := false
		for i := it.i; i < len(it.b.Instrs); i++ {
			in := it.b.Instrs[i]
			if stop != nil && stop(in) {
				stopped = true
				break
			}
			if bad(in) {
				return in
			}
		}
		if stopped {
			continue
		}
		for _, s := range it.b.Succs {
			if !seen[s.Index] {
				seen[s.Index] = true
				work = append(work, item{s, 0})
			}
		}
	}
	return nil
}

func IsReturn(in ssa.Instruction) bool {
	_, ok := in.(*ssa.Return)
	return ok
}

// IsCallTo builds an instruction predicate for non-deferred, non-go calls to
// a function satisfying m; calls to module functions that must-call such a
// function on every path (depth<=3) count as well.
func (p *Program) IsCallTo(m func(string) bool) func(ssa.Instruction) bool {
	return func(in ssa.Instruction) bool {
		c, ok := in.(*ssa.Call)
		if !ok {
			return false
		}
		if m(CalleeName(c)) {
			return true
		}
		if f := c.Common().StaticCallee(); f != nil && f.Blocks != nil {
			return p.MustCall(f, m, 3)
		}
		return false
	}
}

// MustCall: every path from f's entry to a return executes a call matching m.
func (p *Program) MustCall(f *ssa.Function, m func(string) bool, depth int) bool {
	if depth <= 0 || f.Blocks == nil {
		return false
	}
	// a dominating defer of a matching call also counts
	stop := func(in ssa.Instruction) bool {
		switch c := in.(type) {
		case *ssa.Call:
			if m(CalleeName(c)) {
				return true
			}
			if g := c.Common().StaticCallee(); g != nil && g != f && g.Blocks != nil {
				return p.MustCall(g, m, depth-1)
			}
		case *ssa.Defer:
			if m(CalleeName(c)) {
				return true
			}
		}
		return false
	}
	return ReachAvoiding(f, nil, stop, IsReturn) == nil
}

// InstrDominates: a executes before b on every path (same function).
func InstrDominates(a, b ssa.Instruction) bool {
	if a.Block() == b.Block() {
		for _, in := range a.Block().Instrs {
			if in == a {
				return true
			}
			if in == b {
				return false
			}
		}
	}
	return a.Block().Dominates(b.Block())
}

// StoresTo lists stores in fn to the named field of a struct type "pkg.T".
func StoresTo(fn *ssa.Function, typ, field string) []*ssa.Store {
	var out []*ssa.Store
	for _, a := range FieldAccesses(fn) {
		if a.Write && a.Field.Name() == field && typeNamed(a.Base.Type(), typ) {
			out = append(out, a.Instr.(*ssa.Store))
		}
	}
	return out
}
