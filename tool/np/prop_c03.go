package np

import (
	"strings"

	"golang.org/x/tools/go/ssa"
)

func init() { register("C03", propC03) }

func propC03(c *Ctx) {
	c.Explanation = "Decides admission and reset construction as dominance / def-use facts for all inputs: (H1) endpoints are sent on acceptedChan only by deliverAccepted (and Listen's re-queue of already admitted ones); (H2) deliverAccepted is called only after createEndpointAndPerformHandshake returned nil error - whose success return is dominated by handshake.execute()==nil - or, in SYN-cookie mode, only for a segment whose flags are exactly ACK, whose cookie validates and decodes to an MSS index inside the table, after createConnectedEndpoint succeeded, with iss = ack-1 and irs = seq-1; (H3) handshake.state becomes Completed only under checkAck==true, with ACK set (SYN-RCVD) or SYN and ACK set (SYN-SENT); (H4) checkAck's complete decision table over {ACK set, ack == iss+1} is !(ACK && ack != iss+1), and on the false result exactly one RST|ACK is sent whose sequence number is the offending acknowledgement number; (H5) replyWithReset sends RST|ACK with seq = the segment's ack number (0 without ACK) and ack = seq+logical length; HandleUnknownDestinationPacket replies exactly once and never to a RST; (H6) the listener dispatches on the whole flag byte (== SYN, == ACK), not on a mask; (H7) the SYN-cookie pipeline keeps 32 bits end to end: no lossy integer narrowing in encodeMSS/createCookie/isCookieValid and the validated data is compared as decoded. (H8) the length used for a reset's ACK number counts SYN and FIN separately (shared path table of logicalLen); H3 also tables the initial handshake states (resetState, resetToSynRcvd). (H9) isRegistered follows every registration before the registering function can return and is cleared with Close's inline unregistration (shared with C09/D8). (H10) the half-open connection counter: increment and admission exactly below the threshold, decrement on completion. (H11) no examined callee error ends in a nil return in package tcp except four reviewed conversions; H3 also tables handshake.handleSegment, H1 Accept. (H12) every input of the SYN-cookie hash - both ports, both addresses, time bucket, nonce - reaches the hasher; (H13) the TCP header fields the handshake decides on are read from exactly the RFC 793 bits (bit-provenance, shared with C15/B1). (H14) the listener's stateless answers: over the half-open limit a SYN is answered with the cookie as sequence number acknowledging seq+1 without window scaling, and the options of a cookie connection come from the validated cookie and the ACK's timestamp option; (H15) what the handshake state machine sends and negotiates in SYN-SENT and SYN-RCVD, and that the half-open slot and the SYN's reference are given back; (H16) unaccepted connections are reset and closed at teardown, an active open takes its identity from the route found; (H17) the handshake accepts an ACK exactly when it acknowledges iss+1. (H18) a handshake endpoint that loses a registration conflict rolls back exactly the protocols it registered, never the winner's entry (shared with C09/D2). NOT decided: strength of the cookie hash, behaviour over sequences of handshake segments, cookie expiry timing."
	hs := "(*tcp.handshake)."
	ep := "(*tcp.endpoint)."
	rst, ack, syn := "(*tcp.segment).flagIsSet($1, 4)", "(*tcp.segment).flagIsSet($1, 16)", "(*tcp.segment).flagIsSet($1, 2)"
	chk := hs + "checkAck($0, $1)"

	h13 := c.Rule("H13", "K9 bitprov (shared with C15/B1)", "the TCP flags, sequence and acknowledgement numbers the handshake decides on are read from exactly the RFC 793 bits", 5)
	c.fieldAccessorLayouts(h13, &bitprov{p: c.P}, func(f fieldLayout) bool {
		return f.Typ == "TCP" && (f.Field == "Flags" || f.Field == "SequenceNumber" || f.Field == "AckNumber" || f.Field == "DataOffset" || f.Field == "Window")
	})
	// H14, H15: effects of tabled functions no row mentioned (effects.go)
	listenCookieRule(c, c.Rule("H14", "K7 exact-guard site table", "the listener's stateless answers: cookie SYN|ACK over the limit; options of a cookie connection come from the cookie and the ACK", 8))
	handshakeReplyRule(c, c.Rule("H15", "K7 exact-guard site tables", "what the handshake state machine sends and negotiates in SYN-SENT / SYN-RCVD; the half-open slot and the SYN's reference are given back", 9))
	h16 := c.Rule("H16", "K7 site tables (shared with C09/D12)", "unaccepted connections are reset and closed at teardown; an active open takes its identity from the route found and the address asked for", 10)
	tcpTeardownRule(c, h16)
	tcpConnectIdentityRule(c, h16)
	handshakeAckTestRule(c, c.Rule("H17", "K7 closed return table", "the handshake accepts an ACK exactly when it acknowledges iss+1", 2))
	demuxRegistrationRule(c, c.Rule("H18", "K1/K5 site tables (shared with C09/D2)", "a handshake endpoint that loses a registration conflict does not remove the winner: the roll-back covers exactly the protocols it registered", 4))
	h1 := c.Rule("H1", "K3 confinement", "acceptedChan is fed only by deliverAccepted", 1)
	var sends []ssa.Instruction
	for _, fn := range c.P.Funcs {
		Instrs(fn, func(in ssa.Instruction) {
			switch x := in.(type) {
			case *ssa.Send:
				if strings.HasSuffix(Term(x.Chan), ".acceptedChan") {
					sends = append(sends, in)
				}
			case *ssa.Select:
				for _, st := range x.States {
					if st.Send != nil && strings.HasSuffix(Term(st.Chan), ".acceptedChan") {
						sends = append(sends, in)
					}
				}
			}
		})
	}
	c.OnlyIn(h1, "send on acceptedChan", sends, ep+"deliverAccepted", ep+"Listen")

	if fn := c.Fn(h1, ep+"Accept"); fn != nil {
		c.CheckSites(h1, fn, []SiteSpec{
			{Kind: "return", Args: []string{"nil", "nil", "tcpip.ErrInvalidEndpointState"}, Guards: []string{"!($0.state == 2)"}, Exact: true, N: 1, Why: "only a listening endpoint accepts"},
			{Kind: "select", Args: []string{"blocking=false", "recv $0.acceptedChan"}, Guards: []string{"($0.state == 2)"}, Exact: true, N: 1, Why: "Accept takes the next delivered endpoint from the accept queue without blocking"},
			{Kind: "call", Target: ep + "startAcceptedLoop", Args: []string{"select#2", "&new(waiter.Queue)"}, Guards: []string{"($0.state == 2)", "(0 == select#0)"}, Exact: true, N: 1, Why: "the accepted endpoint's worker is started with a fresh wait queue"},
			{Kind: "return", Args: []string{"select#2", "&new(waiter.Queue)", "nil"}, Guards: []string{"($0.state == 2)", "(0 == select#0)"}, Exact: true, N: 1, Why: "... and exactly that endpoint is returned"},
			{Kind: "return", Args: []string{"nil", "nil", "tcpip.ErrWouldBlock"}, Guards: []string{"!(0 == select#0)", "($0.state == 2)"}, Exact: true, N: 1, Why: "nothing queued: would block, never an endpoint"},
		})
	}
	h2 := c.Rule("H2", "K1 site tables", "delivery only after a completed handshake / valid cookie", 6)
	if fn := c.Fn(h2, ep+"handleSynSegment"); fn != nil {
		call := "(*tcp.listenContext).createEndpointAndPerformHandshake($1, $2, $3)"
		c.CheckSites(h2, fn, []SiteSpec{
			{Kind: "call", Target: ep + "deliverAccepted", Args: []string{"$0", call + "#0"}, Guards: []string{"(" + call + "#1 == nil)"}, Exact: true, N: 1, Why: "the endpoint returned by a successful handshake, and only that, is delivered"},
		})
	}
	if fn := c.Fn(h2, "(*tcp.listenContext).createEndpointAndPerformHandshake"); fn != nil {
		for _, s := range Sites(fn) {
			if s.Kind != "return" || len(s.Args) != 2 {
				continue
			}
			if s.Args[1] == "nil" {
				has := false
				for _, g := range s.Guards {
					if g == "((*tcp.handshake).execute(&new(tcp.handshake)) == nil)" {
						has = true
					}
				}
				// also "if err == nil { err = h.execute() }; if err != nil { unwind }"
				if !has {
					has = ErrNilImplies(fn, s.Instr.Block(), "(*tcp.handshake).execute")
				}
				c.Check(has && strings.HasPrefix(s.Args[0], "(*tcp.listenContext).createConnectedEndpoint("), h2, FuncName(fn)+"/success-needs-execute", c.pos(s.Instr), "success is returned only after execute() == nil, with the endpoint created for this SYN", "an endpoint is returned as successfully connected without handshake.execute() having succeeded")
			} else {
				c.Check(s.Args[0] == "nil", h2, FuncName(fn)+"/error-returns-no-endpoint:"+s.Args[1][:minInt(40, len(s.Args[1]))], c.pos(s.Instr), "error paths return no endpoint", "an error path returns an endpoint")
			}
		}
	}
	if fn := c.Fn(h2, ep+"handleListenSegment"); fn != nil {
		m := map[string]string{
			"VALID": "(*tcp.listenContext).isCookieValid($1, $2.id, ($2.ackNumber - 1), ($2.sequenceNumber - 1))",
			"NEW":   "(*tcp.listenContext).createConnectedEndpoint($1, $2, ($2.ackNumber - 1), ($2.sequenceNumber - 1), &new(header.TCPSynOptions))",
		}
		cookieOK := sub(m, "!($2.flags == 2)", "($2.flags == 16)", "({VALID}#0 < builtin:len(tcp.mssTable))", "{VALID}#1")
		c.CheckSites(h2, fn, []SiteSpec{
			{Kind: "call", Target: "(*tcp.listenContext).isCookieValid", Args: []string{"$1", "$2.id", "($2.ackNumber - 1)", "($2.sequenceNumber - 1)"}, Guards: []string{"!($2.flags == 2)", "($2.flags == 16)"}, Exact: true, N: 1,
				Why: "only a bare ACK is validated as a cookie: cookie = ack-1, peer ISS = seq-1"},
			{Kind: "call", Target: "(*tcp.listenContext).createConnectedEndpoint", Args: sub(m, "$1", "$2", "($2.ackNumber - 1)", "($2.sequenceNumber - 1)", "&new(header.TCPSynOptions)"), Guards: cookieOK, Exact: true, N: 1,
				Why: "a connection is created only for a valid cookie whose data is an MSS-table index; iss = ack-1 (exactly the cookie we chose), irs = seq-1"},
			{Kind: "call", Target: ep + "deliverAccepted", Args: sub(m, "$0", "{NEW}#0"), Guards: append(append([]string{}, cookieOK...), sub(m, "({NEW}#1 == nil)")...), Exact: true, N: 1,
				Why: "... and delivered only if its creation succeeded"},
			{Kind: "go", Target: ep + "handleSynSegment", Args: []string{"$0", "$1", "$2", "&new(header.TCPSynOptions)"}, Guards: []string{"($2.flags == 2)", "tcp.incSynRcvdCount()"}, Exact: true, N: 1,
				Why: "a full handshake goroutine only for a bare SYN, within the SYN-RCVD budget"},
			{Kind: "call", Target: "(*tcp.listenContext).createCookie", Args: []string{"$1", "$2.id", "$2.sequenceNumber", "tcp.encodeMSS(new(header.TCPSynOptions).MSS@1)"}, Guards: []string{"!tcp.incSynRcvdCount()", "($2.flags == 2)"}, Exact: true, N: 1,
				Why: "cookie mode: cookie from the peer's id, ISS and MSS"},
		})
		// H6
		h6 := c.Rule("H6", "K1", "listener dispatch on exact flag patterns", 2)
		atoms := map[string]bool{}
		for _, e := range CondEdges(fn) {
			atoms[e.Atom] = true
		}
		c.Check(atoms["($2.flags == 2)"], h6, FuncName(fn)+"/syn-exact", c.P.Pos(fn.Pos()), "flags == SYN (whole byte)", "SYN branch no longer selected by flags == SYN exactly")
		c.Check(atoms["($2.flags == 16)"], h6, FuncName(fn)+"/ack-exact", c.P.Pos(fn.Pos()), "flags == ACK (whole byte)", "ACK branch no longer selected by flags == ACK exactly")
	}

	h3 := c.Rule("H3", "K1 site tables (exact guards)", "handshake completes only on the right acknowledgement", 6)
	if fn := c.Fn(h3, hs+"synSentState"); fn != nil {
		c.CheckSites(h3, fn, []SiteSpec{
			{Kind: "call", Target: hs + "checkAck", Args: []string{"$0", "$1"}, Guards: []string{"!" + rst}, Exact: true, N: 1, Why: "every non-RST segment has its ACK number checked"},
			{Kind: "store", Target: "tcp.handshake.state", Args: []string{"$0", "2"}, Guards: []string{"!" + rst, chk, ack, syn}, Exact: true, N: 1, Why: "active open completes exactly on a SYN-ACK that passed checkAck"},
			{Kind: "store", Target: "tcp.handshake.state", Args: []string{"$0", "1"}, Guards: []string{"!" + ack, "!" + rst, chk, syn}, Exact: true, N: 1, Why: "a bare SYN (simultaneous open) moves to SYN-RCVD"},
			{Kind: "store", Target: "tcp.handshake.ackNum", Args: []string{"$0", "($1.sequenceNumber + 1)"}, Guards: []string{"!" + rst, chk, syn}, Exact: true, N: 1, Why: "we acknowledge the peer's SYN: its sequence number + 1"},
			{Kind: "call", Target: ep + "sendRaw", Args: []string{"$0.ep", "zero", "16", "($0.iss + 1)", "$0.ackNum@1", "*"}, Guards: []string{"!" + rst, chk, ack, syn}, Exact: true, N: 1, Why: "final ACK: seq = iss+1, ack = peer ISS + 1"},
		})
		c.CheckSitesPresent(h3, fn, []SiteSpec{
			{Kind: "return", Target: "", Args: []string{"tcpip.ErrConnectionRefused"}, Guards: []string{"($1.ackNumber == ($0.iss + 1))", ack, rst}, Exact: true, N: 1, Why: "a RST is honoured only if it acknowledges exactly our SYN"},
		})
	}
	if fn := c.Fn(h3, hs+"synRcvdState"); fn != nil {
		c.CheckSites(h3, fn, []SiteSpec{
			{Kind: "call", Target: hs + "checkAck", Args: []string{"$0", "$1"}, Guards: []string{"!" + rst}, Exact: true, N: 1, Why: "every non-RST segment has its ACK number checked"},
			{Kind: "store", Target: "tcp.handshake.state", Args: []string{"$0", "2"}, Guards: []string{"!" + rst, chk, ack}, Exact: true, N: 1, Why: "passive open completes exactly on an ACK that passed checkAck"},
			{Kind: "call", Target: ep + "sendRaw", Args: []string{"$0.ep", "zero", "20", "phi{$1.ackNumber | 0}", "seqnum.Value.Add($1.sequenceNumber, (*tcp.segment).logicalLen($1))", "0"}, Guards: []string{"!($1.sequenceNumber == ($0.ackNum - 1))", "!" + rst, chk, syn}, Exact: true, N: 1, Why: "a second SYN with another sequence number is reset: seq = its ack number (0 without ACK), ack = seq+len"},
		})
		c.CheckSitesPresent(h3, fn, []SiteSpec{
			{Kind: "return", Target: "", Args: []string{"tcpip.ErrConnectionRefused"}, Guards: []string{rst, "seqnum.Value.InWindow($1.sequenceNumber, $0.ackNum, $0.rcvWnd)"}, Exact: true, N: 1, Why: "a RST is honoured only inside the receive window"},
		})
	}
	if fn := c.Fn(h3, hs+"resetState"); fn != nil {
		c.CheckSitesPresent(h3, fn, []SiteSpec{
			{Kind: "store", Target: "tcp.handshake.state", Args: []string{"$0", "0"}, N: 1, Why: "an active open starts in SYN-SENT"},
			{Kind: "store", Target: "tcp.handshake.flags", Args: []string{"$0", "2"}, N: 1, Why: "... sending a bare SYN"},
			{Kind: "store", Target: "tcp.handshake.ackNum", Args: []string{"$0", "0"}, N: 1, Why: "... acknowledging nothing"},
		})
	}
	if fn := c.Fn(h3, hs+"resetToSynRcvd"); fn != nil {
		c.CheckSitesPresent(h3, fn, []SiteSpec{
			{Kind: "store", Target: "tcp.handshake.active", Args: []string{"$0", "false"}, Guards: []string{}, Exact: true, N: 1, Why: "passive open"},
			{Kind: "store", Target: "tcp.handshake.state", Args: []string{"$0", "1"}, Guards: []string{}, Exact: true, N: 1, Why: "a listener's handshake starts in SYN-RCVD"},
			{Kind: "store", Target: "tcp.handshake.flags", Args: []string{"$0", "18"}, Guards: []string{}, Exact: true, N: 1, Why: "... sending SYN|ACK"},
			{Kind: "store", Target: "tcp.handshake.iss", Args: []string{"$0", "$1"}, Guards: []string{}, Exact: true, N: 1, Why: "our initial sequence number is the one handed in (the cookie in cookie mode)"},
			{Kind: "store", Target: "tcp.handshake.ackNum", Args: []string{"$0", "($2 + 1)"}, Guards: []string{}, Exact: true, N: 1, Why: "we acknowledge the peer's SYN: irs + 1"},
		})
	}
	if fn := c.Fn(h3, hs+"handleSegment"); fn != nil {
		c.CheckSites(h3, fn, []SiteSpec{
			{Kind: "call", Target: hs + "synRcvdState", Args: []string{"$0", "$1"}, Guards: []string{"($0.state == 1)"}, Exact: true, N: 1, Why: "SYN-RCVD segments go to synRcvdState"},
			{Kind: "call", Target: hs + "synSentState", Args: []string{"$0", "$1"}, Guards: []string{"!($0.state == 1)", "($0.state == 0)"}, Exact: true, N: 1, Why: "SYN-SENT segments go to synSentState"},
			{Kind: "return", Args: []string{hs + "synRcvdState($0, $1)"}, Guards: []string{"($0.state == 1)"}, Exact: true, N: 1, Why: "its verdict is the handshake's"},
			{Kind: "return", Args: []string{hs + "synSentState($0, $1)"}, Guards: []string{"!($0.state == 1)", "($0.state == 0)"}, Exact: true, N: 1, Why: "its verdict is the handshake's"},
			{Kind: "return", Args: []string{"nil"}, Guards: []string{"!($0.state == 0)", "!($0.state == 1)"}, Exact: true, N: 1, Why: "a completed handshake ignores further segments"},
			{Kind: "store", Target: "tcp.handshake.sndWnd", Args: []string{"$0", "$1.window"}, Guards: []string{}, Exact: true, N: 1, Why: "the peer's window is recorded from every segment"},
			{Kind: "store", Target: "tcp.handshake.sndWnd", Args: []string{"$0", "($0.sndWnd@1 << $0.sndWndScale)"}, Guards: []string{"!($0.sndWndScale < 1)", "!(*tcp.segment).flagIsSet($1, 2)"}, Exact: true, N: 1, Why: "... scaled unless the segment is a SYN (RFC 7323: the window in a SYN is never scaled)"},
		})
	}
	c.OnlyIn(h3, "store handshake.state=Completed", filterStores(c.FieldStores("tcp.handshake", "state"), "2"), hs+"synSentState", hs+"synRcvdState")

	h4 := c.Rule("H4", "K9 decision table + K5", "checkAck == !(ACK && ack != iss+1); RST with seq = the bad ack number", 5)
	if fn := c.Fn(h4, hs+"checkAck"); fn != nil {
		eq := "($1.ackNumber == ($0.iss + 1))"
		c.CheckTable(h4, fn, []string{ack, eq}, func(a map[string]bool) string {
			if a[ack] && !a[eq] {
				return "false"
			}
			return "true"
		})
		c.CheckSites(h4, fn, []SiteSpec{
			{Kind: "call", Target: ep + "sendRaw", Args: []string{"$0.ep", "zero", "20", "$1.ackNumber", "seqnum.Value.Add($1.sequenceNumber, (*tcp.segment).logicalLen($1))", "0"}, Guards: []string{"!" + eq, ack}, Exact: true, N: 1,
				Why: "exactly one RST|ACK, on the rejecting path only, with seq = the acknowledgement number received and ack = seq+len"},
		})
	}

	h5 := c.Rule("H5", "K1/K5 site tables", "stray segments: one RST that acknowledges them; RSTs are swallowed", 3)
	if fn := c.Fn(h5, "tcp.replyWithReset"); fn != nil {
		c.CheckSites(h5, fn, []SiteSpec{
			{Kind: "call", Target: "tcp.sendTCP", Args: []string{"&$0.route", "$0.id", "zero", "*", "20", "phi{$0.ackNumber | 0}", "seqnum.Value.Add($0.sequenceNumber, (*tcp.segment).logicalLen($0))", "0", "nil"}, Guards: []string{}, Exact: true, N: 1,
				Why: "RST|ACK (20), seq = the segment's ack number or 0, ack = seq + logical length, window 0, on the route/id of the segment being answered"},
		})
		// seq is ackNumber exactly when the ACK flag is set
		for a := range AllAtoms(fn) {
			if strings.Contains(a, "flagIsSet($0, 16)") {
				c.Ok(h5, FuncName(fn)+"/seq-depends-on-ack-flag", c.P.Pos(fn.Pos()), "the phi is selected by the ACK flag")
			}
		}
	}
	if fn := c.Fn(h5, "(*tcp.protocol).HandleUnknownDestinationPacket"); fn != nil {
		seg := "tcp.newSegment($1, $2, $3)"
		c.CheckSites(h5, fn, []SiteSpec{
			{Kind: "call", Target: "tcp.replyWithReset", Args: []string{seg}, Guards: []string{"!(*tcp.segment).flagIsSet(" + seg + ", 4)", "(*tcp.segment).parse(" + seg + ")"}, Exact: true, N: 1,
				Why: "exactly one reply, for a parsed segment that is not itself a RST"},
		})
	}

	// H11: error discipline of the TCP package (Bind, Listen, connect, accept,
	// handshake): an error value that a function examines does not end in a nil
	// return, except at the reviewed sites.
	h11 := c.Rule("H11", "K2 path search (error discipline, closed world over package tcp)", "no examined error of a callee ends in a nil return, except the reviewed conversions", 6)
	swallowOK := map[string]string{
		"(*tcp.endpoint).SetSockOpt/(*stack.Stack).TransportProtocolOption":  "optional limits: without configured min/max the requested buffer size is used as is",
		"(*tcp.endpoint).connect$2/(*stack.Stack).RegisterTransportEndpoint": "ephemeral port search: ErrPortInUse means 'try the next port', not failure",
		"(*tcp.endpoint).protocolMainLoop/dyn":                               "a handler's error ends the connection through resetConnectionLocked; the loop itself ends normally",
		"(*tcp.handshake).execute/(*stack.Stack).TransportProtocolOption":    "SACK option lookup failing means SACK off",
	}
	usedSw := map[string]bool{}
	nSw := 0
	for _, fn := range c.P.Funcs {
		if fn.Pkg == nil || inTesting(fn) || !strings.HasSuffix(fn.Pkg.Pkg.Path(), "/protocol/transport/tcp") {
			continue
		}
		for _, sw := range SwallowedErrors(fn) {
			nSw++
			k := FuncName(fn) + "/" + sw.Desc
			if why, ok := swallowOK[k]; ok {
				if !usedSw[k+c.pos(sw.Ret)] {
					c.Assume(h11, k+"@"+c.pos(sw.Ret), c.pos(sw.Ret), "reviewed: "+why)
					usedSw[k+c.pos(sw.Ret)] = true
				}
				continue
			}
			c.Bad(h11, k, c.pos(sw.Ret), "the error returned by "+sw.Desc+" (call at "+c.pos(sw.Call)+") is examined, yet this return reports success on a path where it can be non-nil")
		}
	}
	c.Check(nSw >= 4, h11, "tcp/reviewed-conversions-seen", "protocol/transport/tcp", "the search sees the reviewed conversion sites", "the search no longer sees the reviewed sites: it went blind")

	h12 := c.Rule("H12", "K5 site table", "the SYN cookie is bound to the whole 4-tuple, the timestamp and the secret", 7)
	if fn := c.Fn(h12, "(*tcp.listenContext).cookieHash"); fn != nil {
		be := "encoding/binary.BigEndian"
		c.CheckSitesPresent(h12, fn, []SiteSpec{
			{Kind: "call", Target: "encoding/binary.bigEndian.PutUint16", Args: []string{be, "new([8]byte)[0:]", "$1.LocalPort"}, Guards: []string{}, Exact: true, N: 1, Why: "the local port enters the hash"},
			{Kind: "call", Target: "encoding/binary.bigEndian.PutUint16", Args: []string{be, "new([8]byte)[2:]", "$1.RemotePort"}, Guards: []string{}, Exact: true, N: 1, Why: "the REMOTE port enters the hash: a cookie issued to one source port does not validate from another"},
			{Kind: "call", Target: "encoding/binary.bigEndian.PutUint32", Args: []string{be, "new([8]byte)[4:]", "$2"}, Guards: []string{}, Exact: true, N: 1, Why: "the timestamp enters the hash"},
			{Kind: "call", Target: "iface:io.Writer.Write", Args: []string{"$0.hasher", "$0.nonce[$3][:]"}, Guards: []string{}, Exact: true, N: 1, Why: "the secret (selected nonce) enters the hash"},
			{Kind: "call", Target: "io.WriteString", Args: []string{"$0.hasher", "$1.LocalAddress"}, Guards: []string{}, Exact: true, N: 1, Why: "the local address enters the hash"},
			{Kind: "call", Target: "io.WriteString", Args: []string{"$0.hasher", "$1.RemoteAddress"}, Guards: []string{}, Exact: true, N: 1, Why: "the remote address enters the hash"},
			{Kind: "return", Args: []string{"encoding/binary.bigEndian.Uint32(" + be + ", iface:hash.Hash.Sum($0.hasher, new([20]byte)[:0])[:])"}, Guards: []string{}, Exact: true, N: 1, Why: "the cookie is the first 32 bits of the digest of exactly those writes"},
		})
	}

	h10 := c.Rule("H10", "K9 site tables (closed, exact guards)", "the half-open connection counter that switches the listener to SYN cookies", 4)
	if fn := c.Fn(h10, "tcp.incSynRcvdCount"); fn != nil {
		below := "(tcp.synRcvdCount.value < tcp.SynRcvdCountThreshold)"
		c.CheckSites(h10, fn, []SiteSpec{
			{Kind: "return", Args: []string{"false"}, Guards: []string{"!" + below}, Exact: true, N: 1, Why: "at the threshold no further handshake goroutine is started (cookies are used instead)"},
			{Kind: "store", Target: "struct{sync.Mutex; value uint64; pending sync.WaitGroup}.value", Args: []string{"tcp.synRcvdCount", "(1 + tcp.synRcvdCount.value)"}, Guards: []string{below}, Exact: true, N: 1, Why: "below it the count grows by one"},
			{Kind: "return", Args: []string{"true"}, Guards: []string{below}, Exact: true, N: 1, Why: "... and the handshake may proceed"},
		})
	}
	if fn := c.Fn(h10, "tcp.decSynRcvdCount"); fn != nil {
		c.CheckSites(h10, fn, []SiteSpec{
			{Kind: "store", Target: "struct{sync.Mutex; value uint64; pending sync.WaitGroup}.value", Args: []string{"tcp.synRcvdCount", "(tcp.synRcvdCount.value - 1)"}, Guards: []string{}, Exact: true, N: 1, Why: "a finished handshake gives its slot back"},
		})
	}

	h9 := c.Rule("H9", "K2 must-follow + K7 coupled updates (shared with C09/D8)", "an endpoint whose passive handshake fails does not stay registered: isRegistered is set right after the registration", 6)
	registrationFlagRule(c, h9)

	h8 := c.Rule("H8", "K9 path table (shared with C01/R6, C02/W7)", "a segment's sequence-space length = payload + SYN + FIN: the ACK number of a reset answering a stray segment", 5)
	logicalLenRule(c, h8)

	h7 := c.Rule("H7", "K8 narrowing + K12 types", "SYN-cookie pipeline keeps 32 bits", 4)
	an := NewAbsint(c.P)
	for _, name := range []string{"tcp.encodeMSS", "(*tcp.listenContext).createCookie", "(*tcp.listenContext).isCookieValid"} {
		fn := c.Fn(h7, name)
		if fn == nil {
			continue
		}
		if name != "tcp.encodeMSS" { // its only conversion is of a table index
			c.NarrowingObligations(h7, an, fn)
		}
		// every integer parameter and result of the pipeline is 32 bits wide (or the 16-bit MSS input)
		sig := fn.Signature
		for i := 0; i < sig.Results().Len(); i++ {
			ts := TypeStr(sig.Results().At(i).Type())
			c.Check(ts == "uint32" || ts == "seqnum.Value" || ts == "bool", h7, name+"/result-width:"+ts, c.P.Pos(fn.Pos()), "result is "+ts, "cookie pipeline result narrowed to "+ts+": cookie bits are no longer verified")
		}
		for i := 0; i < sig.Params().Len(); i++ {
			ts := TypeStr(sig.Params().At(i).Type())
			if ts == "uint8" || ts == "int8" || (ts == "uint16" && name != "tcp.encodeMSS") {
				c.Bad(h7, name+"/param-width:"+ts, c.P.Pos(fn.Pos()), "cookie pipeline parameter narrowed to "+ts)
			}
		}
	}
	if fn := c.Fn(h7, "(*tcp.listenContext).isCookieValid"); fn != nil {
		for _, s := range Sites(fn) {
			if s.Kind == "return" && len(s.Args) == 2 && s.Args[1] == "true" {
				c.Check(strings.HasSuffix(s.Args[0], "& 16777215)") || strings.HasPrefix(s.Args[0], "(16777215 & "), h7, FuncName(fn)+"/data-is-24-bit-residue", c.pos(s.Instr), "returned data = (v - hash) & hashMask (all 24 bits)", "validated data is not the full 24-bit residue: "+s.Args[0])
			}
		}
	}
}

func minInt(a, b int) int {
	if a < b {
		return a
	}
	return b
}
