package np

import (
	"strings"

	"golang.org/x/tools/go/ssa"
)

func init() { register("C01", propC01) }

func propC01(c *Ctx) {
	c.Explanation = "Decides structural necessary conditions of the byte-stream property for all inputs and schedules: (R1) the segment invariant 'first byte of data has sequence number sequenceNumber' - every front trim of a segment's data is paired, under the same guards and with the same amount, with an advance of that segment's sequence number (receiver trim of already-received bytes, sender split at window/MSS boundaries, sender partial-ACK trim); (R2) ownership for all schedules: every access to sender/receiver state happens with endpoint.workMu held (must-lockset with held-at-entry fixpoint over the call graph; frozen entry assumptions for the worker goroutines; three reviewed cut edges/exceptions), and the queues shared with the application (rcvList/rcvBufUsed/..., sndQueue/sndBufUsed/..., segmentQueue) are touched only under their mutexes; (R3) hand-off discipline: the complete reviewed site tables of receiver.consumeSegment, receiver.handleRcvdSegment, endpoint.readyToRead, readLocked and the sender's split/advance sites - data reaches the reader only through readyToRead(PushBack) from consumeSegment, exactly when the segment contains rcvNxt, rcvNxt advances by exactly the bytes handed over, parked segments are consumed with their own sequence number and length, the reader takes the front segment view by view; (R4) no raw ordering of sequence numbers in package tcp. (R5) link typestate: no function reads the list links of a segment after removing it from its list unless segmentList.Remove preserves the removed element's links, so cursor fix-ups such as writeNext = seg.Next() yield the true successor; the sender's sequence variables start at iss+1 (newSender rows of R3). (R6) a segment's sequence-space length is payload + SYN + FIN, all four flag combinations on their own paths (shared with C03/H8, C02/W7); R3 also tables segment.clone (sequence number, flags, own view list), segment.parse (fields from the header getters, payload after the data offset) and the receiver's first expected byte irs+1. (R7) the out-of-order heap's container/heap implementation and the segment reference counter are exactly the reviewed ones. (R8) the generated segment list is a correct doubly-linked list; R3 also holds Write's queueing row (non-empty payload, buffer room). (R9) the connection worker leaves its loop only after the receive side is closed, the send side is closed and every queued byte is acknowledged (shared with C02/W5). (R11) an acceptable ACK moves sndUna to the acknowledgement number, measures the acknowledged amount from the old edge and removes exactly the fully acknowledged segments from the write list; (R12) out-of-order segments are parked and drained with their own sequence-space length and reference, a FIN discards what is parked; (R13) data handed to the reader holds a reference and wakes the reader, the reader releases a segment after its last view. (R14) the inbound segment queue is FIFO and charges every segment a positive amount, credited by the same amount on removal; (R15) the first sequence numbers of every connection come from the handshake, the SYN or the cookie ACK as tabled, at every construction site of the module. (R16) a new segment holds the whole payload it was made from: every view of an inbound packet however many there are (Clone, which allocates beyond the inline array), the one view of a write with its own length; one reference, the id, its own route reference. NOT decided: that acceptance, trimming amounts, heap order and retransmission produce the right bytes over all fault schedules (numerical relations between runtime values), nothing about the peer or the wire."
	c.Assumptions = []string{
		"newEndpoint returns with workMu locked; protocolMainLoop/protocolListenLoop own it from their first instruction (frozen entry assumption, rule R2-entry)",
		"field loads of sender/receiver state are stable while workMu is held",
	}
	// ---- R1
	r1 := c.Rule("R1", "K7 coupled updates", "trim of segment data <=> equal advance of its sequence number", 3)
	for _, fn := range c.P.Funcs {
		if fn.Pkg == nil || !strings.HasSuffix(fn.Pkg.Pkg.Path(), "/transport/tcp") {
			continue
		}
		sites := Sites(fn)
		for _, s := range sites {
			if s.Kind != "call" || s.Target != "(*buffer.VectorisedView).TrimFront" || !strings.HasSuffix(s.Args[0], ".data") || !strings.HasPrefix(s.Args[0], "&") {
				continue
			}
			base := strings.TrimSuffix(s.Args[0], ".data") // "&X"
			if !isSegmentBase(fn, s.Instr) {
				continue
			}
			amount := s.Args[1]
			found := false
			for _, u := range sites {
				if u.Kind == "call" && u.Target == "(*seqnum.Value).UpdateForward" && u.Args[0] == base+".sequenceNumber" && u.Args[1] == amount && strings.Join(u.Guards, "&&") == strings.Join(s.Guards, "&&") {
					found = true
				}
			}
			// segment.parse re-derives both from the header
			if FuncName(fn) == "(*tcp.segment).parse" {
				found = len(StoresTo(fn, "tcp.segment", "sequenceNumber")) > 0
			}
			if found {
				c.Ok(r1, FuncName(fn)+"/trim:"+s.Args[0]+" by "+amount, c.pos(s.Instr), "paired with UpdateForward of the same segment by the same amount under the same guards")
			} else {
				c.Bad(r1, FuncName(fn)+"/trim-without-seq-advance", c.pos(s.Instr), "segment data trimmed by "+amount+" without advancing "+strings.TrimPrefix(base, "&")+".sequenceNumber by the same amount under the same conditions: a retransmission or delivery labels the remaining bytes with the wrong sequence number")
			}
		}
	}

	// ---- R2
	r2 := c.Rule("R2", "K4 lockset + K3 confinement", "sender/receiver state under workMu; shared queues under their mutexes", 350)
	la := c.Locks()
	guards := append([]Guard{}, guardsTCPQueues...)
	guards = append(guards,
		Guard{Struct: "tcp.sender", Fields: c.P.allFieldsOf("protocol/transport/tcp", "sender", "ep", "rtt"), Class: "tcp.endpoint.workMu"},
		Guard{Struct: "tcp.receiver", Fields: c.P.allFieldsOf("protocol/transport/tcp", "receiver", "ep"), Class: "tcp.endpoint.workMu"},
	)
	la.CheckGuards(c, r2, guards, []Exception{
		{Fn: "(*tcp.endpoint).connect", Field: "sndQueue", Reason: "restore-only branch (handshake==false); the sole caller Connect passes handshake=true (rule R2-const)"},
		{Fn: "(*tcp.endpoint).connect", Field: "writeList", Reason: "restore-only branch (handshake==false); the sole caller Connect passes handshake=true (rule R2-const)"},
		{Fn: "(*tcp.endpoint).readLocked", Field: "rcvWndScale", Reason: "written only before the endpoint is published (newReceiver, createEndpointAndPerformHandshake before deliverAccepted); read under rcvListMu"},
		{Fn: "(*tcp.endpoint).SetSockOpt", Field: "rcvWndScale", Reason: "written only before the endpoint is published; read under rcvListMu"},
	})
	for k, why := range tcpCutEdges {
		if la.CutUsed[k] {
			c.Assume(r2, "cut-edge:"+k, "", why)
		}
	}
	rc := c.Rule("R2-const", "K5", "connect is only called with handshake=true", 1)
	for _, fn := range c.P.Funcs {
		for _, ci := range CallsIn(fn, Is("(*tcp.endpoint).connect")) {
			c.ArgIs(rc, "connect-handshake-arg", ci, 2, "true")
		}
	}
	re := c.Rule("R2-entry", "K2", "newEndpoint returns with workMu locked", 1)
	if fn := c.Fn(re, "tcp.newEndpoint"); fn != nil {
		c.Check(la.Acquired[fn]["tcp.endpoint.workMu"], re, "tcp.newEndpoint/returns-locked", c.P.Pos(fn.Pos()), "workMu is held at every return of newEndpoint", "newEndpoint no longer returns with workMu locked: the worker-ownership argument of R2 has no base")
	}

	// ---- R3
	r3 := c.Rule("R3", "K1/K3/K5 site tables", "hand-off discipline of the receive path and the sender's split", 30)
	if fn := c.Fn(r3, "(*tcp.receiver).consumeSegment"); fn != nil {
		c.CheckSites(r3, fn, pick(consumeSegmentTable(), "C01"))
	}
	if fn := c.Fn(r3, "(*tcp.receiver).handleRcvdSegment"); fn != nil {
		c.CheckSites(r3, fn, pick(rcvHandleSegmentTable(), "C01"))
	}
	if fn := c.Fn(r3, "(*tcp.sender).sendData"); fn != nil {
		c.CheckSites(r3, fn, pick(sendDataTable(), "C01"))
	}
	if fn := c.Fn(r3, "(*tcp.endpoint).readyToRead"); fn != nil {
		c.CheckSites(r3, fn, []SiteSpec{
			{Kind: "call", Target: "(*tcp.segmentList).PushBack", Args: []string{"&$0.rcvList", "$1"}, Guards: []string{"!($1 == nil)"}, Exact: true, N: 1, Why: "consumed segments are appended at the back of the read list"},
			{Kind: "store", Target: "tcp.endpoint.rcvBufUsed", Args: []string{"$0", "($0.rcvBufUsed + buffer.VectorisedView.Size($1.data))"}, Guards: []string{"!($1 == nil)"}, Exact: true, N: 1, Why: "buffer accounting grows by the segment's payload"},
			{Kind: "store", Target: "tcp.endpoint.rcvClosed", Args: []string{"$0", "true"}, Guards: []string{"($1 == nil)"}, Exact: true, N: 1, Why: "nil marks end of stream"},
		})
	}
	if fn := c.Fn(r3, "tcp.newSender"); fn != nil {
		var sp []SiteSpec
		for _, f := range []string{"sndUna", "sndNxt", "sndNxtList"} {
			sp = append(sp, SiteSpec{Kind: "store", Target: "tcp.sender." + f, Args: []string{"new(tcp.sender)", "($1 + 1)"}, Guards: []string{}, Exact: true, N: 1, Why: "the SYN consumed iss: the first data byte is labelled iss+1"})
		}
		sp = append(sp, SiteSpec{Kind: "store", Target: "tcp.sender.maxSentAck", Args: []string{"new(tcp.sender)", "($2 + 1)"}, Guards: []string{}, Exact: true, N: 1, Why: "the peer's SYN consumed irs"})
		c.CheckSitesPresent(r3, fn, sp)
	}
	if fn := c.Fn(r3, "(*tcp.endpoint).Write"); fn != nil {
		pl := "iface:tcpip.Payload.Get($1, ($0.sndBufSize - $0.sndBufUsed))"
		g := []string{"!$0.sndClosed", "!(0 == iface:tcpip.Payload.Size($1))", "($0.state == 4)", "!(($0.sndBufSize - $0.sndBufUsed) < 1)", "(" + pl + "#1 == nil)"}
		c.CheckSitesPresent(r3, fn, []SiteSpec{
			{Kind: "call", Target: "(*tcp.segmentList).PushBack", Args: []string{"&$0.sndQueue", "tcp.newSegmentFromView(&$0.route, $0.id, " + pl + "#0)"}, Guards: g, Exact: true, N: 1, Why: "Write queues a segment only for a non-empty payload and only when at least one byte of buffer room is left: sendData takes an EMPTY queued segment for the FIN, so an empty one would truncate the stream (shared table with C02/W1)"},
		})
	}
	if fn := c.Fn(r3, "(*tcp.segment).parse"); fn != nil {
		h := "buffer.VectorisedView.First($0.data)"
		off := "header.TCP.DataOffset(" + h + ")"
		g := []string{"!(builtin:len(" + h + ") < " + off + ")", "!(" + off + " < 20)"}
		var sp []SiteSpec
		for _, f := range [][2]string{{"sequenceNumber", "SequenceNumber"}, {"ackNumber", "AckNumber"}, {"flags", "Flags"}, {"window", "WindowSize"}} {
			sp = append(sp, SiteSpec{Kind: "store", Target: "tcp.segment." + f[0], Args: []string{"$0", "header.TCP." + f[1] + "(" + h + ")"}, Guards: g, Exact: true, N: 1, Why: "the segment's " + f[0] + " is the header's own field (bit layout: C15), taken only from a header that fits the first view"})
		}
		sp = append(sp, SiteSpec{Kind: "call", Target: "(*buffer.VectorisedView).TrimFront", Args: []string{"&$0.data", off}, Guards: g, Exact: true, N: 1, Why: "the payload starts exactly after the TCP header incl. options (data offset)"})
		c.CheckSitesPresent(r3, fn, sp)
	}
	if fn := c.Fn(r3, "(*tcp.segment).clone"); fn != nil {
		n := "new(tcp.segment)"
		c.CheckSitesPresent(r3, fn, []SiteSpec{
			{Kind: "store", Target: "tcp.segment.sequenceNumber", Args: []string{n, "$0.sequenceNumber"}, Guards: []string{}, Exact: true, N: 1, Why: "the split-off copy keeps the label of the bytes it starts with (sendData then advances it by the split amount, R1)"},
			{Kind: "store", Target: "tcp.segment.flags", Args: []string{n, "$0.flags"}, Guards: []string{}, Exact: true, N: 1, Why: "the copy keeps the flags: sendData treats flags == 0 as 'never sent, label with sndNxt', so the remainder of an already-sent segment must keep its non-zero flags and with them its own sequence number"},
			{Kind: "store", Target: "tcp.segment.data", Args: []string{n, "buffer.VectorisedView.Clone($0.data, " + n + ".views[:])"}, Guards: []string{}, Exact: true, N: 1, Why: "the copy has its own view list over the same bytes, so trimming one does not trim the other"},
			{Kind: "store", Target: "tcp.segment.refCnt", Args: []string{n, "1"}, Guards: []string{}, Exact: true, N: 1, Why: "a fresh segment is owned once"},
		})
	}
	if fn := c.Fn(r3, "tcp.newReceiver"); fn != nil {
		c.CheckSitesPresent(r3, fn, []SiteSpec{
			{Kind: "store", Target: "tcp.receiver.rcvNxt", Args: []string{"new(tcp.receiver)", "($1 + 1)"}, Guards: []string{}, Exact: true, N: 1, Why: "the peer's SYN consumed irs: the first byte handed to the reader is labelled irs+1"},
		})
	}
	c.OnlyIn(r3, "tcp rcvList insertion", c.CallSites(func(s string) bool {
		return strings.HasPrefix(s, "(*tcp.segmentList).Push") || strings.HasPrefix(s, "(*tcp.segmentList).Insert")
	}), "(*tcp.endpoint).readyToRead", "(*tcp.endpoint).Write", "(*tcp.endpoint).Shutdown", "(*tcp.sender).sendData", "(*tcp.sender).handleWrite", "(*tcp.endpoint).handleWrite", "(*tcp.endpoint).handleClose", "(*tcp.segmentQueue).enqueue", "(*tcp.endpoint).protocolMainLoop")
	// rcvList specifically: only readyToRead
	var rcvPush []ssa.Instruction
	for _, in := range c.CallSites(func(s string) bool {
		return strings.HasPrefix(s, "(*tcp.segmentList).Push") || strings.HasPrefix(s, "(*tcp.segmentList).Insert")
	}) {
		if strings.HasSuffix(Term(CallArgs(in.(ssa.CallInstruction))[0]), ".rcvList") {
			rcvPush = append(rcvPush, in)
		}
	}
	c.OnlyIn(r3, "insertion into endpoint.rcvList", rcvPush, "(*tcp.endpoint).readyToRead")
	c.OnlyIn(r3, "call of readyToRead", c.CallSites(Is("(*tcp.endpoint).readyToRead")), "(*tcp.receiver).consumeSegment")
	c.OnlyIn(r3, "store to receiver.rcvNxt", c.FieldStores("tcp.receiver", "rcvNxt"), "(*tcp.receiver).consumeSegment", "tcp.newReceiver")
	if fn := c.Fn(r3, "(*tcp.endpoint).readLocked"); fn != nil {
		front := "(*tcp.segmentList).Front(&$0.rcvList)"
		views := "buffer.VectorisedView.Views(" + front + ".data)"
		c.CheckSites(r3, fn, []SiteSpec{
			{Kind: "return", Target: "", Args: []string{views + "[" + front + ".viewToDeliver]", "nil"}, Guards: []string{"!($0.rcvBufUsed == 0)"}, Exact: true, N: 1, Why: "the bytes returned are the next undelivered view of the FRONT segment"},
			{Kind: "return", Target: "", Args: []string{"[]", "*"}, Guards: []string{"($0.rcvBufUsed == 0)"}, Why: "nothing buffered: an error, never data"},
			{Kind: "store", Target: "tcp.segment.viewToDeliver", Args: []string{front, "(" + front + ".viewToDeliver + 1)"}, Guards: []string{"!($0.rcvBufUsed == 0)"}, Exact: true, N: 1, Why: "views are delivered one by one, in order"},
			{Kind: "call", Target: "(*tcp.segmentList).Remove", Args: []string{"&$0.rcvList", front}, Guards: []string{"!($0.rcvBufUsed == 0)", "!(" + front + ".viewToDeliver@1 < builtin:len(" + views + "))"}, Exact: true, N: 1, Why: "the segment leaves the list exactly when its last view was delivered"},
			{Kind: "store", Target: "tcp.endpoint.rcvBufUsed", Args: []string{"$0", "($0.rcvBufUsed - builtin:len(" + views + "[" + front + ".viewToDeliver]))"}, Guards: []string{"!($0.rcvBufUsed == 0)"}, Exact: true, N: 1, Why: "accounting shrinks by the delivered view"},
		})
	}

	// ---- R5
	r5 := c.Rule("R5", "typestate", "a segment's list links are not read after its removal unless Remove preserves them (cursor fix-ups such as writeNext = seg.Next())", 3)
	c.LinkTypestate(r5, "tcp.segmentList", "tcp.segmentEntry")

	r10 := c.Rule("R10", "K9 bitprov (shared with C15/B1)", "TCP sequence number, acknowledgement number, data offset, flags and window are read from exactly the RFC 793 bits", 9)
	c.fieldAccessorLayouts(r10, &bitprov{p: c.P}, func(f fieldLayout) bool { return f.Typ == "TCP" })

	// ---- R11..R13: effects of tabled functions no row mentioned (effects.go)
	senderAckRule(c, c.Rule("R11", "K7 exact-guard site table (shared with C02/W10)", "an acceptable ACK moves sndUna to the acknowledgement number and removes exactly the fully acknowledged segments from the write list", 9))
	receiverBufferingRule(c, c.Rule("R12", "K7 exact-guard site tables", "out-of-order segments are parked and drained with their own length and reference; a FIN discards what is parked", 6))
	readerWakeRule(c, c.Rule("R13", "K7 exact-guard site tables (shared with C02/W11)", "data handed to the reader holds a reference and wakes the reader; the reader releases a segment after its last view", 3))

	segmentQueueRule(c, c.Rule("R14", "K7 closed site tables (shared with C02/W15, C05/L10)", "the inbound segment queue is FIFO: PushBack on enqueue, Front/Remove on dequeue, the removed head is what is returned", 7))
	initialSequenceProvenanceRule(c, c.Rule("R15", "K3 closed call-site table (module-wide)", "the first sequence numbers of every connection come from the handshake / the SYN / the cookie ACK as tabled, at every construction site", 6))
	segmentConstructorRule(c, c.Rule("R16", "K7 closed site tables", "a new segment holds the whole payload it was made from: every view of an inbound packet (however many), the one view of a write; one reference, the id, its own route reference", 11))
	// ---- R9 (shared with C02/W5)
	mainLoopExitRule(c, c.Rule("R9", "K5 (shared with C02/W5)", "the connection worker keeps receiving until the receive side is closed too", 3))

	// ---- R8
	r8 := c.Rule("R8", "K7 site tables (closed)", "the segment list (write list, send queue, receive list) is a correct doubly-linked list: PushBack, InsertAfter, Remove, Front, links", 20)
	c.ListImpl(r8, "tcp", "segmentList", "segmentEntry", "segmentElementMapper", "PushBack", "InsertAfter", "Remove")

	// ---- R7
	r7 := c.Rule("R7", "K9 site tables (closed)", "the out-of-order heap is a heap over sequenceNumber.LessThan: Len/Less/Swap/Push/Pop; segment reference counting", 9)
	c.HeapImpl(r7, "tcp.segmentHeap.", "(*tcp.segmentHeap).", "seqnum.Value.LessThan($0[$1].sequenceNumber, $0[$2].sequenceNumber)")
	if fn := c.Fn(r7, "(*tcp.segment).decRef"); fn != nil {
		c.CheckSites(r7, fn, []SiteSpec{
			{Kind: "call", Target: "sync/atomic.AddInt32", Args: []string{"&$0.refCnt", "-1"}, Guards: []string{}, Exact: true, N: 1, Why: "one reference is given up"},
			{Kind: "call", Target: "(*stack.Route).Release", Args: []string{"&$0.route"}, Guards: []string{"(0 == sync/atomic.AddInt32(&$0.refCnt, -1))"}, Exact: true, N: 1, Why: "the route is released exactly when the last reference goes"},
		})
	}
	if fn := c.Fn(r7, "(*tcp.segment).incRef"); fn != nil {
		c.CheckSites(r7, fn, []SiteSpec{{Kind: "call", Target: "sync/atomic.AddInt32", Args: []string{"&$0.refCnt", "1"}, Guards: []string{}, Exact: true, N: 1, Why: "one more reference"}})
	}

	// ---- R6
	r6 := c.Rule("R6", "K9 path table (shared with C03/H8, C02/W7)", "a segment's sequence-space length = payload + SYN + FIN: what rcvNxt and sndUna advance by", 5)
	logicalLenRule(c, r6)

	// ---- R4
	r4 := c.Rule("R4", "lint", "no raw ordering of seqnum.Value in package tcp", 10)
	seqLint(c, r4, []string{"protocol/transport/tcp"})
}

// isSegmentBase: the TrimFront receiver is the data field of a *tcp.segment.
func isSegmentBase(fn *ssa.Function, in ssa.Instruction) bool {
	ci, ok := in.(ssa.CallInstruction)
	if !ok {
		return false
	}
	args := ci.Common().Args
	if len(args) == 0 {
		return false
	}
	fa, ok := args[0].(*ssa.FieldAddr)
	if !ok {
		return false
	}
	return typeNamed(fa.X.Type(), "tcp.segment")
}
