package np

import (
	"strings"

	"golang.org/x/tools/go/ssa"
)

func init() { register("C09", propC09) }

// sub expands {NAME} abbreviations in spec strings.
func sub(m map[string]string, ss ...string) []string {
	out := make([]string, len(ss))
	for i, s := range ss {
		for {
			changed := false
			for k, v := range m {
				if strings.Contains(s, "{"+k+"}") {
					s = strings.ReplaceAll(s, "{"+k+"}", v)
					changed = true
				}
			}
			if !changed {
				break
			}
		}
		out[i] = s
	}
	return out
}

func propC09(c *Ctx) {
	c.Explanation = "Decides, for all inputs and schedules, the structural mechanisms behind 'exactly the addressed socket or nobody': (D1) findEndpointLocked is loop-free and its complete path table is the four-step most-specific match of the property - keys (LocalPort,LocalAddress,RemotePort,RemoteAddress) = full id, id without local address, id without remote part, local port only, in that order, returning at the first hit; (D2) deliverPacket hands the packet to exactly the endpoint found and reports true only then; NIC.DeliverTransportPacket builds the id from the parsed ports and the route addresses and tries NIC demuxer, stack demuxer, default handler, unknown-destination handler each only when all previous ones declined; registerEndpoint rolls back exactly the protocols it registered; singleRegisterEndpoint rejects duplicates and inserts in the same critical section; (D3) DeliverNetworkPacket passes a packet to a network endpoint only when getRef found the destination address on this NIC, and getRef creates a temporary endpoint only under promiscuous mode or an owning subnet; forwarding only when enabled; (D4) endpoints/NIC/Stack tables are accessed only under their mutexes (lockset); (D5) Subnet.Contains and Route.Match return true only after every byte matched under the mask. D7 also pairs every tryIncRef of the module with a release, hand-over or return on every path on which it succeeded. (D8) the isRegistered flag follows registration and inline unregistration at once (shared with C03/H9); D7 also tables the reference counter itself (decRef removes at zero, tryIncRef never revives zero). (D9) the echo request's route reference is released on every way out (shared with C13/I1,I2); D6 also decides udp Connect's local port. (D10) a new address entry holds exactly the insertion reference and is published under its endpoint id, temporary entries do not keep it, a cloned route takes one reference; (D11) what udp Connect records and Close gives up; (D12) TCP teardown gives up the route reference once and drains the accept queue, an active open registers under the identity of the route found; (D13) registration fails with ErrPortInUse exactly when the id is taken and stops at the first failing network. (D14) package stack narrows no port, NIC id or protocol number. (D15) the demuxer holds one freshly allocated endpoint table per (network, transport) pair - the table is created inside the inner loop - and every lookup selects the table by both protocol numbers: sockets of different transport protocols never share a table. (D16) RemoveSubnet drops every entry equal to the subnet (AddSubnet does not de-duplicate), so the interface stops owning it. NOT decided: that the maps contain what a history of register/close calls implies; reference counting."
	c.Assumptions = []string{"map lookups with equal keys observed inside one critical section return the same value"}

	// D4 lockset
	d4 := c.Rule("D4", "K4 lockset", "demuxer / NIC / Stack tables only under their mutex", 40)
	c.Locks().CheckGuards(c, d4, guardsDemux, nil)

	// D1 lookup order
	nicAddressRule(c, c.Rule("D10", "K7 exact-guard site tables", "a new address entry holds exactly the insertion reference and is published under its endpoint id; temporary entries do not keep it; a cloned route takes one reference", 9))
	udpConnectStateRule(c, c.Rule("D11", "K7 site tables (shared with C11/U15)", "what udp Connect records (peer port, route clone, registration NIC, receive side open) and what Close gives up", 10))
	d12 := c.Rule("D12", "K7 site tables (shared with C03/H16)", "TCP teardown gives up the route reference once and drains the accept queue; an active open registers under the identity of the route found", 10)
	tcpTeardownRule(c, d12)
	tcpConnectIdentityRule(c, d12)
	demuxRegisterReturnsRule(c, c.Rule("D13", "K7 closed return tables", "registration fails with ErrPortInUse exactly when the id is taken, and stops at the first failing network", 5))
	c.NoNewNarrowing(c.Rule("D14", "K8 narrowing (closed world, reviewed table)", "package stack narrows no port, NIC id or protocol number", 2), []string{"/net-protocol/stack"}, nil)
	d16 := c.Rule("D16", "K7 closed site table (exact guards)", "RemoveSubnet drops EVERY entry equal to the subnet (AddSubnet does not de-duplicate): after it returns the interface owns no copy of it", 2)
	if fn := c.Fn(d16, "(*stack.NIC).RemoveSubnet"); fn != nil {
		idx := "(1 + phi{-1 | loop})"
		kept := "phi{$0.subnets[:0] | builtin:append(loop, [$0.subnets[" + idx + "]]) | loop}"
		c.CheckSites(d16, fn, []SiteSpec{
			{Kind: "call", Target: "builtin:append", Args: []string{kept, "[$0.subnets[" + idx + "]]"}, Guards: []string{"!($0.subnets[" + idx + "] == $1)", "(" + idx + " < builtin:len($0.subnets))"}, Exact: true, N: 1, Why: "an entry is kept exactly when it differs from the subnet being removed; nothing else ends or shortens the walk"},
			{Kind: "store", Target: "stack.NIC.subnets", Args: []string{"$0", kept}, Guards: []string{"!(" + idx + " < builtin:len($0.subnets))"}, Exact: true, N: 1, Why: "the list becomes the kept entries, once, after ALL entries were looked at"},
		})
	}
	d15 := c.Rule("D15", "K7 closed site table (exact guards)", "the demuxer holds one endpoint table per (network protocol, transport protocol) pair, each freshly allocated: sockets of different transport protocols never share a table", 5)
	if fn := c.Fn(d15, "stack.newTransportDemuxer"); fn != nil {
		both := []string{"next(range($0.networkProtocols))#0", "next(range($0.transportProtocols))#0"}
		c.CheckSites(d15, fn, []SiteSpec{
			{Kind: "store", Target: "stack.transportDemuxer.protocol", Args: []string{"new(stack.transportDemuxer)", "make(map[stack.protocolIDs]*stack.transportEndpoints)"}, Guards: []string{}, Exact: true, N: 1, Why: "a fresh table of tables"},
			{Kind: "store", Target: "stack.transportEndpoints.endpoints", Args: []string{"new(stack.transportEndpoints)", "make(map[stack.TransportEndpointID]stack.TransportEndpoint)"}, Guards: both, Exact: true, N: 1, Why: "the endpoint table is created INSIDE the inner loop: one per (network, transport) pair, with its own map"},
			{Kind: "mapupdate", Target: "", Args: []string{"new(stack.transportDemuxer).protocol@1", "stack.protocolIDs{network: next(range($0.networkProtocols))#1, transport: next(range($0.transportProtocols))#1}", "&new(stack.transportEndpoints)"}, Guards: both, Exact: true, N: 1, Why: "keyed by the pair; the value is the table just created"},
			{Kind: "return", Args: []string{"&new(stack.transportDemuxer)"}, N: 1, Why: "the demuxer built here"},
		})
	}
	for _, name := range []string{"(*stack.transportDemuxer).deliverPacket", "(*stack.transportDemuxer).deliverControlPacket", "(*stack.transportDemuxer).singleRegisterEndpoint", "(*stack.transportDemuxer).unregisterEndpoint"} {
		fn := c.Fn(d15, name)
		if fn == nil {
			continue
		}
		// every lookup in d.protocol is keyed by the (network, transport) pair of the call
		n := 0
		Instrs(fn, func(in ssa.Instruction) {
			lk, ok := in.(*ssa.Lookup)
			if !ok || !strings.HasSuffix(stripVer(Term(lk.X)), ".protocol") {
				return
			}
			n++
			k := Term(lk.Index)
			c.Check(strings.HasPrefix(k, "stack.protocolIDs{network: ") && strings.Contains(k, ", transport: $"), d15, name+"/table-lookup:"+k, c.P.Pos(lk.Pos()), "endpoint table selected by the (network, transport) pair handed in", "the endpoint table is not selected by both protocol numbers")
		})
		c.Check(n >= 1, d15, name+"/has-table-lookup", c.P.Pos(fn.Pos()), "selects a table", "no table lookup found")
	}
	d1 := c.Rule("D1", "K9 path table (flow-sensitive struct values)", "four-step most-specific match", 4)
	if fn := c.Fn(d1, "(*stack.transportDemuxer).findEndpointLocked"); fn != nil {
		ps, es := WalkPaths(fn, 64)
		pos := c.P.Pos(fn.Pos())
		if es != "" {
			c.Bad(d1, FuncName(fn)+"/undecided", pos, "left the loop-free class: "+es)
		} else {
			key := func(la, rp, ra string) string {
				return "$1.endpoints[stack.TransportEndpointID{LocalPort: $3.LocalPort, LocalAddress: " + la + ", RemotePort: " + rp + ", RemoteAddress: " + ra + "}]"
			}
			k1 := "$1.endpoints[$3]"
			k2 := key(`""`, "$3.RemotePort", "$3.RemoteAddress")
			k3 := key("$3.LocalAddress", "0", `""`)
			k4 := key(`""`, "0", `""`)
			want := []string{
				"[!(" + k1 + " == nil)] => return " + k1,
				"[(" + k1 + " == nil) && !(" + k2 + " == nil)] => return " + k2,
				"[(" + k1 + " == nil) && (" + k2 + " == nil) && !(" + k3 + " == nil)] => return " + k3,
				"[(" + k1 + " == nil) && (" + k2 + " == nil) && (" + k3 + " == nil)] => return " + k4,
			}
			got := FormatPaths(ps, false)
			gotSet := map[string]bool{}
			for _, g := range got {
				gotSet[g] = true
			}
			for i, w := range want {
				c.Check(gotSet[w], d1, FuncName(fn)+"/step"+itoa(i+1), pos, "path present: "+w, "expected lookup step missing or altered: "+w)
				delete(gotSet, w)
			}
			for g := range gotSet {
				c.Bad(d1, FuncName(fn)+"/extra-path:"+g, pos, "path outside the four-step table")
			}
		}
	}

	// D2 delivery discipline
	d2 := c.Rule("D2", "K1/K5 site table", "one recipient; order NIC demux, stack demux, default, unknown", 14)
	if fn := c.Fn(d2, "(*stack.transportDemuxer).deliverPacket"); fn != nil {
		m := map[string]string{"EPS": "$0.protocol[stack.protocolIDs{network: $1.NetProto, transport: $2}]", "FOUND": "(*stack.transportDemuxer).findEndpointLocked($0, {EPS}#0, $3, $4)"}
		c.CheckSites(d2, fn, []SiteSpec{
			{Kind: "call", Target: "(*stack.transportDemuxer).findEndpointLocked", Args: sub(m, "$0", "{EPS}#0", "$3", "$4"), N: 1, Why: "lookup among the endpoints of (route's network protocol, transport protocol) with the packet's id"},
			{Kind: "call", Target: "iface:stack.TransportEndpoint.HandlePacket", Args: sub(m, "{FOUND}", "$1", "$4", "$3"), Guards: sub(m, "!({FOUND} == nil)"), N: 1, Why: "the packet goes to the endpoint found, once, with the same id and payload"},
			{Kind: "return", Target: "", Args: []string{"true"}, Guards: sub(m, "!({FOUND} == nil)"), N: 1, Why: "true only when an endpoint was found"},
			{Kind: "return", Target: "", Args: []string{"false"}, Why: "false when the protocol is unknown or nothing matched"},
		})
	}
	if fn := c.Fn(d2, "(*stack.NIC).DeliverTransportPacket"); fn != nil {
		m := map[string]string{
			"PROTO": "$0.stack.transportProtocols[$2]#0.proto",
			"FIRST": "buffer.VectorisedView.First($3)",
			"PORTS": "iface:stack.TransportProtocol.ParsePorts({PROTO}, {FIRST})",
			"ID":    "stack.TransportEndpointID{LocalPort: {PORTS}#1, LocalAddress: $1.LocalAddress, RemotePort: {PORTS}#0, RemoteAddress: $1.RemoteAddress}",
			"SIZE":  "!(builtin:len({FIRST}) < iface:stack.TransportProtocol.MinimumPacketSize({PROTO}))",
			"NICD":  "(*stack.transportDemuxer).deliverPacket($0.demux, $1, $2, $3, {ID})",
			"STKD":  "(*stack.transportDemuxer).deliverPacket($0.stack.demux, $1, $2, $3, {ID})",
			"DEF":   "dyn($1, {ID}, $3)",
		}
		c.CheckSites(d2, fn, []SiteSpec{
			{Kind: "call", Target: "iface:stack.TransportProtocol.ParsePorts", Args: sub(m, "{PROTO}", "{FIRST}"), Guards: sub(m, "{SIZE}"), N: 1, Why: "ports parsed only after the minimum-size check"},
			{Kind: "call", Target: "(*stack.transportDemuxer).deliverPacket", Args: sub(m, "$0.demux", "$1", "$2", "$3", "{ID}"), Guards: sub(m, "{SIZE}", "({PORTS}#2 == nil)"), N: 1, Why: "per-NIC demuxer first; id = {dstPort, local, srcPort, remote}"},
			{Kind: "call", Target: "(*stack.transportDemuxer).deliverPacket", Args: sub(m, "$0.stack.demux", "$1", "$2", "$3", "{ID}"), Guards: sub(m, "!{NICD}"), N: 1, Why: "stack-wide demuxer only if the NIC's declined"},
			{Kind: "call", Target: "dyn", Args: sub(m, "$1", "{ID}", "$3"), Guards: sub(m, "!{NICD}", "!{STKD}"), N: 1, Why: "default handler only if both demuxers declined"},
			{Kind: "call", Target: "iface:stack.TransportProtocol.HandleUnknownDestinationPacket", Args: sub(m, "{PROTO}", "$1", "{ID}", "$3"), Guards: sub(m, "!{NICD}", "!{STKD}"), N: 1, Why: "unknown-destination handler last"},
		})
		// the unknown-destination handler must not run after the default handler accepted
		for _, ci := range c.Calls(fn, Is("iface:stack.TransportProtocol.HandleUnknownDestinationPacket"), false) {
			acc := ReachAvoiding(fn, nil, func(in ssa.Instruction) bool { return false }, func(in ssa.Instruction) bool { return in == ci.(ssa.Instruction) })
			_ = acc
			ok := GuardedBy(fn, ci.Block(), func(e Edge) bool {
				return (strings.HasPrefix(e.Atom, "dyn(") && !e.Holds) || (strings.Contains(e.Atom, ".defaultHandler == nil)") && e.Holds)
			})
			c.Check(ok, d2, FuncName(fn)+"/unknown-after-default-declined", c.pos(ci), "reached only when no default handler exists or it declined", "unknown-destination handler can run although the default handler accepted the packet")
		}
	}
	demuxRegistrationRule(c, d2)

	// D3 destination address admission
	d3 := c.Rule("D3", "K1/K5 site table", "network endpoint only for an address of this NIC (or promiscuous/subnet)", 6)
	ownAddressDeliveryRule(c, d3)

	// D5 mask matching
	maskedMatchRule(c, "D5")
	d6 := c.Rule("D6", "K5 closed-world call-site table", "registrations and unregistrations name the same recorded scope and id", 15)
	c.CheckCallers(d6, []string{"(*stack.Stack).RegisterTransportEndpoint", "(*stack.Stack).UnregisterTransportEndpoint"}, []CallerSpec{
		{Fn: "(*ping.endpoint).Close", Target: "(*stack.Stack).UnregisterTransportEndpoint", Args: []string{"$0.stack", "$0.regNICID", "[$0.netProto]", "$0.transProto", "$0.id"}, Why: "ping endpoints (outside the properties) unregister their recorded scope"},
		{Fn: "(*ping.endpoint).bindLocked", Target: "(*stack.Stack).UnregisterTransportEndpoint", Args: []string{"$0.stack", "new(tcpip.FullAddress).NIC@2", "[(*ping.endpoint).checkV4Mapped($0, &new(tcpip.FullAddress), false)#0]", "$0.transProto", "phi{(*ping.endpoint).registerWithStack($0, new(tcpip.FullAddress).NIC@2, [(*ping.endpoint).checkV4Mapped($0, &new(tcpip.FullAddress), false)#0], loop)#0 | partial}"}, Why: "bind rolled back: unregister what registerWithStack returned"},
		{Fn: "(*ping.endpoint).registerWithStack", Target: "(*stack.Stack).RegisterTransportEndpoint", Args: []string{"$0.stack", "$1", "$2", "$0.transProto", "$3", "$0"}, Why: "register under the caller's scope and id"},
		{Fn: "(*ping.endpoint).registerWithStack$1", Target: "(*stack.Stack).RegisterTransportEndpoint", Args: []string{"^$0.stack", "^$1", "^$2", "^$0.transProto", "^$3", "^$0"}, Why: "retry with an ephemeral ident"},
		{Fn: "(*tcp.endpoint).Close", Target: "(*stack.Stack).UnregisterTransportEndpoint", Args: []string{"$0.stack", "$0.boundNICID", "$0.effectiveNetProtos", "6", "$0.id"}, Why: "unregistration names the recorded scope: boundNICID, effectiveNetProtos, id"},
		{Fn: "(*tcp.endpoint).Listen", Target: "(*stack.Stack).RegisterTransportEndpoint", Args: []string{"$0.stack", "$0.boundNICID", "$0.effectiveNetProtos", "6", "$0.id", "$0"}, Why: "a listener registers under its recorded scope and id"},
		{Fn: "(*tcp.endpoint).cleanupLocked", Target: "(*stack.Stack).UnregisterTransportEndpoint", Args: []string{"$0.stack", "$0.boundNICID", "$0.effectiveNetProtos", "6", "$0.id"}, Why: "unregistration names the recorded scope: boundNICID, effectiveNetProtos, id"},
		{Fn: "(*tcp.endpoint).connect", Target: "(*stack.Stack).RegisterTransportEndpoint", Args: []string{"$0.stack", "phi{$0.boundNICID | new(tcpip.FullAddress).NIC@2}", "[(*tcp.endpoint).checkV4Mapped($0, &new(tcpip.FullAddress))#0]", "6", "$0.id", "$0"}, Why: "connect registers (NIC of the bind or of the address, protocol of the address, the 4-tuple just built)"},
		{Fn: "(*tcp.endpoint).connect$2", Target: "(*stack.Stack).RegisterTransportEndpoint", Args: []string{"^$0.stack", "^&new(tcpip.NICID)", "[(*tcp.endpoint).checkV4Mapped(^$0, &new(tcpip.FullAddress))#0]", "6", "phi{^$0.id | partial}", "^$0"}, Why: "ephemeral port search registers the same scope with the candidate port"},
		{Fn: "(*tcp.listenContext).createConnectedEndpoint", Target: "(*stack.Stack).RegisterTransportEndpoint", Args: []string{"tcp.newEndpoint($0.stack, phi{$0.netProto | $1.route.NetProto}, nil).stack", "tcp.newEndpoint($0.stack, phi{$0.netProto | $1.route.NetProto}, nil).boundNICID@1", "tcp.newEndpoint($0.stack, phi{$0.netProto | $1.route.NetProto}, nil).effectiveNetProtos@1", "6", "tcp.newEndpoint($0.stack, phi{$0.netProto | $1.route.NetProto}, nil).id@1", "tcp.newEndpoint($0.stack, phi{$0.netProto | $1.route.NetProto}, nil)"}, Why: "an accepted endpoint registers under the scope and id it was just given"},
		{Fn: "(*udp.endpoint).Close", Target: "(*stack.Stack).UnregisterTransportEndpoint", Args: []string{"$0.stack", "$0.regNICID", "$0.effectiveNetProtos", "17", "$0.id"}, Why: "unregistration names the recorded scope: regNICID, effectiveNetProtos, id"},
		{Fn: "(*udp.endpoint).Connect", Target: "(*stack.Stack).UnregisterTransportEndpoint", Args: []string{"$0.stack", "$0.regNICID", "$0.effectiveNetProtos", "17", "$0.id"}, Why: "the OLD registration is removed under the scope it was made with (regNICID and effectiveNetProtos as recorded, not the new connect scope) and the old id"},
		{Fn: "(*udp.endpoint).bindLocked", Target: "(*stack.Stack).UnregisterTransportEndpoint", Args: []string{"$0.stack", "new(tcpip.FullAddress).NIC@2", "phi{[(*udp.endpoint).checkV4Mapped($0, &new(tcpip.FullAddress), true)#0] | [34525, 2048]}", "17", "phi{(*udp.endpoint).registerWithStack($0, new(tcpip.FullAddress).NIC@2, phi{[(*udp.endpoint).checkV4Mapped($0, &new(tcpip.FullAddress), true)#0] | [34525, 2048]}, loop)#0 | partial}"}, Why: "bind rolled back: unregister what registerWithStack returned, under the NIC just used"},
		{Fn: "(*udp.endpoint).registerWithStack", Target: "(*stack.Stack).RegisterTransportEndpoint", Args: []string{"$0.stack", "$1", "$2", "17", "phi{$3 | partial}", "$0"}, Why: "register under the caller's scope; the id possibly with the reserved ephemeral port"},
		{Fn: "udp.NewConnectedEndpoint", Target: "(*stack.Stack).RegisterTransportEndpoint", Args: []string{"$0", "(*stack.Route).NICID($1)", "[$1.NetProto]", "17", "$2", "udp.newEndpoint($0, $1.NetProto, $3)"}, Why: "forwarder-created endpoint registers on the route's NIC with the given id"},
	})
	udpReconnectRule(c, d6)

	udpConnectPortRule(c, d6)

	d9 := c.Rule("D9", "K2 pairing (shared with C13/I1,I2)", "the route reference an echo request holds on the pinged address is released on every way out", 4)
	echoRouteRefRule(c, d9)

	d8 := c.Rule("D8", "K2 must-follow + K7 coupled updates (shared with C03/H9)", "the endpoint's isRegistered flag follows every registration and inline unregistration at once", 6)
	registrationFlagRule(c, d8)

	d7 := c.Rule("D7", "K2 acquire/release pairing", "endpoint references taken for a lookup are released or handed on", 5)
	acq := []string{"(*stack.NIC).findEndpoint", "(*stack.NIC).primaryEndpoint", "(*stack.NIC).getRef"}
	rel := []string{"(*stack.referencedNetworkEndpoint).decRef"}
	xfer := []string{"stack.makeRoute"}
	for _, n := range []string{"(*stack.Stack).CheckLocalAddress", "(*stack.Stack).FindRoute", "(*stack.NIC).DeliverNetworkPacket"} {
		if fn := c.Fn(d7, n); fn != nil {
			c.RefBalanced(d7, fn, acq, rel, xfer)
		}
	}
	// the counter itself
	ref := "(*stack.referencedNetworkEndpoint)."
	if fn := c.Fn(d7, ref+"decRef"); fn != nil {
		c.CheckSites(d7, fn, []SiteSpec{
			{Kind: "call", Target: "sync/atomic.AddInt32", Args: []string{"&$0.refs", "-1"}, Guards: []string{}, Exact: true, N: 1, Why: "one reference is given up"},
			{Kind: "call", Target: "(*stack.NIC).removeEndpoint", Args: []string{"$0.nic", "$0"}, Guards: []string{"(0 == sync/atomic.AddInt32(&$0.refs, -1))"}, Exact: true, N: 1, Why: "the endpoint leaves the NIC exactly when the last reference goes"},
		})
	}
	if fn := c.Fn(d7, ref+"incRef"); fn != nil {
		c.CheckSites(d7, fn, []SiteSpec{{Kind: "call", Target: "sync/atomic.AddInt32", Args: []string{"&$0.refs", "1"}, Guards: []string{}, Exact: true, N: 1, Why: "one more reference"}})
	}
	if fn := c.Fn(d7, ref+"tryIncRef"); fn != nil {
		ld := "sync/atomic.LoadInt32(&$0.refs)"
		c.CheckSites(d7, fn, []SiteSpec{
			{Kind: "return", Args: []string{"false"}, Guards: []string{"(0 == " + ld + ")"}, Exact: true, N: 1, Why: "an endpoint whose count reached zero is never revived"},
			{Kind: "call", Target: "sync/atomic.CompareAndSwapInt32", Args: []string{"&$0.refs", ld, "(1 + " + ld + ")"}, Guards: []string{"!(0 == " + ld + ")"}, Exact: true, N: 1, Why: "the increment is a CAS from the value that was seen non-zero"},
			{Kind: "return", Args: []string{"true"}, Guards: []string{"!(0 == " + ld + ")", "sync/atomic.CompareAndSwapInt32(&$0.refs, " + ld + ", (1 + " + ld + "))"}, Exact: true, N: 1, Why: "success only when the CAS succeeded"},
		})
	}
	// the boolean form: every tryIncRef in the module (closed world)
	nTry := 0
	for _, fn := range c.ReviewedFuncs() {
		nTry += c.TryRefBalanced(d7, fn, "(*stack.referencedNetworkEndpoint).tryIncRef", rel, xfer)
	}
	c.Check(nTry >= 8, d7, "tryIncRef/sites-seen", "stack/nic.go", "all try-acquire sites examined", "fewer tryIncRef sites than reviewed: the rule went blind")
	c.CheckCallers(d7, acq, []CallerSpec{
		{Fn: "(*stack.Stack).CheckLocalAddress", Target: "(*stack.NIC).findEndpoint", Args: []string{"$0.nics[$1]", "$2", "$3", "0"}, Why: "explicit NIC: probe that NIC only"},
		{Fn: "(*stack.Stack).CheckLocalAddress", Target: "(*stack.NIC).findEndpoint", Args: []string{"next(range($0.nics))#2", "$2", "$3", "0"}, Why: "any NIC: probe each"},
		{Fn: "(*stack.Stack).FindRoute", Target: "(*stack.NIC).findEndpoint", Args: []string{"$0.nics[$0.routeTable[(1 + phi{-1 | loop})].NIC]", "$4", "$2", "0"}, Why: "route lookup with a requested local address"},
		{Fn: "(*stack.Stack).FindRoute", Target: "(*stack.NIC).primaryEndpoint", Args: []string{"$0.nics[$0.routeTable[(1 + phi{-1 | loop})].NIC]", "$4"}, Why: "route lookup without one"},
		{Fn: "(*stack.NIC).DeliverNetworkPacket", Target: "(*stack.NIC).getRef", Args: []string{"$0", "$4", "iface:stack.NetworkProtocol.ParseAddresses($0.stack.networkProtocols[$4]#0, buffer.VectorisedView.First($5))#1"}, Why: "inbound: the endpoint that owns the destination address"},
	})

}

// maskedMatchRule: Subnet.Contains and Route.Match return true only after the
// lengths agreed and EVERY byte satisfied dest[i] == addr[i] & mask[i], and
// false only on a mismatch (shared by C09/D5 and C06/E6: the route lookup
// relies on Match).
func maskedMatchRule(c *Ctx, id string) {
	d5 := c.Rule(id, "K1 loop exits", "Contains/Match true only after all bytes matched", 6)
	for _, spec := range []struct{ name, loopAtom, loopAlt, byteAtom, lenAtom string }{
		{"(*tcpip.Subnet).Contains", "(phi{(1 + loop) | 0} < builtin:len($1))", "(phi{(1 + loop) | 0} < builtin:len($0.address))", "($0.address[phi{(1 + loop) | 0}] == ($0.mask[phi{(1 + loop) | 0}] & $1[phi{(1 + loop) | 0}]))", "(builtin:len($0.address) == builtin:len($1))"},
		{"(*tcpip.Route).Match", "(phi{(1 + loop) | 0} < builtin:len($0.Destination))", "(phi{(1 + loop) | 0} < builtin:len($1))", "($0.Destination[phi{(1 + loop) | 0}] == ($0.Mask[phi{(1 + loop) | 0}] & $1[phi{(1 + loop) | 0}]))", "(builtin:len($0.Destination) == builtin:len($1))"},
	} {
		fn := c.Fn(d5, spec.name)
		if fn == nil {
			continue
		}
		atoms := map[string]bool{}
		for _, e := range CondEdges(fn) {
			atoms[e.Atom] = true
		}
		// the two lengths are equal once lenAtom held, so either bounds the loop
		if !atoms[spec.loopAtom] && atoms[spec.loopAlt] {
			spec.loopAtom = spec.loopAlt
		}
		for _, a := range []string{spec.loopAtom, spec.byteAtom, spec.lenAtom} {
			c.Check(atoms[a], d5, spec.name+"/atom:"+a, c.P.Pos(fn.Pos()), "tests "+a, "the function no longer tests "+a)
		}
		for _, s := range Sites(fn) {
			if s.Kind != "return" {
				continue
			}
			switch s.Args[0] {
			case "true":
				ok := GuardedBy(fn, s.Instr.Block(), AtomIs(false, Exactly(spec.loopAtom))) && GuardedBy(fn, s.Instr.Block(), AtomIs(true, Exactly(spec.lenAtom)))
				c.Check(ok, d5, spec.name+"/return-true", c.pos(s.Instr), "true only after equal lengths and loop exhaustion", "returns true before all bytes were compared or with different lengths")
			case "false":
				ok := GuardedBy(fn, s.Instr.Block(), AnyOf(AtomIs(false, Exactly(spec.byteAtom)), AtomIs(false, Exactly(spec.lenAtom))))
				c.Check(ok, d5, spec.name+"/return-false", c.pos(s.Instr), "false on a length or byte mismatch", "returns false although lengths and bytes matched")
			default:
				c.Bad(d5, spec.name+"/return-other:"+s.Args[0], c.pos(s.Instr), "result is not a constant decided by the loop")
			}
		}
	}
}

// udpConnectPortRule: udp Connect registers the endpoint under its bound local
// port: the LocalPort of the id it builds is the endpoint's own port on every
// path except the one of a still unbound endpoint (state initial), where it is
// 0 and registerWithStack picks an ephemeral port. Shared by C09 (D6: the
// registration names the socket's port) and C06 (E3: datagrams carry it).
func udpConnectPortRule(c *Ctx, rule string) {
	fn := c.Fn(rule, "(*udp.endpoint).Connect")
	if fn == nil {
		return
	}
	n := 0
	t := NewTermer(fn)
	Instrs(fn, func(in ssa.Instruction) {
		st, ok := in.(*ssa.Store)
		if !ok {
			return
		}
		fv, base := fieldOf(st.Addr)
		if fv == nil || fv.Name() != "LocalPort" || !typeNamed(base.Type(), "stack.TransportEndpointID") {
			return
		}
		if root, _ := allocRoot(st.Addr); root == nil {
			return
		}
		n++
		term := t.T(st.Val)
		okTerm := termEq(term, "phi{$0.id.LocalPort | 0}")
		okZero, why := ZeroOnlyUnder(fn, st.Val, "($0.state == 0)")
		c.Check(okTerm && okZero, rule, FuncName(fn)+"/id-local-port", c.pos(in), "the registration id carries the endpoint's bound port (0 only for an unbound endpoint)", "the id udp Connect registers under does not carry the endpoint's bound local port on every bound/connected path: value "+term+"; "+why)
	})
	c.Check(n == 1, rule, FuncName(fn)+"/id-built-once", c.P.Pos(fn.Pos()), "one id literal", "expected exactly one TransportEndpointID literal in Connect")
}

// demuxRegistrationRule: registration inserts only when the id is free (check
// and insert in one critical section), a failed multi-protocol registration
// rolls back exactly the protocols it registered (never the entry of the
// endpoint that won the conflict), unregistration deletes by the id given.
// Shared by C09/D2 and C03/H18.
func demuxRegistrationRule(c *Ctx, d2 string) {
	if fn := c.Fn(d2, "(*stack.transportDemuxer).registerEndpoint"); fn != nil {
		m := map[string]string{"I": "(1 + phi{-1 | loop})", "REG": "(*stack.transportDemuxer).singleRegisterEndpoint($0, $1[{I}], $2, $3, $4)"}
		c.CheckSites(d2, fn, []SiteSpec{
			{Kind: "call", Target: "(*stack.transportDemuxer).singleRegisterEndpoint", Args: sub(m, "$0", "$1[{I}]", "$2", "$3", "$4"), N: 1, Why: "register under each requested network protocol"},
			{Kind: "call", Target: "(*stack.transportDemuxer).unregisterEndpoint", Args: sub(m, "$0", "$1[:{I}]", "$2", "$3"), Guards: sub(m, "!({REG} == nil)"), N: 1, Why: "roll back exactly the protocols registered so far (netProtos[:i]) - never an entry owned by someone else"},
		})
	}
	if fn := c.Fn(d2, "(*stack.transportDemuxer).singleRegisterEndpoint"); fn != nil {
		m := map[string]string{"EPS": "$0.protocol[stack.protocolIDs{network: $1, transport: $2}]"}
		c.CheckSites(d2, fn, []SiteSpec{
			{Kind: "mapupdate", Target: "", Args: sub(m, "{EPS}#0.endpoints", "$3", "$4"), Guards: sub(m, "!{EPS}#0.endpoints[$3]#1"), N: 1, Why: "insert only when the id is not taken"},
		})
		// K4a: no unlock between the duplicate check and the insertion
		var ins ssa.Instruction
		Instrs(fn, func(in ssa.Instruction) {
			if _, ok := in.(*ssa.MapUpdate); ok {
				ins = in
			}
		})
		if ins != nil {
			unl := 0
			Instrs(fn, func(in ssa.Instruction) {
				if ci, ok := in.(*ssa.Call); ok {
					if op := lockOpOf(NewTermer(fn), ci); op != nil && (op.kind == "unlock" || op.kind == "runlock") {
						unl++
					}
				}
			})
			c.Check(unl == 0, d2, FuncName(fn)+"/check-and-insert-atomic", c.pos(ins), "no explicit unlock between duplicate check and insertion (only the deferred one)", "the lock is released between the duplicate check and the insertion")
		}
	}
	if fn := c.Fn(d2, "(*stack.transportDemuxer).unregisterEndpoint"); fn != nil {
		for _, d := range c.Calls(fn, Is("builtin:delete"), false) {
			c.ArgIs(d2, "delete-key", d, 1, "$3")
		}
	}
}

// udpReconnectRule: udp Connect registers the new association, removes the old
// registration under the scope recorded for it, and only then records the new
// scope. Shared by C09 (D6) and C11 (a connected socket hears only its peer).
func udpReconnectRule(c *Ctx, rule string) {
	if fn := c.Fn(rule, "(*udp.endpoint).Connect"); fn != nil {
		nic := "phi{$0.bindNICID | $1.NIC}"
		protos := "phi{[(*udp.endpoint).checkV4Mapped($0, &new(tcpip.FullAddress), false)#0] | [2048, 34525]}"
		c.CheckSitesPresent(rule, fn, []SiteSpec{
			{Kind: "call", Target: "(*udp.endpoint).registerWithStack", Args: []string{"$0", nic, protos, "*"}, N: 1, Why: "the new registration is made under (NIC, protocols)"},
			{Kind: "store", Target: "udp.endpoint.regNICID", Args: []string{"$0", nic}, N: 1, Why: "... and exactly that NIC is recorded for the later unregistration"},
			{Kind: "store", Target: "udp.endpoint.effectiveNetProtos", Args: []string{"$0", protos}, N: 1, Why: "... and exactly those protocols"},
			{Kind: "call", Target: "(*stack.Stack).UnregisterTransportEndpoint", Args: []string{"$0.stack", "$0.regNICID", "$0.effectiveNetProtos", "17", "$0.id"}, N: 1, Why: "the OLD registration is removed under the scope and id recorded when it was made (before any of them is overwritten): otherwise the bound registration survives for some network protocol and a connected socket keeps receiving from strangers"},
		})
		c.Ordered(rule, fn, []string{"register new", "unregister old", "record new scope"}, []func(Site) bool{isCall("(*udp.endpoint).registerWithStack"), isCall("(*stack.Stack).UnregisterTransportEndpoint"), isStore("udp.endpoint.regNICID")})
	}
}

// ownAddressDeliveryRule: a packet reaches a network endpoint (and through it
// ICMP and the transports) only when getRef found its destination address on
// this NIC; getRef returns a table hit or the one temporary endpoint it
// creates under promiscuous mode / an owning subnet. Shared by C09 (D3) and
// C13 (no reply to a request addressed to someone else).
func ownAddressDeliveryRule(c *Ctx, rule string) {
	if fn := c.Fn(rule, "(*stack.NIC).DeliverNetworkPacket"); fn != nil {
		m := map[string]string{
			"NP":    "$0.stack.networkProtocols[$4]#0",
			"VV":    "$5", // the vv parameter before any mutation
			"FIRST": "buffer.VectorisedView.First({VV})",
			"ADDRS": "iface:stack.NetworkProtocol.ParseAddresses({NP}, {FIRST})",
			"REF":   "(*stack.NIC).getRef($0, $4, {ADDRS}#1)",
			"SIZE":  "!(builtin:len({FIRST}) < iface:stack.NetworkProtocol.MinimumPacketSize({NP}))",
		}
		c.CheckSites(rule, fn, []SiteSpec{
			{Kind: "call", Target: "iface:stack.NetworkProtocol.ParseAddresses", Args: sub(m, "{NP}", "{FIRST}"), Guards: sub(m, "{SIZE}"), N: 1, Why: "addresses parsed only after the minimum-size check"},
			{Kind: "call", Target: "(*stack.NIC).getRef", Args: sub(m, "$0", "$4", "{ADDRS}#1"), N: 1, Why: "lookup by the packet's DESTINATION address"},
			{Kind: "call", Target: "iface:stack.NetworkEndpoint.HandlePacket", Args: sub(m, "{REF}.ep", "*", "{VV}"), Guards: sub(m, "!({REF} == nil)"), N: 1, Why: "local delivery only to the endpoint that owns the destination address"},
			{Kind: "call", Target: "iface:stack.NetworkEndpoint.HandlePacket", Args: sub(m, "*", "*", "{VV}"), Guards: sub(m, "({REF} == nil)", "(*stack.Stack).Forwarding($0.stack)"), N: 1, Why: "otherwise only the forwarding path, and only when forwarding is enabled"},
		})
	}
	if fn := c.Fn(rule, "(*stack.NIC).getRef"); fn != nil {
		m := map[string]string{"HIT": "$0.endpoints[stack.NetworkEndpointID{LocalAddress: $2}]"}
		c.CheckSites(rule, fn, []SiteSpec{
			{Kind: "call", Target: "(*stack.NIC).addAddressLocked", Args: []string{"$0", "$1", "$2", "0", "true"}, Guards: []string{"phi{$0.promiscuous | true}"}, N: 1, Why: "temporary endpoint only when promiscuous or a subnet of the NIC contains the address"},
			{Kind: "call", Target: "(*tcpip.Subnet).Contains", Args: []string{"*", "$2"}, Guards: []string{"!$0.promiscuous"}, N: 1, Why: "subnet test on the destination address"},
		})
		// every non-nil return is a table hit or the temporary endpoint
		for _, s := range Sites(fn) {
			if s.Kind != "return" || len(s.Args) != 1 || s.Args[0] == "nil" {
				continue
			}
			ok := s.Args[0] == sub(m, "{HIT}#0")[0] || s.Args[0] == "(*stack.NIC).addAddressLocked($0, $1, $2, 0, true)#0"
			c.Check(ok, rule, FuncName(fn)+"/return:"+s.Args[0], c.pos(s.Instr), "returns a table hit or the temporary endpoint", "returns an endpoint that is neither a hit for the destination address nor the temporary endpoint")
			if s.Args[0] == sub(m, "{HIT}#0")[0] {
				has := false
				for _, g := range s.Guards {
					if g == sub(m, "{HIT}#1")[0] {
						has = true
					}
				}
				c.Check(has, rule, FuncName(fn)+"/hit-needs-ok", c.pos(s.Instr), "hit returned only when the lookup succeeded", "table value returned without the ok test")
			}
		}
	}
}
