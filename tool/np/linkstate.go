package np

import (
	"strings"

	"golang.org/x/tools/go/ssa"
)

// LinkTypestate: typestate of elements of a generated intrusive list
// (tcp.segmentList, udp.udpPacketList, ...).
//
// The list's Remove(e) either preserves e's own next/prev links (today's
// template) or clears them (newer upstream templates). Code that reads
// e.Next()/e.Prev() after Remove(e) - to step a cursor past a removed element -
// is correct under the first and wrong under the second. The rule therefore
// decides the conjunction, from the current source on every run:
//
//	clears(Remove)  :=  Remove stores, directly or through SetNext/SetPrev,
//	                    into the entry of its own element parameter;
//	stale(site)     :=  a read of e's links (Next/Prev call or a load of
//	                    entry.next/prev) reachable from a Remove(l, e) call
//	                    in the same function, for the same SSA value e,
//	                    without passing e's definition again (a new
//	                    iteration binds a new element) or a re-insertion
//	                    of e (Push*/Insert*).
//
// and reports every stale site iff clears(Remove). One obligation per Remove
// call site; returns the number of Remove sites looked at.
func (c *Ctx) LinkTypestate(rule, list, entry string) int {
	// list: "tcp.segmentList"; entry: "tcp.segmentEntry"
	dot := strings.Index(list, ".")
	method := func(n string) string { return "(*" + list + ")." + n }
	_ = dot
	rm := c.P.Func(method("Remove"))
	if rm == nil {
		c.Broken(rule, "anchor-unresolved:"+method("Remove"), "list Remove not found")
		return 0
	}
	isLinker := func(n string) bool { return strings.HasSuffix(n, "ElementMapper.linkerFor") }
	// root of an address/receiver expression: looks through field addresses,
	// the identity linkerFor mapping and type changes.
	var root func(v ssa.Value) ssa.Value
	root = func(v ssa.Value) ssa.Value {
		switch x := v.(type) {
		case *ssa.FieldAddr:
			return root(x.X)
		case *ssa.ChangeType:
			return root(x.X)
		case *ssa.Call:
			if isLinker(CalleeName(x)) {
				a := x.Common().Args
				return root(a[len(a)-1])
			}
		}
		return v
	}
	entryMethod := func(n string) string { return "(*" + entry + ")." + n }
	isEntryField := func(addr ssa.Value, names ...string) (ssa.Value, bool) {
		fa, ok := addr.(*ssa.FieldAddr)
		if !ok {
			return nil, false
		}
		fv, base := fieldOf(fa)
		if fv == nil || strings.TrimPrefix(TypeStr(base.Type()), "*") != entry {
			return nil, false
		}
		for _, n := range names {
			if fv.Name() == n {
				return root(base), true
			}
		}
		return nil, false
	}
	// writesLinksOf: does `in` write the links of the element rooted at e?
	writesLinksOf := func(in ssa.Instruction, e ssa.Value) bool {
		switch x := in.(type) {
		case *ssa.Store:
			if r, ok := isEntryField(x.Addr, "next", "prev"); ok && r == e {
				return true
			}
		case *ssa.Call:
			n := CalleeName(x)
			if n == entryMethod("SetNext") || n == entryMethod("SetPrev") {
				return root(x.Common().Args[0]) == e
			}
		}
		return false
	}
	readsLinksOf := func(in ssa.Instruction, e ssa.Value) bool {
		switch x := in.(type) {
		case *ssa.UnOp:
			if r, ok := isEntryField(x.X, "next", "prev"); ok && r == e {
				return true
			}
		case *ssa.Call:
			n := CalleeName(x)
			if n == entryMethod("Next") || n == entryMethod("Prev") {
				return root(x.Common().Args[0]) == e
			}
		}
		return false
	}
	clears := false
	clearPos := ""
	if len(rm.Params) == 2 {
		Instrs(rm, func(in ssa.Instruction) {
			if writesLinksOf(in, rm.Params[1]) {
				clears = true
				if clearPos == "" {
					clearPos = c.pos(in)
				}
			}
		})
	}
	n := 0
	for _, fn := range c.P.Funcs {
		if fn == rm {
			continue
		}
		Instrs(fn, func(in ssa.Instruction) {
			call, ok := in.(*ssa.Call)
			if !ok || CalleeName(call) != method("Remove") {
				return
			}
			n++
			e := root(call.Common().Args[1])
			def, _ := e.(ssa.Instruction)
			stop := func(i ssa.Instruction) bool {
				if def != nil && i == def {
					return true
				}
				if ci, ok := i.(*ssa.Call); ok {
					cn := CalleeName(ci)
					if strings.HasPrefix(cn, method("Push")) || strings.HasPrefix(cn, method("Insert")) {
						for _, a := range ci.Common().Args[1:] {
							if root(a) == e {
								return true
							}
						}
					}
				}
				return false
			}
			bad := ReachAvoiding(fn, call, stop, func(i ssa.Instruction) bool { return readsLinksOf(i, e) })
			key := FuncName(fn) + "/Remove(" + NewTermer(fn).T(call.Common().Args[1]) + ")"
			switch {
			case bad == nil:
				c.Ok(rule, key, c.pos(call), "the removed element's links are not read after the removal")
			case !clears:
				c.Ok(rule, key, c.pos(call), "links read after removal at "+c.pos(bad)+"; "+method("Remove")+" preserves the removed element's own links")
			default:
				c.Bad(rule, key, c.pos(bad), "reads the successor/predecessor of an element after "+method("Remove")+" (call at "+c.pos(call)+"), and Remove clears the removed element's links ("+clearPos+"): the cursor computed from them is nil, not the neighbour")
			}
		})
	}
	return n
}
