package np

import (
	"strings"

	"golang.org/x/tools/go/ssa"
)

// LinkTypestate: typestate of elements of a generated intrusive list
// (tcp.segmentList, udp.udpPacketList, ...).
//
// The list's Remove(e) either preserves e's own next/prev links (today's
// template) or clears them (newer upstream templates). Code that reads
// e.Next()/e.Prev() after Remove(e) - to step a cursor past a removed element -
// is correct under the first and wrong under the second. The rule therefore
// decides the conjunction, from the current source on every run:
//
//	clears(Remove)  :=  Remove stores, directly or through SetNext/SetPrev,
//	                    into the entry of its own element parameter;
//	stale(site)     :=  a read of e's links (Next/Prev call or a load of
//	                    entry.next/prev) reachable from a Remove(l, e) call
//	                    in the same function, for the same SSA value e,
//	                    without passing e's definition again (a new
//	                    iteration binds a new element) or a re-insertion
//	                    of e (Push*/Insert*).
//
// and reports every stale site iff clears(Remove). One obligation per Remove
// call site; returns the number of Remove sites looked at.
func (c *Ctx) LinkTypestate(rule, list, entry string) int {
	// list: "tcp.segmentList"; entry: "tcp.segmentEntry"
	dot := strings.Index(list, ".")
	method := func(n string) string { return "(*" + list + ")." + n }
	_ = dot
	rm := c.P.Func(method("Remove"))
	if rm == nil {
		c.Broken(rule, "anchor-unresolved:"+method("Remove"), "list Remove not found")
		return 0
	}
	isLinker := func(n string) bool { return strings.HasSuffix(n, "ElementMapper.linkerFor") }
	// root of an address/receiver expression: looks through field addresses,
	// the identity linkerFor mapping and type changes.
	var root func(v ssa.Value) ssa.Value
	root = func(v ssa.Value) ssa.Value {
		switch x := v.(type) {
		case *ssa.FieldAddr:
			return root(x.X)
		case *ssa.ChangeType:
			return root(x.X)
		case *ssa.Call:
			if isLinker(CalleeName(x)) {
				a := x.Common().Args
				return root(a[len(a)-1])
			}
		}
		return v
	}
	entryMethod := func(n string) string { return "(*" + entry + ")." + n }
	isEntryField := func(addr ssa.Value, names ...string) (ssa.Value, bool) {
		fa, ok := addr.(*ssa.FieldAddr)
		if !ok {
			return nil, false
		}
		fv, base := fieldOf(fa)
		if fv == nil || strings.TrimPrefix(TypeStr(base.Type()), "*") != entry {
			return nil, false
		}
		for _, n := range names {
			if fv.Name() == n {
				return root(base), true
			}
		}
		return nil, false
	}
	// writesLinksOf: does `in` write the links of the element rooted at e?
	writesLinksOf := func(in ssa.Instruction, e ssa.Value) bool {
		switch x := in.(type) {
		case *ssa.Store:
			if r, ok := isEntryField(x.Addr, "next", "prev"); ok && r == e {
				return true
			}
		case *ssa.Call:
			n := CalleeName(x)
			if n == entryMethod("SetNext") || n == entryMethod("SetPrev") {
				return root(x.Common().Args[0]) == e
			}
		}
		return false
	}
	readsLinksOf := func(in ssa.Instruction, e ssa.Value) bool {
		switch x := in.(type) {
		case *ssa.UnOp:
			if r, ok := isEntryField(x.X, "next", "prev"); ok && r == e {
				return true
			}
		case *ssa.Call:
			n := CalleeName(x)
			if n == entryMethod("Next") || n == entryMethod("Prev") {
				return root(x.Common().Args[0]) == e
			}
		}
		return false
	}
	clears := false
	clearPos := ""
	if len(rm.Params) == 2 {
		Instrs(rm, func(in ssa.Instruction) {
			if writesLinksOf(in, rm.Params[1]) {
				clears = true
				if clearPos == "" {
					clearPos = c.pos(in)
				}
			}
		})
	}
	n := 0
	for _, fn := range c.P.Funcs {
		if fn == rm {
			continue
		}
		Instrs(fn, func(in ssa.Instruction) {
			call, ok := in.(*ssa.Call)
			if !ok || CalleeName(call) != method("Remove") {
				return
			}
			n++
			e := root(call.Common().Args[1])
			def, _ := e.(ssa.Instruction)
			stop := func(i ssa.Instruction) bool {
				if def != nil && i == def {
					return true
				}
				if ci, ok := i.(*ssa.Call); ok {
					cn := CalleeName(ci)
					if strings.HasPrefix(cn, method("Push")) || strings.HasPrefix(cn, method("Insert")) {
						for _, a := range ci.Common().Args[1:] {
							if root(a) == e {
								return true
							}
						}
					}
				}
				return false
			}
			bad := ReachAvoiding(fn, call, stop, func(i ssa.Instruction) bool { return readsLinksOf(i, e) })
			key := FuncName(fn) + "/Remove(" + NewTermer(fn).T(call.Common().Args[1]) + ")"
			switch {
			case bad == nil:
				c.Ok(rule, key, c.pos(call), "the removed element's links are not read after the removal")
			case !clears:
				c.Ok(rule, key, c.pos(call), "links read after removal at "+c.pos(bad)+"; "+method("Remove")+" preserves the removed element's own links")
			default:
				c.Bad(rule, key, c.pos(bad), "reads the successor/predecessor of an element after "+method("Remove")+" (call at "+c.pos(call)+"), and Remove clears the removed element's links ("+clearPos+"): the cursor computed from them is nil, not the neighbour")
			}
		})
	}
	return n
}

// ListImpl: closed site tables of one generated intrusive list (the template
// of pkg/ilist instantiated for an element type): PushBack, PushFront,
// InsertAfter and Remove write both link directions and head/tail on exactly
// the empty/non-empty branches; Front/Back/Empty and the entry accessors are
// the one-liners they look like. pkg "tcp", list "segmentList", entry
// "segmentEntry", mapper "segmentElementMapper". ops selects which
// mutators the package uses (the others are unused template code).
func (c *Ctx) ListImpl(rule, pkg, list, entry, mapper string, ops ...string) {
	L := "(*" + pkg + "." + list + ")."
	E := "(*" + pkg + "." + entry + ")."
	lk := func(x string) string { return "&" + pkg + "." + mapper + ".linkerFor(zero, " + x + ")." + entry }
	head, tail := pkg+"."+list+".head", pkg+"."+list+".tail"
	has := func(op string) bool {
		for _, o := range ops {
			if o == op {
				return true
			}
		}
		return false
	}
	call := func(m, recv string, args ...string) SiteSpec {
		return SiteSpec{Kind: "call", Target: E + m, Args: append([]string{recv}, args...)}
	}
	with := func(s SiteSpec, guards []string, why string) SiteSpec {
		s.Guards, s.Exact, s.N, s.Why = guards, true, 1, why
		if s.Guards == nil {
			s.Guards = []string{}
		}
		return s
	}
	store := func(target, val string) SiteSpec {
		return SiteSpec{Kind: "store", Target: target, Args: []string{"$0", val}}
	}
	if has("PushBack") {
		if fn := c.Fn(rule, L+"PushBack"); fn != nil {
			c.CheckSites(rule, fn, []SiteSpec{
				with(call("SetNext", lk("$1"), "nil"), nil, "the new last element has no successor"),
				with(call("SetPrev", lk("$1"), "$0.tail"), nil, "its predecessor is the old tail"),
				with(call("SetNext", lk("$0.tail"), "$1"), []string{"!($0.tail == nil)"}, "the old tail points to it"),
				with(store(head, "$1"), []string{"($0.tail == nil)"}, "empty list: it is also the head"),
				with(store(tail, "$1"), nil, "it is the tail"),
			})
		}
	}
	if has("PushFront") {
		if fn := c.Fn(rule, L+"PushFront"); fn != nil {
			c.CheckSites(rule, fn, []SiteSpec{
				with(call("SetNext", lk("$1"), "$0.head"), nil, "the new first element's successor is the old head"),
				with(call("SetPrev", lk("$1"), "nil"), nil, "it has no predecessor"),
				with(call("SetPrev", lk("$0.head"), "$1"), []string{"!($0.head == nil)"}, "the old head points back to it"),
				with(store(tail, "$1"), []string{"($0.head == nil)"}, "empty list: it is also the tail"),
				with(store(head, "$1"), nil, "it is the head"),
			})
		}
	}
	if has("InsertAfter") {
		if fn := c.Fn(rule, L+"InsertAfter"); fn != nil {
			nx := E + "Next(" + lk("$1") + ")"
			c.CheckSites(rule, fn, []SiteSpec{
				with(call("SetNext", lk("$2"), nx), nil, "the inserted element's successor is b's old successor"),
				with(call("SetPrev", lk("$2"), "$1"), nil, "its predecessor is b"),
				with(call("SetNext", lk("$1"), "$2"), nil, "b points to it"),
				with(call("SetPrev", lk(nx), "$2"), []string{"!(" + nx + " == nil)"}, "b's old successor points back to it"),
				with(store(tail, "$2"), []string{"(" + nx + " == nil)"}, "b was the tail: the inserted element is the tail now"),
			})
		}
	}
	if has("Remove") {
		if fn := c.Fn(rule, L+"Remove"); fn != nil {
			pv, nx := E+"Prev("+lk("$1")+")", E+"Next("+lk("$1")+")"
			// open table: additionally clearing the removed element's own links
			// is harmless by itself (the typestate rule decides whether anyone
			// reads them afterwards)
			c.CheckSitesPresent(rule, fn, []SiteSpec{
				with(call("SetNext", lk(pv), nx), []string{"!(" + pv + " == nil)"}, "the predecessor skips the removed element"),
				with(store(head, nx), []string{"(" + pv + " == nil)"}, "removed the head: head = successor"),
				with(call("SetPrev", lk(nx), pv), []string{"!(" + nx + " == nil)"}, "the successor points back to the predecessor"),
				with(store(tail, pv), []string{"(" + nx + " == nil)"}, "removed the tail: tail = predecessor"),
			})
		}
	}
	c.Returns(rule, L+"Front", RetSpec{Args: []string{"$0.head"}, Why: "Front is the head"})
	c.Returns(rule, L+"Back", RetSpec{Args: []string{"$0.tail"}, Why: "Back is the tail"})
	c.Returns(rule, L+"Empty", RetSpec{Args: []string{"($0.head == nil)"}, Why: "empty iff there is no head"})
	c.Returns(rule, E+"Next", RetSpec{Args: []string{"$0.next"}, Why: "Next is the next link"})
	c.Returns(rule, E+"Prev", RetSpec{Args: []string{"$0.prev"}, Why: "Prev is the prev link"})
	for _, m := range [][2]string{{"SetNext", "next"}, {"SetPrev", "prev"}} {
		if fn := c.Fn(rule, E+m[0]); fn != nil {
			c.CheckSites(rule, fn, []SiteSpec{{Kind: "store", Target: pkg + "." + entry + "." + m[1], Args: []string{"$0", "$1"}, Guards: []string{}, Exact: true, N: 1, Why: m[0] + " sets the " + m[1] + " link"}})
		}
	}
}
