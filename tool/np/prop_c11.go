package np

import (
	"fmt"
	"go/types"
	"strings"

	"golang.org/x/tools/go/ssa"
)

func init() { register("C11", propC11) }

func propC11(c *Ctx) {
	c.Explanation = "Decides structural necessary conditions of UDP datagram integrity for all inputs and schedules: (U1) every access to the receive-queue fields holds rcvMu (must-lockset); (U2) a datagram is enqueued only after the length check and the ready/closed/buffer-full test, all inside one critical section (drop-whole); (U3) the queued packet is a fresh object whose data is a Clone of the view after exactly one TrimFront(UDP header size) and no CapLength, and whose sender address is (NIC of the route, remote address of the id, source port of the header); (U4) rcvList.PushBack only in HandlePacket, Read removes the front element inside the critical section and returns that element's data and sender (FIFO, at most once), the byte accounting adds/subtracts the same packet's size; (U5) Write sends exactly one datagram per successful return with payload = Payload.Get(Payload.Size()) of the caller, local port of the endpoint and the destination port of the connect/To address, returns len(payload), and sends only after route resolution; (U6) the 16-bit UDP length cannot wrap: Write rejects payloads whose size plus the 8-byte header exceeds 65535 (interval analysis of sendUDP's narrowing conversion under that guard). (U7) the read side is closed (rcvClosed, after which HandlePacket drops whole datagrams) exactly when Shutdown is called with ShutdownRead or the endpoint is closed - no earlier shutdown state can suppress it - and nowhere else. (U8) the IPv4 reassembly key covers id, protocol and every byte of both addresses (shared with C08/F4): datagrams of different senders are never merged by reassembly. (U9) link typestate of the packet list. (U10) no examined callee error ends in a nil return in the UDP, route, IPv4/IPv6 and link packages; U5 also tables Route.WritePacket's pass-through of the network endpoint's result. (U11) the receive queue is a correct doubly-linked list. (U12) the IPv4 inbound path hands up exactly the payload (shared with C08/F4). U5 also tables prepareForWrite. (U13) the complete site table of the IPv4 emitter incl. its size guard (shared with C06/E1); (U14) UDP and IPv4 length fields at the RFC 768/791 bits (shared with C15/B1). (U15) a connected socket receives and sends to the connected port over its own route reference, the first datagram of an empty queue wakes readers, Close empties the queue; (U16) sendUDP returns the result of the one packet write it performs. (U17) the IP layer cuts a datagram at exactly its IP length however many chunks it arrives in (shared with C16/V2). (U18) the only narrowing in package udp is the length field of a datagram whose size Write has bounded. (U19) re-connecting removes the old registration under the NIC, protocol list and id recorded when it was made, before any of them is overwritten (shared with C09/D6): a connected socket does not stay registered under its bound identity for any network protocol. (U20) the IPv6 layer hands up exactly the payload: 40 header bytes trimmed, then cut at the payload length for every valid packet, before ICMPv6 or the transport see it. NOT decided: byte equality of delivered and sent data over histories; behaviour when the UDP length field is smaller than the IP payload (trailing bytes are delivered)."
	c.Assumptions = []string{"tcpip.Payload.Get(n) returns at most n bytes", "header accessors are pure between the guard and the use in HandlePacket"}
	ipv4WritePacketRule(c, c.Rule("U13", "K7 exact-guard site table (shared with C06/E1)", "the IPv4 emitter refuses exactly the datagrams whose header plus payload do not fit 16 bits, writes one packet and returns the link result", 14))
	u14 := c.Rule("U14", "K9 bitprov (shared with C15/B1)", "UDP ports, length and checksum and the IPv4 length fields are read and written at exactly the RFC 768/791 bits", 10)
	c.fieldAccessorLayouts(u14, &bitprov{p: c.P}, func(f fieldLayout) bool {
		return f.Typ == "UDP" || (f.Typ == "IPv4" && (f.Field == "IHL" || f.Field == "TotalLength" || f.Field == "Protocol"))
	})
	udpConnectStateRule(c, c.Rule("U15", "K7 site tables (shared with C09/D11)", "a connected socket receives and sends to the connected port over its own route reference; the first datagram of an empty queue wakes readers; Close empties the queue", 10))
	sendResultRule(c, c.Rule("U16", "K7 closed return table (shared with C06/E10)", "sendUDP returns the result of the one packet write it performs", 1), "udp.sendUDP")
	vvCapLengthRule(c, c.Rule("U17", "K7 exact-guard site table (shared with C16/V2)", "the IP layer cuts a datagram at exactly its IP length, however many chunks it arrives in", 4))
	c.NoNewNarrowing(c.Rule("U18", "K8 narrowing (closed world, reviewed table)", "the only narrowing in package udp is the length field of a datagram whose size Write has bounded", 3), []string{"/transport/udp"}, narrowUDP)
	udpReconnectRule(c, c.Rule("U19", "K5 site table + K2 order (shared with C09/D6)", "re-connecting removes the old registration under the scope and id recorded for it, before they are overwritten: a connected socket is not left registered under its bound (wildcard-peer) identity for any network protocol", 4))
	ipv6InboundRule(c, c.Rule("U20", "K7 exact-guard site table", "the IPv6 layer hands up exactly the payload: 40 header bytes trimmed, then cut at the payload length unconditionally, however many chunks the frame arrived in", 4))
	u1 := c.Rule("U1", "K4 lockset", "receive queue fields only under rcvMu", 20)
	c.Locks().CheckGuards(c, u1, guardsUDP, nil)

	u2 := c.Rule("U2", "K1/K5 site table", "HandlePacket: checks, fresh packet, exact sender, clone after one trim", 10)
	if fn := c.Fn(u2, "(*udp.endpoint).HandlePacket"); fn != nil {
		m := map[string]string{
			"VV":    "$3",                           // the inbound view as passed in
			"VV2":   "new(buffer.VectorisedView)@2", // the same variable after exactly one mutation (the TrimFront)
			"HDR":   "buffer.VectorisedView.First({VV})",
			"LENOK": "!(buffer.VectorisedView.Size({VV}) < header.UDP.Length({HDR}))",
			"PKT":   "new(udp.udpPacket)",
		}
		admit := sub(m, "{LENOK}", "$0.rcvReady", "!$0.rcvClosed", "($0.rcvBufSize < $0.rcvBufSizeMax)")
		c.CheckSites(u2, fn, []SiteSpec{
			{Kind: "call", Target: "(*buffer.VectorisedView).TrimFront", Args: sub(m, "&new(buffer.VectorisedView)", "8"), Guards: sub(m, "{LENOK}"), N: 1, Why: "exactly one trim, of the 8-byte UDP header, after the length check"},
			{Kind: "call", Target: "(*udp.udpPacketList).PushBack", Args: sub(m, "&$0.rcvList", "&{PKT}"), Guards: admit, N: 1, Why: "enqueue at the back, a packet object allocated for this arrival, only when admitted"},
			{Kind: "call", Target: "buffer.VectorisedView.Clone", Args: sub(m, "{VV2}", "{PKT}.views[:]"), Guards: admit, N: 1, Why: "the payload is cloned into the packet's own view array"},
			{Kind: "store", Target: "udp.udpPacket.data", Args: sub(m, "{PKT}", "buffer.VectorisedView.Clone({VV2}, {PKT}.views[:])"), N: 1, Why: "data = the clone"},
			{Kind: "store", Target: "tcpip.FullAddress.NIC", Args: sub(m, "{PKT}.senderAddress", "(*stack.Route).NICID($1)"), N: 1, Why: "sender NIC = NIC of the inbound route"},
			{Kind: "store", Target: "tcpip.FullAddress.Addr", Args: sub(m, "{PKT}.senderAddress", "$2.RemoteAddress"), N: 1, Why: "sender address = remote address of the packet's id"},
			{Kind: "store", Target: "tcpip.FullAddress.Port", Args: sub(m, "{PKT}.senderAddress", "header.UDP.SourcePort({HDR})"), N: 1, Why: "sender port = source port of the UDP header"},
			{Kind: "store", Target: "udp.endpoint.rcvBufSize", Args: sub(m, "$0", "($0.rcvBufSize + buffer.VectorisedView.Size({VV2}))"), Guards: admit, N: 1, Why: "buffer accounting grows by the payload size"},
		})
		// order: length check -> trim -> clone ; no CapLength anywhere
		trims := c.Calls(fn, Is("(*buffer.VectorisedView).TrimFront"), false)
		clones := c.Calls(fn, Is("buffer.VectorisedView.Clone"), false)
		if len(trims) == 1 && len(clones) == 1 {
			c.Check(InstrDominates(trims[0].(ssa.Instruction), clones[0].(ssa.Instruction)), u2, FuncName(fn)+"/trim-before-clone", c.pos(clones[0]), "header trimmed before the payload is cloned", "payload cloned before the header is trimmed")
		}
		caps := c.Calls(fn, func(s string) bool { return strings.Contains(s, "CapLength") || strings.Contains(s, "RemoveFirst") }, false)
		c.Check(len(caps) == 0, u2, FuncName(fn)+"/no-cap", c.P.Pos(fn.Pos()), "no CapLength/RemoveFirst on the inbound view", "inbound view is capped or chunks are removed before delivery (truncation)")
		// same critical section: from the admission test to PushBack no unlock
		for _, pb := range c.Calls(fn, Is("(*udp.udpPacketList).PushBack"), false) {
			ls := c.Locks().At[pb.(ssa.Instruction)]
			held := false
			for _, h := range ls {
				if h.Class == "udp.endpoint.rcvMu" {
					held = true
				}
			}
			c.Check(held, u2, FuncName(fn)+"/enqueue-in-critical-section", c.pos(pb), "PushBack under rcvMu", "PushBack without rcvMu")
		}
		for _, e := range CondEdges(fn) {
			if e.Atom == "$0.rcvClosed" || e.Atom == "$0.rcvReady" || e.Atom == "($0.rcvBufSize < $0.rcvBufSizeMax)" {
				last := e.From.Instrs[len(e.From.Instrs)-1]
				ls := c.Locks().At[last]
				held := false
				for _, h := range ls {
					if h.Class == "udp.endpoint.rcvMu" {
						held = true
					}
				}
				if e.Succ == 0 {
					c.Check(held, u2, FuncName(fn)+"/admission-test-locked:"+e.Atom, c.pos(last), "admission test under rcvMu", "admission test outside rcvMu")
				}
			}
		}
		// K4a: the admission test and the enqueue are one critical section: the rcvMu.Lock
		// that dominates the enqueue is not followed, on any path that still reaches the
		// enqueue, by an unlock; and every test that contributes an admission literal
		// (directly or through a new predicate helper, see inline.go) comes after that Lock.
		tl := NewTermer(fn)
		isLock := func(in ssa.Instruction, kind string) bool {
			ci, ok := in.(*ssa.Call)
			if !ok {
				return false
			}
			op := lockOpOf(tl, ci)
			return op != nil && op.kind == kind && op.class == "udp.endpoint.rcvMu"
		}
		for _, pb := range c.Calls(fn, Is("(*udp.udpPacketList).PushBack"), false) {
			var lock ssa.Instruction
			Instrs(fn, func(in ssa.Instruction) {
				if isLock(in, "lock") && InstrDominates(in, pb.(ssa.Instruction)) {
					lock = in
				}
			})
			if lock == nil {
				c.Bad(u2, FuncName(fn)+"/test-and-enqueue-atomic", c.pos(pb), "no rcvMu.Lock dominates the enqueue")
				continue
			}
			bad := ReachAvoiding(fn, lock, func(in ssa.Instruction) bool { return in == pb.(ssa.Instruction) }, func(in ssa.Instruction) bool {
				return isLock(in, "unlock") && instrReaches(in, pb.(ssa.Instruction))
			})
			c.Check(bad == nil, u2, FuncName(fn)+"/test-and-enqueue-atomic", c.pos(lock), "no unlock between taking rcvMu and the enqueue", "rcvMu released between the admission test and the enqueue")
			// the admission literals guard the enqueue (site table) and their tests lie inside the critical section
			gi := guardIndex(fn)
			need := map[string]bool{"$0.rcvReady": false, "!$0.rcvClosed": false, "($0.rcvBufSize < $0.rcvBufSizeMax)": false}
			for _, g := range gi[pb.Block().Index] {
				if _, ok := need[g]; ok {
					need[g] = true
				}
			}
			for g, ok := range need {
				c.Check(ok, u2, FuncName(fn)+"/admission:"+g, c.pos(pb), "enqueue guarded by "+g, "the enqueue is no longer guarded by "+g)
			}
			for _, e := range CondEdges(fn) {
				ifi := e.From.Instrs[len(e.From.Instrs)-1]
				if e.Succ != 0 || !instrReaches(ifi, pb.(ssa.Instruction)) || InstrDominates(ifi, lock) {
					continue
				}
				c.Check(InstrDominates(lock, ifi), u2, FuncName(fn)+"/tests-after-lock", c.pos(ifi), "branch between Lock and enqueue lies inside the critical section", "a test that decides the enqueue is evaluated outside the critical section")
			}
		}
	}

	u4 := c.Rule("U4", "K3/K5", "FIFO hand-off: PushBack only in HandlePacket; Read dequeues the front once", 6)
	c.OnlyIn(u4, "udp rcvList.PushBack", c.CallSites(Is("(*udp.udpPacketList).PushBack")), "(*udp.endpoint).HandlePacket")
	c.OnlyIn(u4, "udp rcvList.PushFront/Insert", c.CallSites(func(s string) bool {
		return s == "(*udp.udpPacketList).PushFront" || s == "(*udp.udpPacketList).InsertAfter" || s == "(*udp.udpPacketList).InsertBefore" || s == "(*udp.udpPacketList).PushBackList"
	}))
	if fn := c.Fn(u4, "(*udp.endpoint).Read"); fn != nil {
		front := "(*udp.udpPacketList).Front(&$0.rcvList)"
		nonEmpty := "!(*udp.udpPacketList).Empty(&$0.rcvList)"
		c.CheckSites(u4, fn, []SiteSpec{
			{Kind: "call", Target: "(*udp.udpPacketList).Remove", Args: []string{"&$0.rcvList", front}, Guards: []string{nonEmpty}, N: 1, Why: "the element removed is the front element"},
			{Kind: "store", Target: "udp.endpoint.rcvBufSize", Args: []string{"$0", "($0.rcvBufSize - buffer.VectorisedView.Size(" + front + ".data))"}, Guards: []string{nonEmpty}, N: 1, Why: "accounting shrinks by the dequeued packet's size"},
			{Kind: "call", Target: "buffer.VectorisedView.ToView", Args: []string{front + ".data"}, Guards: []string{nonEmpty}, N: 1, Why: "the bytes returned are the dequeued packet's data, flattened whole"},
		})
		for _, rm := range c.Calls(fn, Is("(*udp.udpPacketList).Remove"), false) {
			held := false
			for _, h := range c.Locks().At[rm.(ssa.Instruction)] {
				if h.Class == "udp.endpoint.rcvMu" {
					held = true
				}
			}
			c.Check(held, u4, FuncName(fn)+"/remove-in-critical-section", c.pos(rm), "Remove under rcvMu", "Remove outside rcvMu")
		}
		// sender address copied from the same packet
		okAddr := false
		Instrs(fn, func(in ssa.Instruction) {
			if st, ok := in.(*ssa.Store); ok {
				if Term(st.Addr) == "$1" && Term(st.Val) == front+".senderAddress" {
					okAddr = true
				}
			}
		})
		c.Check(okAddr, u4, FuncName(fn)+"/sender-of-same-packet", c.P.Pos(fn.Pos()), "*addr = p.senderAddress of the dequeued packet", "reported sender is not the dequeued packet's senderAddress")
	}

	// U10: "... or the write fails": on the way from Write to the wire no layer
	// turns a callee's error into success. For every function of the UDP, route,
	// IPv4/IPv6 and link packages that returns *tcpip.Error: an error value that
	// the function examines never reaches a `return nil` on a path where it may
	// be non-nil (closed world over those packages; expected count zero, the
	// scan's reach is shown by the number of error-producing calls examined).
	u10 := c.Rule("U10", "K2 path search (error discipline, closed world over the send-path packages)", "no examined error of a callee ends in a nil return", 1)
	nErrCalls := 0
	for _, fn := range c.P.Funcs {
		if fn.Pkg == nil || inTesting(fn) {
			continue
		}
		pp := fn.Pkg.Pkg.Path()
		file := c.P.Pos(fn.Pos())
		inScope := strings.HasSuffix(pp, "/protocol/transport/udp") || strings.HasSuffix(pp, "/protocol/network/ipv4") || strings.HasSuffix(pp, "/protocol/network/ipv6") || strings.Contains(pp, "/protocol/link/") || (strings.HasSuffix(pp, "/stack") && strings.HasPrefix(file, "stack/route.go"))
		if !inScope {
			continue
		}
		res := fn.Signature.Results()
		if res.Len() == 0 || !isTcpipError(res.At(res.Len()-1).Type()) {
			continue
		}
		Instrs(fn, func(in ssa.Instruction) {
			if call, ok := in.(*ssa.Call); ok {
				t := call.Type()
				if tup, ok := t.(*types.Tuple); ok && tup.Len() > 0 {
					t = tup.At(tup.Len() - 1).Type()
				}
				if isTcpipError(t) {
					nErrCalls++
				}
			}
		})
		for _, sw := range SwallowedErrors(fn) {
			c.Bad(u10, FuncName(fn)+"/swallows:"+sw.Desc, c.pos(sw.Ret), "the error returned by "+sw.Desc+" (call at "+c.pos(sw.Call)+") is examined, yet this return reports success on a path where it can be non-nil: a datagram the lower layer refused is reported as sent")
		}
	}
	c.Check(nErrCalls >= 20, u10, "send-path/error-producing-calls-examined", "protocol/transport/udp", "the scan saw the send path's error-producing calls", "fewer error-producing calls than reviewed: the scan went blind")

	u5 := c.Rule("U5", "K1/K2/K5", "Write: one datagram, exact payload, after resolution", 6)
	if fn := c.Fn(u5, "(*udp.endpoint).prepareForWrite"); fn != nil {
		bl := "(*udp.endpoint).bindLocked($0, zero, nil)"
		c.CheckSites(u5, fn, []SiteSpec{
			{Kind: "return", Args: []string{"false", "nil"}, Guards: []string{"!($0.state == 0)", "($0.state == 2)"}, Exact: true, N: 1, Why: "connected: write may proceed"},
			{Kind: "return", Args: []string{"false", "tcpip.ErrInvalidEndpointState"}, Guards: []string{"!($0.state == 0)", "!($0.state == 1)", "!($0.state == 2)"}, Exact: true, N: 1, Why: "closed (or any other state): the write fails"},
			{Kind: "return", Args: []string{"false", "tcpip.ErrDestinationRequired"}, Guards: []string{"!($0.state == 0)", "!($0.state == 2)", "($0.state == 1)", "($1 == nil)"}, Exact: true, N: 1, Why: "bound but not connected and no destination given: the write fails"},
			{Kind: "return", Args: []string{"false", "nil"}, Guards: []string{"!($0.state == 0)", "!($0.state == 2)", "!($1 == nil)", "($0.state == 1)"}, Exact: true, N: 1, Why: "bound with a destination: write may proceed"},
			{Kind: "call", Target: "(*udp.endpoint).bindLocked", Args: []string{"$0", "zero", "nil"}, Guards: []string{"($0.state == 0)"}, Exact: true, N: 1, Why: "an unbound endpoint binds itself (any address, ephemeral port) before its first write"},
			{Kind: "return", Args: []string{"false", bl}, Guards: []string{"!(" + bl + " == nil)", "($0.state == 0)"}, Exact: true, N: 1, Why: "a failed implicit bind fails the write with that error"},
			{Kind: "return", Args: []string{"true", "nil"}, N: 2, Why: "state changed or just bound: the caller re-evaluates"},
		})
	}
	if fn := c.Fn(u5, "(*stack.Route).WritePacket"); fn != nil {
		wp := "iface:stack.NetworkEndpoint.WritePacket($0.ref.ep, $0, $1, $2, $3, $4)"
		c.CheckSites(u5, fn, []SiteSpec{
			{Kind: "call", Target: "iface:stack.NetworkEndpoint.WritePacket", Args: []string{"$0.ref.ep", "$0", "$1", "$2", "$3", "$4"}, Guards: []string{}, Exact: true, N: 1, Why: "the route hands header, payload, protocol and TTL to the network endpoint unchanged"},
		})
		// every return (one, or an early one plus the ErrNoRoute tail) hands back the
		// network endpoint's own result
		nr := 0
		for _, st := range Sites(fn) {
			if st.Kind == "return" {
				nr++
				c.Check(len(st.Args) == 1 && termEq(st.Args[0], wp), u5, FuncName(fn)+"/returns-callee-result:"+strings.Join(st.Guards, "&&"), c.pos(st.Instr), "returns the network endpoint's result", "Route.WritePacket returns "+strings.Join(st.Args, ",")+" instead of the network endpoint's result: an error from the network or link layer can be turned into success")
			}
		}
		c.Check(nr >= 1, u5, FuncName(fn)+"/has-return", c.P.Pos(fn.Pos()), "returns", "no return")
	}
	if fn := c.Fn(u5, "(*udp.endpoint).Write"); fn != nil {
		payload := "iface:tcpip.Payload.Get($1, iface:tcpip.Payload.Size($1))"
		m := map[string]string{"ROUTE": "phi{&$0.route | &new(stack.Route)}"}
		c.CheckSites(u5, fn, []SiteSpec{
			{Kind: "call", Target: "udp.sendUDP", Args: sub(m, "{ROUTE}", "buffer.View.ToVectorisedView("+payload+"#0)", "$0.id.LocalPort", "phi{$0.dstPort | new(tcpip.FullAddress).Port@2}", "*"),
				Guards: []string{"(" + payload + "#1 == nil)", "(iface:tcpip.Payload.Size($1) < 65528)"}, N: 1,
				Why: "exactly one send: whole payload, endpoint's local port, connect/To destination port; only for sizes that fit the 16-bit length"},
			{Kind: "call", Target: "iface:tcpip.Payload.Get", Args: []string{"$1", "iface:tcpip.Payload.Size($1)"}, N: 1, Why: "the whole payload is fetched"},
		})
		// resolution before transmission (shared with C12/T6)
		for _, sc := range c.Calls(fn, Is("udp.sendUDP"), false) {
			c.Guarded(u5, "send-after-resolution", sc.(ssa.Instruction), AnyOf(
				AtomIs(false, Exactly("(*stack.Route).IsResolutionRequired("+m["ROUTE"]+")")),
				AtomIs(true, Exactly("((*stack.Route).Resolve("+m["ROUTE"]+", &new(sleep.Waker))#1 == nil)")),
			), "!IsResolutionRequired || Resolve()==nil")
			// every successful return (nil error) follows sendUDP == nil
		}
		// a nil-error return is reachable only through the edge sendUDP(...) == nil and reports the whole payload
		nOK := 0
		for _, s := range Sites(fn) {
			if s.Kind != "return" || len(s.Args) != 3 || s.Args[2] != "nil" {
				continue
			}
			nOK++
			sent := false
			for _, g := range s.Guards {
				if strings.HasPrefix(g, "(nil == udp.sendUDP(") {
					sent = true
				}
			}
			c.Check(sent && s.Args[0] == "builtin:len("+payload+"#0)", u5, FuncName(fn)+"/success-only-after-send:"+s.Args[0], c.pos(s.Instr), "success is reported only after sendUDP returned nil, with the payload's length", "Write reports success ("+strings.Join(s.Args, ", ")+") on a path that did not send the datagram (guards: "+strings.Join(s.Guards, " && ")+"): the datagram is silently not emitted")
		}
		c.Check(nOK == 1, u5, FuncName(fn)+"/one-success-return", c.P.Pos(fn.Pos()), "one success return", fmt.Sprintf("%d success returns", nOK))
		n := 0
		Instrs(fn, func(in ssa.Instruction) {
			st, ok := in.(*ssa.Store)
			if !ok {
				return
			}
			a, isAlloc := st.Addr.(*ssa.Alloc)
			if !isAlloc || !strings.Contains(a.Comment, "") {
				return
			}
			// result slot 0 (uintptr count): a non-zero count is stored only after a successful send
			if Term(st.Val) == "builtin:len("+payload+"#0)" {
				n++
				c.Guarded(u5, "count-after-send", st, AtomIs(true, func(s string) bool { return strings.HasPrefix(s, "(nil == udp.sendUDP(") }), "sendUDP(...) == nil")
			}
		})
		c.Check(n == 1, u5, FuncName(fn)+"/returns-len", c.P.Pos(fn.Pos()), "returned count is len(payload)", "Write no longer returns len(payload) exactly once")
	}
	if fn := c.Fn(u5, "udp.sendUDP"); fn != nil {
		length := "(buffer.Prependable.UsedLength(new(buffer.Prependable)@2) + buffer.VectorisedView.Size($1))"
		c.CheckSites(u5, fn, []SiteSpec{
			{Kind: "store", Target: "header.UDPFields.SrcPort", Args: []string{"new(header.UDPFields)", "$2"}, N: 1, Why: "source port = local port argument"},
			{Kind: "store", Target: "header.UDPFields.DstPort", Args: []string{"new(header.UDPFields)", "$3"}, N: 1, Why: "destination port = remote port argument"},
			{Kind: "store", Target: "header.UDPFields.Length", Args: []string{"new(header.UDPFields)", length}, N: 1, Why: "length = header bytes used + payload size"},
			{Kind: "call", Target: "(*stack.Route).WritePacket", Args: []string{"$0", "new(buffer.Prependable)@2", "$1", "17", "$4"}, N: 1, Why: "one network write with the prepared header and the unmodified payload"},
		})
		// UsedLength is evaluated after this function's own Prepend
		pre := c.Calls(fn, Is("(*buffer.Prependable).Prepend"), false)
		ul := c.Calls(fn, Is("buffer.Prependable.UsedLength"), false)
		if len(pre) == 1 && len(ul) >= 1 {
			c.Check(InstrDominates(pre[0].(ssa.Instruction), ul[0].(ssa.Instruction)), u5, FuncName(fn)+"/length-after-prepend", c.pos(ul[0]), "UDP length counts the 8 header bytes (UsedLength after Prepend)", "UDP length computed before the header was prepended")
		}
	}
	u11 := c.Rule("U11", "K7 site tables (closed)", "the receive queue is a correct doubly-linked list: PushBack, Remove, Front, links", 15)
	c.ListImpl(u11, "udp", "udpPacketList", "udpPacketEntry", "udpPacketElementMapper", "PushBack", "Remove")

	u12 := c.Rule("U12", "K9 site table (shared with C08/F4)", "the IPv4 layer hands up exactly the datagram's payload: header removed by its own length, payload capped to the total length on every path", 6)
	ipv4InboundRule(c, u12)

	u9 := c.Rule("U9", "typestate", "a queued datagram's list links are not read after its removal unless Remove preserves them", 2)
	c.LinkTypestate(u9, "udp.udpPacketList", "udp.udpPacketEntry")

	u8 := c.Rule("U8", "K5 (shared with C08/F4)", "fragments of different senders never share a reassembly queue: the IPv4 reassembly key covers id, protocol and every byte of both addresses", 5)
	fragmentKeyRule(c, u8)

	u7 := c.Rule("U7", "K3 confinement + K7 exact-guard site table", "closing the read side", 5)
	c.OnlyIn(u7, "store to endpoint.rcvClosed", c.FieldStores("udp.endpoint", "rcvClosed"), "(*udp.endpoint).Shutdown", "(*udp.endpoint).Close")
	if fn := c.Fn(u7, "(*udp.endpoint).Shutdown"); fn != nil {
		rd := "!(($1 & 1) == 0)"
		c.CheckSites(u7, fn, []SiteSpec{
			{Kind: "store", Target: "udp.endpoint.shutdownFlags", Args: []string{"$0", "($0.shutdownFlags | $1)"}, Guards: []string{}, Exact: true, N: 1, Why: "the requested directions are recorded on every successful call (no early exit may skip it)"},
			{Kind: "store", Target: "udp.endpoint.rcvClosed", Args: []string{"$0", "true"}, Guards: []string{rd}, Exact: true, N: 1, Why: "the read side is closed exactly when ShutdownRead is among the flags - regardless of what was shut down before"},
			{Kind: "call", Target: "(*waiter.Queue).Notify", Args: []string{"$0.waiterQueue", "1"}, Guards: []string{"!$0.rcvClosed", rd}, Exact: true, N: 1, Why: "readers are woken once, when the read side was open before"},
		})
	}
	if fn := c.Fn(u7, "(*udp.endpoint).Close"); fn != nil {
		c.CheckSitesPresent(u7, fn, []SiteSpec{
			{Kind: "store", Target: "udp.endpoint.rcvClosed", Args: []string{"$0", "true"}, N: 1, Why: "close closes the read side"},
			{Kind: "store", Target: "udp.endpoint.shutdownFlags", Args: []string{"$0", "3"}, Guards: []string{}, Exact: true, N: 1, Why: "both directions"},
		})
	}

	if h := absintHookC11; h != nil {
		h(c)
	}
}

var absintHookC11 func(*Ctx)

// ipv6InboundRule: what ipv6.HandlePacket hands to ICMPv6 and to the transport
// dispatcher: the packet after TrimFront(40) and an UNCONDITIONAL
// CapLength(payload length) - link-layer trailer bytes never reach a socket.
func ipv6InboundRule(c *Ctx, rule string) {
	fn := c.Fn(rule, "(*ipv6.endpoint).HandlePacket")
	if fn == nil {
		return
	}
	h := "buffer.VectorisedView.First($2)"
	valid := "header.IPv6.IsValid(" + h + ", buffer.VectorisedView.Size($2))"
	c.CheckSites(rule, fn, []SiteSpec{
		{Kind: "call", Target: "(*buffer.VectorisedView).TrimFront", Args: []string{"&new(buffer.VectorisedView)", "40"}, Guards: []string{valid}, Exact: true, N: 1, Why: "the fixed header is removed from every valid packet"},
		{Kind: "call", Target: "(*buffer.VectorisedView).CapLength", Args: []string{"&new(buffer.VectorisedView)", "header.IPv6.PayloadLength(" + h + ")"}, Guards: []string{valid}, Exact: true, N: 1, Why: "cut at the payload length, for EVERY valid packet (no size test decides it)"},
		{Kind: "call", Target: "(*ipv6.endpoint).handleICMP", Args: []string{"$0", "$1", "new(buffer.VectorisedView)@3"}, Guards: []string{"(58 == header.IPv6.TransportProtocol(" + h + "))", valid}, Exact: true, N: 1, Why: "ICMPv6 gets the trimmed and capped payload"},
		{Kind: "call", Target: "iface:stack.TransportDispatcher.DeliverTransportPacket", Args: []string{"$0.dispatcher", "$1", "header.IPv6.TransportProtocol(" + h + ")", "new(buffer.VectorisedView)@3"}, Guards: []string{"!(58 == header.IPv6.TransportProtocol(" + h + "))", valid}, Exact: true, N: 1, Why: "the transport gets the trimmed and capped payload under the packet's own next-header value"},
	})
	c.Ordered(rule, fn, []string{"trim header", "cap to payload length", "hand up"}, []func(Site) bool{isCall("(*buffer.VectorisedView).TrimFront"), isCall("(*buffer.VectorisedView).CapLength"), isCall("iface:stack.TransportDispatcher.DeliverTransportPacket")})
}
