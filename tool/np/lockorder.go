package np

import (
	"sort"
	"strings"

	"golang.org/x/tools/go/ssa"
)

// propC07LockOrder builds the acquired-while-holding graph over lock classes
// and reports cycles.
func propC07LockOrder(c *Ctx, in map[*ssa.Function]bool) {
	p6 := c.Rule("P6", "K10 lock order", "no cycle in the acquired-while-holding graph", 5)
	la := c.Locks()
	type edge struct{ from, to string }
	edges := map[edge]string{}
	for _, fn := range c.P.Funcs {
		if fn.Pkg != nil {
			skip := false
			for _, s := range notInboundPkgs {
				if strings.Contains(fn.Pkg.Pkg.Path()+"/", s) {
					skip = true
				}
			}
			if skip {
				continue
			}
		}
		t := NewTermer(fn)
		Instrs(fn, func(ins ssa.Instruction) {
			ci, ok := ins.(*ssa.Call)
			if !ok {
				return
			}
			op := lockOpOf(t, ci)
			if op == nil || (op.kind != "lock" && op.kind != "rlock") {
				return
			}
			for _, h := range la.At[ins] {
				if h.Class == op.class && h.Path == op.path {
					continue
				}
				e := edge{h.Class, op.class}
				if _, ok := edges[e]; !ok {
					edges[e] = FuncName(fn) + " at " + c.pos(ins)
				}
			}
		})
	}
	// cycles (incl. self loops = same class taken while holding another instance)
	adj := map[string][]string{}
	for e := range edges {
		adj[e.from] = append(adj[e.from], e.to)
	}
	var nodes []string
	for n := range adj {
		nodes = append(nodes, n)
		sort.Strings(adj[n])
	}
	sort.Strings(nodes)
	// reviewed same-class nestings (different objects, fixed direction)
	selfOK := map[string]string{
		"tcp.endpoint.mu": "listener endpoint lock held while locking an accepted/child endpoint: parent -> child only (cleanupLocked, deliverAccepted)",
	}
	state := map[string]int{}
	var stack []string
	reported := map[string]bool{}
	var dfs func(n string)
	dfs = func(n string) {
		state[n] = 1
		stack = append(stack, n)
		for _, m := range adj[n] {
			if m == n {
				if why, ok := selfOK[n]; ok {
					c.Assume(p6, "self:"+n, "", why+"; first site: "+edges[edge{n, n}])
				} else if !reported["self:"+n] {
					reported["self:"+n] = true
					c.Bad(p6, "self:"+n, "", "lock class taken while an instance of the same class is held: "+edges[edge{n, n}])
				}
				continue
			}
			if state[m] == 1 {
				// cycle
				i := len(stack) - 1
				for i >= 0 && stack[i] != m {
					i--
				}
				cyc := append(append([]string{}, stack[i:]...), m)
				key := "cycle:" + strings.Join(canonCycle(cyc), "->")
				if !reported[key] {
					reported[key] = true
					var sites []string
					for j := 0; j+1 < len(cyc); j++ {
						sites = append(sites, cyc[j]+"->"+cyc[j+1]+" in "+edges[edge{cyc[j], cyc[j+1]}])
					}
					c.Bad(p6, key, "", "lock-order cycle: "+strings.Join(sites, "; "))
				}
			} else if state[m] == 0 {
				dfs(m)
			}
		}
		stack = stack[:len(stack)-1]
		state[n] = 2
	}
	for _, n := range nodes {
		if state[n] == 0 {
			dfs(n)
		}
	}
	var es []string
	for e, site := range edges {
		es = append(es, e.from+" -> "+e.to+"  ("+site+")")
		if e.from != e.to {
			c.Ok(p6, "edge:"+e.from+"->"+e.to, "", "acquired while holding; first site "+site)
		}
	}
	sort.Strings(es)
	c.Extra["lock_order_edges"] = es
}

func canonCycle(cyc []string) []string {
	// rotate so that the smallest name comes first (cyc has first == last)
	body := cyc[:len(cyc)-1]
	mi := 0
	for i, s := range body {
		if s < body[mi] {
			mi = i
		}
	}
	out := append(append([]string{}, body[mi:]...), body[:mi]...)
	return append(out, out[0])
}
