package np

import (
	"encoding/json"
	"fmt"
	"os"
	"path/filepath"
	"sort"
	"strings"
)

// Mutant is one source edit used to test the checker both ways: a breaking
// edit must be reported, a benign one (behaviour unchanged) must not.
type Mutant struct {
	Prop   string `json:"prop"`
	ID     string `json:"id"`
	File   string `json:"file"`
	Old    string `json:"old"`
	New    string `json:"new"`
	Benign bool   `json:"benign,omitempty"`
	Expect string `json:"expect,omitempty"` // rule expected to fire (informational)
	Why    string `json:"why,omitempty"`
}

type MutResult struct {
	ID       string   `json:"id"`
	Benign   bool     `json:"benign,omitempty"`
	Applied  bool     `json:"applied"`
	Loads    bool     `json:"loads"`
	Reported bool     `json:"reported"`
	Rules    []string `json:"rules,omitempty"`
	Note     string   `json:"note,omitempty"`
}

func loadMutants() []Mutant {
	b, err := os.ReadFile(filepath.Join(verifRoot(), "tool", "tables", "mutants.json"))
	if err != nil {
		return nil
	}
	var ms []Mutant
	if err := json.Unmarshal(b, &ms); err != nil {
		fmt.Println("mutants.json:", err)
		return nil
	}
	return ms
}

// runMutants analyses the current tree with each edit applied as an
// in-memory overlay (nothing is written to /repo, nothing is executed).
func runMutants(prop, repo string, only string, run func(*Program, string) *Ctx) []MutResult {
	var out []MutResult
	for _, m := range loadMutants() {
		if m.Prop != prop || (only != "" && !strings.Contains(m.ID, only)) {
			continue
		}
		r := MutResult{ID: m.ID, Benign: m.Benign}
		path := filepath.Join(repo, m.File)
		src, err := os.ReadFile(path)
		if err != nil || strings.Count(string(src), m.Old) != 1 {
			r.Note = fmt.Sprintf("anchor text occurs %d times (the code changed; mutant skipped)", strings.Count(string(src), m.Old))
			out = append(out, r)
			continue
		}
		r.Applied = true
		p, err := Load(LoadConfig{Dir: repo, Overlay: map[string][]byte{path: []byte(strings.Replace(string(src), m.Old, m.New, 1))}})
		if err != nil {
			r.Note = "variant does not type-check: " + err.Error()
			out = append(out, r)
			continue
		}
		if len(p.LoadErrs) > 0 {
			r.Note = "variant does not type-check: " + p.LoadErrs[0]
			out = append(out, r)
			continue
		}
		r.Loads = true
		c := run(p, "overlay:"+m.ID)
		rules := map[string]bool{}
		for _, o := range c.Unlisted() {
			rules[o.Rule] = true
		}
		for k := range rules {
			r.Rules = append(r.Rules, k)
		}
		sort.Strings(r.Rules)
		r.Reported = len(r.Rules) > 0
		out = append(out, r)
	}
	return out
}
