package np

import (
	"strings"

	"golang.org/x/tools/go/ssa"
)

func init() { register("C04", propC04); register("C05", propC05) }

// Ordered checks that, in fn, no site matching later[i] can be followed by a
// site matching earlier ones: the listed effects happen in the given order
// on every path on which they happen.
func (c *Ctx) Ordered(rule string, fn *ssa.Function, names []string, match []func(Site) bool) {
	sites := Sites(fn)
	pick := func(m func(Site) bool) []Site {
		var out []Site
		for _, s := range sites {
			if m(s) {
				out = append(out, s)
			}
		}
		return out
	}
	for i := 0; i+1 < len(match); i++ {
		as, bs := pick(match[i]), pick(match[i+1])
		key := FuncName(fn) + "/order:" + names[i] + "<" + names[i+1]
		if len(as) == 0 || len(bs) == 0 {
			c.Bad(rule, key+"/missing", c.P.Pos(fn.Pos()), "one of the ordered effects is gone")
			continue
		}
		ok := true
		for _, b := range bs {
			for _, a := range as {
				if instrReaches(b.Instr, a.Instr) && !instrReaches(a.Instr, b.Instr) {
					ok = false
				}
				if instrReaches(b.Instr, a.Instr) && instrReaches(a.Instr, b.Instr) {
					// both directions: a loop; order inside one iteration is given by dominance
					if !InstrDominates(a.Instr, b.Instr) {
						ok = false
					}
				}
			}
		}
		c.Check(ok, rule, key, c.pos(bs[0].Instr), names[i]+" happens before "+names[i+1], names[i+1]+" can happen before "+names[i])
	}
}

func isCall(target string) func(Site) bool {
	return func(s Site) bool {
		return (s.Kind == "call" || s.Kind == "go" || s.Kind == "defer") && s.Target == target
	}
}
func isStore(target string) func(Site) bool {
	return func(s Site) bool { return s.Kind == "store" && s.Target == target }
}
func isStoreVal(target, val string) func(Site) bool {
	return func(s Site) bool {
		return s.Kind == "store" && s.Target == target && len(s.Args) == 2 && s.Args[1] == val
	}
}

func propC04(c *Ctx) {
	c.Explanation = "Decides structural necessary conditions of window/MSS discipline for all inputs: (N1) the window field written by sendTCP is a lossless conversion: the receive window is clamped to 0xffff before uint16() (interval analysis); (N2) the advertised right edge rcvAcc moves only forward: its only store outside the constructor is guarded by rcvAcc.LessThan(new) and stores exactly that new value, and the advertisement is (rcvAcc-rcvNxt) >> rcvWndScale; (N3) maxPayloadSize only shrinks, is at least 1, and is computed as MTU - TCP header - the largest option block the stack can send (timestamps and maximum SACK blocks) - so a full segment with options never exceeds the MTU; (N4) the peer's window is scaled before the sender sees it: in handleSegments `s.window <<= sndWndScale` precedes both handleRcvdSegment calls on the ACK branch, and the sender copies seg.window into sndWnd; (N5) sendData sends data only when the segment starts before sndUna+sndWnd, and splits exactly at min(room in the window, maxPayloadSize) (site table shared with C01); (N6) acceptable() computes RFC 793's acceptability table over sequence-space primitives; in-window data is delivered (C01/R3); zero-window detection compares (rcvBufSize-rcvBufUsed)>>scale with 0. (N8) the receive window scale in force is 0 exactly when the peer's SYN carried no window-scale option (recorded as -1) and the announced shift otherwise - a peer shift of 0 still enables scaling - and the established receiver takes exactly that value. (N7) zero-window handling: the immediate window update after the application reads is sent exactly when the SCALED window last advertised ((rcvAcc-rcvNxt) >> rcvWndScale, the expression getSendParams returns) was zero; Read notifies the worker exactly when the scaled free space was zero before the bytes left the buffer and is non-zero afterwards; the worker calls nonZeroWindow on that notification bit. (N6s) the window primitives acceptable and sendData are written in (InWindow, Overlap, Add, Size, LessThanEq) equal their definitions for all operands (evaluator shared with C14/S1). (N3m) the MTU chain (link MTU - network header, capped; header room), FindWndScale and the SYN-cookie MSS encoder (largest table entry not above the peer's MSS). (N9) the TCP window, sequence and acknowledgement fields are read from exactly the RFC 793 bits (shared with C15/B1). (N10) a smaller path MTU lowers the payload size, corrects the in-flight count, resumes at the first oversized segment and sends; (N11) the window update travels with the ACK sent at the end of every batch that advanced rcvNxt. (N12) the first send window is the peer's window, scaled only when it did not come in a SYN (shared with C03/H3). (N13) a path MTU reported by ICMP reaches updateMaxPayloadSize as the IP payload room: the next-hop MTU passes through the network layer's calculateMTU exactly once (handleICMP) and is handed on unchanged by handleControl, NIC, demuxer and endpoint; the endpoint keeps the smallest value and the worker hands exactly that value and the loss count to the sender. (N14) the peer's SYN options are what ParseSynOptions read from the segment's own option bytes and are handed on unchanged. NOT decided: the inequality 'bytes in flight <= offered window' over histories of ACKs (needs the sizes of heap-allocated views across calls); the arithmetic of the primitives is C14."
	an := NewAbsint(c.P)
	n9 := c.Rule("N9", "K9 bitprov (shared with C15/B1)", "the TCP window, sequence and acknowledgement fields are read from exactly the RFC 793 bits", 3)
	c.fieldAccessorLayouts(n9, &bitprov{p: c.P}, func(f fieldLayout) bool {
		return f.Typ == "TCP" && (f.Field == "Window" || f.Field == "SequenceNumber" || f.Field == "AckNumber")
	})
	n1 := c.Rule("N1", "K8 narrowing", "window field conversion is lossless", 1)
	if fn := c.Fn(n1, "tcp.sendTCP"); fn != nil {
		a := an.get(fn)
		n := 0
		Instrs(fn, func(in ssa.Instruction) {
			cv, ok := in.(*ssa.Convert)
			if !ok || TypeStr(cv.Type()) != "uint16" || TypeStr(cv.X.Type()) != "seqnum.Size" {
				return
			}
			n++
			it := a.eval(cv.X, cv.Block().Index)
			c.Check(it.Lo >= 0 && it.Hi <= 0xffff, n1, FuncName(fn)+"/uint16(rcvWnd)", c.pos(in), "rcvWnd in "+it.String()+" at the conversion", "receive window can be "+it.String()+" at uint16(): the advertised window wraps")
		})
		if n == 0 {
			c.Bad(n1, FuncName(fn)+"/no-window-conversion", c.P.Pos(fn.Pos()), "window conversion not found")
		}
	}
	n2 := c.Rule("N2", "K1/K5 site tables", "advertised right edge is monotone", 3)
	if fn := c.Fn(n2, "(*tcp.receiver).getSendParams"); fn != nil {
		nw := "seqnum.Value.Add($0.rcvNxt, (*tcp.endpoint).receiveBufferAvailable($0.ep))"
		c.CheckSites(n2, fn, []SiteSpec{
			{Kind: "store", Target: "tcp.receiver.rcvAcc", Args: []string{"$0", nw}, Guards: []string{"seqnum.Value.LessThan($0.rcvAcc, " + nw + ")"}, Exact: true, N: 1, Why: "rcvAcc moves only to a later sequence number (never left), to rcvNxt + free buffer"},
			{Kind: "return", Target: "", Args: []string{"$0.rcvNxt", "(seqnum.Value.Size($0.rcvNxt, $0.rcvAcc@u) >> $0.rcvWndScale)"}, Guards: []string{}, Exact: true, N: 1, Why: "advertised window = (rcvAcc - rcvNxt) scaled down by our window scale"},
		})
	}
	if fn := c.Fn(n2, "tcp.newReceiver"); fn != nil {
		c.CheckSitesPresent(n2, fn, []SiteSpec{
			{Kind: "store", Target: "tcp.receiver.rcvNxt", Args: []string{"new(tcp.receiver)", "($1 + 1)"}, Guards: []string{}, Exact: true, N: 1, Why: "the peer's SYN consumed irs: the first expected byte is irs+1"},
			{Kind: "store", Target: "tcp.receiver.rcvAcc", Args: []string{"new(tcp.receiver)", "seqnum.Value.Add($1, ($2 + 1))"}, Guards: []string{}, Exact: true, N: 1, Why: "the right edge promised in the handshake: irs + 1 + rcvWnd"},
			{Kind: "store", Target: "tcp.receiver.rcvWndScale", Args: []string{"new(tcp.receiver)", "$3"}, Guards: []string{}, Exact: true, N: 1, Why: "the negotiated shift (N8 decides which value arrives here)"},
		})
	}
	c.OnlyIn(n2, "store receiver.rcvAcc", c.FieldStores("tcp.receiver", "rcvAcc"), "(*tcp.receiver).getSendParams", "tcp.newReceiver")
	if fn := c.Fn(n2, "(*tcp.endpoint).receiveBufferAvailable"); fn != nil {
		c.CheckSites(n2, fn, []SiteSpec{
			{Kind: "return", Target: "", Args: []string{"0"}, Guards: []string{"!($0.rcvBufUsed < $0.rcvBufSize)"}, Exact: true, N: 1, Why: "no room when the buffer is full"},
			{Kind: "return", Target: "", Args: []string{"($0.rcvBufSize - $0.rcvBufUsed)"}, Guards: []string{"($0.rcvBufUsed < $0.rcvBufSize)"}, Exact: true, N: 1, Why: "room = size - used"},
		})
	}
	if fn := c.Fn(n2, "(*tcp.endpoint).zeroReceiveWindow"); fn != nil {
		c.CheckSites(n2, fn, []SiteSpec{
			{Kind: "return", Target: "", Args: []string{"true"}, Guards: []string{"!($0.rcvBufUsed < $0.rcvBufSize)"}, Exact: true, N: 1, Why: "full buffer = zero window"},
			{Kind: "return", Target: "", Args: []string{"((($0.rcvBufSize - $0.rcvBufUsed) >> $1) == 0)"}, Guards: []string{"($0.rcvBufUsed < $0.rcvBufSize)"}, Exact: true, N: 1, Why: "otherwise zero iff the free space scaled down is zero"},
		})
	}

	n3 := c.Rule("N3", "K1/K5 site tables", "maxPayloadSize only shrinks, >= 1, leaves room for the largest option block", 4)
	if fn := c.Fn(n3, "(*tcp.sender).updateMaxPayloadSize"); fn != nil {
		m := "(($1 - 20) - builtin:len((*tcp.endpoint).makeOptions($0.ep, [zero, zero, zero, zero])))"
		c.CheckSites(n3, fn, []SiteSpec{
			{Kind: "call", Target: "(*tcp.endpoint).makeOptions", Args: []string{"$0.ep", "[zero, zero, zero, zero]"}, Guards: []string{}, Exact: true, N: 1, Why: "option room is measured with the MAXIMUM number of SACK blocks (TCPMaxSACKBlocks = 4): data segments may carry them"},
			{Kind: "store", Target: "tcp.sender.maxPayloadSize", Args: []string{"$0", "phi{" + m + " | 1}"}, Guards: []string{"(" + m + " < $0.maxPayloadSize)"}, Exact: true, N: 1, Why: "payload limit = MTU - 20 - option room, never below 1, stored only when smaller than the current limit"},
		})
		if k := pkgConst(c.P, "protocol/header", "TCPMaxSACKBlocks"); k != nil {
			c.Check(k.ExactString() == "4", n3, "header.TCPMaxSACKBlocks", c.P.Pos(fn.Pos()), "TCPMaxSACKBlocks = 4", "TCPMaxSACKBlocks changed to "+k.ExactString())
		}
	}
	c.OnlyIn(n3, "store sender.maxPayloadSize", c.FieldStores("tcp.sender", "maxPayloadSize"), "(*tcp.sender).updateMaxPayloadSize", "tcp.newSender")

	n4 := c.Rule("N4", "K2 precedence + K5", "peer window scaled before use", 4)
	if fn := c.Fn(n4, "(*tcp.endpoint).handleSegments"); fn != nil {
		s := "(*tcp.segmentQueue).dequeue(&$0.segmentQueue)"
		g := []string{"!(" + s + " == nil)", "!(*tcp.segment).flagIsSet(" + s + ", 4)", "(*tcp.segment).flagIsSet(" + s + ", 16)", "(phi{(1 + loop) | 0} < 100)"}
		c.CheckSites(n4, fn, []SiteSpec{
			{Kind: "store", Target: "tcp.segment.window", Args: []string{s, "(" + s + ".window@u << $0.snd.sndWndScale)"}, Guards: g, Exact: true, N: 1, Why: "every non-RST ACK segment's window field is scaled by the peer's scale factor"},
			{Kind: "call", Target: "(*tcp.sender).handleRcvdSegment", Args: []string{"$0.snd", s}, Guards: g, Exact: true, N: 1, Why: "the sender sees the segment on the same branch"},
			{Kind: "call", Target: "(*tcp.receiver).handleRcvdSegment", Args: []string{"$0.rcv", s}, Guards: g, Exact: true, N: 1, Why: "and so does the receiver"},
		})
		c.Ordered(n4, fn, []string{"window scaling", "sender.handleRcvdSegment"}, []func(Site) bool{isStore("tcp.segment.window"), isCall("(*tcp.sender).handleRcvdSegment")})
	}
	if fn := c.Fn(n4, "(*tcp.sender).handleRcvdSegment"); fn != nil {
		c.CheckSitesPresent(n4, fn, []SiteSpec{
			{Kind: "store", Target: "tcp.sender.sndWnd", Args: []string{"$0", "$1.window"}, Guards: []string{}, Exact: true, N: 1, Why: "the send window is the (already scaled) window of the segment, taken unconditionally"},
		})
	}
	c.OnlyIn(n4, "store sender.sndWnd", c.FieldStores("tcp.sender", "sndWnd"), "(*tcp.sender).handleRcvdSegment", "tcp.newSender")

	n5 := c.Rule("N5", "K1 site table", "send loop bounded by sndUna+sndWnd and maxPayloadSize", 5)
	if fn := c.Fn(n5, "(*tcp.sender).sendData"); fn != nil {
		c.CheckSitesPresent(n5, fn, pick(sendDataTable(), "C04"))
		// limit is maxPayloadSize read at entry
		found := false
		for _, s := range Sites(fn) {
			for _, a := range s.Args {
				if strings.Contains(a, "phi{$0.maxPayloadSize | seqnum.Value.Size(") {
					found = true
				}
			}
		}
		c.Check(found, n5, FuncName(fn)+"/available-is-min", c.P.Pos(fn.Pos()), "available = min(window room, maxPayloadSize)", "the per-segment limit is no longer min(Size(seq, sndUna+sndWnd), maxPayloadSize)")
	}

	n6 := c.Rule("N6", "K9 path table", "acceptability test (RFC 793 p.26)", 3)
	acceptableRule(c, n6)

	// N6s: the sequence-space primitives the acceptability table and the send
	// window test are written in (shared evaluator with C14/S1). LessThan is
	// the reference the composed ones are decided against; its own absolute
	// definition is C14's subject.
	pathMTUReportRule(c, c.Rule("N13", "K5 value-flow site tables", "a path MTU reported by ICMP reaches the sender as the IP payload room: through the network layer's calculateMTU exactly once, then unchanged through handleControl, NIC, demuxer and endpoint", 12))
	n14 := c.Rule("N14", "K7 closed site table", "the peer's SYN options (MSS, window scale, timestamps, SACK-permitted) are what ParseSynOptions read from the segment's own option bytes; the ACK flag decides whether a timestamp echo is expected", 4)
	if fn := c.Fn(n14, "tcp.parseSynSegmentOptions"); fn != nil {
		ps := "header.ParseSynOptions($0.options, (*tcp.segment).flagIsSet($0, 16))"
		c.CheckSites(n14, fn, []SiteSpec{
			{Kind: "call", Target: "header.ParseSynOptions", Args: []string{"$0.options", "(*tcp.segment).flagIsSet($0, 16)"}, Guards: []string{}, Exact: true, N: 1, Why: "parsed from this segment's option bytes; isAck = the segment's ACK flag"},
			{Kind: "store", Target: "header.TCPOptions.TSVal", Args: []string{"$0.parsedOptions", ps + ".TSVal"}, Guards: []string{ps + ".TS"}, Exact: true, N: 1, Why: "timestamp value recorded only when the option was present"},
			{Kind: "store", Target: "header.TCPOptions.TSEcr", Args: []string{"$0.parsedOptions", ps + ".TSEcr"}, Guards: []string{ps + ".TS"}, Exact: true, N: 1, Why: "likewise the echo"},
			{Kind: "return", Args: []string{ps}, Guards: []string{}, Exact: true, N: 1, Why: "the parsed options are returned unchanged (MSS and window scale reach the handshake as parsed)"},
		})
	}
	// N3m: what "MTU" means on the way to maxPayloadSize
	n3m := c.Rule("N3m", "K9 site tables (closed)", "the MTU chain: link MTU - network header, capped at 65535; header room = link + network header", 9)
	c.Returns(n3m, "ipv4.calculateMTU", RetSpec{Args: []string{"(phi{$0 | 65535} - 20)"}, Why: "IPv4 payload room = min(link MTU, 65535) - 20"})
	c.Returns(n3m, "ipv6.calculateMTU",
		RetSpec{Args: []string{"($0 - 40)"}, Guards: []string{"(($0 - 40) < 65536)"}, Why: "IPv6 payload room = link MTU - 40"},
		RetSpec{Args: []string{"65535"}, Guards: []string{"!(($0 - 40) < 65536)"}, Why: "... capped at 65535"})
	c.Returns(n3m, "(*ipv4.endpoint).MTU", RetSpec{Args: []string{"ipv4.calculateMTU(iface:stack.LinkEndpoint.MTU($0.linkEP))"}, Why: "from the link's MTU"})
	c.Returns(n3m, "(*ipv6.endpoint).MTU", RetSpec{Args: []string{"ipv6.calculateMTU(iface:stack.LinkEndpoint.MTU($0.linkEP))"}, Why: "from the link's MTU"})
	c.Returns(n3m, "(*ipv4.endpoint).MaxHeaderLength", RetSpec{Args: []string{"(20 + iface:stack.LinkEndpoint.MaxHeaderLength($0.linkEP))"}, Why: "room for link + IPv4 header"})
	c.Returns(n3m, "(*ipv6.endpoint).MaxHeaderLength", RetSpec{Args: []string{"(40 + iface:stack.LinkEndpoint.MaxHeaderLength($0.linkEP))"}, Why: "room for link + IPv6 header"})
	c.Returns(n3m, "(*stack.Route).MTU", RetSpec{Args: []string{"iface:stack.NetworkEndpoint.MTU($0.ref.ep)"}, Why: "the route's MTU is its network endpoint's"})
	c.Returns(n3m, "(*stack.Route).MaxHeaderLength", RetSpec{Args: []string{"iface:stack.NetworkEndpoint.MaxHeaderLength($0.ref.ep)"}, Why: "likewise the header room"})
	if fn := c.Fn(n3m, "tcp.FindWndScale"); fn != nil {
		// shape-tolerant (early return <-> if-block around the loop): every result
		// is 0 or the loop's shift count, and the 64 KiB test is among the conditions
		okRes, sawZero := true, false
		for _, st := range Sites(fn) {
			if st.Kind == "return" && len(st.Args) == 1 {
				a := st.Args[0]
				if a == "0" || strings.Contains(a, "| 0}") || strings.Contains(a, "{0 |") {
					sawZero = true
				}
				if !(a == "0" || strings.Contains(a, "loop")) {
					okRes = false
				}
			}
		}
		has64k := false
		for _, e := range CondEdges(fn) {
			if e.Atom == "($0 < 65536)" {
				has64k = true
			}
		}
		c.Check(okRes && sawZero && has64k, n3m, FuncName(fn)+"/zero-below-64k", c.P.Pos(fn.Pos()), "0 for windows below 64 KiB, else the halving loop's count", "FindWndScale no longer returns 0 below 64 KiB / the loop's shift count above")
	}
	if fn := c.Fn(n3m, "tcp.sendSynTCP"); fn != nil {
		c.CheckSitesPresent(n3m, fn, []SiteSpec{
			{Kind: "call", Target: "(*stack.Route).MTU", Args: []string{"$0"}, Guards: []string{"(0 == phi{$6.MSS | ((*stack.Route).MTU($0) - 20)})"}, N: 0, Why: "an unset MSS option is filled from the route: MTU - TCP header"},
			{Kind: "call", Target: "tcp.sendTCP", Args: []string{"$0", "$1", "zero", "(*stack.Route).DefaultTTL($0)", "$2", "$3", "$4", "$5", "tcp.makeSynOptions(phi{$6 | partial})"}, Guards: []string{}, Exact: true, N: 1, Why: "a SYN carries no payload, the flags/seq/ack/window handed in and the encoded SYN options"},
		})
	}

	if fn := c.Fn(n3m, "tcp.encodeMSS"); fn != nil {
		i := "phi{(builtin:len(tcp.mssTable) - 1) | (loop - 1)}"
		c.CheckSites(n3m, fn, []SiteSpec{
			{Kind: "return", Args: []string{"0"}, Guards: []string{"(" + i + " < 1)"}, Exact: true, N: 1, Why: "smaller than every table entry but the first: index 0"},
			{Kind: "return", Args: []string{i}, Guards: []string{"!($0 < tcp.mssTable[" + i + "])", "!(" + i + " < 1)"}, Exact: true, N: 1, Why: "SYN cookies carry the LARGEST table entry that does not exceed the peer's MSS (scan from the top, first entry with mss >= entry): the MSS used later is never above what the peer announced"},
		})
	}

	n6s := c.Rule("N6s", "K9/affine32 (shared with C14/S1)", "window primitives used by acceptable/sendData == their definitions for all operands", 4)
	seqnumPrimitives(c, n6s, map[string]bool{"seqnum.Value.InWindow": true, "seqnum.Overlap": true, "seqnum.Value.Add": true, "seqnum.Value.Size": true, "seqnum.Value.LessThanEq": true})

	n7 := c.Rule("N7", "K9 sibling agreement + K7 exact-guard site tables", "zero window detected on the advertised (scaled) value; reopening announced", 9)
	if fn := c.Fn(n7, "(*tcp.receiver).getSendParams"); fn != nil {
		c.CheckSitesPresent(n7, fn, []SiteSpec{{Kind: "return", Args: []string{"$0.rcvNxt", "(seqnum.Value.Size($0.rcvNxt, $0.rcvAcc@u) >> $0.rcvWndScale)"}, Guards: []string{}, Exact: true, N: 1, Why: "what is advertised is (rcvAcc - rcvNxt) >> rcvWndScale"}})
	}
	if fn := c.Fn(n7, "(*tcp.receiver).nonZeroWindow"); fn != nil {
		zero := "((($0.rcvAcc - $0.rcvNxt) >> $0.rcvWndScale) == 0)"
		c.CheckSites(n7, fn, []SiteSpec{
			{Kind: "call", Target: "(*tcp.sender).sendAck", Args: []string{"$0.ep.snd"}, Guards: []string{zero}, Exact: true, N: 1, Why: "a window update is sent at once exactly when the window the peer was last told - the SCALED value, the same expression getSendParams advertises - was zero"},
		})
	}
	if fn := c.Fn(n7, "(*tcp.endpoint).zeroReceiveWindow"); fn != nil {
		c.CheckSites(n7, fn, []SiteSpec{
			{Kind: "return", Args: []string{"true"}, Guards: []string{"!($0.rcvBufUsed < $0.rcvBufSize)"}, Exact: true, N: 1, Why: "buffer full: zero"},
			{Kind: "return", Args: []string{"((($0.rcvBufSize - $0.rcvBufUsed) >> $1) == 0)"}, Guards: []string{"($0.rcvBufUsed < $0.rcvBufSize)"}, Exact: true, N: 1, Why: "otherwise zero iff the free space scales down to 0 (same scale as the advertisement)"},
		})
	}
	zrw := "(*tcp.endpoint).zeroReceiveWindow($0, $0.rcv.rcvWndScale)"
	if fn := c.Fn(n7, "(*tcp.endpoint).readLocked"); fn != nil {
		c.CheckSitesPresent(n7, fn, []SiteSpec{
			{Kind: "call", Target: "(*tcp.endpoint).zeroReceiveWindow", Args: []string{"$0", "$0.rcv.rcvWndScale"}, N: 2, Why: "evaluated before and after the bytes leave the buffer, with the receiver's own scale"},
			{Kind: "call", Target: "(*tcp.endpoint).notifyProtocolGoroutine", Args: []string{"$0", "1"}, Guards: []string{"!($0.rcvBufUsed == 0)", "!" + zrw, zrw}, Exact: true, N: 1, Why: "the worker is told exactly when the window was zero before the read and is non-zero after it"},
		})
		c.Ordered(n7, fn, []string{"zero before?", "consume", "zero after?"}, []func(Site) bool{func(s Site) bool {
			if !isCall("(*tcp.endpoint).zeroReceiveWindow")(s) {
				return false
			}
			for _, g := range s.Guards {
				if g == zrw {
					return false // the re-evaluation after the read
				}
			}
			return true
		}, isStore("tcp.endpoint.rcvBufUsed"), isCall("(*tcp.endpoint).notifyProtocolGoroutine")})
	}
	c.CheckCallers(n7, []string{"(*tcp.receiver).nonZeroWindow"}, []CallerSpec{{Fn: "(*tcp.endpoint).protocolMainLoop$4", Target: "(*tcp.receiver).nonZeroWindow", Args: []string{"^$0.rcv"}, Why: "the worker reacts to the non-zero-window notification"}})
	if fn := c.P.Func("(*tcp.endpoint).protocolMainLoop$4"); fn != nil {
		c.CheckSitesPresent(n7, fn, []SiteSpec{{Kind: "call", Target: "(*tcp.receiver).nonZeroWindow", Args: []string{"^$0.rcv"}, Guards: []string{"!(((*tcp.endpoint).fetchNotifications(^$0) & 1) == 0)"}, Exact: true, N: 1, Why: "on the notifyNonZeroReceiveWindow bit"}})
	}
	if k := pkgConst(c.P, "protocol/transport/tcp", "notifyNonZeroReceiveWindow"); k != nil {
		c.Check(k.ExactString() == "1", n7, "const:tcp.notifyNonZeroReceiveWindow", "", "bit 1, the bit tested in the main loop", "notifyNonZeroReceiveWindow = "+k.ExactString()+" but the main loop tests bit 1")
	}

	mtuShrinkRule(c, c.Rule("N10", "K7 exact-guard site table", "a smaller path MTU lowers the payload size, corrects the in-flight count, resumes at the first oversized segment and sends", 4))
	ackGenerationRule(c, c.Rule("N11", "K7 exact-guard site table (shared with C02/W12)", "the window update travels with the ACK sent at the end of every batch that advanced rcvNxt", 2))
	handshakeWindowRule(c, c.Rule("N12", "K7 exact-guard site table (shared with C03/H3)", "the first send window is the peer's window, scaled only when it did not come in a SYN", 2))
	n8 := c.Rule("N8", "K7 exact-guard site tables + K3 closed call sites", "window-scale negotiation: own scale used only if the peer offered one (any value, including 0)", 8)
	if fn := c.Fn(n8, "(*tcp.handshake).effectiveRcvWndScale"); fn != nil {
		c.CheckSites(n8, fn, []SiteSpec{
			{Kind: "return", Args: []string{"0"}, Guards: []string{"($0.sndWndScale < 0)"}, Exact: true, N: 1, Why: "no window-scale option from the peer (recorded as -1): our window is advertised unscaled (RFC 7323 2.2: both sides must send the option)"},
			{Kind: "return", Args: []string{"$0.rcvWndScale"}, Guards: []string{"!($0.sndWndScale < 0)"}, Exact: true, N: 1, Why: "the peer sent the option - with ANY shift, 0 included - so the shift announced in our SYN applies to every window we advertise"},
		})
	}
	c.CheckCallers(n8, []string{"(*tcp.handshake).effectiveRcvWndScale", "tcp.newReceiver"}, []CallerSpec{
		{Fn: "(*tcp.endpoint).protocolMainLoop", Target: "(*tcp.handshake).effectiveRcvWndScale", Args: []string{"&new(tcp.handshake)"}, Why: "the established receiver takes its scale from the handshake"},
		{Fn: "(*tcp.endpoint).protocolMainLoop", Target: "tcp.newReceiver", Args: []string{"$0", "(new(tcp.handshake).ackNum@u - 1)", "new(tcp.handshake).rcvWnd@u", "(*tcp.handshake).effectiveRcvWndScale(&new(tcp.handshake))"}, Why: "receiver scale = the effective scale, nothing else"},
		{Fn: "(*tcp.handshake).synSentState", Target: "(*tcp.handshake).effectiveRcvWndScale", Args: []string{"$0"}, Why: "the ACK completing an active open already carries the scaled window"},
		{Fn: "(*tcp.listenContext).createEndpointAndPerformHandshake", Target: "(*tcp.handshake).effectiveRcvWndScale", Args: []string{"&new(tcp.handshake)"}, Why: "accepted connections: receiver scale set after the handshake"},
		{Fn: "(*tcp.listenContext).createConnectedEndpoint", Target: "tcp.newReceiver", Args: []string{"tcp.newEndpoint($0.stack, phi{$0.netProto | $1.route.NetProto}, nil)", "$3", "$0.rcvWnd", "0"}, Why: "provisional receiver with scale 0 until the handshake finished (overwritten by the effective scale)"},
	})
	for _, v := range []struct{ fn, val string }{{"(*tcp.handshake).resetToSynRcvd", "$3.WS"}, {"(*tcp.handshake).synSentState", "new(header.TCPSynOptions).WS@3"}} {
		if fn := c.Fn(n8, v.fn); fn != nil {
			c.CheckSitesPresent(n8, fn, []SiteSpec{{Kind: "store", Target: "tcp.handshake.sndWndScale", Args: []string{"$0", v.val}, N: 1, Why: "the peer's scale is exactly the WS value parsed from its SYN (-1 when the option is absent)"}})
		}
	}
	c.OnlyIn(n8, "store to handshake.sndWndScale", c.FieldStores("tcp.handshake", "sndWndScale"), "(*tcp.handshake).resetToSynRcvd", "(*tcp.handshake).synSentState")

}

func propC05(c *Ctx) {
	c.Explanation = "The timing clauses (200 ms, doubling in time, one segment per timeout while the peer is silent, bounds on segments in flight as a function of the ACK history) are about wall-clock behaviour / numeric histories and are timer.enable reprograms the runtime timer whenever the new target is earlier than the programmed one (L6, earlier-target-rearms). (L8) the RTT estimator behind the timeout follows RFC 6298 (and RFC 7323 appendix G with timestamps), retransmitted ranges are never sampled (Karn), the recovery point after a timeout is sndNxt-1 and an idle connection restarts from the initial window; (L9) Reno is the controller unless cubic is asked for by name. (L10) every queued segment, bare ACKs included, counts towards the inbound queue being non-empty, so duplicate ACKs left behind a batch re-arm the worker. L4 also tables Reno's HandleRTOExpired: ssthresh is reduced and the window set to one segment unconditionally. NOT decided. Decided (for all inputs): (L1) the constants InitialCwnd = 10, nDupAckThreshold = 3, minRTO = 200ms; (L2) the RTO store discipline: updateRTO's computed value is followed by the clamp to minRTO, a timer expiry stores exactly 2*rto (below the 60 s cap), and the retransmission timer is armed with rto; (L3) the data send loop runs only while outstanding < sndCwnd and counts every data segment sent; (L4) on a retransmission timeout fast recovery is left BEFORE the congestion controller collapses the window, every controller's HandleRTOExpired stores cwnd = 1, outstanding is reset and sending restarts from the head of the write list, in that order; (L5) duplicate-ACK counting: the complete reviewed site table of checkDuplicateAck (a duplicate is an ACK of sndUna with nothing new, same window, no data, while data is outstanding; the third one enters fast recovery after halving ssthresh; partial/complete ACKs during recovery), a true result leads to resendSegment, which retransmits the head of the write list; the NewReno recover point fr.last starts at iss in newSender (RFC 6582 3.2 step 1), is sndNxt-1 on entering/leaving recovery and on a timeout, and is stored nowhere else; (L6) the lazily disabled retransmission timer is a three-state machine (disabled/enabled/orphaned) whose state word is written only by its own four methods with exactly the reviewed transitions: a wake-up while orphaned is consumed into disabled, enable always re-arms the runtime timer when the state is disabled (or the pending wake-up would come too late) and ends enabled, disable orphans an armed timer, expiry is reported only at or after the target, and the runtime timer's callback asserts the waker given to init. (L7) the Reno controller: slow start +acked capped at ssthresh, congestion avoidance +1 per full window, ssthresh = max(flight/2,2), Reno is the default, Update gets (flight before - flight after) outside fast recovery only, sndCwnd is stored only by the reviewed functions; newSender starts with cwnd 10, ssthresh unbounded, RTO 1 s."
	l1 := c.Rule("L1", "K12 constants", "RFC 5681 / 6298 constants", 3)
	for _, k := range []struct{ name, want, what string }{{"InitialCwnd", "10", "initial window of 10 segments"}, {"nDupAckThreshold", "3", "three duplicate ACKs"}, {"minRTO", "200000000", "200 ms RTO floor"}} {
		v := pkgConst(c.P, "protocol/transport/tcp", k.name)
		if v == nil {
			c.Broken(l1, "anchor-unresolved:tcp."+k.name, "constant not found")
			continue
		}
		c.Check(v.ExactString() == k.want, l1, "tcp."+k.name, "", k.what, "tcp."+k.name+" = "+v.ExactString()+", property says "+k.want)
	}
	if fn := c.Fn(l1, "tcp.newSender"); fn != nil {
		c.CheckSitesPresent(l1, fn, []SiteSpec{
			{Kind: "store", Target: "tcp.sender.sndCwnd", Args: []string{"new(tcp.sender)", "10"}, Guards: []string{}, Exact: true, N: 1, Why: "a connection starts with cwnd = InitialCwnd"},
			{Kind: "store", Target: "tcp.sender.sndSsthresh", Args: []string{"new(tcp.sender)", "9223372036854775807"}, Guards: []string{}, Exact: true, N: 1, Why: "... in slow start (ssthresh unbounded)"},
			{Kind: "store", Target: "tcp.sender.rto", Args: []string{"new(tcp.sender)", "1000000000"}, Guards: []string{}, Exact: true, N: 1, Why: "RFC 6298 2.1: initial RTO 1 s"},
		})
	}
	l2 := c.Rule("L2", "K3/K5 site tables", "RTO stores: floor, doubling, arming", 5)
	if fn := c.Fn(l2, "(*tcp.sender).updateRTO"); fn != nil {
		c.CheckSites(l2, fn, []SiteSpec{
			{Kind: "store", Target: "tcp.sender.rto", Args: []string{"$0", "($0.rtt.srtt@u + ($0.rtt.rttvar@u * 4))"}, Guards: []string{}, Exact: true, N: 1, Why: "RTO = SRTT + 4*RTTVAR (RFC 6298)"},
			{Kind: "store", Target: "tcp.sender.rto", Args: []string{"$0", "200000000"}, Guards: []string{"($0.rto@1 < 200000000)"}, Exact: true, N: 1, Why: "... clamped to at least minRTO"},
		})
		c.Ordered(l2, fn, []string{"rto computed", "rto clamped"}, []func(Site) bool{isStoreVal("tcp.sender.rto", "($0.rtt.srtt@u + ($0.rtt.rttvar@u * 4))"), isStoreVal("tcp.sender.rto", "200000000")})
	}
	c.OnlyIn(l2, "store sender.rto", c.FieldStores("tcp.sender", "rto"), "(*tcp.sender).updateRTO", "(*tcp.sender).retransmitTimerExpired", "tcp.newSender")
	l4 := c.Rule("L4", "K2 order + K9 siblings", "RTO: leave recovery, collapse cwnd to 1, restart from the head", 6)
	rtoExpiryRule(c, l2, l4)
	l3 := c.Rule("L3", "K1 site table", "send gate outstanding < cwnd", 3)
	if fn := c.Fn(l3, "(*tcp.sender).sendData"); fn != nil {
		c.CheckSitesPresent(l3, fn, pick(sendDataTable(), "C05"))
	}
	l5 := c.Rule("L5", "K9 site table (closed)", "duplicate ACK counting and fast retransmit", 12)
	if fn := c.Fn(l5, "(*tcp.sender).checkDuplicateAck"); fn != nil {
		inr := "seqnum.Value.InRange($1.ackNumber, $0.sndUna, ($0.sndNxt + 1))"
		dup := []string{"!$0.fr.active", "!($0.sndNxt == $1.ackNumber)", "($0.sndUna == $1.ackNumber)", "($0.sndWnd == $1.window)", "((*tcp.segment).logicalLen($1) == 0)"}
		third := append(append([]string{}, dup...), "!($0.dupAckCount@1 < 3)", "seqnum.Value.LessThan($0.fr.last, $1.ackNumber)")
		rec := []string{"$0.fr.active", inr, "!seqnum.Value.LessThan($0.fr.last, $1.ackNumber)", "($0.sndWnd == $1.window)", "((*tcp.segment).logicalLen($1) == 0)"}
		c.CheckSites(l5, fn, []SiteSpec{
			{Kind: "store", Target: "tcp.sender.dupAckCount", Args: []string{"$0", "($0.dupAckCount + 1)"}, Guards: dup, Exact: true, N: 1, Why: "a duplicate ACK: acknowledges sndUna again while data is outstanding, carries no data and no window change"},
			{Kind: "call", Target: "iface:tcp.congestionControl.HandleNDupAcks", Args: []string{"$0.cc"}, Guards: third, Exact: true, N: 1, Why: "on the third duplicate (and not for data already retransmitted in an earlier recovery) ssthresh is reduced"},
			{Kind: "call", Target: "(*tcp.sender).enterFastRecovery", Args: []string{"$0"}, Guards: third, Exact: true, N: 1, Why: "... and fast recovery is entered"},
			{Kind: "store", Target: "tcp.sender.dupAckCount", Args: []string{"$0", "0"}, N: 4, Why: "the counter restarts when it is consumed or when the ACK is not a duplicate"},
			{Kind: "store", Target: "tcp.fastRecovery.first", Args: []string{"$0.fr", "$1.ackNumber"}, Guards: append(append([]string{}, rec...), "!($0.fr.first == $1.ackNumber)"), Exact: true, N: 1, Why: "a partial ACK during recovery moves the recovery point to the NEW acknowledgement number (sndUna is still the old one here: handleRcvdSegment advances it later), so further duplicates of this ACK are counted as duplicates, not as partial ACKs"},
			{Kind: "call", Target: "(*tcp.sender).leaveFastRecovery", Args: []string{"$0"}, Guards: []string{"$0.fr.active", inr, "seqnum.Value.LessThan($0.fr.last, $1.ackNumber)"}, Exact: true, N: 1, Why: "recovery ends when everything outstanding at its start is acknowledged"},
			{Kind: "store", Target: "tcp.sender.sndCwnd", Args: []string{"$0", "($0.sndCwnd + 1)"}, Guards: append(append([]string{}, rec...), "($0.fr.first == $1.ackNumber)", "($0.sndCwnd < $0.fr.maxCwnd)"), Exact: true, N: 1, Why: "window inflation by one segment per further duplicate ACK, bounded by maxCwnd"},
		})
		// true results: third dup ack, or a partial ACK during recovery
		nTrue := 0
		for _, s := range Sites(fn) {
			if s.Kind == "return" && s.Args[0] == "true" {
				nTrue++
				g := strings.Join(s.Guards, " && ")
				gc := joinSorted(canonAll(s.Guards))
				ok := gc == joinSorted(canonAll(third)) || gc == joinSorted(canonAll(append(append([]string{}, rec...), "!($0.fr.first == $1.ackNumber)")))
				c.Check(ok, l5, FuncName(fn)+"/retransmit-decision:"+itoa(nTrue), c.pos(s.Instr), "retransmit on the third duplicate ACK or on a partial ACK in recovery", "checkDuplicateAck asks for a retransmission under other conditions: ["+g+"]")
			}
		}
		c.Check(nTrue == 2, l5, FuncName(fn)+"/two-retransmit-decisions", c.P.Pos(fn.Pos()), "two ways to ask for a fast retransmit", "number of retransmit decisions changed")
	}
	if fn := c.Fn(l5, "(*tcp.sender).handleRcvdSegment"); fn != nil {
		c.CheckSitesPresent(l5, fn, []SiteSpec{
			{Kind: "call", Target: "(*tcp.sender).resendSegment", Args: []string{"$0"}, Guards: []string{"(*tcp.sender).checkDuplicateAck($0, $1)"}, Exact: true, N: 1, Why: "a true result triggers the fast retransmit at once"},
			{Kind: "call", Target: "(*tcp.sender).checkDuplicateAck", Args: []string{"$0", "$1"}, Guards: []string{}, Exact: true, N: 1, Why: "every ACK-bearing segment is examined"},
		})
	}
	if fn := c.Fn(l5, "(*tcp.sender).resendSegment"); fn != nil {
		front := "(*tcp.segmentList).Front(&$0.writeList)"
		c.CheckSitesPresent(l5, fn, []SiteSpec{
			{Kind: "call", Target: "(*tcp.sender).sendSegment", Args: []string{"$0", front + ".data", front + ".flags", front + ".sequenceNumber"}, Guards: []string{"!(" + front + " == nil)"}, N: 1, Why: "the earliest unacknowledged segment (head of the write list) is retransmitted"},
		})
	}
	if fn := c.Fn(l5, "(*tcp.sender).enterFastRecovery"); fn != nil {
		c.CheckSitesPresent(l5, fn, []SiteSpec{
			{Kind: "store", Target: "tcp.sender.sndCwnd", Args: []string{"$0", "($0.sndSsthresh + 3)"}, Guards: []string{}, Exact: true, N: 1, Why: "cwnd = ssthresh + 3 (RFC 5681 3.2 step 3)"},
			{Kind: "store", Target: "tcp.fastRecovery.active", Args: []string{"$0.fr", "true"}, Guards: []string{}, Exact: true, N: 1, Why: "recovery starts"},
			{Kind: "store", Target: "tcp.fastRecovery.first", Args: []string{"$0.fr", "$0.sndUna"}, Guards: []string{}, Exact: true, N: 1, Why: "recovery point = first unacknowledged byte"},
			{Kind: "store", Target: "tcp.fastRecovery.last", Args: []string{"$0.fr", "($0.sndNxt - 1)"}, Guards: []string{}, Exact: true, N: 1, Why: "recovery ends when everything sent so far is acknowledged"},
			{Kind: "store", Target: "tcp.fastRecovery.maxCwnd", Args: []string{"$0.fr", "($0.outstanding + $0.sndCwnd@1)"}, Guards: []string{}, Exact: true, N: 1, Why: "inflation bound"},
		})
	}
	if fn := c.Fn(l5, "(*tcp.sender).leaveFastRecovery"); fn != nil {
		c.CheckSitesPresent(l5, fn, []SiteSpec{
			{Kind: "store", Target: "tcp.sender.sndCwnd", Args: []string{"$0", "$0.sndSsthresh"}, Guards: []string{}, Exact: true, N: 1, Why: "deflate: cwnd = ssthresh"},
		})
	}

	if fn := c.Fn(l5, "tcp.newSender"); fn != nil {
		c.CheckSitesPresent(l5, fn, []SiteSpec{
			{Kind: "store", Target: "tcp.fastRecovery.last", Args: []string{"new(tcp.sender).fr", "$1"}, Guards: []string{}, Exact: true, N: 1, Why: "RFC 6582 3.2 step 1: recover starts at the initial send sequence number, so that duplicates of the very first ACK (ack = iss+1 > recover) can trigger a fast retransmit"},
			{Kind: "store", Target: "tcp.sender.sndUna", Args: []string{"new(tcp.sender)", "($1 + 1)"}, Guards: []string{}, Exact: true, N: 1, Why: "the first unacknowledged byte follows the SYN"},
		})
	}
	if fn := c.Fn(l5, "(*tcp.sender).leaveFastRecovery"); fn != nil {
		c.CheckSitesPresent(l5, fn, []SiteSpec{
			{Kind: "store", Target: "tcp.fastRecovery.last", Args: []string{"$0.fr", "($0.sndNxt - 1)"}, Guards: []string{}, Exact: true, N: 1, Why: "recover = highest sequence number sent"},
			{Kind: "store", Target: "tcp.fastRecovery.active", Args: []string{"$0.fr", "false"}, Guards: []string{}, Exact: true, N: 1, Why: "recovery is over"},
		})
	}
	c.OnlyIn(l5, "store to fastRecovery.last", c.FieldStores("tcp.fastRecovery", "last"), "tcp.newSender", "(*tcp.sender).enterFastRecovery", "(*tcp.sender).leaveFastRecovery", "(*tcp.sender).retransmitTimerExpired")
	c.OnlyIn(l5, "store to fastRecovery.first", c.FieldStores("tcp.fastRecovery", "first"), "(*tcp.sender).checkDuplicateAck", "(*tcp.sender).enterFastRecovery", "(*tcp.sender).leaveFastRecovery")

	// L7: the default (Reno) controller - the property bounds the flight by
	// 10 + one per acknowledged segment / duplicate ACK, which holds only if the
	// window grows by at most the number of acknowledged packets.
	rttEstimatorRule(c, c.Rule("L8", "K7 exact-guard site tables", "the RTT estimator behind the retransmission timeout (RFC 6298 / RFC 7323 G), Karn's rule, the post-timeout recovery point and the idle restart of the window", 13))
	congestionChoiceRule(c, c.Rule("L9", "K7 closed return table", "Reno is the controller unless cubic is asked for by name", 2))
	segmentQueueRule(c, c.Rule("L10", "K7 closed site tables (shared with C02/W15, C01/R14)", "every queued segment, bare ACKs included, counts towards the queue being non-empty: duplicate ACKs left behind a batch re-arm the worker", 7))
	l7 := c.Rule("L7", "K9 site tables (closed, exact guards)", "Reno: window growth per ACK, ssthresh reduction, default controller selection", 14)
	rs := "(*tcp.renoState)."
	if fn := c.Fn(l7, rs+"updateSlowStart"); fn != nil {
		nw := "phi{$0.s.sndSsthresh | ($0.s.sndCwnd + $1)}"
		c.CheckSites(l7, fn, []SiteSpec{
			{Kind: "store", Target: "tcp.sender.sndCwnd", Args: []string{"$0.s", nw}, Guards: []string{}, Exact: true, N: 1, Why: "slow start: cwnd grows by the number of packets acknowledged, capped at ssthresh"},
			{Kind: "store", Target: "tcp.sender.sndCAAckCount", Args: []string{"$0.s", "0"}, Guards: []string{"!(($0.s.sndCwnd + $1) < $0.s.sndSsthresh)"}, Exact: true, N: 1, Why: "crossing into congestion avoidance restarts its ACK counter"},
			{Kind: "return", Args: []string{"($1 - (" + nw + " - $0.s.sndCwnd))"}, Guards: []string{}, Exact: true, N: 1, Why: "the packets not used up by slow start are handed to congestion avoidance"},
		})
	}
	if fn := c.Fn(l7, rs+"updateCongestionAvoidance"); fn != nil {
		full := "!($0.s.sndCAAckCount@1 < $0.s.sndCwnd)"
		c.CheckSites(l7, fn, []SiteSpec{
			{Kind: "store", Target: "tcp.sender.sndCAAckCount", Args: []string{"$0.s", "($0.s.sndCAAckCount + $1)"}, Guards: []string{}, Exact: true, N: 1, Why: "acknowledged packets accumulate"},
			{Kind: "store", Target: "tcp.sender.sndCwnd", Args: []string{"$0.s", "($0.s.sndCwnd + ($0.s.sndCAAckCount@1 / $0.s.sndCwnd))"}, Guards: []string{full}, Exact: true, N: 1, Why: "congestion avoidance: one more segment per full window of acknowledged packets"},
			{Kind: "store", Target: "tcp.sender.sndCAAckCount", Args: []string{"$0.s", "($0.s.sndCAAckCount@1 % $0.s.sndCwnd@1)"}, Guards: []string{full}, Exact: true, N: 1, Why: "the remainder is carried over"},
		})
	}
	if fn := c.Fn(l7, rs+"Update"); fn != nil {
		ss := "($0.s.sndCwnd < $0.s.sndSsthresh)"
		ssCall := SiteSpec{Kind: "call", Target: rs + "updateSlowStart", Args: []string{"$0", "$1"}, Guards: []string{ss}, Exact: true, N: 1, Why: "below ssthresh: slow start with the acknowledged packet count"}
		rest := rs + "updateSlowStart($0, $1)"
		// two reviewed shapes with the same meaning: one congestion-avoidance call
		// with the joined argument, or one call per branch
		c.CheckSitesAny(l7, fn,
			[]SiteSpec{ssCall,
				{Kind: "call", Target: rs + "updateCongestionAvoidance", Args: []string{"$0", "phi{$1 | " + rest + "}"}, Guards: []string{}, Exact: true, N: 1, Why: "what slow start did not use (or everything) goes to congestion avoidance"}},
			[]SiteSpec{ssCall,
				{Kind: "call", Target: rs + "updateCongestionAvoidance", Args: []string{"$0", "$1"}, Guards: []string{"!" + ss}, Exact: true, N: 1, Why: "at or above ssthresh: everything goes to congestion avoidance"},
				{Kind: "call", Target: rs + "updateCongestionAvoidance", Args: []string{"$0", rest}, Guards: []string{"!(" + rest + " == 0)", ss}, Exact: true, N: 1, Why: "what slow start did not use goes to congestion avoidance"}})
	}
	if fn := c.Fn(l7, rs+"reduceSlowStartThreshold"); fn != nil {
		c.CheckSites(l7, fn, []SiteSpec{
			{Kind: "store", Target: "tcp.sender.sndSsthresh", Args: []string{"$0.s", "($0.s.outstanding / 2)"}, Guards: []string{}, Exact: true, N: 1, Why: "RFC 5681 eq. 4: ssthresh = flight / 2"},
			{Kind: "store", Target: "tcp.sender.sndSsthresh", Args: []string{"$0.s", "2"}, Guards: []string{"($0.s.sndSsthresh@1 < 2)"}, Exact: true, N: 1, Why: "... but at least 2"},
		})
	}
	if fn := c.Fn(l7, rs+"HandleNDupAcks"); fn != nil {
		c.CheckSites(l7, fn, []SiteSpec{{Kind: "call", Target: rs + "reduceSlowStartThreshold", Args: []string{"$0"}, Guards: []string{}, Exact: true, N: 1, Why: "three duplicate ACKs halve ssthresh"}})
	}
	if fn := c.Fn(l7, "(*tcp.sender).initCongestionControl"); fn != nil {
		c.CheckSites(l7, fn, []SiteSpec{
			{Kind: "call", Target: "tcp.newCubicCC", Args: []string{"$0"}, Guards: []string{"(\"cubic\" == $1)"}, Exact: true, N: 1, Why: "CUBIC only when asked for by name"},
			{Kind: "call", Target: "tcp.newRenoCC", Args: []string{"$0"}, Guards: []string{"!(\"cubic\" == $1)"}, Exact: true, N: 1, Why: "Reno is the default controller"},
		})
	}
	if fn := c.Fn(l7, "(*tcp.sender).handleRcvdSegment"); fn != nil {
		c.CheckSitesPresent(l7, fn, []SiteSpec{
			{Kind: "call", Target: "iface:tcp.congestionControl.Update", Args: []string{"$0.cc", "($0.outstanding - $0.outstanding@u)"}, Guards: []string{"!$0.fr.active", "seqnum.Value.InRange(($1.ackNumber - 1), $0.sndUna, $0.sndNxt)"}, Exact: true, N: 1, Why: "the controller is told exactly how many outstanding packets this ACK retired (flight before - flight after), and only outside fast recovery"},
		})
	}
	c.OnlyIn(l7, "store to sender.sndCwnd", c.FieldStores("tcp.sender", "sndCwnd"), "tcp.newSender", rs+"updateSlowStart", rs+"updateCongestionAvoidance", rs+"HandleRTOExpired", "(*tcp.cubicState).updateSlowStart", "(*tcp.cubicState).Update", "(*tcp.cubicState).HandleRTOExpired", "(*tcp.sender).enterFastRecovery", "(*tcp.sender).leaveFastRecovery", "(*tcp.sender).checkDuplicateAck", "(*tcp.sender).sendData")

	l6 := c.Rule("L6", "typestate: K3 confinement + K7 exact-guard site tables", "lazy retransmission timer state machine", 14)
	timerTypestateRule(c, l6)
}

func sortedCopy(ss []string) []string {
	out := append([]string{}, ss...)
	for i := 1; i < len(out); i++ {
		for j := i; j > 0 && out[j] < out[j-1]; j-- {
			out[j], out[j-1] = out[j-1], out[j]
		}
	}
	return out
}

// timerTypestateRule: the lazily disabled retransmission timer (timer.go) as a
// three-state machine. Shared by C05 (L6: a timeout fires when it should) and
// C02 (W8: the retransmission timer keeps firing while data or a FIN is
// unacknowledged - no silent stall after the first expiry).
func timerTypestateRule(c *Ctx, l6 string) {
	tm := "(*tcp.timer)."
	c.OnlyIn(l6, "store to timer.state", c.FieldStores("tcp.timer", "state"), tm+"init", tm+"checkExpiration", tm+"disable", tm+"enable")
	if fn := c.Fn(l6, tm+"checkExpiration"); fn != nil {
		orph := "($0.state == 2)"
		early := "time.Time.Before(time.Now(), $0.target)"
		c.CheckSites(l6, fn, []SiteSpec{
			{Kind: "store", Target: "tcp.timer.state", Args: []string{"$0", "0"}, Guards: []string{orph}, Exact: true, N: 1, Why: "a wake-up of an orphaned (lazily disabled) timer is consumed: orphaned -> disabled, so that the next enable re-arms the runtime timer"},
			{Kind: "return", Args: []string{"false"}, Guards: []string{orph}, Exact: true, N: 1, Why: "... and it is not an expiry"},
			{Kind: "store", Target: "tcp.timer.runtimeTarget", Args: []string{"$0", "$0.target"}, Guards: []string{"!" + orph, early}, Exact: true, N: 1, Why: "woken before the (postponed) target: remember the new runtime target"},
			{Kind: "call", Target: "(*time.Timer).Reset", Args: []string{"$0.timer", "time.Time.Sub($0.target, time.Now())"}, Guards: []string{"!" + orph, early}, Exact: true, N: 1, Why: "... and re-arm for the remaining time"},
			{Kind: "return", Args: []string{"false"}, Guards: []string{"!" + orph, early}, Exact: true, N: 1, Why: "... not expired yet"},
			{Kind: "store", Target: "tcp.timer.state", Args: []string{"$0", "0"}, Guards: []string{"!" + orph, "!" + early}, Exact: true, N: 1, Why: "target reached: disabled"},
			{Kind: "return", Args: []string{"true"}, Guards: []string{"!" + orph, "!" + early}, Exact: true, N: 1, Why: "... expired"},
		})
	}
	if fn := c.Fn(l6, tm+"disable"); fn != nil {
		c.CheckSites(l6, fn, []SiteSpec{{Kind: "store", Target: "tcp.timer.state", Args: []string{"$0", "2"}, Guards: []string{"!($0.state == 0)"}, Exact: true, N: 1, Why: "lazy disable: an armed timer becomes orphaned (the runtime timer stays armed), a disabled one stays disabled"}})
	}
	if fn := c.Fn(l6, tm+"enabled"); fn != nil {
		c.CheckSites(l6, fn, []SiteSpec{{Kind: "return", Args: []string{"($0.state == 1)"}, Guards: []string{}, Exact: true, N: 1, Why: "enabled iff state == enabled"}})
	}
	if fn := c.Fn(l6, tm+"enable"); fn != nil {
		c.CheckSites(l6, fn, []SiteSpec{
			{Kind: "store", Target: "tcp.timer.target", Args: []string{"$0", "time.Time.Add(time.Now(), $1)"}, Guards: []string{}, Exact: true, N: 1, Why: "target = now + d"},
			{Kind: "store", Target: "tcp.timer.runtimeTarget", Args: []string{"$0", "$0.target@1"}, N: 1, Why: "when re-arming, the runtime target is the new target"},
			{Kind: "call", Target: "(*time.Timer).Reset", Args: []string{"$0.timer", "$1"}, N: 1, Why: "re-arm with d"},
			{Kind: "store", Target: "tcp.timer.state", Args: []string{"$0", "1"}, Guards: []string{}, Exact: true, N: 1, Why: "enabled afterwards on every path"},
		})
		for _, ci := range c.Calls(fn, Is("(*time.Timer).Reset"), false) {
			ok := GuardedBy(fn, ci.Block(), AnyOf(AtomIs(true, Exactly("($0.state == 0)")), AtomIs(true, Exactly("time.Time.Before($0.target@1, $0.runtimeTarget)"))))
			c.Check(ok, l6, FuncName(fn)+"/rearm-iff-disabled-or-earlier", c.pos(ci), "the runtime timer is re-armed exactly when none is pending (disabled) or the pending one fires too late", "the runtime timer is re-armed under a different condition")
			// and not re-armed otherwise is the lazy optimisation; what matters is that a disabled timer IS re-armed:
			var stDis *Edge
			for _, e := range CondEdges(fn) {
				if e.Atom == "($0.state == 0)" && e.Holds {
					ee := e
					stDis = &ee
				}
			}
			c.Check(stDis != nil && stDis.From.Succs[stDis.Succ] == ci.Block(), l6, FuncName(fn)+"/disabled-always-rearms", c.pos(ci), "state == disabled leads straight to the re-arm", "a disabled timer can be enabled without arming the runtime timer: it never fires")
			// ... and so does "the new target is earlier than what the pending runtime
			// timer was armed for": otherwise a shortened timeout (RTO shrinking from
			// the initial 1 s to 200 ms, the end of a back-off) fires at the stale,
			// later deadline
			var earlier *Edge
			for _, e := range CondEdges(fn) {
				if termEq(e.Atom, "time.Time.Before($0.target@1, $0.runtimeTarget)") && e.Holds {
					ee := e
					earlier = &ee
				}
			}
			c.Check(earlier != nil && earlier.From.Succs[earlier.Succ] == ci.Block(), l6, FuncName(fn)+"/earlier-target-rearms", c.pos(ci), "target earlier than the pending runtime target leads straight to the re-arm", "an enabled (or orphaned) timer whose new target is earlier than the pending runtime target is not re-armed: the timeout fires at the stale, later deadline")
		}
	}
	if fn := c.Fn(l6, tm+"init"); fn != nil {
		c.CheckSitesPresent(l6, fn, []SiteSpec{
			{Kind: "store", Target: "tcp.timer.state", Args: []string{"$0", "0"}, Guards: []string{}, Exact: true, N: 1, Why: "starts disabled"},
			{Kind: "call", Target: "(*time.Timer).Stop", Args: []string{"$0.timer@1"}, Guards: []string{}, Exact: true, N: 1, Why: "... with the runtime timer stopped"},
		})
	}
	if fn := c.P.Func("(*tcp.timer).init$1"); fn != nil {
		c.CheckSites(l6, fn, []SiteSpec{{Kind: "call", Target: "(*sleep.Waker).Assert", Args: []string{"^$1"}, Guards: []string{}, Exact: true, N: 1, Why: "the runtime timer's only effect is to assert the waker handed to init"}})
	} else {
		c.Broken(l6, "anchor-unresolved:(*tcp.timer).init$1", "timer callback closure not found")
	}

}

// rtoExpiryRule: what a genuine expiry of the retransmission timer does, under
// exactly the expiry/give-up guards and nothing else: double the RTO, leave
// recovery, collapse the window, restart from the head of the write list and
// send (sendData re-arms the timer, W3). l2 takes the RTO store, l4 the rest.
func rtoExpiryRule(c *Ctx, l2, l4 string) {
	rtx := c.Fn(l2, "(*tcp.sender).retransmitTimerExpired")
	if rtx == nil {
		return
	}
	exp := []string{"($0.rto < 60000000000)", "(*tcp.timer).checkExpiration(&$0.resendTimer)"}
	c.CheckSites(l2, rtx, []SiteSpec{
		{Kind: "store", Target: "tcp.sender.rto", Args: []string{"$0", "($0.rto * 2)"}, Guards: exp, Exact: true, N: 1, Why: "every expiry doubles the RTO (until the 60 s give-up bound)"},
	})
	c.CheckSites(l4, rtx, []SiteSpec{
		{Kind: "call", Target: "(*tcp.sender).leaveFastRecovery", Args: []string{"$0"}, Guards: append([]string{"$0.fr.active"}, exp...), Exact: true, N: 1, Why: "an RTO during fast recovery first leaves recovery"},
		{Kind: "call", Target: "iface:tcp.congestionControl.HandleRTOExpired", Args: []string{"$0.cc"}, Guards: exp, Exact: true, N: 1, Why: "then the controller reacts to the loss"},
		{Kind: "store", Target: "tcp.sender.outstanding", Args: []string{"$0", "0"}, Guards: exp, Exact: true, N: 1, Why: "nothing is considered in flight any more"},
		{Kind: "store", Target: "tcp.sender.writeNext", Args: []string{"$0", "(*tcp.segmentList).Front(&$0.writeList)"}, Guards: exp, Exact: true, N: 1, Why: "sending restarts from the earliest unacknowledged segment"},
		{Kind: "call", Target: "(*tcp.sender).sendData", Args: []string{"$0"}, Guards: exp, Exact: true, N: 1, Why: "and sendData retransmits under the collapsed window"},
	})
	c.Ordered(l4, rtx, []string{"rto doubled", "leaveFastRecovery", "HandleRTOExpired", "outstanding=0", "writeNext=Front", "sendData"}, []func(Site) bool{
		isStore("tcp.sender.rto"), isCall("(*tcp.sender).leaveFastRecovery"), isCall("iface:tcp.congestionControl.HandleRTOExpired"), isStoreVal("tcp.sender.outstanding", "0"), isStore("tcp.sender.writeNext"), isCall("(*tcp.sender).sendData")})
	if fn := c.Fn(l4, "(*tcp.renoState).HandleRTOExpired"); fn != nil {
		c.CheckSites(l4, fn, []SiteSpec{
			{Kind: "call", Target: "(*tcp.renoState).reduceSlowStartThreshold", Args: []string{"$0"}, Guards: []string{}, Exact: true, N: 1, Why: "every timeout halves ssthresh"},
			{Kind: "store", Target: "tcp.sender.sndCwnd", Args: []string{"$0.s", "1"}, Guards: []string{}, Exact: true, N: 1, Why: "RFC 5681: after a timeout the window is ONE segment, whatever it was - no condition decides the collapse"},
		})
	}
	for _, name := range []string{"(*tcp.renoState).HandleRTOExpired", "(*tcp.cubicState).HandleRTOExpired"} {
		if fn := c.Fn(l4, name); fn != nil {
			sts := StoresTo(fn, "tcp.sender", "sndCwnd")
			ok := len(sts) >= 1
			for _, st := range sts {
				if Term(st.Val) != "1" {
					ok = false
				}
			}
			c.Check(ok, l4, name+"/cwnd=1", c.P.Pos(fn.Pos()), "congestion window collapses to 1 segment", "HandleRTOExpired does not set sndCwnd to exactly 1")
			// and it is the last word on cwnd in this function
			for _, st := range sts {
				bad := ReachAvoiding(fn, st, nil, func(in ssa.Instruction) bool {
					s2, ok := in.(*ssa.Store)
					if !ok {
						return false
					}
					fv, _ := fieldOf(s2.Addr)
					return fv != nil && fv.Name() == "sndCwnd" && s2 != st
				})
				c.Check(bad == nil, l4, name+"/cwnd=1-final", c.pos(st), "no later store to sndCwnd", "sndCwnd is overwritten after being set to 1")
			}
		}
	}
}

// pathMTUReportRule: the unit of a reported path MTU on its way from the ICMP
// message to the sender. updateMaxPayloadSize (N3/N10) subtracts the TCP header
// and options from what it is given, so what it is given must be the room for
// the IP payload: the next-hop MTU of the message passes through the network
// layer's own calculateMTU exactly once (in handleICMP) and is handed on
// unchanged by handleControl, the NIC, the demuxer and the endpoint.
func pathMTUReportRule(c *Ctx, rule string) {
	v4 := "buffer.VectorisedView.First($2)"
	if fn := c.Fn(rule, "(*ipv4.endpoint).handleICMP"); fn != nil {
		c.CheckSitesPresent(rule, fn, []SiteSpec{
			{Kind: "call", Target: "(*ipv4.endpoint).handleControl", Args: []string{"$0", "0", "ipv4.calculateMTU(encoding/binary.bigEndian.Uint16(encoding/binary.BigEndian, " + v4 + "[6:]))", "new(buffer.VectorisedView)@2"}, Guards: []string{"(3 == header.ICMPv4.Type(" + v4 + "))", "(4 == header.ICMPv4.Code(" + v4 + "))"}, N: 1, Why: "fragmentation needed: ControlPacketTooBig carries calculateMTU(next-hop MTU from bytes 6..7), i.e. the IPv4 payload room, not the raw link-level figure"},
		})
		n := 0
		for _, s := range Sites(fn) {
			if s.Kind == "call" && s.Target == "(*ipv4.endpoint).handleControl" && len(s.Args) == 4 && s.Args[1] == "0" {
				n++
			}
		}
		c.Check(n == 1, rule, FuncName(fn)+"/one-packet-too-big-site", c.P.Pos(fn.Pos()), "one ControlPacketTooBig site", "ControlPacketTooBig is raised at another site as well")
	}
	if fn := c.Fn(rule, "(*ipv6.endpoint).handleICMP"); fn != nil {
		c.CheckSitesPresent(rule, fn, []SiteSpec{
			{Kind: "call", Target: "(*ipv6.endpoint).handleControl", Args: []string{"$0", "0", "ipv6.calculateMTU(encoding/binary.bigEndian.Uint32(encoding/binary.BigEndian, " + v4 + "[4:]))", "new(buffer.VectorisedView)@2"}, Guards: []string{"(2 == header.ICMPv6.Type(" + v4 + "))"}, N: 1, Why: "packet too big: calculateMTU(MTU field, bytes 4..7) = the IPv6 payload room"},
		})
	}
	for _, t := range []struct{ fn, net string }{{"(*ipv4.endpoint).handleControl", "2048"}, {"(*ipv6.endpoint).handleControl", "34525"}} {
		if fn := c.Fn(rule, t.fn); fn != nil {
			c.CheckSitesPresent(rule, fn, []SiteSpec{
				{Kind: "call", Target: "iface:stack.TransportDispatcher.DeliverTransportControlPacket", Args: []string{"$0.dispatcher", "$0.id.LocalAddress", "*", t.net, "*", "$1", "$2", "*"}, N: 1, Why: "control type and extra value are handed on unchanged"},
			})
		}
	}
	if fn := c.Fn(rule, "(*stack.NIC).DeliverTransportControlPacket"); fn != nil {
		ok := 0
		for _, s := range Sites(fn) {
			if s.Kind == "call" && s.Target == "(*stack.transportDemuxer).deliverControlPacket" {
				good := len(s.Args) == 7 && s.Args[1] == "$3" && s.Args[2] == "$4" && s.Args[3] == "$5" && s.Args[4] == "$6" && s.Args[5] == "$7"
				c.Check(good, rule, FuncName(fn)+"/pass-through:"+s.Args[0], c.pos(s.Instr), "protocols, control type, extra and packet handed on unchanged", "the NIC alters the control type or the extra value on the way to the demuxer")
				ok++
			}
		}
		c.Check(ok == 2, rule, FuncName(fn)+"/two-demuxers", c.P.Pos(fn.Pos()), "NIC demuxer, then stack demuxer", "number of deliverControlPacket calls changed")
	}
	if fn := c.Fn(rule, "(*stack.transportDemuxer).deliverControlPacket"); fn != nil {
		c.CheckSitesPresent(rule, fn, []SiteSpec{
			{Kind: "call", Target: "iface:stack.TransportEndpoint.HandleControlPacket", Args: []string{"*", "$6", "$3", "$4", "$5"}, N: 1, Why: "the endpoint found gets id, control type, extra and packet unchanged"},
		})
	}
	if fn := c.Fn(rule, "(*tcp.endpoint).HandleControlPacket"); fn != nil {
		c.CheckSites(rule, fn, []SiteSpec{
			{Kind: "store", Target: "tcp.endpoint.packetTooBigCount", Args: []string{"$0", "($0.packetTooBigCount + 1)"}, Guards: []string{"($2 == 0)"}, Exact: true, N: 1, Why: "every packet-too-big report counts one lost packet"},
			{Kind: "store", Target: "tcp.endpoint.sndMTU", Args: []string{"$0", "$3"}, Guards: []string{"($2 == 0)", "($3 < $0.sndMTU)"}, Exact: true, N: 1, Why: "the smallest reported value is kept, unchanged (it only shrinks)"},
			{Kind: "call", Target: "(*tcp.endpoint).notifyProtocolGoroutine", Args: []string{"$0", "8"}, Guards: []string{"($2 == 0)"}, Exact: true, N: 1, Why: "the worker is told (notifyMTUChanged)"},
		})
	}
	if fn := c.Fn(rule, "(*tcp.endpoint).protocolMainLoop$4"); fn != nil {
		g := []string{"!(((*tcp.endpoint).fetchNotifications(^$0) & 8) == 0)"}
		c.CheckSitesPresent(rule, fn, []SiteSpec{
			{Kind: "call", Target: "(*tcp.sender).updateMaxPayloadSize", Args: []string{"^$0.snd", "^$0.sndMTU", "^$0.packetTooBigCount"}, Guards: g, Exact: true, N: 1, Why: "the sender is given exactly the recorded value and the count read before it was reset"},
			{Kind: "store", Target: "tcp.endpoint.packetTooBigCount", Args: []string{"^$0", "0"}, Guards: g, Exact: true, N: 1, Why: "the count is consumed"},
		})
	}
}

// acceptableRule: the complete path table of receiver.acceptable (RFC 793 p.26):
// a segment is acceptable when its first byte is in the window OR any part of it
// overlaps the window. Shared by C04 (N6) and C02 (a retransmission that
// starts below rcvNxt but carries new bytes must be consumed, or the peer
// retransmits for ever).
func acceptableRule(c *Ctx, rule string) {
	if fn := c.Fn(rule, "(*tcp.receiver).acceptable"); fn != nil {
		ps, es := WalkPaths(fn, 32)
		if es != "" {
			c.Bad(rule, FuncName(fn)+"/undecided", c.P.Pos(fn.Pos()), es)
		}
		wnd := "seqnum.Value.Size($0.rcvNxt, $0.rcvAcc)"
		want := []string{
			"[(0 == " + wnd + ") && !($2 == 0)] => return false",
			"[(0 == " + wnd + ") && ($2 == 0)] => return ($0.rcvNxt == $1)",
			"[!(0 == " + wnd + ") && seqnum.Value.InWindow($1, $0.rcvNxt, " + wnd + ")] => return true",
			"[!(0 == " + wnd + ") && !seqnum.Value.InWindow($1, $0.rcvNxt, " + wnd + ")] => return seqnum.Overlap($0.rcvNxt, " + wnd + ", $1, $2)",
		}
		// rows are compared in canonical form (canon.go)
		got := map[string]bool{}
		for _, l := range FormatPaths(ps, false) {
			got[canonRow(l)] = true
		}
		for i := range want {
			want[i] = canonRow(want[i])
		}
		for i, w := range want {
			c.Check(got[w], rule, FuncName(fn)+"/row"+itoa(i+1), c.P.Pos(fn.Pos()), w, "row missing or altered: "+w)
			delete(got, w)
		}
		for g := range got {
			c.Bad(rule, FuncName(fn)+"/extra-row:"+g, c.P.Pos(fn.Pos()), "path outside the acceptability table")
		}
	}
}
