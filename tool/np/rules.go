package np

import (
	"fmt"
	"go/token"
	"go/types"
	"sort"
	"strings"

	"golang.org/x/tools/go/ssa"
)

// ---------------------------------------------------------------- anchors

// Fn resolves a function anchor; an unresolved anchor is an integrity failure.
func (c *Ctx) Fn(rule, name string) *ssa.Function {
	f := c.P.Func(name)
	if f == nil {
		c.Broken(rule, "anchor-unresolved:"+name, "function "+name+" not found in the module (renamed or removed?)")
	}
	return f
}

// Calls returns the calls in fn (optionally including nested closures) to
// callees matching m.
func (c *Ctx) Calls(fn *ssa.Function, m func(string) bool, closures bool) []ssa.CallInstruction {
	var out []ssa.CallInstruction
	fns := []*ssa.Function{fn}
	if closures {
		fns = WithClosures(fn)
	}
	for _, f := range fns {
		out = append(out, CallsIn(f, m)...)
	}
	return out
}

func (c *Ctx) pos(in ssa.Instruction) string {
	if in == nil {
		return ""
	}
	p := in.Pos()
	if !p.IsValid() {
		if v, ok := in.(ssa.Value); ok {
			p = v.Pos()
		}
	}
	if !p.IsValid() {
		// fall back to the enclosing function
		return c.P.Pos(in.Parent().Pos())
	}
	return c.P.Pos(p)
}

// ---------------------------------------------------------------- K1

// Guarded checks that every path from fn's entry to instr crosses an accepted edge.
func (c *Ctx) Guarded(rule, key string, instr ssa.Instruction, accept func(Edge) bool, what string) bool {
	fn := instr.Parent()
	ok := GuardedBy(fn, instr.Block(), accept)
	return c.Check(ok, rule, FuncName(fn)+"/"+key, c.pos(instr), "dominated by "+what, "reachable without passing "+what)
}

// ---------------------------------------------------------------- K2

// MustFollow checks that after `from`, every path to a return passes an
// instruction satisfying stop. A dominating defer satisfying deferStop also counts.
func (c *Ctx) MustFollow(rule, key string, from ssa.Instruction, stop func(ssa.Instruction) bool, what string) bool {
	fn := from.Parent()
	// a defer registered before `from` that performs the event
	deferred := false
	Instrs(fn, func(in ssa.Instruction) {
		if d, ok := in.(*ssa.Defer); ok && InstrDominates(d, from) {
			if stop(deferAsCall{d}) {
				deferred = true
			}
		}
	})
	if deferred {
		c.Ok(rule, FuncName(fn)+"/"+key, c.pos(from), "followed (deferred) by "+what)
		return true
	}
	bad := ReachAvoiding(fn, from, stop, IsReturn)
	if bad == nil {
		c.Ok(rule, FuncName(fn)+"/"+key, c.pos(from), "followed on every path by "+what)
		return true
	}
	c.Bad(rule, FuncName(fn)+"/"+key, c.pos(from), "a path reaches the return at "+c.pos(bad)+" without "+what)
	return false
}

// deferAsCall lets call matchers look at a deferred call.
type deferAsCall struct{ *ssa.Defer }

// CallMatcher builds an instruction predicate matching (possibly deferred)
// calls to functions satisfying m, including must-call wrappers.
func (c *Ctx) CallMatcher(m func(string) bool) func(ssa.Instruction) bool {
	base := c.P.IsCallTo(m)
	return func(in ssa.Instruction) bool {
		if d, ok := in.(deferAsCall); ok {
			return m(CalleeName(d.Defer))
		}
		return base(in)
	}
}

// ---------------------------------------------------------------- K5

// ArgIs checks that argument idx (receiver = 0 for methods) of call renders
// to one of the expected canonical terms.
func (c *Ctx) ArgIs(rule, key string, call ssa.CallInstruction, idx int, expected ...string) bool {
	args := CallArgs(call)
	fn := call.Parent()
	if idx >= len(args) {
		c.Bad(rule, FuncName(fn)+"/"+key, c.pos(call), fmt.Sprintf("call has no argument %d", idx))
		return false
	}
	got := NewTermer(fn).T(args[idx])
	for _, e := range expected {
		if termEq(got, e) {
			c.Ok(rule, FuncName(fn)+"/"+key, c.pos(call), "argument "+fmt.Sprint(idx)+" is "+got)
			return true
		}
	}
	c.Bad(rule, FuncName(fn)+"/"+key, c.pos(call), fmt.Sprintf("argument %d is %s, expected %s", idx, got, strings.Join(expected, " or ")))
	return false
}

// TermIs checks a value's canonical term.
func (c *Ctx) TermIs(rule, key string, at ssa.Instruction, v ssa.Value, expected ...string) bool {
	fn := at.Parent()
	got := NewTermer(fn).T(v)
	for _, e := range expected {
		if termEq(got, e) {
			c.Ok(rule, FuncName(fn)+"/"+key, c.pos(at), "value is "+got)
			return true
		}
	}
	c.Bad(rule, FuncName(fn)+"/"+key, c.pos(at), "value is "+got+", expected "+strings.Join(expected, " or "))
	return false
}

// ---------------------------------------------------------------- K3

// OnlyIn checks that events (given as instruction sites) occur only in the
// allowed functions.
func (c *Ctx) OnlyIn(rule, what string, sites []ssa.Instruction, allowed ...string) {
	al := map[string]bool{}
	for _, a := range allowed {
		al[a] = true
	}
	seen := map[string]bool{}
	for _, s := range sites {
		for _, fn := range c.Owners(s.Parent()) {
			key := what + "/in:" + fn
			if al[fn] {
				if !seen[fn] {
					c.Ok(rule, key, c.pos(s), "allowed site of "+what)
					seen[fn] = true
				}
			} else {
				c.Bad(rule, key, c.pos(s), what+" outside the allowed functions {"+strings.Join(allowed, ", ")+"}")
			}
		}
	}
	for _, a := range allowed {
		if !seen[a] {
			c.Note(rule, what+"/unused-allowed:"+a, "", "allowed function has no such site")
		}
	}
}

// FieldStores lists stores to field "pkg.T.f" across the module.
func (c *Ctx) FieldStores(typ, field string) []ssa.Instruction {
	var out []ssa.Instruction
	for _, fn := range c.P.Funcs {
		for _, s := range StoresTo(fn, typ, field) {
			out = append(out, s)
		}
	}
	return out
}

// CallSites lists calls across the module (incl. closures) to callees matching m.
func (c *Ctx) CallSites(m func(string) bool) []ssa.Instruction {
	var out []ssa.Instruction
	for _, fn := range c.P.Funcs {
		for _, ci := range CallsIn(fn, m) {
			out = append(out, ci)
		}
	}
	return out
}

// ---------------------------------------------------------------- K9 decision tables

// DecisionTable evaluates a loop-free function for every assignment of its
// branch atoms and returns, per assignment, the rendered return values.
// rows maps "atom1=T,atom2=F,..." (only atoms actually tested on that path)
// to the result string.
type DTable struct {
	Atoms []string
	Rows  []DRow
	Err   string
}
type DRow struct {
	Conds  []string // "atom" or "!atom", in test order
	Result string
}

func DecisionTable(fn *ssa.Function) *DTable {
	dt := &DTable{}
	if len(fn.Blocks) == 0 {
		dt.Err = "no body"
		return dt
	}
	t := NewTermer(fn)
	atomSet := map[string]bool{}
	var walk func(b, pred *ssa.BasicBlock, conds []string, depth int)
	walk = func(b, pred *ssa.BasicBlock, conds []string, depth int) {
		if dt.Err != "" {
			return
		}
		if depth > 40 {
			dt.Err = "loop or path too long"
			return
		}
		last := b.Instrs[len(b.Instrs)-1]
		switch x := last.(type) {
		case *ssa.If:
			a, pol := condAtom(t, x.Cond)
			atomSet[a] = true
			// constant conditions already decided on this path
			for i, s := range b.Succs {
				holds := pol
				if i == 1 {
					holds = !pol
				}
				lit := a
				if !holds {
					lit = "!" + a
				}
				neg := "!" + a
				if !holds {
					neg = a
				}
				contra := false
				for _, c0 := range conds {
					if c0 == neg {
						contra = true
					}
				}
				if contra {
					continue
				}
				nc := conds
				dup := false
				for _, c0 := range conds {
					if c0 == lit {
						dup = true
					}
				}
				if !dup {
					nc = append(append([]string{}, conds...), lit)
				}
				walk(s, b, nc, depth+1)
			}
		case *ssa.Jump:
			walk(b.Succs[0], b, conds, depth+1)
		case *ssa.Return:
			// a boolean result that is itself a tested value (return !ok, return a < b)
			// is the same decision as if v { return true }; return false
			if len(x.Results) == 1 && isBoolType(x.Results[0].Type()) {
				v := x.Results[0]
				if phi, ok := v.(*ssa.Phi); ok && phi.Block() == b && pred != nil {
					for i, p := range b.Preds {
						if p == pred {
							v = phi.Edges[i]
						}
					}
				}
				if _, isConst := v.(*ssa.Const); !isConst {
					a, pol := condAtom(t, v)
					atomSet[a] = true
					for _, holds := range []bool{true, false} {
						lit, neg := a, "!"+a
						if !holds {
							lit, neg = neg, lit
						}
						contra, dup := false, false
						for _, c0 := range conds {
							contra = contra || c0 == neg
							dup = dup || c0 == lit
						}
						if contra {
							continue
						}
						nc := conds
						if !dup {
							nc = append(append([]string{}, conds...), lit)
						}
						res := "false"
						if holds == pol {
							res = "true"
						}
						dt.Rows = append(dt.Rows, DRow{Conds: nc, Result: res})
					}
					return
				}
			}
			var rs []string
			for _, r := range x.Results {
				rs = append(rs, termOnPath(t, r, b, pred))
			}
			dt.Rows = append(dt.Rows, DRow{Conds: conds, Result: strings.Join(rs, ", ")})
		case *ssa.Panic:
			dt.Rows = append(dt.Rows, DRow{Conds: conds, Result: "panic"})
		default:
			dt.Err = fmt.Sprintf("unsupported terminator %T", last)
		}
	}
	walk(fn.Blocks[0], nil, nil, 0)
	for a := range atomSet {
		dt.Atoms = append(dt.Atoms, a)
	}
	sort.Strings(dt.Atoms)
	return dt
}

// termOnPath renders v; a phi in block b is resolved through the edge from pred.
func termOnPath(t *Termer, v ssa.Value, b, pred *ssa.BasicBlock) string {
	if phi, ok := v.(*ssa.Phi); ok && phi.Block() == b && pred != nil {
		for i, p := range b.Preds {
			if p == pred {
				return t.T(phi.Edges[i])
			}
		}
	}
	return t.T(v)
}

// Eval returns the result for a total assignment of atoms (true/false),
// "" if no row matches.
func (dt *DTable) Eval(assign map[string]bool) string {
	for _, r := range dt.Rows {
		ok := true
		for _, c0 := range r.Conds {
			neg := strings.HasPrefix(c0, "!")
			a := strings.TrimPrefix(c0, "!")
			if assign[a] == neg {
				ok = false
				break
			}
		}
		if ok {
			return r.Result
		}
	}
	return ""
}

// CheckTable compares a function's decision table with a specification given
// as a Go function over atom assignments. atoms must be exactly the atoms the
// code tests (an unknown atom leaves the function undecided = violation).
func (c *Ctx) CheckTable(rule string, fn *ssa.Function, atoms []string, spec func(a map[string]bool) string) {
	name := FuncName(fn)
	pos := c.P.Pos(fn.Pos())
	dt := DecisionTable(fn)
	if dt.Err != "" {
		c.Bad(rule, name+"/undecided", pos, "function left the loop-free class: "+dt.Err)
		return
	}
	// atoms are compared in canonical form (canon.go): the table's own atoms
	// and row conditions are rewritten to the specification's spelling
	want := map[string]bool{}
	byCanon := map[string]string{}
	for _, a := range atoms {
		want[a] = true
		byCanon[canonTerm(a)] = a
	}
	ren := map[string]string{}
	for _, a := range dt.Atoms {
		if want[a] {
			continue
		}
		if to, ok := byCanon[canonTerm(a)]; ok {
			ren[a] = to
			continue
		}
		c.Bad(rule, name+"/unknown-atom:"+a, pos, "the function branches on a condition outside the specified atom set")
		return
	}
	if len(ren) > 0 {
		cp := &DTable{Err: dt.Err}
		for _, a := range dt.Atoms {
			if to, ok := ren[a]; ok {
				a = to
			}
			cp.Atoms = append(cp.Atoms, a)
		}
		for _, r := range dt.Rows {
			nr := DRow{Result: r.Result}
			for _, c0 := range r.Conds {
				neg := strings.HasPrefix(c0, "!")
				a := strings.TrimPrefix(c0, "!")
				if to, ok := ren[a]; ok {
					a = to
				}
				if neg {
					a = "!" + a
				}
				nr.Conds = append(nr.Conds, a)
			}
			cp.Rows = append(cp.Rows, nr)
		}
		dt = cp
	}
	n := len(atoms)
	for m := 0; m < 1<<n; m++ {
		as := map[string]bool{}
		var desc []string
		for i, a := range atoms {
			as[a] = m&(1<<i) != 0
			desc = append(desc, fmt.Sprintf("%s=%v", a, as[a]))
		}
		exp := spec(as)
		if exp == "*" {
			continue // combination cannot occur / unspecified
		}
		got := dt.Eval(as)
		key := name + "/row:" + strings.Join(desc, ",")
		c.Check(got == exp, rule, key, pos, "returns "+got, "returns "+got+", specified "+exp)
	}
}

// ---------------------------------------------------------------- atomic-only access

// AtomicOnly checks that every access to field typ.field in the module is
// the field's address passed as first argument to a sync/atomic function.
// plain maps a function name to the reason a plain access there is fine
// (constructor before publication). Returns the number of atomic sites.
func (c *Ctx) AtomicOnly(rule, typ, field string, plain map[string]string, alsoCallees ...string) int {
	n := 0
	usedPlain := map[string]bool{}
	for _, fn := range c.P.Funcs {
		for _, fa := range FieldAccesses(fn) {
			if fa.Field.Name() != field || !typeNamed(fa.Base.Type(), typ) {
				continue
			}
			fname := FuncName(fn)
			key := typ + "." + field + "/in:" + fname
			if why, ok := plain[fname]; ok {
				if !usedPlain[fname] {
					c.Assume(rule, key, c.pos(fa.Instr), "plain access allowed: "+why)
					usedPlain[fname] = true
				}
				continue
			}
			ok := false
			if fa.AddrTaken {
				if ci, isCall := fa.Instr.(ssa.CallInstruction); isCall {
					cn := CalleeName(ci)
					args := CallArgs(ci)
					if strings.HasPrefix(cn, "sync/atomic.") && len(args) > 0 && args[0] == fa.Addr {
						ok = true
					}
					for _, a := range alsoCallees {
						if cn == a {
							ok = true
						}
					}
				}
			}
			if ok {
				n++
				c.Ok(rule, key+"/"+strings.TrimPrefix(CalleeName(fa.Instr.(ssa.CallInstruction)), "sync/atomic."), c.pos(fa.Instr), "atomic access")
			} else {
				kind := "read"
				if fa.Write {
					kind = "write"
				} else if fa.AddrTaken {
					kind = "address escapes"
				}
				c.Bad(rule, key+"/plain-"+kind, c.pos(fa.Instr), "non-atomic access ("+kind+") to "+typ+"."+field+": races with the atomic operations on it")
			}
		}
	}
	return n
}

// BlockingOps lists the operations in fn (and, transitively through static
// callees inside the module, up to depth) that may block the goroutine:
// channel receive, blocking send, blocking select, range over channel,
// sync Lock/RLock/Wait, time.Sleep, runtime park hooks.
func (c *Ctx) BlockingOps(fn *ssa.Function, depth int) []string {
	var out []string
	seen := map[*ssa.Function]bool{}
	var walk func(f *ssa.Function, d int, via string)
	walk = func(f *ssa.Function, d int, via string) {
		if seen[f] || f.Blocks == nil {
			return
		}
		seen[f] = true
		Instrs(f, func(in ssa.Instruction) {
			switch x := in.(type) {
			case *ssa.UnOp:
				if x.Op == token.ARROW {
					out = append(out, via+"recv "+Term(x.X))
				}
			case *ssa.Send:
				out = append(out, via+"send "+Term(x.Chan))
			case *ssa.Select:
				if x.Blocking {
					out = append(out, via+"blocking select")
				}
			case *ssa.Next:
				if _, isChan := x.Iter.Type().Underlying().(*types.Chan); isChan {
					out = append(out, via+"range chan")
				}
			case ssa.CallInstruction:
				if _, isGo := x.(*ssa.Go); isGo {
					return
				}
				cn := CalleeName(x)
				switch {
				case cn == "(*sync.Mutex).Lock", cn == "(*sync.RWMutex).Lock", cn == "(*sync.RWMutex).RLock",
					cn == "(*sync.WaitGroup).Wait", cn == "(*sync.Cond).Wait", cn == "time.Sleep",
					strings.HasSuffix(cn, ".gopark"), cn == "(*tmutex.Mutex).Lock", cn == "(*sleep.Sleeper).Fetch":
					out = append(out, via+"call "+cn)
				default:
					if cal := x.Common().StaticCallee(); cal != nil && d > 0 && c.P.IsModuleFunc(cal) {
						if inlineableSites(cal) {
							// a helper extracted after the review: its operations are the caller's (inline.go)
							t := NewTermer(f)
							var as []string
							for _, a := range CallArgs(x) {
								as = append(as, t.T(a))
							}
							withBinding(cal, as, x, func() { walk(cal, d-1, via) })
						} else {
							walk(cal, d-1, via+FuncName(cal)+": ")
						}
					} else if x.Common().StaticCallee() == nil && !strings.HasPrefix(cn, "builtin:") {
						out = append(out, via+"dynamic call "+cn)
					}
				}
			}
		})
	}
	walk(fn, depth, "")
	return out
}

func joinSorted(l []string) string {
	m := append([]string{}, l...)
	sort.Strings(m)
	return strings.Join(m, " && ")
}

func splitAnd(s string) []string { return strings.Split(s, " && ") }

func fmtKeys(m map[string]bool) string {
	var ks []string
	for k := range m {
		ks = append(ks, "["+k+"]")
	}
	sort.Strings(ks)
	return strings.Join(ks, " ")
}

func hasPrefixSuffix(s, pre, suf string) bool {
	return strings.HasPrefix(s, pre) && strings.HasSuffix(s, suf)
}

func countStr(s, sub string) int { return strings.Count(s, sub) }

// initIs checks that the package-level variable pkg.name is initialised
// (in the package initialiser) with a value whose canonical term is want
// and is assigned nowhere else in the module.
func (c *Ctx) initIs(rule, pkg, name, want string) {
	n := 0
	for _, fn := range c.P.Funcs {
		Instrs(fn, func(in ssa.Instruction) {
			st, ok := in.(*ssa.Store)
			if !ok {
				return
			}
			g, ok := st.Addr.(*ssa.Global)
			if !ok || g.Name() != name || g.Pkg.Pkg.Name() != pkg {
				return
			}
			if FuncName(fn) == pkg+".init" {
				n++
				got := NewTermer(fn).T(st.Val)
				c.Check(got == want, rule, pkg+"."+name+"/value", c.pos(in), "initialised to "+want, pkg+"."+name+" is initialised to "+got+", reviewed value "+want)
			} else {
				c.Bad(rule, pkg+"."+name+"/reassigned-in:"+FuncName(fn), c.pos(in), pkg+"."+name+" is reassigned outside the package initialiser")
			}
		})
	}
	if n != 1 {
		c.Broken(rule, pkg+"."+name+"/value", fmt.Sprintf("%d initialising stores found", n))
	}
}

// NoStaleSliceAlias: every memory access through an element address of the
// slice field typ.field (x.f[i], &x.f[i], and field addresses derived from
// it) uses the slice value that is current at the access: no store to the
// same field lies on a path between the load of the slice header and the
// access. A pointer taken before `x.f = append(x.f, ...)` may point into the
// abandoned backing array, so a write through it is lost and a read is stale.
func (c *Ctx) NoStaleSliceAlias(rule string, fn *ssa.Function, typ, field string) int {
	n := 0
	Instrs(fn, func(in ssa.Instruction) {
		ia, ok := in.(*ssa.IndexAddr)
		if !ok {
			return
		}
		ld, ok := ia.X.(*ssa.UnOp)
		if !ok || ld.Op != token.MUL {
			return
		}
		fa, ok := ld.X.(*ssa.FieldAddr)
		if !ok {
			return
		}
		fv, base := fieldOf(fa)
		if fv == nil || fv.Name() != field || !typeNamed(base.Type(), typ) {
			return
		}
		// all memory accesses through ia (directly or through field addresses of the element)
		var uses []ssa.Instruction
		var collect func(v ssa.Value)
		collect = func(v ssa.Value) {
			refs := v.Referrers()
			if refs == nil {
				return
			}
			for _, r := range *refs {
				switch x := r.(type) {
				case *ssa.FieldAddr:
					collect(x)
				case *ssa.Store:
					uses = append(uses, x)
				case *ssa.UnOp:
					if x.Op == token.MUL {
						uses = append(uses, x)
					}
				case *ssa.Phi:
					collect(x)
				case ssa.CallInstruction:
					uses = append(uses, x)
				}
			}
		}
		collect(ia)
		for _, u := range uses {
			if ld2, isLoad := u.(*ssa.UnOp); isLoad {
				// a stale read matters only for fields that are mutated after construction
				f3, b3 := fieldOf(ld2.X)
				if f3 == nil || !c.fieldMutated(TypeStr(b3.Type()), f3.Name()) {
					continue
				}
			}
			n++
			bad := ReachAvoiding(fn, ld, func(i ssa.Instruction) bool { return i == u }, func(i ssa.Instruction) bool {
				st, ok := i.(*ssa.Store)
				if !ok {
					return false
				}
				f2, b2 := fieldOf(st.Addr)
				return f2 != nil && f2.Name() == field && typeNamed(b2.Type(), typ) && instrReaches(i, u)
			})
			kind := "read"
			if _, isSt := u.(*ssa.Store); isSt {
				kind = "write"
			}
			key := FuncName(fn) + "/" + typ + "." + field + "/" + kind + "-through-element@" + fmt.Sprint(n)
			c.Check(bad == nil, rule, key, c.pos(u), "element access uses the current slice value", kind+" through an element pointer taken before "+typ+"."+field+" was re-assigned (append may have moved the array): the access goes to the abandoned copy")
		}
	})
	return n
}

// fieldMutated: some function of the module stores to field name of struct
// type typ through a pointer that is not a local variable of that function
// (i.e. after construction).
func (c *Ctx) fieldMutated(typ, name string) bool {
	typ = strings.TrimPrefix(typ, "*")
	key := typ + "." + name
	if c.mutated == nil {
		c.mutated = map[string]bool{}
		for _, fn := range c.P.Funcs {
			Instrs(fn, func(in ssa.Instruction) {
				st, ok := in.(*ssa.Store)
				if !ok {
					return
				}
				fv, base := fieldOf(st.Addr)
				if fv == nil {
					return
				}
				if root, _ := allocRoot(st.Addr); root != nil && !root.Heap {
					return
				}
				c.mutated[strings.TrimPrefix(TypeStr(base.Type()), "*")+"."+fv.Name()] = true
			})
		}
	}
	return c.mutated[key]
}

// RefBalanced: for every call in fn of one of the acquire functions (which
// return a counted reference or nil), every path from the call on which the
// result is non-nil reaches, before any return, a consumer: a call of one
// of the release functions on that value, a call of a transfer function
// with the value among its arguments (ownership moves into the callee's
// result), or the value being returned. Paths through the result == nil
// branch need nothing.
func (c *Ctx) RefBalanced(rule string, fn *ssa.Function, acquire, release, transfer []string) int {
	isIn := func(n string, l []string) bool {
		for _, x := range l {
			if x == n {
				return true
			}
		}
		return false
	}
	n := 0
	Instrs(fn, func(in ssa.Instruction) {
		call, ok := in.(*ssa.Call)
		if !ok || !isIn(CalleeName(call), acquire) {
			return
		}
		n++
		// values that carry the reference: the call result and phis/extracts fed by it
		carries := map[ssa.Value]bool{call: true}
		for changed := true; changed; {
			changed = false
			Instrs(fn, func(i2 ssa.Instruction) {
				if phi, ok := i2.(*ssa.Phi); ok && !carries[phi] {
					for _, e := range phi.Edges {
						if carries[e] {
							carries[phi] = true
							changed = true
						}
					}
				}
			})
		}
		consumes := func(i ssa.Instruction) bool {
			switch x := i.(type) {
			case ssa.CallInstruction:
				cn := CalleeName(x)
				if isIn(cn, release) || isIn(cn, transfer) {
					for _, a := range CallArgs(x) {
						if carries[a] {
							return true
						}
					}
				}
			case *ssa.Return:
				for _, r := range x.Results {
					if carries[r] {
						return true
					}
				}
			}
			return false
		}
		// DFS from the instruction after the call
		type pos struct {
			b *ssa.BasicBlock
			i int
		}
		start := pos{call.Block(), 0}
		for i, x := range call.Block().Instrs {
			if x == ssa.Instruction(call) {
				start.i = i + 1
			}
		}
		seen := map[*ssa.BasicBlock]bool{}
		var leak ssa.Instruction
		var walk func(p pos)
		walk = func(p pos) {
			if leak != nil {
				return
			}
			for i := p.i; i < len(p.b.Instrs); i++ {
				x := p.b.Instrs[i]
				if consumes(x) {
					return
				}
				if _, isRet := x.(*ssa.Return); isRet {
					leak = x
					return
				}
				if ifi, isIf := x.(*ssa.If); isIf {
					// nil test on the reference: only the non-nil edge matters
					if bo, ok := ifi.Cond.(*ssa.BinOp); ok && (bo.Op == token.EQL || bo.Op == token.NEQ) {
						var other ssa.Value
						if carries[bo.X] {
							other = bo.Y
						} else if carries[bo.Y] {
							other = bo.X
						}
						if k, isC := other.(*ssa.Const); isC && k.IsNil() {
							nonNil := 1 // false edge of ==
							if bo.Op == token.NEQ {
								nonNil = 0
							}
							s := p.b.Succs[nonNil]
							if !seen[s] {
								seen[s] = true
								walk(pos{s, 0})
							}
							return
						}
					}
				}
			}
			for _, s := range p.b.Succs {
				if !seen[s] {
					seen[s] = true
					walk(pos{s, 0})
				}
			}
		}
		walk(start)
		key := FuncName(fn) + "/ref:" + CalleeName(call) + "(" + NewTermer(fn).T(call.Call.Args[len(call.Call.Args)-1]) + ")"
		c.Check(leak == nil, rule, key, c.pos(call), "the reference is released, transferred or returned on every non-nil path", "the counted reference obtained here reaches a return (at "+posOf(c, leak)+") without being released or handed on: the endpoint's reference count never drops to zero, so a removed address keeps receiving packets")
	})
	return n
}

// TryRefBalanced: the boolean form of RefBalanced. For every call in fn of a
// try-acquire method (returns true iff it took a counted reference on its
// receiver), every path on which the result is true reaches, before any
// return, a consumer of the receiver: a release call on it, a transfer call
// with it among the arguments, or a return of it. Branches on the result (or
// on a phi/negation of it) are followed only along the acquired side.
func (c *Ctx) TryRefBalanced(rule string, fn *ssa.Function, try string, release, transfer []string) int {
	isIn := func(n string, l []string) bool {
		for _, x := range l {
			if x == n {
				return true
			}
		}
		return false
	}
	closure := func(seed ssa.Value) map[ssa.Value]bool {
		m := map[ssa.Value]bool{seed: true}
		for changed := true; changed; {
			changed = false
			Instrs(fn, func(i2 ssa.Instruction) {
				if phi, ok := i2.(*ssa.Phi); ok && !m[phi] {
					for _, e := range phi.Edges {
						if m[e] {
							m[phi] = true
							changed = true
						}
					}
				}
			})
		}
		return m
	}
	n := 0
	Instrs(fn, func(in ssa.Instruction) {
		call, ok := in.(*ssa.Call)
		if !ok || CalleeName(call) != try || len(call.Call.Args) == 0 {
			return
		}
		n++
		recv := closure(call.Call.Args[0])
		res := closure(call)
		consumes := func(i ssa.Instruction) bool {
			switch x := i.(type) {
			case ssa.CallInstruction:
				cn := CalleeName(x)
				if isIn(cn, release) || isIn(cn, transfer) {
					for _, a := range CallArgs(x) {
						if recv[a] {
							return true
						}
					}
				}
			case *ssa.Return:
				for _, r := range x.Results {
					if recv[r] {
						return true
					}
					// results spilled to a local cell around the deferred calls
					if ld, ok := r.(*ssa.UnOp); ok && ld.Op == token.MUL {
						if root, ok := ld.X.(*ssa.Alloc); ok && !root.Heap {
							if v := reachingStore(root, ld); v != nil && recv[v] {
								return true
							}
						}
					}
				}
			}
			return false
		}
		type pos struct {
			b *ssa.BasicBlock
			i int
		}
		start := pos{call.Block(), 0}
		for i, x := range call.Block().Instrs {
			if x == ssa.Instruction(call) {
				start.i = i + 1
			}
		}
		seen := map[*ssa.BasicBlock]bool{}
		var leak ssa.Instruction
		var walk func(p pos)
		walk = func(p pos) {
			if leak != nil {
				return
			}
			for i := p.i; i < len(p.b.Instrs); i++ {
				x := p.b.Instrs[i]
				if consumes(x) {
					return
				}
				if _, isRet := x.(*ssa.Return); isRet {
					leak = x
					return
				}
				if ifi, isIf := x.(*ssa.If); isIf {
					// nil test on the reference holder: it is non-nil on the acquired path
					if bo, ok := ifi.Cond.(*ssa.BinOp); ok && (bo.Op == token.EQL || bo.Op == token.NEQ) {
						var other ssa.Value
						if recv[bo.X] {
							other = bo.Y
						} else if recv[bo.Y] {
							other = bo.X
						}
						if k, isC := other.(*ssa.Const); isC && k.IsNil() {
							nonNil := 1
							if bo.Op == token.NEQ {
								nonNil = 0
							}
							s := p.b.Succs[nonNil]
							if !seen[s] {
								seen[s] = true
								walk(pos{s, 0})
							}
							return
						}
					}
					cond, neg := ifi.Cond, false
					if u, ok := cond.(*ssa.UnOp); ok && u.Op == token.NOT {
						cond, neg = u.X, true
					}
					if res[cond] {
						acquired := 0
						if neg {
							acquired = 1
						}
						s := p.b.Succs[acquired]
						if !seen[s] {
							seen[s] = true
							walk(pos{s, 0})
						}
						return
					}
				}
			}
			for _, s := range p.b.Succs {
				if !seen[s] {
					seen[s] = true
					walk(pos{s, 0})
				}
			}
		}
		walk(start)
		key := FuncName(fn) + "/tryref:" + NewTermer(fn).T(call.Call.Args[0])
		c.Check(leak == nil, rule, key, c.pos(call), "a reference taken by "+try+" is released, transferred or returned on every path on which it was taken", "the counted reference taken here (when the call returns true) reaches a return (at "+posOf(c, leak)+") without being released or handed on: the endpoint's reference count never drops to zero, so a removed address keeps receiving packets")
	})
	return n
}

func posOf(c *Ctx, in ssa.Instruction) string {
	if in == nil {
		return "?"
	}
	return c.pos(in)
}

func isBoolType(t types.Type) bool {
	b, ok := t.Underlying().(*types.Basic)
	return ok && b.Info()&types.IsBoolean != 0
}

// Owners: the reviewed functions on whose behalf code in fn runs - fn itself
// when it existed at review time, otherwise (a helper extracted later, see
// inline.go) the known functions that call it, transitively. Confinement
// rules ("only function F may store X") are evaluated against the owners, so
// extracting a helper does not move an effect outside its reviewed owner.
func (c *Ctx) Owners(fn *ssa.Function) []string {
	seen := map[*ssa.Function]bool{}
	set := map[string]bool{}
	var walk func(f *ssa.Function, depth int)
	walk = func(f *ssa.Function, depth int) {
		if seen[f] || depth > 4 {
			return
		}
		seen[f] = true
		top := f
		for top.Parent() != nil {
			top = top.Parent()
		}
		if !isNewFunc(top) {
			set[FuncName(f)] = true
			return
		}
		n := 0
		for _, g := range c.P.Funcs {
			Instrs(g, func(in ssa.Instruction) {
				if ci, ok := in.(ssa.CallInstruction); ok && ci.Common().StaticCallee() == top {
					n++
					walk(g, depth+1)
				}
			})
		}
		if n == 0 {
			set[FuncName(f)] = true // unreachable new function: stands for itself
		}
	}
	walk(fn, 0)
	var out []string
	for k := range set {
		out = append(out, k)
	}
	sort.Strings(out)
	return out
}

// ReviewedFuncs: the module functions whose own site lists are compared with
// tables - all of them except helpers that did not exist at review time and
// are analysed inline in (at least one) caller (inline.go); their effects are
// seen, with the caller's terms and guards, in the callers' lists.
func (c *Ctx) ReviewedFuncs() []*ssa.Function {
	if c.reviewed != nil {
		return c.reviewed
	}
	called := map[*ssa.Function]bool{}
	for _, fn := range c.P.Funcs {
		Instrs(fn, func(in ssa.Instruction) {
			if ci, ok := in.(*ssa.Call); ok {
				if g := ci.Common().StaticCallee(); g != nil {
					called[g] = true
				}
			}
		})
	}
	for _, fn := range c.P.Funcs {
		top := fn
		for top.Parent() != nil {
			top = top.Parent()
		}
		if inlineableSites(top) && called[top] {
			continue
		}
		c.reviewed = append(c.reviewed, fn)
	}
	return c.reviewed
}

// HeapImpl checks a container/heap implementation over a slice type: Len is
// len, Less is the given comparison, Swap exchanges exactly elements i and j,
// Push appends the pushed element, Pop returns the last element and shrinks
// the slice by one. (container/heap itself is trusted; the order it maintains
// is the order Less defines.)
func (c *Ctx) HeapImpl(rule, recvLen, recvPtr, less string) {
	// recvLen: receiver prefix of Len/Less/Swap ("tcp.segmentHeap." or "(*fragmentation.fragHeap).");
	// recvPtr: receiver prefix of Push/Pop.
	if fn := c.Fn(rule, recvLen+"Len"); fn != nil {
		c.CheckSites(rule, fn, []SiteSpec{{Kind: "return", Args: []string{"builtin:len($0)"}, Guards: []string{}, Exact: true, N: 1, Why: "Len is the number of elements"}})
	}
	if fn := c.Fn(rule, recvLen+"Less"); fn != nil {
		c.CheckSites(rule, fn, []SiteSpec{{Kind: "return", Args: []string{less}, Guards: []string{}, Exact: true, N: 1, Why: "the heap order"}})
	}
	if fn := c.Fn(rule, recvLen+"Swap"); fn != nil {
		c.CheckSites(rule, fn, []SiteSpec{
			{Kind: "elemstore", Target: "$0", Args: []string{"$1", "$0[$2]"}, Guards: []string{}, Exact: true, N: 1, Why: "h[i] = old h[j]"},
			{Kind: "elemstore", Target: "$0", Args: []string{"$2", "$0[$1]"}, Guards: []string{}, Exact: true, N: 1, Why: "h[j] = old h[i]"},
		})
	}
	var lastStore *ssa.Store
	storeToRecv := func(fn *ssa.Function) []string {
		var out []string
		t := NewTermer(fn)
		lastStore = nil
		Instrs(fn, func(in ssa.Instruction) {
			if st, ok := in.(*ssa.Store); ok && len(fn.Params) > 0 && st.Addr == ssa.Value(fn.Params[0]) {
				out = append(out, t.T(st.Val))
				lastStore = st
			}
		})
		return out
	}
	// unconditional: the store is passed on every way out of the function
	// (an element silently not stored, or not removed, breaks container/heap's
	// bookkeeping and whatever counts on the element being there)
	onEveryExit := func(fn *ssa.Function, st *ssa.Store) bool {
		if st == nil {
			return false
		}
		ok := true
		Instrs(fn, func(in ssa.Instruction) {
			if r, isRet := in.(*ssa.Return); isRet && !InstrDominates(st, r) {
				ok = false
			}
		})
		return ok
	}
	if fn := c.Fn(rule, recvPtr+"Push"); fn != nil {
		sts := storeToRecv(fn)
		ok := len(sts) == 1 && strings.HasPrefix(sts[0], "builtin:append($0, [$1.(")
		c.Check(ok, rule, FuncName(fn)+"/appends", c.P.Pos(fn.Pos()), "*h = append(*h, x)", "Push does not append exactly the pushed element: "+strings.Join(sts, "; "))
		c.Check(onEveryExit(fn, lastStore), rule, FuncName(fn)+"/appends-unconditionally", c.P.Pos(fn.Pos()), "every Push stores its element", "Push can return without storing the element")
	}
	if fn := c.Fn(rule, recvPtr+"Pop"); fn != nil {
		c.CheckSites(rule, fn, []SiteSpec{{Kind: "return", Args: []string{"$0[(builtin:len($0) - 1)]"}, Guards: []string{}, Exact: true, N: 1, Why: "Pop hands back the last element (container/heap moved the minimum there)"}})
		sts := storeToRecv(fn)
		ok := len(sts) == 1 && termEq(sts[0], "$0[:(builtin:len($0) - 1)]")
		c.Check(ok, rule, FuncName(fn)+"/shrinks-by-one", c.P.Pos(fn.Pos()), "*h = old[:n-1]", "Pop does not shrink the heap by exactly its last element: "+strings.Join(sts, "; "))
		c.Check(onEveryExit(fn, lastStore), rule, FuncName(fn)+"/shrinks-unconditionally", c.P.Pos(fn.Pos()), "every Pop removes its element", "Pop can return without removing the element")
	}
}

// RetSpec / Returns: closed table of a small function's return sites.
type RetSpec struct {
	Args   []string
	Guards []string
	Why    string
}

func (c *Ctx) Returns(rule, fname string, rets ...RetSpec) {
	fn := c.Fn(rule, fname)
	if fn == nil {
		return
	}
	var sp []SiteSpec
	for _, r := range rets {
		g := r.Guards
		if g == nil {
			g = []string{}
		}
		sp = append(sp, SiteSpec{Kind: "return", Args: r.Args, Guards: g, Exact: true, N: 1, Why: r.Why})
	}
	c.CheckSites(rule, fn, sp)
}

// ZeroOnlyUnder: the value v (followed through phis) can be the constant zero
// only on phi edges whose predecessor block is guarded by the literal `under`.
// Used where a local starts at 0 and must have been overwritten on every other
// way to its use (udp Connect's localPort: 0 only for an unbound endpoint).
func ZeroOnlyUnder(fn *ssa.Function, v ssa.Value, under string) (bool, string) {
	gi := guardIndex(fn)
	seen := map[ssa.Value]bool{}
	bad := ""
	var walk func(x ssa.Value)
	walk = func(x ssa.Value) {
		if seen[x] || bad != "" {
			return
		}
		seen[x] = true
		phi, ok := x.(*ssa.Phi)
		if !ok {
			return
		}
		for i, e := range phi.Edges {
			if k, isC := e.(*ssa.Const); isC && k.Value != nil && k.Value.ExactString() == "0" {
				pred := phi.Block().Preds[i]
				has := false
				lits := append([]string{}, gi[pred.Index]...)
				// the condition of the very edge pred -> phi block
				for _, ce := range CondEdges(fn) {
					if ce.From == pred && ce.Succ < len(pred.Succs) && pred.Succs[ce.Succ] == phi.Block() {
						l := ce.Atom
						if !ce.Holds {
							l = "!" + l
						}
						lits = append(lits, l)
					}
				}
				for _, g := range lits {
					if termEq(g, under) {
						has = true
					}
				}
				if !has {
					bad = "the zero value arrives from block " + itoa(pred.Index) + " guarded by [" + strings.Join(lits, " && ") + "]"
				}
				continue
			}
			walk(e)
		}
	}
	walk(v)
	return bad == "", bad
}

// ErrNilImplies: is the block guarded by a test "v == nil" (taken) where v is
// the error result of a call of `callee`, or a phi every alternative of which
// is either such a result or an error value that is known non-nil on the edge
// that carries it into the phi (so v == nil can only mean the callee's error
// was nil)? Tolerates "if err == nil { err = f() }; if err != nil {...}".
func ErrNilImplies(fn *ssa.Function, target *ssa.BasicBlock, callee string) bool {
	isCalleeErr := func(v ssa.Value) bool {
		switch x := v.(type) {
		case *ssa.Call:
			return CalleeName(x) == callee
		case *ssa.Extract:
			if call, ok := x.Tuple.(*ssa.Call); ok {
				return CalleeName(call) == callee
			}
		}
		return false
	}
	gi := guardIndex(fn)
	t := NewTermer(fn)
	var okVal func(v ssa.Value, depth int) bool
	okVal = func(v ssa.Value, depth int) bool {
		if isCalleeErr(v) {
			return true
		}
		phi, ok := v.(*ssa.Phi)
		if !ok || depth > 3 {
			return false
		}
		for i, e := range phi.Edges {
			if okVal(e, depth+1) {
				continue
			}
			// known non-nil on its edge?
			pred := phi.Block().Preds[i]
			lits := append([]string{}, gi[pred.Index]...)
			for _, ce := range CondEdges(fn) {
				if ce.From == pred && ce.Succ < len(pred.Succs) && pred.Succs[ce.Succ] == phi.Block() {
					l := ce.Atom
					if !ce.Holds {
						l = "!" + l
					}
					lits = append(lits, l)
				}
			}
			want := "!(" + t.T(e) + " == nil)"
			found := false
			for _, l := range lits {
				if termEq(l, want) {
					found = true
				}
			}
			if !found {
				return false
			}
		}
		return true
	}
	return GuardedBy(fn, target, func(e Edge) bool {
		bo, ok := e.Cond.(*ssa.BinOp)
		if !ok || (bo.Op != token.EQL && bo.Op != token.NEQ) {
			return false
		}
		var v ssa.Value
		if k, isC := bo.Y.(*ssa.Const); isC && k.IsNil() {
			v = bo.X
		} else if k, isC := bo.X.(*ssa.Const); isC && k.IsNil() {
			v = bo.Y
		} else {
			return false
		}
		// the edge on which v == nil holds
		isNilEdge := (bo.Op == token.EQL && e.Succ == 0) || (bo.Op == token.NEQ && e.Succ == 1)
		return isNilEdge && okVal(v, 0)
	})
}
