package np

import (
	"strings"

	"golang.org/x/tools/go/ssa"
)

func init() { register("C08", propC08) }

func propC08(c *Ctx) {
	c.Explanation = "Decides structural necessary conditions of IPv4 reassembly for all inputs and schedules: (F1) Fragmentation.{reassemblers,rList,size} and reassembler.{holes,deleted,heap,done,size} are accessed only under their mutexes and lookup-or-create of the reassembler is one critical section; (F2) a fragment is stored only when it filled part of a hole, the datagram is handed up (done) only when every hole is deleted and the heap reassembled without error, and a failed reassembly drops the datagram instead of panicking; (F3) an existing reassembler is reused only when it is not older than the timeout; (F4) the reassembly key is computed from all four of identification, protocol, source and destination, and ipv4.HandlePacket passes first = fragment offset, last = offset + payload size - 1, more = MF bit, taking the fragment path exactly when MF is set or the offset is non-zero; (F5) memory accounting moves with the stored bytes; (F6) RFC 815 hole bookkeeping in updateHoles: the exact site table (which hole is deleted under which overlap condition, which remainder holes are created with which bounds) and (F7) reassemble: fragments are merged in heap (offset) order, every popped fragment is either appended (after trimming exactly the overlap size-offset) or the whole reassembly fails on a gap - no fragment is skipped. (F9) link typestate of the reassembler list; F6 also tables the reassembler's initial hole 0..65535. (F10) the fragment heap's container/heap implementation over the fragment offset. (F11) the reassembler LRU list is a correct doubly-linked list; F4 also requires Hash3Words to depend on all three key words; F2 tables tooOld. (F12) the fragment fields are read from exactly the RFC 791/8200 bits (bit-provenance, shared with C15/B1). (F13) a fresh reassembler is aged from now with an empty heap, and the remainders of a split hole are stored back into the live hole list. (F14) a fragment is cut at exactly its IP length before it is stored (shared with C16/V2); F10 also requires that Push stores and Pop removes on every way out. (F15) package fragmentation narrows nothing and ipv4 only at the reviewed places. (F16) VectorisedView.TrimFront, with which the reassembly loop cuts the overlapping front of a fragment, removes exactly the requested bytes however many chunks they span (shared with C16/V2). NOT decided: the algebra of the hole list over all fragment sequences (that the bookkeeping is sufficient), 32-bit key collisions between datagrams."
	c.Assumptions = []string{"container/heap orders by fragHeap.Less", "reassembler.size is only read by release after checkDoneOrMark, which is a barrier on reassembler.mu (exception with reason)"}
	fr := "(*fragmentation.reassembler)."
	f12 := c.Rule("F12", "K9 bitprov (shared with C15/B1)", "the fragment fields (IPv4 IHL, total length, id, flags, fragment offset, protocol; IPv6 fragment header) are read from exactly the RFC 791/8200 bits", 9)
	c.fieldAccessorLayouts(f12, &bitprov{p: c.P}, func(f fieldLayout) bool {
		if f.Typ == "IPv6Fragment" {
			return true
		}
		return f.Typ == "IPv4" && (f.Field == "IHL" || f.Field == "TotalLength" || f.Field == "Identification" || f.Field == "Flags" || f.Field == "FragmentOffset" || f.Field == "Protocol")
	})
	reassemblerStateRule(c, c.Rule("F13", "K7 exact-guard site tables", "a fresh reassembler is aged from now with an empty heap; hole remainders are stored back into the live list", 4))
	vvCapLengthRule(c, c.Rule("F14", "K7 exact-guard site table (shared with C16/V2)", "a fragment is cut at exactly its IP length before it is stored", 4))
	vvTrimFrontRule(c, c.Rule("F16", "K7 exact-guard site tables (shared with C16/V2)", "the overlap cut off a fragment during reassembly is exactly the requested number of bytes, however many chunks it spans", 5))
	c.NoNewNarrowing(c.Rule("F15", "K8 narrowing (closed world, reviewed table)", "fragment offsets and lengths: package fragmentation narrows nothing, ipv4 only at the reviewed places", 5), []string{"/network/fragmentation", "/network/ipv4", "/network/hash"}, narrowIP)
	f1 := c.Rule("F1", "K4 lockset", "fragmentation state only under its mutexes", 30)
	c.Locks().CheckGuards(c, f1, guardsFrag, []Exception{
		{Fn: "(*fragmentation.Fragmentation).release", Field: "size", Reason: "read after r.checkDoneOrMark(), which locks/unlocks r.mu and marks the reassembler done: no later process() mutates size (process returns at once when done)"},
	})

	f2 := c.Rule("F2", "K9 path table + site table", "store only useful fragments; done only when complete; fail soft", 8)
	reassemblerProcessRule(c, f2)
	if fn := c.Fn(f2, "(*fragmentation.Fragmentation).Process"); fn != nil {
		ps, es := WalkPaths(fn, 400)
		if es != "" {
			c.Bad(f2, FuncName(fn)+"/undecided", c.P.Pos(fn.Pos()), es)
		}
		// F3 + lookup-or-create: along every path, the reassembler handed to process()
		c.Rule("F3", "K9 path table", "old reassemblers are never combined with newer fragments", 2)
		n := 0
		for _, p := range ps {
			for _, e := range p.Effects {
				if !strings.HasPrefix(e, "call "+fr+"process(") {
					continue
				}
				n++
				has := func(l string) bool {
					for _, x := range p.Conds {
						if x == l {
							return true
						}
					}
					return false
				}
				switch {
				case strings.HasPrefix(e, "call "+fr+"process($0.reassemblers[$1]#0, $2, $3, $4, $5)"):
					ok := has("$0.reassemblers[$1]#1") && has("!"+fr+"tooOld($0.reassemblers[$1]#0, $0.timeout)")
					c.Check(ok, "F3", "(*fragmentation.Fragmentation).Process/reuse-only-if-fresh", c.P.Pos(fn.Pos()), "existing reassembler used only when found and not too old", "an existing reassembler is used on a path where it was not found or is older than the timeout: ["+strings.Join(p.Conds, " && ")+"]")
				case strings.HasPrefix(e, "call "+fr+"process(fragmentation.newReassembler($1), $2, $3, $4, $5)"):
					// must have been published in the map and list on this path
					pub := false
					for _, e2 := range p.Effects {
						if e2 == "mapupdate $0.reassemblers[$1] = fragmentation.newReassembler($1)" {
							pub = true
						}
					}
					c.Check(pub, "F3", "(*fragmentation.Fragmentation).Process/new-is-registered", c.P.Pos(fn.Pos()), "a new reassembler is registered under the datagram's key before use", "a new reassembler is used without being registered under the key")
				default:
					c.Bad("F3", "(*fragmentation.Fragmentation).Process/process-arg:"+e, c.P.Pos(fn.Pos()), "process() is called on something other than the looked-up or the freshly created reassembler, or with altered fragment bounds")
				}
			}
		}
		if n == 0 {
			c.Bad("F3", "(*fragmentation.Fragmentation).Process/no-process-call", c.P.Pos(fn.Pos()), "Process no longer calls reassembler.process")
		}
		// K4a: lookup-or-create is one critical section
		look := c.Calls(fn, Is("fragmentation.newReassembler"), false)
		for _, l := range look {
			held := false
			for _, h := range c.Locks().At[l.(ssa.Instruction)] {
				if h.Class == "fragmentation.Fragmentation.mu" {
					held = true
				}
			}
			c.Check(held, f2, FuncName(fn)+"/create-under-lock", c.pos(l), "reassembler created under Fragmentation.mu", "reassembler created outside Fragmentation.mu")
		}
		// release on done or error
		c.CheckSites(f2, fn, []SiteSpec{
			{Kind: "store", Target: "fragmentation.Fragmentation.size", Args: []string{"$0", "($0.size + " + fr + "process(phi{$0.reassemblers[$1]#0 | fragmentation.newReassembler($1)}, $2, $3, $4, $5)#2)"}, N: 1, Why: "global accounting grows by what process() consumed"},
		})
	}

	f4 := c.Rule("F4", "K5", "key from id, protocol, source, destination; first/last/more from the header", 6)
	fragmentKeyRule(c, f4)
	ipv4InboundRule(c, f4)

	f6 := c.Rule("F6", "K9 site table (exact guards)", "RFC 815 hole bookkeeping", 4)
	if fn := c.Fn(f6, fr+"updateHoles"); fn != nil {
		// "@u": the field is re-assigned (append) / written inside the loop, so every load in the body is its own version
		m := map[string]string{"HOLE": "$0.holes@u[(1 + phi{-1 | loop})]", "IN": "((1 + phi{-1 | loop}) < builtin:len($0.holes))"}
		overlap := sub(m, "{IN}", "!{HOLE}.deleted@u", "!({HOLE}.last@u < $1)", "!($2 < {HOLE}.first@u)")
		c.CheckSites(f6, fn, []SiteSpec{
			{Kind: "store", Target: "fragmentation.hole.deleted", Args: sub(m, "{HOLE}", "true"), Guards: overlap, Exact: true, N: 1, Why: "a live hole is deleted exactly when the fragment overlaps it (first <= hole.last && last >= hole.first)"},
			{Kind: "store", Target: "fragmentation.reassembler.deleted", Args: []string{"$0", "($0.deleted@u + 1)"}, Guards: overlap, Exact: true, N: 1, Why: "deleted counter moves with the deletion"},
			{Kind: "call", Target: "builtin:append", Args: sub(m, "$0.holes@u", "[fragmentation.hole{first: {HOLE}.first@u, last: ($1 - 1), deleted: false}]"), Guards: append(append([]string{}, overlap...), sub(m, "({HOLE}.first@u < $1)")...), Exact: true, N: 1, Why: "left remainder [hole.first, first-1] kept when the fragment starts inside the hole"},
			{Kind: "call", Target: "builtin:append", Args: sub(m, "$0.holes@u", "[fragmentation.hole{first: ($2 + 1), last: {HOLE}.last@u, deleted: false}]"), Guards: append(append([]string{}, overlap...), sub(m, "($2 < {HOLE}.last@u)", "$3")...), Exact: true, N: 1, Why: "right remainder [last+1, hole.last] kept when the fragment ends inside the hole and more fragments follow"},
		})
	}

	if fn := c.Fn(f6, "fragmentation.newReassembler"); fn != nil {
		c.CheckSitesPresent(f6, fn, []SiteSpec{
			{Kind: "store", Target: "fragmentation.reassembler.holes", Args: []string{"new(fragmentation.reassembler)", "builtin:append(new(fragmentation.reassembler).holes@5, [fragmentation.hole{first: 0, last: 65535, deleted: false}])"}, Guards: []string{}, Exact: true, N: 1, Why: "RFC 815: reassembly starts with ONE hole covering the whole datagram, 0..65535"},
			{Kind: "store", Target: "fragmentation.reassembler.deleted", Args: []string{"new(fragmentation.reassembler)", "0"}, Guards: []string{}, Exact: true, N: 1, Why: "no hole is deleted yet: done is deleted == len(holes)"},
			{Kind: "store", Target: "fragmentation.reassembler.id", Args: []string{"new(fragmentation.reassembler)", "$0"}, Guards: []string{}, Exact: true, N: 1, Why: "the reassembler remembers the key it is stored under (release deletes by it)"},
		})
	}

	c.Returns(f2, "(*fragmentation.reassembler).tooOld", RetSpec{Args: []string{"($1 < time.Time.Sub(time.Now(), $0.creationTime))"}, Why: "too old = strictly more than the timeout has passed since the reassembler was created"})

	f11 := c.Rule("F11", "K7 site tables (closed)", "the reassembler LRU list is a correct doubly-linked list: PushFront, Remove, Back, links", 15)
	c.ListImpl(f11, "fragmentation", "reassemblerList", "reassemblerEntry", "reassemblerElementMapper", "PushFront", "Remove")

	f10 := c.Rule("F10", "K9 site tables (closed)", "the fragment heap is a heap over the fragment offset: Len/Less/Swap/Push/Pop", 7)
	c.HeapImpl(f10, "(*fragmentation.fragHeap).", "(*fragmentation.fragHeap).", "($0[$1].offset < $0[$2].offset)")

	f9 := c.Rule("F9", "typestate", "a reassembler's list links are not read after its removal unless Remove preserves them (eviction walks from the tail)", 1)
	c.LinkTypestate(f9, "fragmentation.reassemblerList", "fragmentation.reassemblerEntry")

	f8 := c.Rule("F8", "K5 alias freshness", "hole records are read and written in the live hole list", 2)
	for _, n := range []string{fr + "updateHoles", fr + "process"} {
		if fn := c.Fn(f8, n); fn != nil {
			c.NoStaleSliceAlias(f8, fn, "fragmentation.reassembler", "holes")
		}
	}

	f7 := c.Rule("F7", "K2 per-iteration must-follow + site table", "merge in offset order, no fragment skipped, overlap trimmed exactly", 5)
	if fn := c.Fn(f7, "(*fragmentation.fragHeap).reassemble"); fn != nil {
		m := map[string]string{"CUR": "new(fragmentation.fragment)", "SIZE": "phi{(buffer.VectorisedView.Size({CUR}.vv@u) + loop) | buffer.VectorisedView.Size(container/heap.Pop($0).(fragmentation.fragment).vv)}"}
		c.CheckSites(f7, fn, []SiteSpec{
			{Kind: "call", Target: "(*buffer.VectorisedView).TrimFront", Args: sub(m, "&{CUR}.vv", "({SIZE} - {CUR}.offset@u)"), Guards: sub(m, "({CUR}.offset@u < {SIZE})"), N: 1, Why: "an overlapping fragment loses exactly the bytes already assembled (size - offset)"},
			{Kind: "call", Target: "builtin:append", Args: []string{"*", sub(m, "buffer.VectorisedView.Views({CUR}.vv@u)")[0]}, N: 1, Why: "the fragment's views are appended"},
		})
		pops := c.Calls(fn, Is("container/heap.Pop"), false)
		c.Check(len(pops) == 2, f7, FuncName(fn)+"/pop-sites", c.P.Pos(fn.Pos()), "first fragment + loop pop", "unexpected number of heap.Pop sites")
		for _, p := range pops {
			if len(Sites(fn)) == 0 {
				continue
			}
			inLoop := false
			for _, g := range guardIndex(fn)[p.Block().Index] {
				if strings.Contains(g, "(*fragmentation.fragHeap).Len($0)") {
					inLoop = true
				}
			}
			if !inLoop {
				continue
			}
			// after popping inside the loop: append, or an error return, before the next iteration or the final return
			isAppend := func(in ssa.Instruction) bool {
				ci, ok := in.(*ssa.Call)
				return ok && CalleeName(ci) == "builtin:append"
			}
			isErrReturn := func(in ssa.Instruction) bool {
				r, ok := in.(*ssa.Return)
				return ok && len(r.Results) == 2 && Term(r.Results[1]) != "nil"
			}
			bad := ReachAvoiding(fn, p.(ssa.Instruction), func(in ssa.Instruction) bool { return isAppend(in) || isErrReturn(in) }, func(in ssa.Instruction) bool {
				if in == p.(ssa.Instruction) {
					return true // next iteration reached
				}
				_, isRet := in.(*ssa.Return)
				return isRet
			})
			c.Check(bad == nil, f7, FuncName(fn)+"/every-popped-fragment-merged-or-fatal", c.pos(p), "each popped fragment is appended or the reassembly fails", "a popped fragment can be dropped silently (next iteration or successful return reached without appending it)")
		}
		// the gap test exists and leads to an error return
		gap := sub(m, "({SIZE} < {CUR}.offset@u)")[0]
		found := false
		for _, e := range CondEdges(fn) {
			if e.Atom == gap && e.Holds {
				found = true
				first := e.From.Succs[e.Succ].Instrs[0]
				bad := ReachAvoiding(fn, first, func(in ssa.Instruction) bool {
					r, ok := in.(*ssa.Return)
					return ok && len(r.Results) == 2 && Term(r.Results[1]) != "nil"
				}, func(in ssa.Instruction) bool {
					ci, ok := in.(*ssa.Call)
					return (ok && CalleeName(ci) == "builtin:append") || func() bool { r, ok := in.(*ssa.Return); return ok && Term(r.Results[1]) == "nil" }()
				})
				c.Check(bad == nil && !isAppendFirst(first), f7, FuncName(fn)+"/gap-is-fatal", c.pos(first), "offset > size (a hole) fails the reassembly", "a gap between fragments does not fail the reassembly")
			}
		}
		c.Check(found, f7, FuncName(fn)+"/gap-test", c.P.Pos(fn.Pos()), "tests offset > assembled size", "no longer tests for a gap (offset > assembled size)")
		if less := c.Fn(f7, "(*fragmentation.fragHeap).Less"); less != nil {
			for _, s := range Sites(less) {
				if s.Kind == "return" {
					c.Check(s.Args[0] == "($0[$1].offset < $0[$2].offset)", f7, FuncName(less)+"/order", c.pos(s.Instr), "heap ordered by fragment offset", "heap order is "+s.Args[0])
				}
			}
		}
	}
}

func isAppendFirst(in ssa.Instruction) bool {
	ci, ok := in.(*ssa.Call)
	return ok && CalleeName(ci) == "builtin:append"
}

// splitTop splits a comma-separated list at nesting depth 0.
func splitTop(s string) []string {
	var out []string
	depth := 0
	start := 0
	inStr := false
	for i := 0; i < len(s); i++ {
		ch := s[i]
		if ch == '"' && (i == 0 || s[i-1] != '\\') {
			inStr = !inStr
		}
		if inStr {
			continue
		}
		switch ch {
		case '(', '[', '{':
			depth++
		case ')', ']', '}':
			depth--
		case ',':
			if depth == 0 {
				out = append(out, strings.TrimSpace(s[start:i]))
				start = i + 1
			}
		}
	}
	out = append(out, strings.TrimSpace(s[start:]))
	return out
}

// fragmentKeyRule: the IPv4 reassembly key depends on the identification,
// the protocol and ALL bytes of the source and of the destination address
// (RFC 791). Shared by C08 (F4), C11 (U8) and C13 (I6): a datagram handed to a
// UDP socket or answered as an echo is the payload of ONE sender's datagram
// only if fragments of different senders never share a reassembly queue.
func fragmentKeyRule(c *Ctx, f4 string) {
	if fn := c.Fn(f4, "hash.IPv4FragmentHash"); fn != nil {
		for _, s := range Sites(fn) {
			if s.Kind != "return" {
				continue
			}
			v := s.Instr.(*ssa.Return).Results[0]
			for _, need := range []string{"header.IPv4.ID", "header.IPv4.Protocol", "header.IPv4.SourceAddress", "header.IPv4.DestinationAddress"} {
				c.Check(SliceHasCall(v, need), f4, FuncName(fn)+"/key-uses:"+need, c.pos(s.Instr), "key depends on "+need, "reassembly key no longer depends on "+need+": datagrams differing only there are mixed")
			}
		}
		c.CheckSites(f4, fn, []SiteSpec{{Kind: "call", Target: "hash.Hash3Words", Args: []string{
			"((header.IPv4.ID($0) << 16) | header.IPv4.Protocol($0))",
			"((((header.IPv4.SourceAddress($0)[1] << 8) | header.IPv4.SourceAddress($0)[0]) | (header.IPv4.SourceAddress($0)[2] << 16)) | (header.IPv4.SourceAddress($0)[3] << 24))",
			"((((header.IPv4.DestinationAddress($0)[1] << 8) | header.IPv4.DestinationAddress($0)[0]) | (header.IPv4.DestinationAddress($0)[2] << 16)) | (header.IPv4.DestinationAddress($0)[3] << 24))",
			"hash.hashIV"}, N: 1, Why: "id and protocol in one word (disjoint bit ranges), all four source bytes, all four destination bytes"}})
	}
	// the mixing function itself must look at all three key words
	if fn := c.Fn(f4, "hash.Hash3Words"); fn != nil {
		for _, st := range Sites(fn) {
			if st.Kind != "return" || len(st.Args) != 1 {
				continue
			}
			for i, what := range []string{"$0 (id/protocol word)", "$1 (source word)", "$2 (destination word)"} {
				par := "$" + itoa(i)
				c.Check(strings.Contains(st.Args[0], par+" ") || strings.Contains(st.Args[0], "("+par), f4, FuncName(fn)+"/mixes:"+par, c.pos(st.Instr), "the hash depends on "+what, "the hash no longer depends on "+what+": datagrams differing only there share a reassembly queue")
			}
		}
	}
}

// ipv4InboundRule: what ipv4.HandlePacket hands up - after validation the IP
// header is removed by ITS OWN length (options included), the payload is capped
// to total length - header length on every path (fragments too: link padding
// never enters reassembly or a datagram), fragments go through reassembly with
// first/last/more from the header, and the (reassembled) payload is delivered
// under the header's protocol. Shared by C08 (F4), C11 (U12: a UDP datagram is
// delivered byte for byte) and C13 (I8: an echo request's payload is what was
// sent).
func ipv4InboundRule(c *Ctx, f4 string) {
	if fn := c.Fn(f4, "(*ipv4.endpoint).HandlePacket"); fn != nil {
		m := map[string]string{"VV": "$2", "VVP": "new(buffer.VectorisedView)@3", "VVR": "new(buffer.VectorisedView)@u", "H": "buffer.VectorisedView.First({VV})", "OFF": "header.IPv4.FragmentOffset({H})", "MF": "(1 & header.IPv4.Flags({H}))", "VALID": "header.IPv4.IsValid({H}, buffer.VectorisedView.Size({VV}))"}
		c.CheckSites(f4, fn, []SiteSpec{
			{Kind: "call", Target: "(*fragmentation.Fragmentation).Process", Args: sub(m, "$0.fragmentation", "hash.IPv4FragmentHash({H})", "{OFF}", "((buffer.VectorisedView.Size({VVP}) + {OFF}) - 1)", "({MF} != 0)", "{VVP}"), Guards: sub(m, "{VALID}"), N: 1, Why: "first = fragment offset, last = offset + size - 1, more = MF bit, key from this header"},
			{Kind: "call", Target: "(*buffer.VectorisedView).TrimFront", Args: sub(m, "&new(buffer.VectorisedView)", "header.IPv4.HeaderLength({H})"), Guards: sub(m, "{VALID}"), N: 1, Why: "IP header removed (header length) after validation"},
			{Kind: "call", Target: "(*buffer.VectorisedView).CapLength", Args: sub(m, "&new(buffer.VectorisedView)", "(header.IPv4.TotalLength({H}) - header.IPv4.HeaderLength({H}))"), Guards: sub(m, "{VALID}"), N: 1, Why: "payload capped to total length - header length"},
			{Kind: "call", Target: "iface:stack.TransportDispatcher.DeliverTransportPacket", Args: sub(m, "$0.dispatcher", "$1", "header.IPv4.TransportProtocol({H})", "{VVR}"), Guards: sub(m, "{VALID}"), N: 1, Why: "delivery of the (possibly reassembled) payload"},
		})
		for _, pc := range c.Calls(fn, Is("(*fragmentation.Fragmentation).Process"), false) {
			// fragment path exactly when MF set or offset != 0
			ok := GuardedBy(fn, pc.Block(), AnyOf(AtomIs(false, Exactly(sub(m, "({MF} == 0)")[0])), AtomIs(false, Exactly(sub(m, "(0 == {OFF})")[0]))))
			c.Check(ok, f4, FuncName(fn)+"/fragment-detection", c.pos(pc), "reassembly path taken only when MF!=0 or offset!=0", "reassembly path not guarded by MF!=0 || offset!=0")
			// and delivery of a fragment only after ready
			for _, dc := range c.Calls(fn, Is("iface:stack.TransportDispatcher.DeliverTransportPacket", "(*ipv4.endpoint).handleICMP"), false) {
				ok := ReachAvoiding(fn, pc.(ssa.Instruction), nil, func(in ssa.Instruction) bool { return in == dc.(ssa.Instruction) }) != nil
				_ = ok
			}
			// on the fragment path a not-ready result returns without delivering
			bad := reachAvoidingEdges(fn, pc.(ssa.Instruction), nil, func(in ssa.Instruction) bool {
				ci, ok := in.(ssa.CallInstruction)
				return ok && (CalleeName(ci) == "iface:stack.TransportDispatcher.DeliverTransportPacket" || CalleeName(ci) == "(*ipv4.endpoint).handleICMP")
			}, func(e Edge) bool {
				return strings.Contains(e.Atom, "(*fragmentation.Fragmentation).Process(") && strings.HasSuffix(e.Atom, "#1") && e.Holds
			})
			c.Check(bad == nil, f4, FuncName(fn)+"/incomplete-delivers-nothing", c.pos(pc), "nothing is delivered unless Process reported ready", "a path delivers although Process did not report a complete datagram")
		}
		// not-fragment path must skip Process entirely: literal atoms exist
		atoms := map[string]bool{}
		for _, e := range CondEdges(fn) {
			atoms[e.Atom] = true
		}
		c.Check(atoms[sub(m, "({MF} == 0)")[0]] && atoms[sub(m, "(0 == {OFF})")[0]], f4, FuncName(fn)+"/tests-mf-and-offset", c.P.Pos(fn.Pos()), "tests the MF bit and the fragment offset", "no longer tests both the MF bit and the fragment offset")
	}
}

// reassemblerProcessRule: a fragment is stored (through container/heap, so
// that reassembly can pop in offset order) exactly when it filled part of a
// hole; the datagram is handed up only when every hole is deleted and the
// heap reassembled without error. Shared by C08/F2 and C13/I12 (fragmented
// echo requests).
func reassemblerProcessRule(c *Ctx, f2 string) {
	fr := "(*fragmentation.reassembler)."
	if fn := c.Fn(f2, fr+"process"); fn != nil {
		c.CheckSites(f2, fn, []SiteSpec{
			{Kind: "call", Target: "container/heap.Push", Args: []string{"&$0.heap", "fragmentation.fragment{offset: $1, vv: buffer.VectorisedView.Clone($4, nil)}"}, Guards: []string{"!$0.done", fr + "updateHoles($0, $1, $2, $3)"}, Exact: true, N: 1, Why: "a fragment is stored (as its own clone, keyed by its first offset) exactly when it filled part of a hole"},
			{Kind: "call", Target: fr + "updateHoles", Args: []string{"$0", "$1", "$2", "$3"}, Guards: []string{"!$0.done"}, Exact: true, N: 1, Why: "hole list updated with (first,last,more) as given"},
			{Kind: "call", Target: "(*fragmentation.fragHeap).reassemble", Args: []string{"&$0.heap"}, Guards: []string{"!$0.done", "!($0.deleted < builtin:len($0.holes))"}, Exact: true, N: 1, Why: "reassembly attempted only when every hole is deleted"},
			{Kind: "store", Target: "fragmentation.reassembler.size", Args: []string{"$0", "($0.size + buffer.VectorisedView.Size($4))"}, Guards: []string{fr + "updateHoles($0, $1, $2, $3)"}, N: 1, Why: "accounting grows by the stored fragment's size"},
		})
		ps, es := WalkPaths(fn, 64)
		if es != "" {
			c.Bad(f2, FuncName(fn)+"/undecided", c.P.Pos(fn.Pos()), es)
		}
		nDone := 0
		for _, p := range ps {
			if !strings.HasPrefix(p.Result, "return ") {
				c.Bad(f2, FuncName(fn)+"/path-result:"+p.Result, c.P.Pos(fn.Pos()), "process must return on every path (a panic here is reachable from the network)")
				continue
			}
			parts := splitTop(strings.TrimPrefix(p.Result, "return "))
			if len(parts) != 4 {
				c.Bad(f2, FuncName(fn)+"/result-arity", c.P.Pos(fn.Pos()), "unexpected result list "+p.Result)
				continue
			}
			has := func(l string) bool {
				for _, x := range p.Conds {
					if x == l {
						return true
					}
				}
				return false
			}
			if parts[1] == "true" {
				nDone++
				ok := has("!($0.deleted < builtin:len($0.holes))") && has("((*fragmentation.fragHeap).reassemble(&$0.heap)#1 == nil)") && has("!$0.done") && parts[0] == "(*fragmentation.fragHeap).reassemble(&$0.heap)#0" && parts[3] == "nil"
				c.Check(ok, f2, FuncName(fn)+"/done-path", c.P.Pos(fn.Pos()), "done=true only with all holes deleted, reassemble()==nil, returning its result", "a path reports done=true without a complete, error-free reassembly: ["+strings.Join(p.Conds, " && ")+"] => "+p.Result)
			} else if parts[1] != "false" {
				c.Bad(f2, FuncName(fn)+"/done-not-constant:"+parts[1], c.P.Pos(fn.Pos()), "done result is not a constant decided by the hole test")
			}
			if has("$0.done") {
				c.Check(len(p.Effects) <= 3 && parts[2] == "0", f2, FuncName(fn)+"/already-done-path", c.P.Pos(fn.Pos()), "a finished reassembler ignores further fragments", "a reassembler already marked done still processes fragments")
			}
		}
		c.Check(nDone >= 1, f2, FuncName(fn)+"/has-done-path", c.P.Pos(fn.Pos()), "a path hands the datagram up", "no path hands a complete datagram up any more")
	}
}
