package np

import (
	"fmt"
	"strings"

	"golang.org/x/tools/go/ssa"
)

// DumpFn prints the rule-author's view of a function: blocks, branch atoms,
// calls with argument terms, stores with value terms, returns.
func (p *Program) DumpFn(fn *ssa.Function) {
	fmt.Printf("== %s  %s\n", FuncName(fn), p.Pos(fn.Pos()))
	t := NewTermer(fn)
	for _, b := range fn.Blocks {
		var succ []string
		for _, s := range b.Succs {
			succ = append(succ, fmt.Sprint(s.Index))
		}
		fmt.Printf(" b%d (%s) -> %s\n", b.Index, b.Comment, strings.Join(succ, ","))
		for _, in := range b.Instrs {
			switch x := in.(type) {
			case *ssa.If:
				a, pol := condAtom(t, x.Cond)
				fmt.Printf("    if %s is %v -> b%d else b%d   [%s]\n", a, pol, b.Succs[0].Index, b.Succs[1].Index, p.Pos(x.Cond.Pos()))
			case ssa.CallInstruction:
				var as []string
				for _, a := range CallArgs(x) {
					as = append(as, t.T(a))
				}
				kind := "call"
				if _, ok := in.(*ssa.Defer); ok {
					kind = "defer"
				}
				if _, ok := in.(*ssa.Go); ok {
					kind = "go"
				}
				fmt.Printf("    %s %s(%s)   [%s]\n", kind, CalleeName(x), strings.Join(as, ", "), p.Pos(in.Pos()))
			case *ssa.Store:
				fmt.Printf("    store %s = %s   [%s]\n", t.path(x.Addr), t.T(x.Val), p.Pos(in.Pos()))
			case *ssa.Return:
				var rs []string
				for _, r := range x.Results {
					rs = append(rs, t.T(r))
				}
				fmt.Printf("    return %s\n", strings.Join(rs, ", "))
			case *ssa.Panic:
				fmt.Printf("    panic %s   [%s]\n", t.T(x.X), p.Pos(in.Pos()))
			case *ssa.Send:
				fmt.Printf("    send %s <- %s\n", t.T(x.Chan), t.T(x.X))
			case *ssa.Select:
				fmt.Printf("    select blocking=%v states=%d\n", x.Blocking, len(x.States))
			case *ssa.MapUpdate:
				fmt.Printf("    mapupdate %s[%s] = %s\n", t.T(x.Map), t.T(x.Key), t.T(x.Value))
			}
		}
	}
}
