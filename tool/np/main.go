package np

import (
	"flag"
	"fmt"
	"sort"
	"strings"
	"time"
)

var registry = map[string]func(*Ctx){}

func register(id string, f func(*Ctx)) { registry[id] = f }

func Main(args []string) int {
	fs := flag.NewFlagSet("npcheck", flag.ContinueOnError)
	prop := fs.String("prop", "", "property id (C01..C20)")
	tier := fs.String("tier", "quick", "quick|thorough")
	repo := fs.String("repo", "/repo", "repository root")
	dump := fs.String("dump", "", "debug: funcs | fn:<substring>")
	noEv := fs.Bool("no-evidence", false, "do not write evidence files")
	goarch := fs.String("goarch", "", "analyse the build configuration of this GOARCH (default: host)")
	replay := fs.String("replay", "", "re-evaluate the obligation recorded in this violation file against the current tree")
	matrixSeed := fs.String("matrix-seed", "", "dev: with -matrix, only this seeded change (directory name under /verif/seeded)")
	matrix := fs.Bool("matrix", false, "dev: apply every confirmed seeded change as an overlay and run every property on it; prints which rules report it")
	unmentioned := fs.Bool("unmentioned", false, "dev: run every property and list, for each function that has a site table, the effects no table row mentions")
	uncovered := fs.Bool("uncovered", false, "dev: after the run list the functions of the property's anchor files that no obligation refers to (by key or position)")
	list := fs.String("list", "", "dev: after the run print every obligation whose key contains the value (rule, status, key, position)")
	battery := fs.String("battery", "", "dev: run the overlay mutants of this property (all, or those whose id contains the value) and print caught/missed")
	if err := fs.Parse(args); err != nil {
		return 2
	}
	t0 := time.Now()
	if *replay != "" && *prop == "" {
		*prop = replayProp(*replay)
	}
	if *matrix && *prop == "" {
		*prop = "C01"
	}
	if *dump == "" && registry[*prop] == nil {
		var ids []string
		for id := range registry {
			ids = append(ids, id)
		}
		sort.Strings(ids)
		fmt.Println("unknown property; have:", strings.Join(ids, " "))
		return 2
	}
	p, err := Load(LoadConfig{Dir: *repo, GOARCH: *goarch})
	if err != nil {
		fmt.Printf("VIOLATION property=%s replay=none rule=load :: %v\n", *prop, err)
		return 1
	}
	if *dump != "" {
		fmt.Printf("loaded %d pkgs, %d funcs in %v; errs=%d\n", len(p.Pkgs), len(p.Funcs), time.Since(t0), len(p.LoadErrs))
		if strings.HasPrefix(*dump, "fn:") {
			for _, f := range p.Funcs {
				if strings.Contains(FuncName(f), (*dump)[3:]) {
					p.DumpFn(f)
				}
			}
		}
		if strings.HasPrefix(*dump, "paths:") {
			for _, f := range p.Funcs {
				if strings.Contains(FuncName(f), (*dump)[6:]) {
					ps, es := WalkPaths(f, 400)
					fmt.Println("==", FuncName(f), es)
					for _, l := range FormatPaths(ps, true) {
						fmt.Println("  ", l)
					}
				}
			}
		}
		if strings.HasPrefix(*dump, "spec:") {
			parts := strings.SplitN((*dump)[5:], ":", 2)
			for _, f := range p.Funcs {
				if FuncName(f) == parts[0] && len(parts) == 2 {
					p.DumpSpecs(f, strings.Split(parts[1], ","))
				}
			}
		}
		if strings.HasPrefix(*dump, "bits:") {
			bp := &bitprov{p: p}
			for _, f := range p.Funcs {
				if strings.HasPrefix(FuncName(f), (*dump)[5:]) && f.Signature.Recv() != nil {
					r := bp.evalMethod(f)
					fmt.Println("==", FuncName(f), "err:", r.Err, "double:", r.Double)
					for i, rv := range r.Returns {
						if rv.bits != nil {
							fmt.Printf("   ret%d: %s\n", i, bvecStr(rv.bits))
						} else if rv.slice != nil {
							fmt.Printf("   ret%d: slice %s[%d:+%d]\n", i, rv.slice.base, rv.slice.off, rv.slice.n)
						}
					}
					for _, k := range sortedKeysInt(r.Writes) {
						w := r.Writes[k]
						fmt.Printf("   buf[%d] = %s\n", k, bvecStr(w[:]))
					}
				}
			}
		}
		if strings.HasPrefix(*dump, "sites:") {
			for _, f := range p.Funcs {
				if strings.Contains(FuncName(f), (*dump)[6:]) {
					p.DumpSites(f)
				}
			}
		}
		if strings.HasPrefix(*dump, "callers:") {
			p.DumpCallers((*dump)[8:])
		}
		if strings.HasPrefix(*dump, "canon:") {
			canonProg = p
			fmt.Println(canonTerm((*dump)[6:]))
		}
		if *dump == "templates" {
			canonProg = p
			for k, v := range templates() {
				fmt.Println(k, "=>", v)
			}
		}
		if *dump == "swallow" {
			for _, f := range p.Funcs {
				if inTesting(f) {
					continue
				}
				for _, sw := range SwallowedErrors(f) {
					fmt.Printf("%s: error of %s (%s) -> return nil at %s\n", FuncName(f), sw.Desc, p.Pos(sw.Call.Pos()), p.Pos(sw.Ret.Pos()))
				}
			}
		}
		if *dump == "narrowing" {
			DumpNarrowing(p)
		}
		if *dump == "funcs" {
			for _, f := range p.Funcs {
				fmt.Println(FuncName(f), p.Pos(f.Pos()))
			}
		}
		return 0
	}
	runProp := func(p *Program, cfg, prop string) *Ctx {
		c := NewCtx(p, prop, *tier)
		c.Config = cfg
		for _, e := range p.LoadErrs {
			c.Broken("load", "type-error", e)
		}
		func() {
			defer func() {
				if r := recover(); r != nil {
					c.Broken("engine", "panic", fmt.Sprint(r))
				}
			}()
			registry[prop](c)
		}()
		return c
	}
	run := func(p *Program, cfg string) *Ctx { return runProp(p, cfg, *prop) }
	if *matrix {
		return seedMatrix(*repo, *matrixSeed, runProp)
	}
	hostCfg := "linux/amd64"
	if *goarch != "" {
		hostCfg = "linux/" + *goarch
	}
	if *battery != "" {
		only := *battery
		if only == "all" {
			only = ""
		}
		bad := 0
		for _, r := range runMutants(*prop, *repo, only, run) {
			verdict := "CAUGHT"
			switch {
			case !r.Applied || !r.Loads:
				verdict = "SKIPPED"
			case r.Benign && r.Reported:
				verdict = "FALSE-ALARM"
				bad++
			case r.Benign:
				verdict = "silent(ok)"
			case !r.Reported:
				verdict = "MISSED"
				bad++
			}
			fmt.Printf("%-12s %-40s %s %s\n", verdict, r.ID, strings.Join(r.Rules, ","), r.Note)
		}
		if bad > 0 {
			return 1
		}
		return 0
	}
	if *unmentioned {
		var ids []string
		for id := range registry {
			ids = append(ids, id)
		}
		sort.Strings(ids)
		for _, id := range ids {
			runProp(p, hostCfg, id)
		}
		printUnmentioned(p)
		return 0
	}
	c := run(p, hostCfg)
	if *list != "" {
		for _, o := range c.Obls {
			if strings.Contains(o.Key, *list) {
				fmt.Printf("%-10s %s @%s :: %s\n", o.Status, o.Key, o.Pos, o.Detail)
			}
		}
	}
	if *uncovered {
		printUncovered(c, *prop)
	}
	if *replay != "" {
		return replayObligation(c, *replay)
	}
	if *tier == "thorough" && *goarch == "" {
		// second build configuration: a 64-bit target without the amd64-only files
		// (pkg/sleep's Go commitSleep instead of the assembly one). 32-bit targets and
		// arm64/riscv64 do not type-check (protocol/link/rawfile), independent of this tool.
		p = nil
		p2, err := Load(LoadConfig{Dir: *repo, GOARCH: "ppc64le"})
		if err != nil {
			c.Broken("load", "config:linux/ppc64le", err.Error())
		} else {
			c.Merge(run(p2, "linux/ppc64le"))
		}
		p2 = nil
		sens := sensitivity(*prop, *repo, run)
		c.Extra["sensitivity"] = sens
		ben := benignReplay(*prop, *repo, run)
		c.Extra["benign"] = ben
		for _, br := range ben {
			if br.Applied && br.Detected {
				fmt.Printf("NOTE: checker self-test: behaviour-preserving change %s is reported by %s (rules %s): a false alarm of the checker\n", br.ID, *prop, strings.Join(br.Rules, ","))
			}
		}
		muts := runMutants(*prop, *repo, "", run)
		c.Extra["mutants"] = muts
		for _, mr := range muts {
			if mr.Applied && mr.Loads && mr.Benign == mr.Reported {
				kind := "breaking edit not reported"
				if mr.Benign {
					kind = "behaviour-preserving edit reported"
				}
				fmt.Printf("NOTE: checker self-test: %s: %s\n", mr.ID, kind)
			}
		}
		for _, sr := range sens {
			if sr.Applied && !sr.Detected {
				fmt.Printf("NOTE: sensitivity: seeded change %s applies to the current tree and is not reported by %s\n", sr.ID, *prop)
			}
		}
	}
	return c.Finish(t0, !*noEv)
}
