package np

import (
	"flag"
	"fmt"
	"sort"
	"strings"
	"time"
)

var registry = map[string]func(*Ctx){}

func register(id string, f func(*Ctx)) { registry[id] = f }

func Main(args []string) int {
	fs := flag.NewFlagSet("npcheck", flag.ContinueOnError)
	prop := fs.String("prop", "", "property id (C01..C20)")
	tier := fs.String("tier", "quick", "quick|thorough")
	repo := fs.String("repo", "/repo", "repository root")
	dump := fs.String("dump", "", "debug: funcs | fn:<substring>")
	noEv := fs.Bool("no-evidence", false, "do not write evidence files")
	if err := fs.Parse(args); err != nil {
		return 2
	}
	t0 := time.Now()
	if *dump == "" && registry[*prop] == nil {
		var ids []string
		for id := range registry {
			ids = append(ids, id)
		}
		sort.Strings(ids)
		fmt.Println("unknown property; have:", strings.Join(ids, " "))
		return 2
	}
	p, err := Load(LoadConfig{Dir: *repo})
	if err != nil {
		fmt.Printf("VIOLATION property=%s replay=none rule=load :: %v\n", *prop, err)
		return 1
	}
	if *dump != "" {
		fmt.Printf("loaded %d pkgs, %d funcs in %v; errs=%d\n", len(p.Pkgs), len(p.Funcs), time.Since(t0), len(p.LoadErrs))
		if strings.HasPrefix(*dump, "fn:") {
			for _, f := range p.Funcs {
				if strings.Contains(FuncName(f), (*dump)[3:]) {
					p.DumpFn(f)
				}
			}
		}
		if strings.HasPrefix(*dump, "paths:") {
			for _, f := range p.Funcs {
				if strings.Contains(FuncName(f), (*dump)[6:]) {
					ps, es := WalkPaths(f, 400)
					fmt.Println("==", FuncName(f), es)
					for _, l := range FormatPaths(ps, true) {
						fmt.Println("  ", l)
					}
				}
			}
		}
		if strings.HasPrefix(*dump, "spec:") {
			parts := strings.SplitN((*dump)[5:], ":", 2)
			for _, f := range p.Funcs {
				if FuncName(f) == parts[0] && len(parts) == 2 {
					p.DumpSpecs(f, strings.Split(parts[1], ","))
				}
			}
		}
		if strings.HasPrefix(*dump, "bits:") {
			bp := &bitprov{p: p}
			for _, f := range p.Funcs {
				if strings.HasPrefix(FuncName(f), (*dump)[5:]) && f.Signature.Recv() != nil {
					r := bp.evalMethod(f)
					fmt.Println("==", FuncName(f), "err:", r.Err, "double:", r.Double)
					for i, rv := range r.Returns {
						if rv.bits != nil {
							fmt.Printf("   ret%d: %s\n", i, bvecStr(rv.bits))
						} else if rv.slice != nil {
							fmt.Printf("   ret%d: slice %s[%d:+%d]\n", i, rv.slice.base, rv.slice.off, rv.slice.n)
						}
					}
					for _, k := range sortedKeysInt(r.Writes) {
						w := r.Writes[k]
						fmt.Printf("   buf[%d] = %s\n", k, bvecStr(w[:]))
					}
				}
			}
		}
		if strings.HasPrefix(*dump, "sites:") {
			for _, f := range p.Funcs {
				if strings.Contains(FuncName(f), (*dump)[6:]) {
					p.DumpSites(f)
				}
			}
		}
		if *dump == "funcs" {
			for _, f := range p.Funcs {
				fmt.Println(FuncName(f), p.Pos(f.Pos()))
			}
		}
		return 0
	}
	c := NewCtx(p, *prop, *tier)
	c.Config = "linux/amd64"
	for _, e := range p.LoadErrs {
		c.Broken("load", "type-error", e)
	}
	func() {
		defer func() {
			if r := recover(); r != nil {
				c.Broken("engine", "panic", fmt.Sprint(r))
			}
		}()
		registry[*prop](c)
	}()
	return c.Finish(t0, !*noEv)
}
