package np

import (
	"strings"
	"flag"
	"fmt"
	"time"
)

func Main(args []string) int {
	fs := flag.NewFlagSet("npcheck", flag.ContinueOnError)
	prop := fs.String("prop", "", "property id (C01..C20)")
	tier := fs.String("tier", "quick", "quick|thorough")
	repo := fs.String("repo", "/repo", "repository root")
	dump := fs.String("dump", "", "debug: dump info (funcs)")
	if err := fs.Parse(args); err != nil {
		return 2
	}
	_ = prop
	_ = tier
	t0 := time.Now()
	p, err := Load(LoadConfig{Dir: *repo})
	if err != nil {
		fmt.Println("load error:", err)
		return 1
	}
	fmt.Printf("loaded %d pkgs, %d funcs in %v; errs=%d\n", len(p.Pkgs), len(p.Funcs), time.Since(t0), len(p.LoadErrs))
	for _, e := range p.LoadErrs {
		fmt.Println("  ", e)
	}
	if strings.HasPrefix(*dump, "fn:") {
		for _, f := range p.Funcs {
			if strings.Contains(FuncName(f), (*dump)[3:]) {
				p.DumpFn(f)
			}
		}
	}
	if *dump == "funcs" {
		for _, f := range p.Funcs {
			fmt.Println(FuncName(f), p.Pos(f.Pos()))
		}
	}
	return 0
}
