package np

import (
	"os"
	"strings"

	"golang.org/x/tools/go/ssa"
)

func init() { register("ABS", propAbsDebug) }

func propAbsDebug(c *Ctx) {
	an := NewAbsint(c.P)
	r := c.Rule("ABS", "absint", "debug", 0)
	filter := os.Getenv("NP_ABS_FILTER")
	funcs := c.P.Funcs
	if os.Getenv("NP_ABS_IN") != "" {
		funcs = sortedFuncs(c.P.ReachFrom(inboundRoots))
	}
	c.Extra["functions"] = len(funcs)
	for _, fn := range funcs {
		name := FuncName(fn)
		if filter != "" && !strings.Contains(name, filter) {
			continue
		}
		a := an.get(fn)
		req := an.Requirements(fn)
		for _, o := range a.Obligations() {
			key := name + "/" + o.Kind + ":" + o.Desc
			if o.OK {
				c.Ok(r, key, c.pos(o.Instr), o.How)
			} else if _, _, ok := summaryForm(o.Goal); ok {
				c.Assume(r, key, c.pos(o.Instr), "deferred to callers: "+o.Goal.String())
			} else {
				c.Bad(r, key, c.pos(o.Instr), "unproved: "+o.Goal.String()+" <= 0")
			}
		}
		for _, rq := range req {
			c.Note(r, name+"/req:"+rq.String(), "", "requirement on callers")
		}
	}
}

func init() { register("PANICS", propPanicsDebug) }

func propPanicsDebug(c *Ctx) {
	c.Rule("P", "debug", "panics/typeasserts in inbound context", 0)
	for _, fn := range sortedFuncs(c.P.ReachFrom(inboundRoots)) {
		Instrs(fn, func(in ssa.Instruction) {
			switch x := in.(type) {
			case *ssa.Panic:
				println("PANIC", FuncName(fn), Term(x.X), c.pos(in))
			case *ssa.TypeAssert:
				if !x.CommaOk {
					println("ASSERT", FuncName(fn), Term(x.X), TypeStr(x.AssertedType), c.pos(in))
				}
			}
		})
	}
}
