package np

import (
	"go/token"
	"sort"
	"strings"

	"golang.org/x/tools/go/ssa"
)

func init() { register("C19", propC19) }

func propC19(c *Ctx) {
	c.Explanation = "That a blocking Fetch never sleeps forever and returns only asserted wakers quantifies over interleavings of the algorithm's atomic operations (and, on amd64, over an assembly routine the Go analysis cannot see); that is NOT decided. Decided are the structural necessary conditions of the published algorithm: (Z1) Sleeper.sharedList, Sleeper.waitingG and Waker.s are touched only through sync/atomic (waitingG's address additionally goes to gopark for the commit), and the plain fields localList/allWakers/next/allWakersNext/id only inside the sleeper-side functions that own them; (Z2) gopark is reached only when block is true, Assert/Clear/IsAsserted/AddWaker/enqueueAssertedWaker contain no blocking operation, nextWaker's only blocking operation is that gopark; (Z3) the exact protocol tables of enqueueAssertedWaker, nextWaker, Fetch, Assert, Clear, IsAsserted, AddWaker, Done (which atomic operation, on which word, with which operands, under which conditions) incl. Fetch returns an id only when the swapped-out state was the asserted marker, Assert enqueues only when the previous state was a real sleeper, goready only after a successful CAS of waitingG from a value that is neither 0 nor preparingG; (Z4) the orderings the algorithm's correctness argument uses: the waker publishes itself on sharedList BEFORE it looks at waitingG (every load of waitingG in enqueueAssertedWaker is dominated by the successful push), w.next is written before the publishing CAS, and the sleeper stores preparingG BEFORE it re-checks sharedList BEFORE it parks; after waking it loops to re-check. (Z5, non-amd64 build only) commitSleep's table. (Z5a) on amd64 the assembly of commitSleep is read as an instruction list: one LOCK CMPXCHGQ on waitingG, expected value preparingG loaded before, result from the exchange's flags. (Z6) package sleep converts no word or id to a narrower type. (Z7) Done reads a waker's allWakersNext before re-using that link for the pending list: no load of the cursor's link is reachable from the store that overwrites it until the cursor has moved on. NOT decided: the interleaving argument itself, Done racing with Assert, the amd64 assembly commitSleep."
	sl, wk := "(*sleep.Sleeper).", "(*sleep.Waker)."
	as := "sleep.assertedSleeper"
	uas := "sleep.usleeper(" + as + ")"

	c.NoNewNarrowing(c.Rule("Z6", "K8 narrowing (closed world, reviewed table)", "package sleep converts no word or id to a narrower type", 2), []string{"/pkg/sleep"}, nil)
	noStaleCursorRule(c, c.Rule("Z7", "K2 reach-avoiding (link typestate)", "Done reads a waker's allWakersNext link before it re-uses that link to thread the waker onto the pending list: the walk over allWakers visits every waker", 1), "(*sleep.Sleeper).Done", "sleep.Waker", "allWakersNext")
	z1 := c.Rule("Z1", "K3 access confinement", "shared words only through sync/atomic; plain fields only in their owners", 20)
	c.AtomicOnly(z1, "sleep.Sleeper", "sharedList", nil)
	c.AtomicOnly(z1, "sleep.Sleeper", "waitingG", nil, "sleep.gopark")
	c.AtomicOnly(z1, "sleep.Waker", "s", nil)
	owners := map[string][]string{
		"sleep.Sleeper.localList":   {sl + "nextWaker"},
		"sleep.Sleeper.allWakers":   {sl + "AddWaker", sl + "Done"},
		"sleep.Waker.next":          {sl + "nextWaker", sl + "enqueueAssertedWaker"},
		"sleep.Waker.allWakersNext": {sl + "AddWaker", sl + "Done"},
		"sleep.Waker.id":            {sl + "AddWaker", sl + "Fetch"},
	}
	var fields []string
	for k := range owners {
		fields = append(fields, k)
	}
	sort.Strings(fields)
	for _, f := range fields {
		i := strings.LastIndex(f, ".")
		typ, fld := f[:i], f[i+1:]
		seen := map[string]bool{}
		for _, fn := range c.P.Funcs {
			for _, fa := range FieldAccesses(fn) {
				if fa.Field.Name() != fld || !typeNamed(fa.Base.Type(), typ) {
					continue
				}
				for _, n := range c.Owners(fn) { // a helper extracted later stands for its callers (inline.go)
					if seen[n] {
						continue
					}
					seen[n] = true
					ok := false
					for _, o := range owners[f] {
						ok = ok || o == n
					}
					c.Check(ok, z1, f+"/in:"+n, c.pos(fa.Instr), "plain field used by its owner", "plain (unsynchronised) field "+f+" used outside {"+strings.Join(owners[f], ", ")+"}: the sleeper-side ownership argument no longer covers it")
				}
			}
		}
	}

	z2 := c.Rule("Z2", "K11 effect confinement", "who may block", 7)
	for _, n := range []string{wk + "Assert", wk + "Clear", wk + "IsAsserted", sl + "AddWaker", sl + "enqueueAssertedWaker"} {
		if fn := c.Fn(z2, n); fn != nil {
			ops := c.BlockingOps(fn, 3)
			c.Check(len(ops) == 0, z2, n+"/non-blocking", c.P.Pos(fn.Pos()), "no blocking operation reachable", "may block: "+strings.Join(ops, "; "))
		}
	}
	if fn := c.Fn(z2, sl+"nextWaker"); fn != nil {
		ops := c.BlockingOps(fn, 3)
		c.Check(len(ops) == 1 && ops[0] == "call sleep.gopark", z2, sl+"nextWaker/blocks-only-in-gopark", c.P.Pos(fn.Pos()), "only blocking operation: gopark", "blocking operations: "+strings.Join(ops, "; "))
	}
	if fn := c.Fn(z2, sl+"Fetch"); fn != nil {
		ops := c.BlockingOps(fn, 3)
		c.Check(len(ops) == 1 && ops[0] == sl+"nextWaker: call sleep.gopark", z2, sl+"Fetch/blocks-only-in-nextWaker", c.P.Pos(fn.Pos()), "Fetch blocks only through nextWaker's gopark", "blocking operations: "+strings.Join(ops, "; "))
	}

	z3 := c.Rule("Z3", "K7 exact-guard site tables", "protocol tables", 40)
	ldS := "sync/atomic.LoadPointer(&$0.s)"
	if fn := c.Fn(z3, wk+"Assert"); fn != nil {
		sw := "sync/atomic.SwapPointer(&$0.s, " + uas + ")"
		notAs := "!(" + uas + " == " + ldS + ")"
		c.CheckSites(z3, fn, []SiteSpec{
			{Kind: "call", Target: "sync/atomic.LoadPointer", Args: []string{"&$0.s"}, Guards: []string{}, Exact: true, N: 1, Why: "cheap look first"},
			{Kind: "return", Guards: []string{"(" + uas + " == " + ldS + ")"}, Exact: true, N: 1, Why: "already asserted: several asserts before a fetch are one notification"},
			{Kind: "call", Target: "sync/atomic.SwapPointer", Args: []string{"&$0.s", uas}, Guards: []string{notAs}, Exact: true, N: 1, Why: "mark asserted, learn the previous state"},
			{Kind: "call", Target: sl + "enqueueAssertedWaker", Args: []string{sw, "$0"}, Guards: []string{"!(nil == " + sw + ")", "!(" + as + " == " + sw + ")", notAs}, Exact: true, N: 1, Why: "enqueue on the previous state's sleeper exactly when it was a real sleeper (not nil, not the asserted marker)"},
			{Kind: "return", Guards: []string{notAs}, Exact: true, N: 1, Why: "done"},
		})
	}
	if fn := c.Fn(z3, wk+"Clear"); fn != nil {
		isAs := "(" + uas + " == " + ldS + ")"
		c.CheckSites(z3, fn, []SiteSpec{
			{Kind: "call", Target: "sync/atomic.LoadPointer", Args: []string{"&$0.s"}, Guards: []string{}, Exact: true, N: 1, Why: "look"},
			{Kind: "return", Args: []string{"false"}, Guards: []string{"!" + isAs}, Exact: true, N: 1, Why: "not asserted: nothing cleared"},
			{Kind: "call", Target: "sync/atomic.CompareAndSwapPointer", Args: []string{"&$0.s", uas, "nil"}, Guards: []string{isAs}, Exact: true, N: 1, Why: "asserted -> idle, only from the asserted marker"},
			{Kind: "return", Args: []string{"sync/atomic.CompareAndSwapPointer(&$0.s, " + uas + ", nil)"}, Guards: []string{isAs}, Exact: true, N: 1, Why: "true exactly when this call consumed the assertion"},
		})
	}
	if fn := c.Fn(z3, wk+"IsAsserted"); fn != nil {
		c.CheckSites(z3, fn, []SiteSpec{
			{Kind: "call", Target: "sync/atomic.LoadPointer", Args: []string{"&$0.s"}, Guards: []string{}, Exact: true, N: 1, Why: "look"},
			{Kind: "return", Args: []string{"(" + as + " == " + ldS + ")"}, Guards: []string{}, Exact: true, N: 1, Why: "asserted iff the state is the marker"},
		})
	}
	if fn := c.Fn(z3, sl+"Fetch"); fn != nil {
		nw := sl + "nextWaker($0, $1)"
		got := "!(" + nw + " == nil)"
		sw := "sync/atomic.SwapPointer(&" + nw + ".s, sleep.usleeper($0))"
		c.CheckSites(z3, fn, []SiteSpec{
			{Kind: "call", Target: sl + "nextWaker", Args: []string{"$0", "$1"}, Guards: []string{}, Exact: true, N: 1, Why: "next queued waker; block is passed through unchanged"},
			{Kind: "return", Args: []string{"-1", "false"}, Guards: []string{"(" + nw + " == nil)"}, Exact: true, N: 1, Why: "nothing queued (non-blocking only)"},
			{Kind: "call", Target: "sync/atomic.SwapPointer", Args: []string{"&" + nw + ".s", "sleep.usleeper($0)"}, Guards: []string{got}, Exact: true, N: 1, Why: "re-associate the waker with this sleeper and learn whether it is still asserted"},
			{Kind: "return", Args: []string{nw + ".id", "true"}, Guards: []string{got, "(" + as + " == " + sw + ")"}, Exact: true, N: 1, Why: "an id is returned only when the swapped-out state was the asserted marker (a cleared waker is skipped by looping)"},
		})
	}
	if fn := c.Fn(z3, sl+"AddWaker"); fn != nil {
		ld := "sync/atomic.LoadPointer(&$1.s)"
		isAs := "(" + as + " == " + ld + ")"
		cas := "sync/atomic.CompareAndSwapPointer(&$1.s, sleep.usleeper(" + ld + "), sleep.usleeper($0))"
		c.CheckSites(z3, fn, []SiteSpec{
			{Kind: "store", Target: "sleep.Waker.allWakersNext", Args: []string{"$1", "$0.allWakers"}, Guards: []string{}, Exact: true, N: 1, Why: "link into the sleeper's list of all wakers"},
			{Kind: "store", Target: "sleep.Sleeper.allWakers", Args: []string{"$0", "$1"}, Guards: []string{}, Exact: true, N: 1, Why: "..."},
			{Kind: "store", Target: "sleep.Waker.id", Args: []string{"$1", "$2"}, Guards: []string{}, Exact: true, N: 1, Why: "the id Fetch will report"},
			{Kind: "call", Target: "sync/atomic.LoadPointer", Args: []string{"&$1.s"}, Guards: []string{}, Exact: true, N: 1, Why: "current state"},
			{Kind: "call", Target: sl + "enqueueAssertedWaker", Args: []string{"$0", "$1"}, Guards: []string{isAs}, Exact: true, N: 1, Why: "already asserted: queue it right away so the assertion is not lost"},
			{Kind: "return", Guards: []string{isAs}, Exact: true, N: 1, Why: "done"},
			{Kind: "call", Target: "sync/atomic.CompareAndSwapPointer", Args: []string{"&$1.s", "sleep.usleeper(" + ld + ")", "sleep.usleeper($0)"}, Guards: []string{"!" + isAs}, Exact: true, N: 1, Why: "otherwise associate by CAS from exactly the state that was read (retry on change)"},
			{Kind: "return", Guards: []string{"!" + isAs, cas}, Exact: true, N: 1, Why: "associated"},
		})
	}
	pushed := "sync/atomic.CompareAndSwapPointer(&$0.sharedList, sleep.uwaker(sync/atomic.LoadPointer(&$0.sharedList)), sleep.uwaker($1))"
	if fn := c.Fn(z3, sl+"enqueueAssertedWaker"); fn != nil {
		g := "sync/atomic.LoadUintptr(&$0.waitingG)"
		casG := "sync/atomic.CompareAndSwapUintptr(&$0.waitingG, " + g + ", 0)"
		c.CheckSites(z3, fn, []SiteSpec{
			{Kind: "call", Target: "sync/atomic.LoadPointer", Args: []string{"&$0.sharedList"}, Guards: []string{}, Exact: true, N: 1, Why: "current head"},
			{Kind: "store", Target: "sleep.Waker.next", Args: []string{"$1", "sync/atomic.LoadPointer(&$0.sharedList)"}, Guards: []string{}, Exact: true, N: 1, Why: "link to the head that was read"},
			{Kind: "call", Target: "sync/atomic.CompareAndSwapPointer", Args: []string{"&$0.sharedList", "sleep.uwaker(sync/atomic.LoadPointer(&$0.sharedList))", "sleep.uwaker($1)"}, Guards: []string{}, Exact: true, N: 1, Why: "push by CAS from exactly that head"},
			{Kind: "call", Target: "sync/atomic.LoadUintptr", Args: []string{"&$0.waitingG"}, Guards: []string{pushed}, Exact: true, N: 1, Why: "only after the push succeeded: is a goroutine waiting or preparing to?"},
			{Kind: "return", Guards: []string{"(0 == " + g + ")", pushed}, Exact: true, N: 1, Why: "nobody waiting: the sleeper will see the list"},
			{Kind: "call", Target: "sync/atomic.CompareAndSwapUintptr", Args: []string{"&$0.waitingG", g, "0"}, Guards: []string{"!(0 == " + g + ")", pushed}, Exact: true, N: 1, Why: "claim the wake-up / abort the preparation"},
			{Kind: "call", Target: "sleep.goready", Args: []string{g, "0"}, Guards: []string{"!(0 == " + g + ")", "!(1 == " + g + ")", pushed, casG}, Exact: true, N: 1, Why: "wake exactly the goroutine whose id was swapped out, never 0 or the preparing marker, only by the CAS winner"},
		})
	}
	if fn := c.Fn(z3, sl+"nextWaker"); fn != nil {
		empty := "($0.localList == nil)"
		ld := "sync/atomic.LoadPointer(&$0.sharedList)"
		noShared := "(nil == " + ld + ")"
		drain := "phi{loop.next@u | sync/atomic.SwapPointer(&$0.sharedList, nil)}"
		c.CheckSites(z3, fn, []SiteSpec{
			{Kind: "call", Target: "sync/atomic.LoadPointer", Args: []string{"&$0.sharedList"}, Guards: []string{empty}, N: 2, Why: "loop test and the re-check after announcing the sleep"},
			{Kind: "return", Args: []string{"nil"}, Guards: []string{"!$1", empty, noShared}, Exact: true, N: 1, Why: "non-blocking and nothing queued"},
			{Kind: "call", Target: "sync/atomic.StoreUintptr", Args: []string{"&$0.waitingG", "1"}, Guards: []string{"$1", empty, noShared}, Exact: true, N: 1, Why: "announce: preparing to sleep"},
			{Kind: "call", Target: "sync/atomic.StoreUintptr", Args: []string{"&$0.waitingG", "0"}, Guards: []string{"!" + noShared, "$1", empty, noShared}, Exact: true, N: 1, Why: "re-check found a waker: abort the preparation"},
			{Kind: "call", Target: "sleep.gopark", Args: []string{"func:sleep.commitSleep", "&$0.waitingG", "*", "*", "*"}, Guards: []string{"$1", empty, noShared}, Exact: true, N: 1, Why: "park with commitSleep on waitingG; only when block is true (Fetch(false) never sleeps)"},
			{Kind: "call", Target: "sync/atomic.SwapPointer", Args: []string{"&$0.sharedList", "nil"}, Guards: []string{"!" + noShared, empty}, Exact: true, N: 1, Why: "drain the whole shared list at once"},
			{Kind: "store", Target: "sleep.Waker.next", Args: []string{drain, "$0.localList@u"}, Guards: []string{"!(nil == " + drain + ")", "!" + noShared, empty}, Exact: true, N: 1, Why: "reverse onto the local list"},
			{Kind: "store", Target: "sleep.Sleeper.localList", Args: []string{"$0", drain}, Guards: []string{"!(nil == " + drain + ")", "!" + noShared, empty}, Exact: true, N: 1, Why: "..."},
			{Kind: "store", Target: "sleep.Sleeper.localList", Args: []string{"$0", "$0.localList@u.next@u"}, Guards: []string{}, Exact: true, N: 1, Why: "pop the local head"},
			{Kind: "return", Args: []string{"$0.localList@u"}, Guards: []string{}, Exact: true, N: 1, Why: "... and return it"},
		})
	}
	if fn := c.Fn(z3, sl+"Done"); fn != nil {
		w := "phi{$0.allWakers | loop.allWakersNext@u}"
		ld := "sync/atomic.LoadPointer(&" + w + ".s)"
		mine := "(sleep.usleeper($0) == " + ld + ")"
		c.CheckSites(z3, fn, []SiteSpec{
			{Kind: "call", Target: "sync/atomic.LoadPointer", Args: []string{"&" + w + ".s"}, Guards: []string{"!(nil == " + w + ")"}, Exact: true, N: 1, Why: "state of each attached waker"},
			{Kind: "call", Target: "sync/atomic.CompareAndSwapPointer", Args: []string{"&" + w + ".s", ld, "nil"}, Guards: []string{"!(nil == " + w + ")", mine}, Exact: true, N: 1, Why: "still associated with this sleeper: detach by CAS (retry on change)"},
			{Kind: "store", Target: "sleep.Waker.allWakersNext", Args: []string{w, "new(*sleep.Waker)@u"}, Guards: []string{"!(nil == " + w + ")", "!" + mine}, Exact: true, N: 1, Why: "asserted (or being queued): remember it as pending"},
			{Kind: "call", Target: sl + "nextWaker", Args: []string{"$0", "true"}, Guards: []string{"!(new(*sleep.Waker)@u == nil)", "(nil == " + w + ")"}, Exact: true, N: 1, Why: "wait until every pending waker has finished queueing itself, so none touches the sleeper afterwards"},
			{Kind: "store", Target: "sleep.Sleeper.allWakers", Args: []string{"$0", "nil"}, Guards: []string{"(new(*sleep.Waker)@u == nil)", "(nil == " + w + ")"}, Exact: true, N: 1, Why: "only when nothing is pending any more"},
		})
	}

	z4 := c.Rule("Z4", "K2 ordering", "publish-then-look on the waker side; announce-recheck-park on the sleeper side", 5)
	if fn := c.Fn(z4, sl+"enqueueAssertedWaker"); fn != nil {
		var cas ssa.Instruction
		var loads, nextStores []ssa.Instruction
		Instrs(fn, func(in ssa.Instruction) {
			if ci, ok := in.(ssa.CallInstruction); ok {
				switch CalleeName(ci) {
				case "sync/atomic.CompareAndSwapPointer":
					cas = in
				case "sync/atomic.LoadUintptr", "sync/atomic.CompareAndSwapUintptr", "sleep.goready":
					loads = append(loads, in)
				}
			}
			if st, ok := in.(*ssa.Store); ok {
				if fv, _ := fieldOf(st.Addr); fv != nil && fv.Name() == "next" {
					nextStores = append(nextStores, in)
				}
			}
		})
		if cas == nil || len(loads) == 0 || len(nextStores) == 0 {
			c.Broken(z4, FuncName(fn)+"/anchors", "push CAS, waitingG operations or next store not found")
		} else {
			t := NewTermer(fn)
			casTerm := t.T(cas.(ssa.Value))
			for _, l := range loads {
				ok := GuardedBy(fn, l.Block(), AtomIs(true, Exactly(casTerm)))
				c.Check(ok, z4, FuncName(fn)+"/publish-before-look:"+CalleeName(l.(ssa.CallInstruction)), c.pos(l), "dominated by the successful push onto sharedList", "waitingG is examined before this waker is published on sharedList: a sleeper that re-checks the list between the two sees nothing, parks, and is never woken")
			}
			for _, s := range nextStores {
				c.Check(InstrDominates(s, cas), z4, FuncName(fn)+"/link-before-publish", c.pos(s), "w.next written before the publishing CAS of the same iteration", "w.next is written after the waker became visible on sharedList")
			}
		}
	}
	if fn := c.Fn(z4, sl+"nextWaker"); fn != nil {
		var prep, park ssa.Instruction
		var rechecks []ssa.Instruction
		Instrs(fn, func(in ssa.Instruction) {
			if ci, ok := in.(ssa.CallInstruction); ok {
				switch CalleeName(ci) {
				case "sync/atomic.StoreUintptr":
					if Term(CallArgs(ci)[1]) == "1" {
						prep = in
					}
				case "sleep.gopark":
					park = in
				case "sync/atomic.LoadPointer":
					rechecks = append(rechecks, in)
				}
			}
		})
		if prep == nil || park == nil {
			c.Broken(z4, FuncName(fn)+"/anchors", "preparingG store or gopark not found")
		} else {
			c.Check(InstrDominates(prep, park), z4, FuncName(fn)+"/announce-before-park", c.pos(park), "waitingG = preparingG dominates gopark", "gopark can be reached without announcing the sleep: commitSleep finds waitingG == 0 or a stale value")
			// every path prep -> park passes a re-check of sharedList
			isRe := func(in ssa.Instruction) bool {
				for _, r := range rechecks {
					if r == in {
						return true
					}
				}
				return false
			}
			bad := ReachAvoiding(fn, prep, isRe, func(in ssa.Instruction) bool { return in == park })
			c.Check(bad == nil, z4, FuncName(fn)+"/recheck-between-announce-and-park", c.pos(park), "sharedList is re-read between the announcement and gopark on every path", "a path from the announcement to gopark does not re-check sharedList: a waker that pushed and saw waitingG == 0 just before the announcement is missed and the sleeper parks forever")
			// after gopark returns the loop re-tests sharedList
			var swap ssa.Instruction
			Instrs(fn, func(in ssa.Instruction) {
				if ci, ok := in.(ssa.CallInstruction); ok && CalleeName(ci) == "sync/atomic.SwapPointer" {
					swap = in
				}
			})
			if swap != nil {
				bad2 := ReachAvoiding(fn, park, isRe, func(in ssa.Instruction) bool { return in == swap })
				c.Check(bad2 == nil, z4, FuncName(fn)+"/recheck-after-wake", c.pos(park), "after waking, the list is re-tested before it is drained", "after gopark the list is drained without re-testing it (spurious wake-up returns nil waker)")
			}
		}
	}

	z5 := c.Rule("Z5", "K7 exact-guard site table", "commitSleep (Go variant; amd64 uses assembly)", 0)
	if fn := c.P.Func("sleep.commitSleep"); fn != nil && fn.Blocks != nil {
		ld := "sync/atomic.LoadUintptr($1)"
		c.CheckSites(z5, fn, []SiteSpec{
			{Kind: "call", Target: "sync/atomic.LoadUintptr", Args: []string{"$1"}, Guards: []string{}, Exact: true, N: 1, Why: "aborted?"},
			{Kind: "return", Args: []string{"false"}, Guards: []string{"(0 == " + ld + ")"}, Exact: true, N: 1, Why: "a waker reset waitingG: do not park"},
			{Kind: "call", Target: "sync/atomic.CompareAndSwapUintptr", Args: []string{"$1", "1", "$0"}, Guards: []string{"!(0 == " + ld + ")"}, Exact: true, N: 1, Why: "publish the G only from the preparing marker"},
			{Kind: "return", Args: []string{"true"}, Guards: []string{"!(0 == " + ld + ")", "sync/atomic.CompareAndSwapUintptr($1, 1, $0)"}, Exact: true, N: 1, Why: "committed"},
		})
	} else {
		c.Note(z5, "sleep.commitSleep/assembly", "pkg/sleep/commit_amd64.s", "this build configuration uses the assembly commitSleep, which Go analysis does not see; the Go variant is checked under linux/ppc64le in the thorough tier")
		// the assembly variant: its instruction list is short enough to decide the
		// one thing that matters - the commit is ONE locked compare-and-exchange of
		// waitingG from preparingG to g, and nothing else writes that word
		z5a := c.Rule("Z5a", "instruction-list check of the amd64 assembly", "commitSleep (amd64): a single LOCK CMPXCHGQ publishes g over preparingG", 3)
		src, err := c.P.ReadRepoFile("pkg/sleep/commit_amd64.s")
		if err != nil {
			c.Broken(z5a, "anchor-unresolved:pkg/sleep/commit_amd64.s", err.Error())
		} else {
			ins := asmInstrs(string(src))
			cas, memCX, movPrep, seteq := -1, 0, -1, -1
			for i, x := range ins {
				if strings.Contains(x, "(CX)") {
					memCX++
				}
				if strings.HasPrefix(x, "CMPXCHGQ ") && strings.HasSuffix(x, ", 0(CX)") && i > 0 && ins[i-1] == "LOCK" {
					cas = i
				}
				if x == "MOVQ $preparingG, AX" && movPrep < 0 {
					movPrep = i
				}
				if x == "SETEQ AX" {
					seteq = i
				}
			}
			pos := "pkg/sleep/commit_amd64.s"
			c.Check(cas >= 0, z5a, "commitSleep.s/locked-cmpxchg", pos, "LOCK; CMPXCHGQ g, 0(waitingG)", "the commit is no longer a LOCKed CMPXCHGQ on waitingG: a waker's abort (CAS preparingG -> 0) landing between a separate load and store is overwritten and the sleeper parks with a non-empty shared list")
			c.Check(memCX == 1, z5a, "commitSleep.s/only-access", pos, "the compare-and-exchange is the only access to *waitingG", "waitingG is read or written by another instruction as well ("+itoa(memCX)+" memory operands through CX)")
			c.Check(movPrep >= 0 && movPrep < cas && seteq > cas, z5a, "commitSleep.s/expected-preparing-result-from-flags", pos, "compares against preparingG and returns the exchange's ZF", "the expected value is not preparingG, or the result is not the exchange's outcome")
		}
	}
}

// asmInstrs: the instructions of a Plan 9 assembly file, one per entry,
// comments, directives and the TEXT line removed, whitespace collapsed.
func asmInstrs(src string) []string {
	var out []string
	for _, l := range strings.Split(src, "\n") {
		if i := strings.Index(l, "//"); i >= 0 {
			l = l[:i]
		}
		l = strings.Join(strings.Fields(l), " ")
		if l == "" || strings.HasPrefix(l, "#") || strings.HasPrefix(l, "TEXT ") {
			continue
		}
		out = append(out, l)
	}
	return out
}

// noStaleCursorRule: within fn, after a store to x.field no load of the same
// x.field is reachable before x is re-defined (x is the loop cursor, a phi at
// the loop header): a list walk that re-uses the element's link field inside
// the loop body must have read the successor first.
func noStaleCursorRule(c *Ctx, rule, fnName, typ, field string) {
	fn := c.Fn(rule, fnName)
	if fn == nil {
		return
	}
	for _, st := range StoresTo(fn, typ, field) {
		fa, ok := st.Addr.(*ssa.FieldAddr)
		if !ok {
			continue
		}
		base := fa.X
		var hdr *ssa.BasicBlock
		if phi, ok := base.(*ssa.Phi); ok {
			hdr = phi.Block()
		}
		bad := ReachAvoiding(fn, st, func(in ssa.Instruction) bool { return hdr != nil && in.Block() == hdr }, func(in ssa.Instruction) bool {
			u, ok := in.(*ssa.UnOp)
			if !ok || u.Op != token.MUL {
				return false
			}
			fa2, ok := u.X.(*ssa.FieldAddr)
			return ok && fa2.X == base && fa2.Field == fa.Field
		})
		pos := ""
		if bad != nil {
			pos = c.pos(bad)
		}
		c.Check(bad == nil, rule, fnName+"/link-read-after-relink:"+Term(st.Addr), c.pos(st), "the link is not read again after it was overwritten, until the cursor moves on", "the cursor's "+field+" link is read at "+pos+" after this store overwrote it: the walk follows the new list, not the one being traversed")
	}
}
