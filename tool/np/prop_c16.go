package np

import (
	"strings"

	"golang.org/x/tools/go/ssa"
)

func init() { register("C16", propC16) }

func propC16(c *Ctx) {
	c.Explanation = "Model equivalence with a plain byte string over operation histories is behavioural and not decided. Decided (for all counts/lengths, including negative, zero and beyond the size): (V1) View.CapLength re-slices with a three-index expression whose cap equals its length, so a capped view cannot be re-extended; View.TrimFront drops exactly count bytes; (V2) the size field moves in step with the chunks in every mutator of VectorisedView: the complete exact-guard site tables of TrimFront (partial trim of the first chunk: size -= count and the chunk loses count bytes; otherwise the whole first chunk goes and count shrinks by its length), RemoveFirst (size -= len(first chunk), chunk list loses its head; no-op when empty) and CapLength (negative lengths are 0, longer-than-size is a no-op, size = length, the chunk list is cut after the chunk where the length is reached and that chunk is capped to the remainder); (V3) Clone copies the chunk list into the caller's buffer re-sliced to zero length - the clone never shares the original's list of chunks - and keeps the size; First is views[0] or nil; ToView concatenates all chunks in order into a fresh slice; (V4) none of these functions can index or slice out of range for any argument (interval + linear-fact analysis; requirements on callers such as count <= len are discharged at the call sites inside the package and, for the inbound path, in C07); (V5) Prependable.Prepend returns nil unless size <= usedIdx, otherwise moves usedIdx down by size and returns exactly size bytes with cap = len. (V6) the one-line accessors and constructors return exactly the reviewed expressions (UsedLength = len(buf) - usedIdx, ...). View.CapLength reslices unconditionally (V1). (V7) no integer of package buffer is converted to a narrower integer type (closed world, positive control on the header codecs). NOT decided: equivalence with the byte-string model over all operation sequences and chunkings."
	c.NoNewNarrowing(c.Rule("V7", "K8 narrowing (closed world, reviewed table)", "no length, offset or size of package buffer is converted to a narrower integer type", 2), []string{"/pkg/buffer"}, nil)
	v1 := c.Rule("V1", "SSA shape", "View.CapLength is a three-index slice with cap == len", 2)
	if fn := c.Fn(v1, "(*buffer.View).CapLength"); fn != nil {
		n := 0
		Instrs(fn, func(in ssa.Instruction) {
			if sl, ok := in.(*ssa.Slice); ok {
				n++
				ok2 := sl.Max != nil && sl.High != nil && Term(sl.Max) == Term(sl.High) && Term(sl.High) == "$1" && sl.Low == nil
				c.Check(ok2, v1, FuncName(fn)+"/slice[:n:n]", c.pos(in), "(*v)[:length:length]", "capped view keeps spare capacity (cap != len): it can be re-extended past the cap")
			}
		})
		c.Check(n == 1, v1, FuncName(fn)+"/one-slice", c.P.Pos(fn.Pos()), "one re-slice", "CapLength no longer re-slices exactly once")
		// ... on every call: no length decides whether the capacity is clipped (a cap
		// equal to the current length must still drop the spare capacity)
		c.Check(len(fn.Blocks) == 1, v1, FuncName(fn)+"/unconditional", c.P.Pos(fn.Pos()), "the re-slice is unconditional", "CapLength skips the re-slice under some condition: for those lengths the view keeps its spare capacity and can be re-extended past the cap")
	}
	if fn := c.Fn(v1, "(*buffer.View).TrimFront"); fn != nil {
		Instrs(fn, func(in ssa.Instruction) {
			if sl, ok := in.(*ssa.Slice); ok {
				c.Check(sl.Low != nil && Term(sl.Low) == "$1" && sl.High == nil, v1, FuncName(fn)+"/slice[count:]", c.pos(in), "(*v)[count:]", "TrimFront does not drop exactly count bytes from the front")
			}
		})
	}

	v2 := c.Rule("V2", "K7 exact-guard site tables", "size moves with the chunks", 10)
	vvTrimFrontRule(c, v2)
	vvCapLengthRule(c, v2)

	v3 := c.Rule("V3", "K5 alias / site tables", "Clone copies the chunk list; First/ToView/constructors", 6)
	if fn := c.Fn(v3, "buffer.VectorisedView.Clone"); fn != nil {
		c.CheckSites(v3, fn, []SiteSpec{
			{Kind: "call", Target: "builtin:append", Args: []string{"$1[:0]", "$0.views"}, Guards: []string{}, Exact: true, N: 1, Why: "the chunk list is appended to the CALLER's buffer re-sliced to zero length: never the receiver's own list"},
			{Kind: "return", Target: "", Args: []string{"buffer.VectorisedView{views: builtin:append($1[:0], $0.views), size: $0.size}"}, Guards: []string{}, Exact: true, N: 1, Why: "the only result: that copy, with the same size"},
		})
	}
	if fn := c.Fn(v3, "buffer.VectorisedView.First"); fn != nil {
		c.CheckSites(v3, fn, []SiteSpec{
			{Kind: "return", Target: "", Args: []string{"nil"}, Guards: []string{"(0 == builtin:len($0.views))"}, Exact: true, N: 1, Why: "no chunks: nil"},
			{Kind: "return", Target: "", Args: []string{"$0.views[0]"}, Guards: []string{"!(0 == builtin:len($0.views))"}, Exact: true, N: 1, Why: "otherwise the first chunk"},
		})
	}
	if fn := c.Fn(v3, "buffer.VectorisedView.ToView"); fn != nil {
		i := "(1 + phi{-1 | loop})"
		acc := "phi{builtin:append(loop, $0.views[" + i + "]) | make([]byte, 0, $0.size)}"
		c.CheckSites(v3, fn, []SiteSpec{
			{Kind: "call", Target: "builtin:append", Args: []string{acc, "$0.views[" + i + "]"}, Guards: []string{"(" + i + " < builtin:len($0.views))"}, Exact: true, N: 1, Why: "every chunk, in order, appended to a fresh slice"},
			{Kind: "return", Target: "", Args: []string{acc}, Guards: []string{"!(" + i + " < builtin:len($0.views))"}, Exact: true, N: 1, Why: "returned after the last chunk"},
		})
	}
	if fn := c.Fn(v3, "buffer.View.ToVectorisedView"); fn != nil {
		c.CheckSites(v3, fn, []SiteSpec{{Kind: "call", Target: "buffer.NewVectorisedView", Args: []string{"builtin:len($0)", "[$0]"}, Guards: []string{}, Exact: true, N: 1, Why: "one chunk, size = its length"}})
	}
	if fn := c.Fn(v3, "buffer.NewVectorisedView"); fn != nil {
		c.CheckSites(v3, fn, []SiteSpec{{Kind: "return", Target: "", Args: []string{"buffer.VectorisedView{views: $1, size: $0}"}, Guards: []string{}, Exact: true, N: 1, Why: "fields from the arguments"}})
	}

	v4 := c.Rule("V4", "K8 absint", "no index/slice out of range in pkg/buffer for any argument", 20)
	an := NewAbsint(c.P)
	assumed := loadAssumed("assumed_c07.json")
	for _, fn := range c.P.Funcs {
		if fn.Pkg == nil || !strings.HasSuffix(fn.Pkg.Pkg.Path(), "/pkg/buffer") {
			continue
		}
		name := FuncName(fn)
		if strings.HasPrefix(name, "buffer.ParseUrl") || strings.HasPrefix(name, "buffer.GetRandomString") {
			continue // string helpers of the demo applications, not part of the view types
		}
		a := an.get(fn)
		for _, o := range a.Obligations() {
			key := name + "/" + o.Kind + ":" + o.Desc
			switch {
			case o.OK:
				c.Ok(v4, key, c.pos(o.Instr), o.How)
			case deferrable(o.Goal):
				c.Ok(v4, key+"/deferred", c.pos(o.Instr), "documented precondition on the caller: "+o.Goal.String()+" <= 0")
			default:
				if why, ok := assumed[key]; ok {
					c.Assume(v4, key, c.pos(o.Instr), why)
				} else {
					c.Bad(v4, key, c.pos(o.Instr), "unproved: "+o.Goal.String()+" <= 0")
				}
			}
		}
	}

	// V6: the one-line accessors and constructors everything else is written in
	v6 := c.Rule("V6", "K9 site tables (closed)", "accessors and constructors: UsedLength = len(buf) - usedIdx, View = buf[usedIdx:], Size = size, ...", 9)
	for _, t := range []struct{ fn, ret, why string }{
		{"buffer.Prependable.UsedLength", "(builtin:len($0.buf) - $0.usedIdx)", "the used length is the distance from the start of the used region to the END of the bytes (len, not cap)"},
		{"buffer.Prependable.View", "$0.buf[$0.usedIdx:]", "the used region is the tail of the buffer"},
		{"buffer.NewPrependable", "buffer.Prependable{buf: buffer.NewView($0), usedIdx: $0}", "a fresh prependable of n bytes has nothing used: usedIdx = n"},
		{"buffer.NewPrependableFromView", "buffer.Prependable{buf: $0, usedIdx: 0}", "a prependable made from a view has all of it used"},
		{"buffer.VectorisedView.Size", "$0.size", "Size is the size field (kept in step with the chunks: V2)"},
		{"buffer.VectorisedView.Views", "$0.views", "Views is the chunk list"},
		{"buffer.NewView", "make(buffer.View, $0, $0)", "a new view has length = capacity = n"},
		{"buffer.NewViewFromBytes", "builtin:append(nil, $0)", "a view from bytes is a copy"},
		{"buffer.NewVectorisedView", "buffer.VectorisedView{views: $1, size: $0}", "size and chunks as given"},
	} {
		if fn := c.Fn(v6, t.fn); fn != nil {
			c.CheckSites(v6, fn, []SiteSpec{{Kind: "return", Args: []string{t.ret}, Guards: []string{}, Exact: true, N: 1, Why: t.why}})
		}
	}

	v5 := c.Rule("V5", "K1 site table", "Prepend: nil unless it fits, else exactly size bytes", 3)
	if fn := c.Fn(v5, "(*buffer.Prependable).Prepend"); fn != nil {
		c.CheckSites(v5, fn, []SiteSpec{
			{Kind: "return", Target: "", Args: []string{"nil"}, Guards: []string{"($0.usedIdx < $1)"}, Exact: true, N: 1, Why: "no room: nil"},
			{Kind: "store", Target: "buffer.Prependable.usedIdx", Args: []string{"$0", "($0.usedIdx - $1)"}, Guards: []string{"!($0.usedIdx < $1)"}, Exact: true, N: 1, Why: "the used region grows backwards by size"},
			{Kind: "return", Target: "", Args: []string{"buffer.Prependable.View($0)[:$1:$1]"}, Guards: []string{"!($0.usedIdx < $1)"}, Exact: true, N: 1, Why: "exactly size bytes at the new front, cap = len"},
		})
	}
}

// vvCapLengthRule: VectorisedView.CapLength cuts the chunk list at exactly
// the requested length (the size field, the list and the last chunk move
// together). The IP layers use it to drop link-layer trailer bytes, so the
// datagram, echo payload and fragment the upper layers see end where the IP
// length says. Shared by C16/V2, C11/U17, C13/I11 and C08/F14.
func vvCapLengthRule(c *Ctx, v2 string) {
	if fn := c.Fn(v2, "(*buffer.VectorisedView).CapLength"); fn != nil {
		ln := "phi{$1 | 0}"
		i := "(1 + phi{-1 | loop})"
		rem := "phi{(loop - builtin:len($0.views[" + i + "])) | " + ln + "}"
		in := []string{"!($0.size < " + ln + ")", "(" + i + " < builtin:len($0.views))", "!(builtin:len($0.views[" + i + "]) < " + rem + ")"}
		c.CheckSites(v2, fn, []SiteSpec{
			{Kind: "store", Target: "buffer.VectorisedView.size", Args: []string{"$0", ln}, Guards: []string{"!($0.size < " + ln + ")"}, Exact: true, N: 1, Why: "size = max(length,0) when that is not larger than the current size"},
			{Kind: "store", Target: "buffer.VectorisedView.views", Args: []string{"$0", "$0.views[:" + i + "]"}, Guards: append(append([]string{}, in...), "(0 == "+rem+")"), Exact: true, N: 1, Why: "length reached exactly at a chunk boundary: the list is cut before this chunk"},
			{Kind: "call", Target: "(*buffer.View).CapLength", Args: []string{"&$0.views[" + i + "]", rem}, Guards: append(append([]string{}, in...), "!(0 == "+rem+")"), Exact: true, N: 1, Why: "length reached inside a chunk: that chunk is capped to the remainder"},
			{Kind: "store", Target: "buffer.VectorisedView.views", Args: []string{"$0", "$0.views[:(" + i + " + 1)]"}, Guards: append(append([]string{}, in...), "!(0 == "+rem+")"), Exact: true, N: 1, Why: "... and the list is cut after it"},
		})
	}
}

// vvTrimFrontRule: VectorisedView.TrimFront removes whole chunks from the front
// while the remaining count covers them (the count shrinks by THAT chunk's
// length) and trims the rest inside the then-first chunk; RemoveFirst moves the
// size with the chunk list. Shared by C16 (V2) and C08 (the reassembly loop
// cuts the overlapping front of a fragment with it).
func vvTrimFrontRule(c *Ctx, v2 string) {
	bv := "(*buffer.VectorisedView)."
	if fn := c.Fn(v2, bv+"TrimFront"); fn != nil {
		cnt := "phi{$1 | (loop - builtin:len($0.views[0]))}"
		loop := []string{"!(0 == builtin:len($0.views))", "!(" + cnt + " < 1)"}
		part := append(append([]string{}, loop...), "("+cnt+" < builtin:len($0.views[0]))")
		whole := append(append([]string{}, loop...), "!("+cnt+" < builtin:len($0.views[0]))")
		c.CheckSites(v2, fn, []SiteSpec{
			{Kind: "store", Target: "buffer.VectorisedView.size", Args: []string{"$0", "($0.size - " + cnt + ")"}, Guards: part, Exact: true, N: 1, Why: "partial trim inside the first chunk: size shrinks by the remaining count"},
			{Kind: "call", Target: "(*buffer.View).TrimFront", Args: []string{"&$0.views[0]", cnt}, Guards: part, Exact: true, N: 1, Why: "... and the first chunk loses the same number of bytes"},
			{Kind: "call", Target: bv + "RemoveFirst", Args: []string{"$0"}, Guards: whole, Exact: true, N: 1, Why: "otherwise the whole first chunk is removed and the count shrinks by its length (the phi)"},
		})
	}
	if fn := c.Fn(v2, bv+"RemoveFirst"); fn != nil {
		ne := []string{"!(0 == builtin:len($0.views))"}
		c.CheckSites(v2, fn, []SiteSpec{
			{Kind: "store", Target: "buffer.VectorisedView.size", Args: []string{"$0", "($0.size - builtin:len($0.views[0]))"}, Guards: ne, Exact: true, N: 1, Why: "size shrinks by the removed chunk's length"},
			{Kind: "store", Target: "buffer.VectorisedView.views", Args: []string{"$0", "$0.views[1:]"}, Guards: ne, Exact: true, N: 1, Why: "the chunk list loses its head"},
		})
		c.Ordered(v2, fn, []string{"size update", "list update"}, []func(Site) bool{isStore("buffer.VectorisedView.size"), isStore("buffer.VectorisedView.views")})
	}
}
