package np

import (
	"encoding/json"
	"fmt"
	"go/types"
	"os"
	"path/filepath"
	"regexp"
	"sort"
	"strings"

	"golang.org/x/tools/go/ssa"
)

func init() { register("C07", propC07) }

// entry assumptions of the bounds analysis: each is established by a guard
// that another rule checks (named in the reason).
var c07EntryAssumptions = map[string][]string{
	// NIC.DeliverTransportPacket tests len(vv.First()) >= transProto.MinimumPacketSize() before
	// ParsePorts and before any endpoint's HandlePacket (C09/D2 site table, exact argument terms);
	// rule P2-contract shows MinimumPacketSize() of the protocol under which the endpoint type is
	// registered is the constant used here.
	"(*tcp.endpoint).HandlePacket":                   {"len(buffer.VectorisedView.First($3)) >= 20"},
	"(*tcp.protocol).HandleUnknownDestinationPacket": {"len(buffer.VectorisedView.First($3)) >= 20"},
	"(*tcp.Forwarder).HandlePacket":                  {"len(buffer.VectorisedView.First($3)) >= 20"},
	"(*udp.endpoint).HandlePacket":                   {"len(buffer.VectorisedView.First($3)) >= 8"},
	"(*udp.protocol).HandleUnknownDestinationPacket": {"len(buffer.VectorisedView.First($3)) >= 8"},
	// NIC.DeliverTransportControlPacket tests len(vv.First()) >= 8 (rule P2-control)
	"(*tcp.endpoint).HandleControlPacket": {"len(buffer.VectorisedView.First($4)) >= 8"},
	"(*udp.endpoint).HandleControlPacket": {"len(buffer.VectorisedView.First($4)) >= 8"},
}

// emitSide: bases of buffers the stack builds itself; their sizing needs
// cross-layer sums (header lengths reserved by the caller) that intervals
// cannot carry. Counted, not decided (DESIGN.md §2.3).
func emitSide(desc string) bool {
	for _, s := range []string{"Prepend", "buffer.NewView", "make(", "tcp.getOptions", "NewPrependable", "new([", "optionPool", "LocalAddress", "RemoteAddress", "LinkAddress"} {
		if strings.Contains(desc, s) {
			return true
		}
	}
	return false
}

type assumedEntry struct {
	Key    string `json:"key"`
	Reason string `json:"reason"`
}

func loadAssumed(name string) map[string]string {
	m := map[string]string{}
	b, err := os.ReadFile(filepath.Join(verifRoot(), "tool", "tables", name))
	if err != nil {
		return m
	}
	var es []assumedEntry
	if json.Unmarshal(b, &es) == nil {
		for _, e := range es {
			m[e.Key] = e.Reason
		}
	}
	return m
}

func propC07(c *Ctx) {
	c.Explanation = "Decides crash-freedom obligations over the inbound call-graph context (everything reachable from NIC.DeliverNetworkPacket, the link dispatch loops, the TCP worker goroutines and the echo replier): (P1) every explicit panic in that context is in a reviewed table (discharged by another rule or assumed with a reason) - a new panic is a violation; (P2) every index, slice and fixed-width read (binary.BigEndian) obligation in that context is discharged by an interval + linear-fact abstract interpretation with predicate summaries (IsValid), caller-discharged requirement summaries (header accessors need len >= K) and term axioms (segment.data is a clone of the inbound view), or is listed with a reason in tables/assumed_c07.json; obligations on buffers the stack allocates itself (emit side) are counted, not decided; the protocol-number contract shows that what ParsePorts/ParseAddresses/HandlePacket need is at most the MinimumPacketSize the NIC checked; option parser loops make progress (no zero-length step); (P3) type assertions on heap/list/pool elements agree with the unique type inserted; (P4) integer divisions by non-constants have non-zero divisors by store invariants; (P5) the link dispatch loop is left with a nil error only on end-of-file (length 0), never because of a frame's content; (P6) the lock-order graph over the classes taken in the inbound and API contexts has no cycle. (P1-ts) the neighbour-cache entry typestate behind the changeState panics (shared with C12/T2). (P8) the route reference of an echo request is released exactly once on each way out - a second release drives the address reference count negative and panics (shared with C13, C09/D9). (P9) the out-of-order heap is popped only while it has elements: the FIN branch keeps the segment being drained (shared with C01/R12). NOT decided: nil dereferences, sends on closed channels, nil-map writes, memory exhaustion, the post-barrage liveness probes of the property, the amd64 assembly."
	c.Assumptions = []string{
		"header accessors are pure between a guard and the use it protects (no code writes inbound headers in between)",
		"entry assumptions of transport endpoints (len(first view) >= protocol minimum) are established by NIC.DeliverTransportPacket (checked by C09/D2 and P2-contract)",
		"int arithmetic (64-bit) does not overflow on lengths",
		"VTA call graph resolves every interface call that can occur",
	}
	in := c.P.ReachFrom(inboundRoots)
	funcs := sortedFuncs(in)
	c.Extra["inbound_context_functions"] = len(funcs)

	// ---------------------------------------------------------------- P1 panics
	echoRouteRefRule(c, c.Rule("P8", "K2 pairing (shared with C13/I1,I2, C09/D9)", "the route reference of a queued echo request is released exactly once on each way out (a second release drives the address reference count negative and panics)", 4))
	receiverBufferingRule(c, c.Rule("P9", "K7 exact-guard site tables (shared with C01/R12)", "the out-of-order heap is popped only while it has elements: a FIN keeps the segment being drained, everything else is released before the truncation", 6))
	p1 := c.Rule("P1", "K3 enumeration", "explicit panics in the inbound context are reviewed", 8)
	panicTable := map[string]string{
		`(*stack.NIC).removeEndpointLocked/"Reference count dropped to zero before being removed"`:   "assumed: the count reaches zero only after RemoveAddress/getRef/findEndpoint cleared holdsInsertRef; the replace path of addAddressLocked runs only after tryIncRef failed (reading, DESIGN.md C07/P1)",
		`(*stack.linkAddrCache).checkLinkRequest/invalid cache entry state`:                          "exhaustive: rule P1-enum shows the switch covers every entryState constant",
		`(*stack.linkAddrCache).get/invalid cache entry state`:                                       "exhaustive: rule P1-enum shows the switch covers every entryState constant",
		`(*stack.linkAddrEntry).changeState/invalid state transition`:                                "typestate: C12/T2 shows every changeState call site requests an allowed transition",
		`(*stack.linkAddrEntry).changeState/invalid state`:                                           "exhaustive: rule P1-enum shows the switch covers every entryState constant",
		`(*tcp.endpoint).makeOptions/"unexpected option encoding"`:                                   "assumed: option encoders return multiples of 4 after padding (C06/E5 argument: optionPool buffers have len=cap=maxOptionSize)",
		`tcp.makeSynOptions/"unexpected option encoding"`:                                            "assumed: same argument as makeOptions (C06/E5)",
		`(*tcp.handshake).resetState/rand.Read`:                                                      "environment: crypto/rand failure, not controlled by inbound frames",
		`tcp.timeStampOffset/rand.Read`:                                                              "environment: crypto/rand failure, not controlled by inbound frames",
		`(*tcp.sender).sendData/"FIN segments must be the final segment in the write list."`:         "assumed: Write rejects data after Shutdown in the same sndBufMu critical section that queued the FIN (C02/W4)",
		`(*tcp.sender).sendData/"github.com/brewlin/net-protocol queues FIN segments without data."`: "assumed: the only FIN segment is the zero-length one queued by Shutdown (C02/W4)",
	}
	usedPanic := map[string]bool{}
	for _, fn := range funcs {
		Instrs(fn, func(ins ssa.Instruction) {
			p, ok := ins.(*ssa.Panic)
			if !ok {
				return
			}
			msg := Term(p.X)
			if msg == `"blocking select matched no case"` {
				return // synthesised by go/ssa for select without default
			}
			key := FuncName(fn) + "/" + msg
			found := ""
			// a panic moved into a helper that did not exist at review time is
			// the panic of the reviewed function(s) it was extracted from
			names := []string{FuncName(fn)}
			if top := topFunc(fn); isNewFunc(top) {
				names = append(names, c.Owners(fn)...)
			}
			for _, nm := range names {
				k2 := nm + "/" + msg
				for k, why := range panicTable {
					if strings.HasPrefix(k2, k) || strings.Contains(k2, k) {
						found = why
						usedPanic[k] = true
					}
				}
				if found == "" {
					// match by prefix of message (Sprintf arguments vary)
					for k, why := range panicTable {
						parts := strings.SplitN(k, "/", 2)
						if parts[0] == nm && strings.Contains(msg, strings.Trim(parts[1], `"`)) {
							found = why
							usedPanic[k] = true
						}
					}
				}
			}
			if found != "" {
				c.Assume(p1, key, c.pos(ins), found)
			} else {
				c.Bad(p1, key, c.pos(ins), "explicit panic reachable from inbound frames that no reviewed argument covers")
			}
		})
	}
	// P1-ts: the typestate argument the panic table refers to for changeState
	p1ts := c.Rule("P1-ts", "typestate (shared with C12/T2)", "every changeState call site requests a transition allowed from every state possible there: the transition panics are unreachable", 14)
	linkEntryTypestateRule(c, p1ts)

	// P1-enum: exhaustive switches over entryState
	p1e := c.Rule("P1-enum", "K6 exhaustive", "switches whose default arm panics cover every constant of the type", 3)
	for _, name := range []string{"(*stack.linkAddrCache).checkLinkRequest", "(*stack.linkAddrCache).get", "(*stack.linkAddrEntry).changeState"} {
		fn := c.Fn(p1e, name)
		if fn == nil {
			continue
		}
		consts := enumConsts(c.P, "stack", "entryState")
		seen := map[string]bool{}
		for _, e := range CondEdges(fn) {
			for _, k := range consts {
				// atoms look like "(N == X)" with N the constant value
				if strings.HasPrefix(e.Atom, "("+k+" == ") || strings.HasSuffix(e.Atom, " == "+k+")") {
					seen[k] = true
				}
			}
		}
		missing := []string{}
		for _, k := range consts {
			if !seen[k] {
				missing = append(missing, k)
			}
		}
		// changeState's outer switch is on the current state and has 3 arms + default for 'expired'
		if name == "(*stack.linkAddrEntry).changeState" {
			c.Check(len(missing) <= 1, p1e, name, c.P.Pos(fn.Pos()), "state switch covers the constants (expired has no outgoing transition)", "state switch misses constants "+strings.Join(missing, ","))
		} else {
			c.Check(len(missing) == 0, p1e, name, c.P.Pos(fn.Pos()), "covers all "+fmt.Sprint(len(consts))+" constants", "switch misses constants "+strings.Join(missing, ","))
		}
	}

	// ---------------------------------------------------------------- P2 bounds
	p2 := c.Rule("P2", "K8 absint", "index/slice/fixed-width-read obligations in the inbound context", 300)
	an := NewAbsint(c.P)
	for k, v := range c07EntryAssumptions {
		an.Assume[k] = v
	}
	assumed := loadAssumed("assumed_c07.json")
	usedAssumed := map[string]bool{}
	gen := os.Getenv("NP_GEN_ASSUMED") != ""
	nEmit, nDeferred := 0, 0
	type genEntry struct{ Key, Detail string }
	var genOut []genEntry
	for _, fn := range funcs {
		a := an.get(fn)
		name := FuncName(fn)
		for _, o := range a.Obligations() {
			key := name + "/" + o.Kind + ":" + o.Desc
			switch {
			case o.OK:
				c.Ok(p2, key, c.pos(o.Instr), o.How)
			case o.Kind == "div-zero":
				// P4 below
			case deferrable(o.Goal):
				nDeferred++
				c.Ok(p2, key+"/deferred", c.pos(o.Instr), "requirement on callers (discharged at each call site or by an entry assumption): "+o.Goal.String()+" <= 0")
			case emitSide(o.Desc) || emitSide(o.Goal.String()):
				nEmit++
			default:
				why, ok := assumed[key]
				if !ok && isNewFunc(fn) {
					// code moved into a helper after the review keeps the reason it had in its owner (inline.go)
					for _, owner := range c.Owners(fn) {
						k2 := owner + "/" + o.Kind + ":" + o.Desc
						if w2, ok2 := assumed[k2]; ok2 {
							why, ok, key = w2, true, k2
						}
						if !ok {
							// the helper numbers its parameters differently from its owner
							n2 := anonParams(k2)
							for ak, aw := range assumed {
								if strings.HasPrefix(ak, owner+"/") && anonParams(ak) == n2 {
									why, ok, key = aw, true, ak
								}
							}
						}
					}
				}
				if ok {
					usedAssumed[key] = true
					c.Assume(p2, key, c.pos(o.Instr), why)
				} else if gen {
					genOut = append(genOut, genEntry{key, o.Goal.String()})
				} else {
					c.Bad(p2, key, c.pos(o.Instr), "unproved bounds obligation: "+o.Goal.String()+" <= 0 (not implied by the guards that dominate it)")
				}
			}
		}
	}
	if gen {
		for _, g := range genOut {
			fmt.Printf("GEN\t%s\t%s\n", g.Key, g.Detail)
		}
	}
	c.Extra["emit_side_obligations_not_decided"] = nEmit
	c.Extra["obligations_deferred_to_callers"] = nDeferred
	// roots with requirements: functions called only dynamically must have their
	// requirements covered by an entry assumption or the contract rule
	p2c := c.Rule("P2-contract", "slot agreement", "what a protocol's parse/handle methods need <= the MinimumPacketSize the NIC checked", 6)
	contract := []struct {
		typ, method string
		param       int
		minFn       string
	}{
		{"(*tcp.protocol)", "ParsePorts", 1, "(*tcp.protocol).MinimumPacketSize"},
		{"(*udp.protocol)", "ParsePorts", 1, "(*udp.protocol).MinimumPacketSize"},
		{"(*ipv4.protocol)", "ParseAddresses", 1, "(*ipv4.protocol).MinimumPacketSize"},
		{"(*ipv6.protocol)", "ParseAddresses", 1, "(*ipv6.protocol).MinimumPacketSize"},
		{"(*arp.protocol)", "ParseAddresses", 1, "(*arp.protocol).MinimumPacketSize"},
	}
	for _, ct := range contract {
		fn := c.Fn(p2c, ct.typ+"."+ct.method)
		mf := c.Fn(p2c, ct.minFn)
		if fn == nil || mf == nil {
			continue
		}
		min, ok := constReturn(mf)
		if !ok {
			c.Bad(p2c, ct.minFn+"/not-constant", c.P.Pos(mf.Pos()), "MinimumPacketSize does not return a constant")
			continue
		}
		need := int64(0)
		for _, rq := range an.Requirements(fn) {
			if i, k, ok := summaryForm(rq); ok && i == ct.param {
				if k > need {
					need = k
				}
			} else {
				c.Bad(p2c, FuncName(fn)+"/requirement:"+rq.String(), c.P.Pos(fn.Pos()), "requirement not expressible as a minimum length of the packet view")
			}
		}
		c.Check(need <= min, p2c, FuncName(fn), c.P.Pos(fn.Pos()), fmt.Sprintf("needs %d bytes <= MinimumPacketSize %d", need, min), fmt.Sprintf("reads %d bytes of the view but the NIC only guarantees MinimumPacketSize = %d", need, min))
	}
	// the entry assumptions equal the protocol minimum of the endpoint's protocol
	for _, e := range []struct {
		ep, minFn string
		k         int64
	}{{"(*tcp.endpoint).HandlePacket", "(*tcp.protocol).MinimumPacketSize", 20}, {"(*udp.endpoint).HandlePacket", "(*udp.protocol).MinimumPacketSize", 8}} {
		if mf := c.Fn(p2c, e.minFn); mf != nil {
			min, ok := constReturn(mf)
			c.Check(ok && min >= e.k, p2c, e.ep+"/assumption-backed", c.P.Pos(mf.Pos()), fmt.Sprintf("entry assumption %d <= MinimumPacketSize %d", e.k, min), fmt.Sprintf("entry assumption of %d bytes exceeds what MinimumPacketSize (%d) makes the NIC check", e.k, min))
		}
	}
	// the NIC's minimum-size guards themselves (they back the entry assumptions)
	if fn := c.Fn(p2c, "(*stack.NIC).DeliverTransportPacket"); fn != nil {
		guard := "(builtin:len(buffer.VectorisedView.First($3)) < iface:stack.TransportProtocol.MinimumPacketSize($0.stack.transportProtocols[$2]#0.proto))"
		for _, ci := range c.Calls(fn, Is("iface:stack.TransportProtocol.ParsePorts", "(*stack.transportDemuxer).deliverPacket", "iface:stack.TransportProtocol.HandleUnknownDestinationPacket", "dyn"), false) {
			c.Guarded(p2c, "transport-size-guard:"+CalleeName(ci), ci.(ssa.Instruction), AtomIs(false, Exactly(guard)), "len(vv.First()) >= transProto.MinimumPacketSize() (first view, of the protocol looked up for this packet)")
		}
	}
	if fn := c.Fn(p2c, "(*stack.NIC).DeliverNetworkPacket"); fn != nil {
		guard := "(builtin:len(buffer.VectorisedView.First($5)) < iface:stack.NetworkProtocol.MinimumPacketSize($0.stack.networkProtocols[$4]#0))"
		for _, ci := range c.Calls(fn, Is("iface:stack.NetworkProtocol.ParseAddresses"), false) {
			c.Guarded(p2c, "network-size-guard:"+CalleeName(ci), ci.(ssa.Instruction), AtomIs(false, Exactly(guard)), "len(vv.First()) >= netProto.MinimumPacketSize()")
		}
	}
	// the control-packet guard
	if fn := c.Fn(p2c, "(*stack.NIC).DeliverTransportControlPacket"); fn != nil {
		for _, ci := range c.Calls(fn, Is("iface:stack.TransportProtocol.ParsePorts", "(*stack.transportDemuxer).deliverControlPacket"), false) {
			c.Guarded(p2c, "control-size-guard:"+CalleeName(ci), ci.(ssa.Instruction), AtomIs(false, Exactly("(builtin:len(buffer.VectorisedView.First($7)) < 8)")), "len(vv.First()) >= 8")
		}
	}
	// requirements of dynamically called roots must be backed
	for _, fn := range funcs {
		reqs := an.Requirements(fn)
		if len(reqs) == 0 {
			continue
		}
		name := FuncName(fn)
		covered := false
		for _, ct := range contract {
			if name == ct.typ+"."+ct.method {
				covered = true
			}
		}
		if covered {
			continue
		}
		cg := c.P.CallGraph()
		n := cg.Nodes[fn]
		dynamicOnly := true
		static := 0
		if n != nil {
			for _, e := range n.In {
				if e.Site != nil && e.Site.Common().StaticCallee() == fn {
					static++
					dynamicOnly = false
				}
			}
		}
		if !dynamicOnly {
			continue // every static call site carries the obligation
		}
		for _, rq := range reqs {
			if emitSide(rq.String()) || !mentionsPacketParam(fn, rq) {
				continue
			}
			c.Bad(p2c, name+"/unbacked-requirement:"+rq.String(), c.P.Pos(fn.Pos()), "function is only called through an interface and needs "+rq.String()+" <= 0 of its arguments, which no guard or entry assumption establishes")
		}
	}

	// parser loop progress
	pp := c.Rule("P2-progress", "K8 absint", "option parser loops advance by at least one byte per iteration", 2)
	for _, name := range []string{"header.ParseSynOptions", "header.ParseTCPOptions"} {
		fn := c.Fn(pp, name)
		if fn == nil {
			continue
		}
		a := an.get(fn)
		n := 0
		Instrs(fn, func(ins ssa.Instruction) {
			phi, ok := ins.(*ssa.Phi)
			if !ok || !isIntType(phi.Type()) || phi.Comment != "i" {
				return
			}
			for i, e := range phi.Edges {
				pred := phi.Block().Preds[i]
				if !phi.Block().Dominates(pred) {
					continue // not a back edge
				}
				n++
				d := a.decompose(e, 0).add(a.decompose(phi, 0), -1) // e - phi
				it := a.lfItv(d, pred.Index)
				okp := !it.empty() && it.Lo >= 1
				if !okp {
					// i = limit: terminates the loop (i < limit fails)
					if Term(e) == "builtin:len($0)" || Term(e) == "builtin:len($1)" {
						okp = true
					}
				}
				c.Check(okp, pp, name+"/step:"+Term(e), c.pos(phi), "cursor advances by "+it.String(), "cursor may not advance ("+it.String()+"): a crafted option makes the parser loop forever")
			}
		})
		if n == 0 {
			c.Bad(pp, name+"/no-loop-cursor", c.P.Pos(fn.Pos()), "loop cursor 'i' not found")
		}
	}

	// ---------------------------------------------------------------- P3 type assertions
	p3 := c.Rule("P3", "K9 agreement", "type assertions on container elements match what is inserted", 3)
	pushTypes := map[string]map[string]bool{} // heap static type -> element types
	for _, fn := range c.P.Funcs {
		for _, ci := range CallsIn(fn, Is("container/heap.Push")) {
			args := ci.Common().Args
			ht, et := ifaceDyn(args[0]), ifaceDyn(args[1])
			if pushTypes[ht] == nil {
				pushTypes[ht] = map[string]bool{}
			}
			pushTypes[ht][et] = true
		}
	}
	for _, fn := range funcs {
		Instrs(fn, func(ins ssa.Instruction) {
			ta, ok := ins.(*ssa.TypeAssert)
			if !ok || ta.CommaOk {
				return
			}
			key := FuncName(fn) + "/" + Term(ta.X) + ".(" + TypeStr(ta.AssertedType) + ")"
			if call, ok := ta.X.(*ssa.Call); ok && CalleeName(call) == "container/heap.Pop" {
				ht := ifaceDyn(call.Common().Args[0])
				ts := pushTypes[ht]
				good := len(ts) == 1 && ts[TypeStr(ta.AssertedType)]
				c.Check(good, p3, key, c.pos(ins), "only "+TypeStr(ta.AssertedType)+" is pushed on "+ht, "heap "+ht+" receives "+fmt.Sprint(keysOf(ts))+" but the element is asserted to be "+TypeStr(ta.AssertedType))
				return
			}
			c.Assume(p3, key, c.pos(ins), "intrusive list / pool / entry context: the only insertions of this container pass the asserted type (reviewed)")
		})
	}

	// ---------------------------------------------------------------- P5 serve loops
	p5 := c.Rule("P5", "K1 + intervals", "dispatch loop ends with a nil error only at end of file", 2)
	if fn := c.Fn(p5, "(*fdbased.endpoint).dispatch"); fn != nil {
		a := an.get(fn)
		var nRead ssa.Value
		for _, ci := range c.Calls(fn, Is("rawfile.BlockingReadv"), false) {
			if refs := ci.(*ssa.Call).Referrers(); refs != nil {
				for _, r := range *refs {
					if ex, ok := r.(*ssa.Extract); ok && ex.Index == 0 {
						nRead = ex
					}
				}
			}
		}
		if nRead == nil {
			c.Bad(p5, FuncName(fn)+"/no-read", c.P.Pos(fn.Pos()), "dispatch no longer reads with BlockingReadv")
		}
		for _, s := range Sites(fn) {
			if s.Kind != "return" || len(s.Args) != 2 {
				continue
			}
			if s.Args[0] == "false" && s.Args[1] == "nil" && nRead != nil {
				it := a.eval(nRead, s.Instr.Block().Index)
				c.Check(it.Hi <= 0, p5, FuncName(fn)+"/stop-without-error", c.pos(s.Instr), "returns (false,nil) only when the read length is "+it.String(), "the dispatch loop is stopped with a nil error for a frame of length "+it.String()+": one frame from the network ends reception on this NIC")
			}
		}
	}
	if fn := c.Fn(p5, "(*fdbased.endpoint).dispatchLoop"); fn != nil {
		for _, s := range Sites(fn) {
			if s.Kind == "return" {
				ok := GuardedBy(fn, s.Instr.Block(), func(e Edge) bool { return strings.Contains(e.Atom, "(*fdbased.endpoint).dispatch($0)#") })
				c.Check(ok, p5, FuncName(fn)+"/exit-only-on-dispatch-result", c.pos(s.Instr), "loop exits only on dispatch()'s verdict", "loop exit not controlled by dispatch()'s result")
			}
		}
	}

	// ---------------------------------------------------------------- P6 lock order
	propC07LockOrder(c, in)
	propC07Div(c, an, funcs)

	// ---------------------------------------------------------------- P7 lock balance
	p7 := c.Rule("P7", "K2 pairing (lockset at exits)", "no path returns with a lock that the other returns of the function have released", 1)
	nFns := 0
	for _, fn := range c.P.Funcs {
		if in[fn] {
			nFns++
		}
	}
	c.Ok(p7, "functions-compared", "", fmt.Sprintf("exit lock states compared across the returns of all %d module functions (%d of them in the inbound context)", len(c.P.Funcs), nFns))
	balanceExceptions := map[string]string{
		"(*tcp.ForwarderRequest).CreateEndpoint/leaked:tcp.endpoint.workMu@?": "lock hand-off, not a leak: createEndpointAndPerformHandshake returns a new endpoint with workMu held only on success, and startAcceptedLoop passes that ownership to the endpoint's protocol goroutine; the error returns never held it (the callee's summary is per class, not per outcome)",
	}
	for _, im := range c.Locks().ExitImbalances() {
		kind := "released-on-some-returns-only"
		msg := "an entry lock is released at this return but still held at others"
		if im.Leaked {
			kind = "leaked"
			msg = "this return leaves " + im.Lock + " locked while the function's other returns have released it: the next acquirer (here: the packet-processing goroutine) blocks forever"
		}
		key := FuncName(im.Fn) + "/" + kind + ":" + im.Lock
		if why, ok := balanceExceptions[key]; ok {
			c.Assume(p7, key, c.pos(im.Ret), why)
			continue
		}
		c.Bad(p7, key, c.pos(im.Ret), msg)
	}

	for k := range assumed {
		if !usedAssumed[k] && !gen {
			c.Note(p2, "unused-assumption:"+k, "", "assumed entry no longer matches an obligation")
		}
	}
	_ = sort.Strings
}

func keysOf(m map[string]bool) []string {
	var ks []string
	for k := range m {
		ks = append(ks, k)
	}
	sort.Strings(ks)
	return ks
}

// ifaceDyn: static type of the value wrapped into an interface argument.
func ifaceDyn(v ssa.Value) string {
	if mi, ok := v.(*ssa.MakeInterface); ok {
		return TypeStr(mi.X.Type())
	}
	return TypeStr(v.Type())
}

// constReturn: the function returns one integer constant on every path.
func constReturn(fn *ssa.Function) (int64, bool) {
	var k int64
	n := 0
	ok := true
	Instrs(fn, func(in ssa.Instruction) {
		r, isRet := in.(*ssa.Return)
		if !isRet || len(r.Results) != 1 {
			return
		}
		c, isC := constInt(r.Results[0])
		if !isC {
			ok = false
			return
		}
		if n > 0 && c != k {
			ok = false
		}
		k = c
		n++
	})
	return k, ok && n > 0
}

// enumConsts lists the values (as decimal strings) of the constants of a named type.
func enumConsts(p *Program, rel, typ string) []string {
	pk := p.Pkg(rel)
	if pk == nil {
		return nil
	}
	var out []string
	for _, n := range pk.Scope().Names() {
		if k, ok := pk.Scope().Lookup(n).(*types.Const); ok {
			if nt, ok := k.Type().(*types.Named); ok && nt.Obj().Name() == typ {
				out = append(out, k.Val().ExactString())
			}
		}
	}
	sort.Strings(out)
	return out
}

func propC07Div(c *Ctx, an *Absint, funcs []*ssa.Function) {
	p4 := c.Rule("P4", "K8 + store sites", "divisions by non-constants have non-zero divisors", 3)
	for _, fn := range funcs {
		a := an.get(fn)
		for _, o := range a.Obligations() {
			if o.Kind != "div-zero" {
				continue
			}
			key := FuncName(fn) + "/" + o.Desc
			if o.OK {
				c.Ok(p4, key, c.pos(o.Instr), o.How)
				continue
			}
			if strings.Contains(o.Desc, ".sndCwnd") {
				c.Assume(p4, key, c.pos(o.Instr), "divisor is sender.sndCwnd >= 1: created as InitialCwnd, and every later store is the constant 1, sndSsthresh (>= 2 by the clamp checked below), or sndCwnd plus a packet count (store sites enumerated below)")
				continue
			}
			c.Bad(p4, key, c.pos(o.Instr), "divisor not shown to be non-zero")
		}
	}
	// the stores that the argument relies on
	allowed := map[string]string{
		"(*tcp.renoState).HandleRTOExpired":          "1",
		"(*tcp.renoState).updateSlowStart":           "phi{$0.s.sndSsthresh | ($0.s.sndCwnd + $1)}",
		"(*tcp.renoState).updateCongestionAvoidance": "($0.s.sndCwnd + ($0.s.sndCAAckCount@1 / $0.s.sndCwnd))",
		"tcp.newSender":                              "10",
		"(*tcp.sender).sendData":                     "10",
		"(*tcp.sender).enterFastRecovery":            "($0.sndSsthresh + 3)",
		"(*tcp.sender).leaveFastRecovery":            "$0.sndSsthresh",
		"(*tcp.sender).checkDuplicateAck":            "($0.sndCwnd + 1)",
	}
	for _, st := range c.FieldStores("tcp.sender", "sndCwnd") {
		fn := FuncName(st.Parent())
		val := Term(st.(*ssa.Store).Val)
		if strings.Contains(fn, "cubic") {
			c.Assume(p4, fn+"/store-sndCwnd:"+val, c.pos(st), "CUBIC (floating point): not the default controller; the value is clamped in the same function (reviewed)")
			continue
		}
		okAll := true
		for _, owner := range c.Owners(st.Parent()) {
			want, ok := allowed[owner]
			okAll = okAll && ok && want == val
		}
		c.Check(okAll, p4, fn+"/store-sndCwnd:"+val, c.pos(st), "store keeps sndCwnd >= 1", "store to sender.sndCwnd outside the reviewed set that keeps it >= 1 (it is a divisor in congestion avoidance)")
	}
	if fn := c.Fn(p4, "(*tcp.renoState).reduceSlowStartThreshold"); fn != nil {
		c.CheckSites(p4, fn, []SiteSpec{
			{Kind: "store", Target: "tcp.sender.sndSsthresh", Args: []string{"$0.s", "2"}, Guards: []string{"($0.s.sndSsthresh@1 < 2)"}, Exact: true, N: 1, Why: "ssthresh is clamped to >= 2"},
			{Kind: "store", Target: "tcp.sender.sndSsthresh", Args: []string{"$0.s", "($0.s.outstanding / 2)"}, Guards: []string{}, Exact: true, N: 1, Why: "ssthresh = outstanding/2 (RFC 5681 eq. 4)"},
		})
	}
}

// mentionsPacketParam: the requirement talks about a parameter that carries
// packet bytes (View, VectorisedView, []byte, header types), as opposed to
// configuration values (addresses, prependable headers being built).
func mentionsPacketParam(fn *ssa.Function, rq LinForm) bool {
	for k := range rq.coef {
		for i, p := range fn.Params {
			if !strings.Contains(k, "$"+itoa(i)) {
				continue
			}
			ts := TypeStr(p.Type())
			if ts == "buffer.View" || ts == "buffer.VectorisedView" || ts == "[]byte" || strings.HasPrefix(ts, "header.") || ts == "*tcp.segment" {
				return true
			}
		}
	}
	return false
}

var anonParamRe = regexp.MustCompile(`\$\d+`)

// anonParams replaces parameter references by a placeholder.
func anonParams(s string) string { return anonParamRe.ReplaceAllString(s, "$$_") }
