package np

import (
	"fmt"
	"go/types"
	"sort"
	"strings"

	"golang.org/x/tools/go/ssa"
)

// Tables for effects of already tabled functions that no row mentioned
// (found with `npcheck -unmentioned`; written after round 8 of the seeded
// changes, where six of seven misses were an edit to such an effect). Each
// function states the clause the effect serves; each is run under every
// property the clause bears on.

// senderAckRule: what an acceptable ACK does to the sender. The
// acknowledged amount is measured from the old sndUna before it moves;
// exactly the fully acknowledged segments leave the write list (with the
// send cursor moved off a removed segment, one reference dropped and the
// in-flight count decremented per segment); the application's buffer room
// grows by exactly that amount; transmission is attempted after every
// segment, acceptable ACK or not.
func senderAckRule(c *Ctx, rule string) {
	fn := c.Fn(rule, "(*tcp.sender).handleRcvdSegment")
	if fn == nil {
		return
	}
	ok := "seqnum.Value.InRange(($1.ackNumber - 1), $0.sndUna, $0.sndNxt)"
	left := "phi{(loop - (*tcp.segment).logicalLen((*tcp.segmentList).Front(&$0.writeList))) | seqnum.Value.Size($0.sndUna, $1.ackNumber)}"
	front := "(*tcp.segmentList).Front(&$0.writeList)"
	more := "!(0 == " + left + ")"
	whole := "!(" + left + " < (*tcp.segment).logicalLen(" + front + "))"
	c.CheckSites(rule, fn, []SiteSpec{
		{Kind: "store", Target: "tcp.sender.sndUna", Args: []string{"$0", "$1.ackNumber"}, Guards: []string{ok}, Exact: true, N: 1, Why: "the left edge moves to the acknowledgement number, only for sndUna < ack <= sndNxt"},
		{Kind: "call", Target: "(*tcp.endpoint).updateSndBufferUsage", Args: []string{"$0.ep", "seqnum.Value.Size($0.sndUna, $1.ackNumber)"}, Guards: []string{ok}, Exact: true, N: 1, Why: "the writer gets back exactly the acknowledged amount, measured from the old left edge"},
		{Kind: "store", Target: "tcp.sender.writeNext", Args: []string{"$0", "(*tcp.segmentEntry).Next(&" + front + ".segmentEntry)"}, Guards: []string{more, whole, "($0.writeNext@u == " + front + ")", ok}, Exact: true, N: 1, Why: "the send cursor steps off a segment that is about to be removed (read before Remove)"},
		{Kind: "call", Target: "(*tcp.segmentList).Remove", Args: []string{"&$0.writeList", front}, Guards: []string{more, whole, ok}, Exact: true, N: 1, Why: "exactly the fully acknowledged front segment leaves the write list"},
		{Kind: "call", Target: "(*tcp.segment).decRef", Args: []string{front}, Guards: []string{more, whole, ok}, Exact: true, N: 1, Why: "its reference is dropped once"},
		{Kind: "store", Target: "tcp.sender.outstanding", Args: []string{"$0", "($0.outstanding@u - 1)"}, Guards: []string{more, whole, ok}, Exact: true, N: 1, Why: "one segment less in flight per removed segment"},
		{Kind: "store", Target: "tcp.sender.outstanding", Args: []string{"$0", "0"}, Guards: []string{"($0.outstanding@u < 0)", ok}, Exact: true, N: 1, Why: "never negative"},
		{Kind: "store", Target: "tcp.sender.dupAckCount", Args: []string{"$0", "0"}, Guards: []string{ok}, Exact: true, N: 1, Why: "new data acknowledged: duplicate count restarts"},
		{Kind: "call", Target: "(*tcp.sender).sendData", Args: []string{"$0"}, Guards: []string{}, Exact: true, N: 1, Why: "every received segment ends with an attempt to send (window may have opened)"},
	})
}

// receiverBufferingRule: the out-of-order store of the receiver. A segment
// that is acceptable but not consumable is parked with its own reference and
// charged with its sequence-space length; a drained one is released and
// credited with its own length; a FIN discards what is still parked.
func receiverBufferingRule(c *Ctx, rule string) {
	if fn := c.Fn(rule, "(*tcp.receiver).handleRcvdSegment"); fn != nil {
		acc := "(*tcp.receiver).acceptable($0, $1.sequenceNumber, buffer.VectorisedView.Size($1.data))"
		cons := "(*tcp.receiver).consumeSegment($0, $1, $1.sequenceNumber, buffer.VectorisedView.Size($1.data))"
		park := []string{"!$0.closed", "!" + cons, "($0.pendingBufUsed < $0.pendingBufSize)", acc}
		drain := []string{"!$0.closed", "!(tcp.segmentHeap.Len($0.pendingRcvdSegments) < 1)", acc, cons}
		c.CheckSites(rule, fn, []SiteSpec{
			{Kind: "store", Target: "tcp.receiver.pendingBufUsed", Args: []string{"$0", "($0.pendingBufUsed + (*tcp.segment).logicalLen($1))"}, Guards: park, Exact: true, N: 1, Why: "a parked segment is charged with its sequence-space length, only while there is room"},
			{Kind: "call", Target: "(*tcp.segment).incRef", Args: []string{"$1"}, Guards: park, Exact: true, N: 1, Why: "the heap holds its own reference to a parked segment"},
			{Kind: "store", Target: "tcp.receiver.pendingBufUsed", Args: []string{"$0", "($0.pendingBufUsed@u - (*tcp.segment).logicalLen($0.pendingRcvdSegments[0]))"}, Guards: drain, Exact: true, N: 1, Why: "a drained segment is credited with its own length"},
			{Kind: "call", Target: "(*tcp.segment).decRef", Args: []string{"$0.pendingRcvdSegments[0]"}, Guards: drain, Exact: true, N: 1, Why: "and its heap reference is dropped"},
		})
	}
	if fn := c.Fn(rule, "(*tcp.receiver).consumeSegment"); fn != nil {
		c.CheckSites(rule, fn, []SiteSpec{
			{Kind: "store", Target: "tcp.receiver.pendingRcvdSegments", Args: []string{"$0", "$0.pendingRcvdSegments[:phi{0 | 1}]"}, Guards: []string{"!(phi{(1 + loop) | phi{0 | 1}} < builtin:len($0.pendingRcvdSegments))", "(*tcp.segment).flagIsSet($1, 1)"}, Exact: true, N: 1, Why: "after a FIN nothing parked can be delivered any more: the heap is emptied (keeping only the FIN segment itself when it is being drained)"},
			{Kind: "call", Target: "(*tcp.segment).decRef", Args: []string{"$0.pendingRcvdSegments[phi{(1 + loop) | phi{0 | 1}}]"}, Guards: []string{"(*tcp.segment).flagIsSet($1, 1)", "(phi{(1 + loop) | phi{0 | 1}} < builtin:len($0.pendingRcvdSegments))"}, Exact: true, N: 1, Why: "each discarded segment gives up its reference"},
		})
	}
}

// readerWakeRule: data handed to the reader keeps the segment alive and
// wakes the reader; the reader gives the segment up after its last view.
func readerWakeRule(c *Ctx, rule string) {
	if fn := c.Fn(rule, "(*tcp.endpoint).readyToRead"); fn != nil {
		c.CheckSites(rule, fn, []SiteSpec{
			{Kind: "call", Target: "(*tcp.segment).incRef", Args: []string{"$1"}, Guards: []string{"!($1 == nil)"}, Exact: true, N: 1, Why: "the receive list holds its own reference"},
			{Kind: "call", Target: "(*waiter.Queue).Notify", Args: []string{"$0.waiterQueue", "1"}, Guards: []string{}, Exact: true, N: 1, Why: "every hand-off (data or end of stream) wakes readers with EventIn"},
		})
	}
	if fn := c.Fn(rule, "(*tcp.endpoint).readLocked"); fn != nil {
		front := "(*tcp.segmentList).Front(&$0.rcvList)"
		c.CheckSites(rule, fn, []SiteSpec{
			{Kind: "call", Target: "(*tcp.segment).decRef", Args: []string{front}, Guards: []string{"!($0.rcvBufUsed == 0)", "!(" + front + ".viewToDeliver@1 < builtin:len(buffer.VectorisedView.Views(" + front + ".data)))"}, Exact: true, N: 1, Why: "the segment is released only after its last view was taken"},
		})
	}
}

// ackGenerationRule: after a batch of inbound segments an ACK goes out
// exactly when the next expected byte is ahead of the last acknowledged one,
// and unprocessed segments re-arm the worker.
func ackGenerationRule(c *Ctx, rule string) {
	fn := c.Fn(rule, "(*tcp.endpoint).handleSegments")
	if fn == nil {
		return
	}
	c.CheckSites(rule, fn, []SiteSpec{
		{Kind: "call", Target: "(*tcp.sender).sendAck", Args: []string{"$0.snd"}, Guards: []string{"!($0.rcv.rcvNxt == $0.snd.maxSentAck)"}, Exact: true, N: 1, Why: "what was received and not yet acknowledged is acknowledged at the end of the batch"},
		{Kind: "call", Target: "(*sleep.Waker).Assert", Args: []string{"&$0.newSegmentWaker"}, Guards: []string{"!(*tcp.segmentQueue).empty(&$0.segmentQueue)", "phi{false | true}"}, Exact: true, N: 1, Why: "segments left in the queue after the batch limit wake the worker again"},
	})
}

// shutdownRule: what Shutdown records and whom it tells.
func shutdownRule(c *Ctx, rule string) {
	fn := c.Fn(rule, "(*tcp.endpoint).Shutdown")
	if fn == nil {
		return
	}
	wr := []string{"!$0.sndClosed", "!(($0.shutdownFlags@1 & 2) == 0)", "($0.state == 4)"}
	c.CheckSites(rule, fn, []SiteSpec{
		{Kind: "store", Target: "tcp.endpoint.shutdownFlags", Args: []string{"$0", "($0.shutdownFlags | $1)"}, Guards: []string{}, Exact: true, N: 1, Why: "flags accumulate"},
		{Kind: "store", Target: "tcp.endpoint.sndBufInQueue", Args: []string{"$0", "($0.sndBufInQueue + 1)"}, Guards: wr, Exact: true, N: 1, Why: "the queued FIN occupies one sequence number: the worker's queue accounting must see it"},
		{Kind: "call", Target: "(*tcp.endpoint).notifyProtocolGoroutine", Args: []string{"$0", "32"}, Guards: []string{"!($0.rcvBufUsed < 1)", "!(($0.shutdownFlags@1 & 1) == 0)", "!(($0.shutdownFlags@1 & 2) == 0)", "($0.state == 4)"}, Exact: true, N: 1, Why: "full shutdown with unread data resets the connection"},
		{Kind: "call", Target: "(*tcp.endpoint).notifyProtocolGoroutine", Args: []string{"$0", "4"}, Guards: []string{"!($0.state == 4)", "!(($1 & 1) == 0)", "($0.state == 2)"}, Exact: true, N: 1, Why: "a listener is told to close"},
	})
}

// listenCookieRule: the listener's two stateless answers. Over the half-open
// limit a SYN is answered with SYN|ACK whose sequence number is the cookie
// over (id, peer's sequence number, encoded MSS), acknowledging seq+1, with
// no window scaling and the peer's timestamp echoed; an ACK carrying a valid
// cookie yields an endpoint whose options come from the cookie (MSS class)
// and from the ACK's timestamp option, never window scaling.
func listenCookieRule(c *Ctx, rule string) {
	fn := c.Fn(rule, "(*tcp.endpoint).handleListenSegment")
	if fn == nil {
		return
	}
	valid := "(*tcp.listenContext).isCookieValid($1, $2.id, ($2.ackNumber - 1), ($2.sequenceNumber - 1))"
	ack := []string{"!($2.flags == 2)", "($2.flags == 16)", "(" + valid + "#0 < builtin:len(tcp.mssTable))", valid + "#1"}
	ackTS := append([]string{"$2.parsedOptions.TS"}, ack...)
	created := "(*tcp.listenContext).createConnectedEndpoint($1, $2, ($2.ackNumber - 1), ($2.sequenceNumber - 1), &new(header.TCPSynOptions))"
	c.CheckSites(rule, fn, []SiteSpec{
		{Kind: "call", Target: "(*tcp.segment).incRef", Args: []string{"$2"}, Guards: []string{"($2.flags == 2)", "tcp.incSynRcvdCount()"}, Exact: true, N: 1, Why: "the SYN handed to the handshake goroutine is kept alive for it"},
		{Kind: "call", Target: "tcp.sendSynTCP", Args: []string{"&$2.route", "$2.id", "18", "(*tcp.listenContext).createCookie($1, $2.id, $2.sequenceNumber, tcp.encodeMSS(new(header.TCPSynOptions).MSS@1))", "($2.sequenceNumber + 1)", "$1.rcvWnd", "header.TCPSynOptions{MSS: zero, WS: -1, TS: new(header.TCPSynOptions).TS@1, TSVal: tcp.tcpTimeStamp(tcp.timeStampOffset()), TSEcr: new(header.TCPSynOptions).TSVal@1, SACKPermitted: zero}"}, Guards: []string{"!tcp.incSynRcvdCount()", "($2.flags == 2)"}, Exact: true, N: 1, Why: "over the limit: SYN|ACK with the cookie as sequence number, acknowledging seq+1, no window scale, peer's timestamp echoed"},
		{Kind: "store", Target: "header.TCPSynOptions.MSS", Args: []string{"new(header.TCPSynOptions)", "tcp.mssTable[" + valid + "#0]"}, Guards: ack, Exact: true, N: 1, Why: "the MSS class comes out of the validated cookie, bounds-checked against the table"},
		{Kind: "store", Target: "header.TCPSynOptions.WS", Args: []string{"new(header.TCPSynOptions)", "-1"}, Guards: ack, Exact: true, N: 1, Why: "a cookie connection never scales windows (the SYN|ACK offered none)"},
		{Kind: "store", Target: "header.TCPSynOptions.TS", Args: []string{"new(header.TCPSynOptions)", "true"}, Guards: ackTS, Exact: true, N: 1, Why: "timestamps exactly when the ACK carries the option"},
		{Kind: "store", Target: "header.TCPSynOptions.TSVal", Args: []string{"new(header.TCPSynOptions)", "$2.parsedOptions.TSVal"}, Guards: ackTS, Exact: true, N: 1, Why: "peer's value"},
		{Kind: "store", Target: "header.TCPSynOptions.TSEcr", Args: []string{"new(header.TCPSynOptions)", "$2.parsedOptions.TSEcr"}, Guards: ackTS, Exact: true, N: 1, Why: "our echoed value"},
		{Kind: "store", Target: "tcp.endpoint.tsOffset", Args: []string{created + "#0", "0"}, Guards: append([]string{"!($2.flags == 2)", "($2.flags == 16)", "(" + created + "#1 == nil)"}, ack[2:]...), Exact: true, N: 1, Why: "cookie SYN|ACKs used the global clock: no per-endpoint offset"},
	})
}

// handshakeReplyRule: the segments the handshake state machine sends. In
// SYN-SENT a SYN|ACK is answered with the ACK flag added, acknowledging the
// updated ackNum with the original iss; a bare SYN (simultaneous open) is
// answered with SYN|ACK. In SYN-RCVD a SYN with another sequence number from
// an active opener restarts the handshake. The negotiated options are taken
// from the peer's SYN.
func handshakeReplyRule(c *Ctx, rule string) {
	if fn := c.Fn(rule, "(*tcp.handshake).synSentState"); fn != nil {
		syn := []string{"!(*tcp.segment).flagIsSet($1, 4)", "(*tcp.handshake).checkAck($0, $1)", "(*tcp.segment).flagIsSet($1, 2)"}
		c.CheckSites(rule, fn, []SiteSpec{
			{Kind: "call", Target: "(*tcp.endpoint).maybeEnableTimestamp", Args: []string{"$0.ep", "&new(header.TCPSynOptions)"}, Guards: syn, Exact: true, N: 1, Why: "timestamps negotiated from the peer's SYN options"},
			{Kind: "call", Target: "(*tcp.endpoint).maybeEnableSACKPermitted", Args: []string{"$0.ep", "&new(header.TCPSynOptions)"}, Guards: syn, Exact: true, N: 1, Why: "SACK negotiated from the peer's SYN options"},
			{Kind: "store", Target: "tcp.handshake.flags", Args: []string{"$0", "($0.flags | 16)"}, Guards: syn, Exact: true, N: 1, Why: "from now on our segments carry ACK"},
			{Kind: "store", Target: "tcp.handshake.mss", Args: []string{"$0", "new(header.TCPSynOptions).MSS@3"}, Guards: syn, Exact: true, N: 1, Why: "peer's MSS"},
			{Kind: "call", Target: "tcp.sendSynTCP", Args: []string{"&$1.route", "$0.ep.id", "$0.flags@1", "$0.iss", "$0.ackNum@1", "$0.rcvWnd", "header.TCPSynOptions{MSS: zero, WS: $0.rcvWndScale, TS: new(header.TCPSynOptions).TS@3, TSVal: (*tcp.endpoint).timestamp($0.ep), TSEcr: $0.ep.recentTS, SACKPermitted: new(header.TCPSynOptions).SACKPermitted@3}"}, Guards: append([]string{"!(*tcp.segment).flagIsSet($1, 16)"}, syn...), Exact: true, N: 1, Why: "simultaneous open: SYN|ACK with our iss and the new ackNum"},
		})
	}
	if fn := c.Fn(rule, "(*tcp.handshake).synRcvdState"); fn != nil {
		c.CheckSites(rule, fn, []SiteSpec{
			{Kind: "call", Target: "tcp.sendSynTCP", Args: []string{"&$1.route", "$0.ep.id", "$0.flags", "$0.iss", "$0.ackNum", "$0.rcvWnd", "header.TCPSynOptions{MSS: zero, WS: $0.rcvWndScale, TS: $0.ep.sendTSOk, TSVal: (*tcp.endpoint).timestamp($0.ep), TSEcr: $0.ep.recentTS, SACKPermitted: $0.ep.sackPermitted}"}, Guards: []string{"!($1.sequenceNumber == ($0.ackNum - 1))", "!(*tcp.segment).flagIsSet($1, 4)", "$0.active", "((*tcp.handshake).resetState($0) == nil)", "(*tcp.handshake).checkAck($0, $1)", "(*tcp.segment).flagIsSet($1, 2)"}, Exact: true, N: 1, Why: "a different SYN from the peer of an active open restarts the handshake with fresh state"},
			{Kind: "call", Target: "(*tcp.endpoint).updateRecentTimestamp", Args: []string{"$0.ep", "$1.parsedOptions.TSVal", "$0.ackNum", "$1.sequenceNumber"}, Guards: []string{"!(*tcp.segment).flagIsSet($1, 4)", "(*tcp.handshake).checkAck($0, $1)", "(*tcp.segment).flagIsSet($1, 16)"}, Exact: true, N: 1, Why: "the final ACK's timestamp is recorded"},
		})
	}
	if fn := c.Fn(rule, "(*tcp.endpoint).handleSynSegment"); fn != nil {
		c.CheckSites(rule, fn, []SiteSpec{
			{Kind: "defer", Target: "tcp.decSynRcvdCount", Args: []string{}, Guards: []string{}, Exact: true, N: 1, Why: "the half-open slot is given back on every way out"},
			{Kind: "defer", Target: "(*tcp.segment).decRef", Args: []string{"$2"}, Guards: []string{}, Exact: true, N: 1, Why: "and the SYN's reference"},
		})
	}
}

// rttEstimatorRule: the smoothed round-trip estimator (RFC 6298 section 2,
// and RFC 7323 appendix G when every ACK is a sample), which the
// retransmission timeout is computed from, and which samples feed it.
func rttEstimatorRule(c *Ctx, rule string) {
	if fn := c.Fn(rule, "(*tcp.sender).updateRTO"); fn != nil {
		diff := "phi{($0.rtt.srtt - $1) | -($0.rtt.srtt - $1)}"
		ts := []string{"!($0.outstanding == 0)", "$0.ep.sendTSOk", "$0.srttInited"}
		c.CheckSites(rule, fn, []SiteSpec{
			{Kind: "store", Target: "tcp.rtt.rttvar", Args: []string{"$0.rtt", "($1 / 2)"}, Guards: []string{"!$0.srttInited"}, Exact: true, N: 1, Why: "first sample: RTTVAR = R/2"},
			{Kind: "store", Target: "tcp.rtt.srtt", Args: []string{"$0.rtt", "$1"}, Guards: []string{"!$0.srttInited"}, Exact: true, N: 1, Why: "first sample: SRTT = R"},
			{Kind: "store", Target: "tcp.sender.srttInited", Args: []string{"$0", "true"}, Guards: []string{"!$0.srttInited"}, Exact: true, N: 1, Why: "only the first sample initialises"},
			{Kind: "store", Target: "tcp.rtt.rttvar", Args: []string{"$0.rtt", "((($0.rtt.rttvar * 3) + " + diff + ") / 4)"}, Guards: []string{"!$0.ep.sendTSOk", "$0.srttInited"}, Exact: true, N: 1, Why: "RTTVAR = 3/4 RTTVAR + 1/4 |SRTT - R|, from the old SRTT"},
			{Kind: "store", Target: "tcp.rtt.srtt", Args: []string{"$0.rtt", "(($1 + ($0.rtt.srtt * 7)) / 8)"}, Guards: []string{"!$0.ep.sendTSOk", "$0.srttInited"}, Exact: true, N: 1, Why: "SRTT = 7/8 SRTT + 1/8 R"},
			{Kind: "store", Target: "tcp.rtt.rttvar", Args: []string{"$0.rtt", "((((0.25 / math.Ceil(($0.outstanding / 2))) * time.Duration.Seconds(" + diff + ")) + ((1 - (0.25 / math.Ceil(($0.outstanding / 2)))) * time.Duration.Seconds($0.rtt.rttvar))) * 1e+09)"}, Guards: ts, Exact: true, N: 1, Why: "per-ACK sampling: beta scaled by the expected samples per window"},
			{Kind: "store", Target: "tcp.rtt.srtt", Args: []string{"$0.rtt", "((((0.125 / math.Ceil(($0.outstanding / 2))) * time.Duration.Seconds($1)) + ((1 - (0.125 / math.Ceil(($0.outstanding / 2)))) * time.Duration.Seconds($0.rtt.srtt))) * 1e+09)"}, Guards: ts, Exact: true, N: 1, Why: "per-ACK sampling: alpha scaled likewise"},
		})
	}
	if fn := c.Fn(rule, "(*tcp.sender).handleRcvdSegment"); fn != nil {
		c.CheckSites(rule, fn, []SiteSpec{
			{Kind: "call", Target: "(*tcp.sender).updateRTO", Args: []string{"$0", "time.Time.Sub(time.Now(), $0.rttMeasureTime)"}, Guards: []string{"!$0.ep.sendTSOk", "seqnum.Value.LessThan($0.rttMeasureSeqNum, $1.ackNumber)"}, Exact: true, N: 1, Why: "without timestamps one sample per window: only an ACK beyond the measured sequence number counts (Karn: resendSegment moves that number)"},
			{Kind: "store", Target: "tcp.sender.rttMeasureSeqNum", Args: []string{"$0", "$0.sndNxt"}, Guards: []string{"!$0.ep.sendTSOk", "seqnum.Value.LessThan($0.rttMeasureSeqNum, $1.ackNumber)"}, Exact: true, N: 1, Why: "next measurement starts at what is sent next"},
			{Kind: "call", Target: "(*tcp.sender).updateRTO", Args: []string{"$0", "(((*tcp.endpoint).timestamp($0.ep) - $1.parsedOptions.TSEcr) * 1000000)"}, Guards: []string{"!($1.parsedOptions.TSEcr == 0)", "$0.ep.sendTSOk", "seqnum.Value.InRange(($1.ackNumber - 1), $0.sndUna, $0.sndNxt)"}, Exact: true, N: 1, Why: "with timestamps every ACK of new data is a sample: now - echoed value, in milliseconds"},
		})
	}
	if fn := c.Fn(rule, "(*tcp.sender).resendSegment"); fn != nil {
		c.CheckSites(rule, fn, []SiteSpec{
			{Kind: "store", Target: "tcp.sender.rttMeasureSeqNum", Args: []string{"$0", "$0.sndNxt"}, Guards: []string{}, Exact: true, N: 1, Why: "Karn's rule: a retransmitted range is never used as a sample"},
		})
	}
	if fn := c.Fn(rule, "(*tcp.sender).retransmitTimerExpired"); fn != nil {
		exp := []string{"($0.rto < 60000000000)", "(*tcp.timer).checkExpiration(&$0.resendTimer)"}
		c.CheckSites(rule, fn, []SiteSpec{
			{Kind: "store", Target: "tcp.fastRecovery.last", Args: []string{"$0.fr", "($0.sndNxt - 1)"}, Guards: exp, Exact: true, N: 1, Why: "RFC 6582: after a timeout duplicate ACKs below what was sent do not start fast retransmit"},
		})
	}
	if fn := c.Fn(rule, "(*tcp.sender).sendData"); fn != nil {
		c.CheckSites(rule, fn, []SiteSpec{
			{Kind: "store", Target: "tcp.sender.sndCwnd", Args: []string{"$0", "10"}, Guards: []string{"!$0.fr.active", "!($0.sndCwnd < 11)", "($0.rto < time.Time.Sub(time.Now(), $0.lastSendTime))"}, Exact: true, N: 1, Why: "RFC 5681 4.1: idle for more than one RTO restarts from the initial window, never raising it"},
		})
	}
}

// mtuShrinkRule: a smaller path MTU lowers the payload size, takes the
// lost packets out of the in-flight count (never below zero), restarts
// transmission at the first segment that no longer fits and sends.
func mtuShrinkRule(c *Ctx, rule string) {
	fn := c.Fn(rule, "(*tcp.sender).updateMaxPayloadSize")
	if fn == nil {
		return
	}
	m := "(($1 - 20) - builtin:len((*tcp.endpoint).makeOptions($0.ep, [zero, zero, zero, zero])))"
	less := "(" + m + " < $0.maxPayloadSize)"
	cur := "phi{(*tcp.segmentEntry).Next(&loop.segmentEntry) | (*tcp.segmentList).Front(&$0.writeList)}"
	c.CheckSites(rule, fn, []SiteSpec{
		{Kind: "store", Target: "tcp.sender.outstanding", Args: []string{"$0", "($0.outstanding - $2)"}, Guards: []string{less}, Exact: true, N: 1, Why: "the packets reported too big are no longer in flight"},
		{Kind: "store", Target: "tcp.sender.outstanding", Args: []string{"$0", "0"}, Guards: []string{"($0.outstanding@1 < 0)", less}, Exact: true, N: 1, Why: "never negative"},
		{Kind: "store", Target: "tcp.sender.writeNext", Args: []string{"$0", cur}, Guards: []string{"!($0.writeNext == " + cur + ")", "!(nil == " + cur + ")", less, "(phi{" + m + " | 1} < buffer.VectorisedView.Size(" + cur + ".data))"}, Exact: true, N: 1, Why: "resume at the first already-sent segment larger than the new payload size"},
		{Kind: "call", Target: "(*tcp.sender).sendData", Args: []string{"$0"}, Guards: []string{less}, Exact: true, N: 1, Why: "and send (the segments are split on the way)"},
	})
}

// reassemblerStateRule: what a fresh reassembler starts with (its age is
// measured from now; an empty fragment heap) and that the remainders of a
// split hole are stored back into the live hole list.
func reassemblerStateRule(c *Ctx, rule string) {
	if fn := c.Fn(rule, "fragmentation.newReassembler"); fn != nil {
		c.CheckSites(rule, fn, []SiteSpec{
			{Kind: "store", Target: "fragmentation.reassembler.creationTime", Args: []string{"new(fragmentation.reassembler)", "time.Now()"}, Guards: []string{}, Exact: true, N: 1, Why: "tooOld measures from the creation of this reassembler"},
			{Kind: "store", Target: "fragmentation.reassembler.heap", Args: []string{"new(fragmentation.reassembler)", "new([8]fragmentation.fragment)[:0]"}, Guards: []string{}, Exact: true, N: 1, Why: "no fragment is stored yet"},
		})
	}
	if fn := c.Fn(rule, "(*fragmentation.reassembler).updateHoles"); fn != nil {
		m := map[string]string{"HOLE": "$0.holes@u[(1 + phi{-1 | loop})]", "IN": "((1 + phi{-1 | loop}) < builtin:len($0.holes))"}
		overlap := sub(m, "{IN}", "!{HOLE}.deleted@u", "!({HOLE}.last@u < $1)", "!($2 < {HOLE}.first@u)")
		c.CheckSites(rule, fn, []SiteSpec{
			{Kind: "store", Target: "fragmentation.reassembler.holes", Args: sub(m, "$0", "builtin:append($0.holes@u, [fragmentation.hole{first: {HOLE}.first@u, last: ($1 - 1), deleted: false}])"), Guards: append(append([]string{}, overlap...), sub(m, "({HOLE}.first@u < $1)")...), Exact: true, N: 1, Why: "the left remainder is stored back into the reassembler's own list"},
			{Kind: "store", Target: "fragmentation.reassembler.holes", Args: sub(m, "$0", "builtin:append($0.holes@u, [fragmentation.hole{first: ($2 + 1), last: {HOLE}.last@u, deleted: false}])"), Guards: append(append([]string{}, overlap...), sub(m, "($2 < {HOLE}.last@u)", "$3")...), Exact: true, N: 1, Why: "the right remainder likewise"},
		})
	}
}

// nicAddressRule: a new address entry starts with exactly one reference
// (the insertion reference), knows its NIC, protocol and endpoint, and is
// published under the endpoint's own id; a temporary entry created for a
// promiscuous/spoofing lookup does not keep the insertion reference;
// cloning a route takes one reference on its address.
func nicAddressRule(c *Ctx, rule string) {
	if fn := c.Fn(rule, "(*stack.NIC).addAddressLocked"); fn != nil {
		ne := "iface:stack.NetworkProtocol.NewEndpoint($0.stack.networkProtocols[$1]#0, $0.id, $2, $0.stack, $0, $0.linkEP)"
		g := []string{"$0.stack.networkProtocols[$1]#1", "(" + ne + "#1 == nil)"}
		ref := "new(stack.referencedNetworkEndpoint)"
		c.CheckSites(rule, fn, []SiteSpec{
			{Kind: "store", Target: "stack.referencedNetworkEndpoint.refs", Args: []string{ref, "1"}, Guards: g, Exact: true, N: 1, Why: "exactly the insertion reference"},
			{Kind: "store", Target: "stack.referencedNetworkEndpoint.holdsInsertRef", Args: []string{ref, "true"}, Guards: g, Exact: true, N: 1, Why: "and the entry says so (RemoveAddress drops it once)"},
			{Kind: "store", Target: "stack.referencedNetworkEndpoint.ep", Args: []string{ref, ne + "#0"}, Guards: g, Exact: true, N: 1, Why: "the endpoint just created for this address"},
			{Kind: "store", Target: "stack.referencedNetworkEndpoint.nic", Args: []string{ref, "$0"}, Guards: g, Exact: true, N: 1, Why: "owning NIC"},
			{Kind: "store", Target: "stack.referencedNetworkEndpoint.protocol", Args: []string{ref, "$1"}, Guards: g, Exact: true, N: 1, Why: "network protocol of the address"},
			{Kind: "mapupdate", Target: "", Args: []string{"$0.endpoints", "iface:stack.NetworkEndpoint.ID(" + ne + "#0)", "&" + ref}, Guards: g, Exact: true, N: 1, Why: "published under the endpoint's own id (what lookups use)"},
			{Kind: "mapupdate", Target: "", Args: []string{"$0.primary", "$1", "&new(ilist.List)"}, Guards: append([]string{"!$0.primary[$1]#1"}, g...), Exact: true, N: 1, Why: "the per-protocol primary list is created on first use"},
			{Kind: "call", Target: "(*stack.NIC).removeEndpointLocked", Args: []string{"$0", "$0.endpoints[iface:stack.NetworkEndpoint.ID(" + ne + "#0)]#0"}, Guards: append([]string{"$0.endpoints[iface:stack.NetworkEndpoint.ID(" + ne + "#0)]#1", "$4"}, g...), Exact: true, N: 1, Why: "an existing entry is replaced only when the caller asked for it"},
		})
	}
	if fn := c.Fn(rule, "(*stack.NIC).getRef"); fn != nil {
		c.CheckSites(rule, fn, []SiteSpec{
			{Kind: "store", Target: "stack.referencedNetworkEndpoint.holdsInsertRef", Args: []string{"(*stack.NIC).addAddressLocked($0, $1, $2, 0, true)#0", "false"}, Guards: []string{"((*stack.NIC).addAddressLocked($0, $1, $2, 0, true)#1 == nil)", "phi{$0.promiscuous | true}"}, Exact: true, N: 1, Why: "a temporary entry lives only as long as its users: its single reference belongs to the caller"},
		})
	}
	if fn := c.Fn(rule, "(*stack.Route).Clone"); fn != nil {
		c.CheckSites(rule, fn, []SiteSpec{
			{Kind: "call", Target: "(*stack.referencedNetworkEndpoint).incRef", Args: []string{"$0.ref"}, Guards: []string{}, Exact: true, N: 1, Why: "a cloned route holds its own reference on the address (released by its own Release)"},
		})
	}
}

// stackCtorRule: the parameters the stack is built with: neighbour entries
// live 60 s, a resolution attempt waits 1 s, three attempts; a fresh port
// manager and demultiplexer per stack.
func stackCtorRule(c *Ctx, rule string) {
	fn := c.Fn(rule, "stack.New")
	if fn == nil {
		return
	}
	c.CheckSites(rule, fn, []SiteSpec{
		{Kind: "store", Target: "stack.Stack.linkAddrCache", Args: []string{"new(stack.Stack)", "stack.newLinkAddrCache(60000000000, 1000000000, 3)"}, Guards: []string{}, Exact: true, N: 1, Why: "age limit 1 min, 1 s per attempt, 3 attempts"},
		{Kind: "store", Target: "stack.Stack.PortManager", Args: []string{"new(stack.Stack)", "ports.NewPortManager()"}, Guards: []string{}, Exact: true, N: 1, Why: "port reservations are per stack"},
		{Kind: "store", Target: "stack.Stack.demux", Args: []string{"new(stack.Stack)", "stack.newTransportDemuxer(&new(stack.Stack))"}, Guards: []string{"!((1 + phi{-1 | loop}) < builtin:len($0))", "!((1 + phi{-1 | loop}) < builtin:len($1))"}, Exact: true, N: 1, Why: "the stack-wide demultiplexer is built after every protocol is registered (it allocates one table per network x transport pair)"},
	})
}

// arpRequestRule: an ARP request is stamped Ethernet/IPv4 before its fields.
func arpRequestRule(c *Ctx, rule string) {
	if fn := c.Fn(rule, "(*arp.protocol).LinkAddressRequest"); fn != nil {
		c.CheckSites(rule, fn, []SiteSpec{
			{Kind: "call", Target: "header.ARP.SetIpv4OverEthernet", Args: []string{"(*buffer.Prependable).Prepend(&new(buffer.Prependable), 28)"}, Guards: []string{}, Exact: true, N: 1, Why: "hardware type 1, protocol 0x0800, sizes 6/4 on the 28 prepended bytes"},
		})
	}
}

// ipv6EncodeRule: the IPv6 emitter writes its fields into the 40 bytes it
// prepended.
func ipv6EncodeRule(c *Ctx, rule string) {
	if fn := c.Fn(rule, "(*ipv6.endpoint).WritePacket"); fn != nil {
		c.CheckSites(rule, fn, []SiteSpec{
			{Kind: "call", Target: "header.IPv6.Encode", Args: []string{"(*buffer.Prependable).Prepend(&new(buffer.Prependable), 40)", "&new(header.IPv6Fields)"}, Guards: []string{}, Exact: true, N: 1, Why: "fixed header encoded into exactly the prepended region"},
		})
	}
}

// udpConnectStateRule: a successful Connect records the peer's port, a
// clone of the route found, the identity it was registered under, and opens
// the receive side; HandlePacket wakes readers when the queue was empty;
// Close marks the receive side closed, empties the queue and gives up the
// route.
func udpConnectStateRule(c *Ctx, rule string) {
	if fn := c.Fn(rule, "(*udp.endpoint).Connect"); fn != nil {
		g := []string{"!($1.Port == 0)"}
		c.CheckSites(rule, fn, []SiteSpec{
			{Kind: "store", Target: "udp.endpoint.dstPort", Args: []string{"$0", "new(tcpip.FullAddress).Port@2"}, Guards: g, N: 1, Why: "datagrams go to the port connected to"},
			{Kind: "store", Target: "udp.endpoint.route", Args: []string{"$0", "(*stack.Route).Clone(&new(stack.Route))"}, Guards: g, N: 1, Why: "the endpoint keeps its own reference on the route found (the local one is released by the defer)"},
			{Kind: "store", Target: "udp.endpoint.state", Args: []string{"$0", "2"}, Guards: g, N: 1, Why: "connected"},
			{Kind: "store", Target: "udp.endpoint.rcvReady", Args: []string{"$0", "true"}, Guards: g, N: 1, Why: "a connected socket receives"},
			{Kind: "store", Target: "udp.endpoint.regNICID", Args: []string{"$0", "phi{$0.bindNICID | $1.NIC}"}, Guards: g, N: 1, Why: "unregistration later uses the NIC it was registered on"},
		})
	}
	if fn := c.Fn(rule, "(*udp.endpoint).HandlePacket"); fn != nil {
		c.CheckSites(rule, fn, []SiteSpec{
			{Kind: "call", Target: "(*waiter.Queue).Notify", Args: []string{"$0.waiterQueue", "1"}, Guards: []string{"!$0.rcvClosed", "!(buffer.VectorisedView.Size($3) < header.UDP.Length(buffer.VectorisedView.First($3)))", "$0.rcvReady", "($0.rcvBufSize < $0.rcvBufSizeMax)", "($0.rcvBufSize == 0)"}, Exact: true, N: 1, Why: "the first datagram of an empty queue wakes readers (later ones find them awake)"},
		})
	}
	if fn := c.Fn(rule, "(*udp.endpoint).Close"); fn != nil {
		done := "!((1 + phi{-1 | loop}) < builtin:len($0.multicastMemberships))"
		c.CheckSites(rule, fn, []SiteSpec{
			{Kind: "call", Target: "(*udp.udpPacketList).Remove", Args: []string{"&$0.rcvList", "(*udp.udpPacketList).Front(&$0.rcvList)"}, Guards: []string{done, "!(*udp.udpPacketList).Empty(&$0.rcvList)"}, Exact: true, N: 1, Why: "queued datagrams are dropped front to back until the list is empty"},
			{Kind: "call", Target: "(*stack.Route).Release", Args: []string{"&$0.route"}, Guards: []string{done, "(*udp.udpPacketList).Empty(&$0.rcvList)"}, Exact: true, N: 1, Why: "the endpoint's route reference is given up once"},
			{Kind: "store", Target: "udp.endpoint.state", Args: []string{"$0", "3"}, Guards: []string{done, "(*udp.udpPacketList).Empty(&$0.rcvList)"}, Exact: true, N: 1, Why: "closed"},
			{Kind: "call", Target: "(*waiter.Queue).Notify", Args: []string{"$0.waiterQueue", "29"}, Guards: []string{done, "(*udp.udpPacketList).Empty(&$0.rcvList)"}, Exact: true, N: 1, Why: "blocked readers and writers are woken with hang-up/error/in/out"},
		})
	}
}

// tcpTeardownRule: the final cleanup of a TCP endpoint. Connections still
// waiting in a listener's accept queue are reset and closed, the queue is
// dropped once drained, the endpoint's route reference is given up once and
// the endpoint leaves the dangling set.
func tcpTeardownRule(c *Ctx, rule string) {
	fn := c.Fn(rule, "(*tcp.endpoint).cleanupLocked")
	if fn == nil {
		return
	}
	has := "!($0.acceptedChan == nil)"
	c.CheckSites(rule, fn, []SiteSpec{
		{Kind: "call", Target: "(*tcp.endpoint).resetConnectionLocked", Args: []string{"<-$0.acceptedChan#0", "tcpip.ErrConnectionAborted"}, Guards: []string{has, "<-$0.acceptedChan#1"}, Exact: true, N: 1, Why: "every connection nobody accepted is reset"},
		{Kind: "call", Target: "(*tcp.endpoint).Close", Args: []string{"<-$0.acceptedChan#0"}, Guards: []string{has, "<-$0.acceptedChan#1"}, Exact: true, N: 1, Why: "and closed (releases its registration)"},
		{Kind: "store", Target: "tcp.endpoint.acceptedChan", Args: []string{"$0", "nil"}, Guards: []string{has, "!<-$0.acceptedChan#1"}, Exact: true, N: 1, Why: "the queue is dropped only after it is drained"},
		{Kind: "call", Target: "(*stack.Route).Release", Args: []string{"&$0.route"}, Guards: []string{}, Exact: true, N: 1, Why: "the endpoint's route reference is given up exactly once"},
		{Kind: "call", Target: "tcpip.DeleteDanglingEndpoint", Args: []string{"$0"}, Guards: []string{}, Exact: true, N: 1, Why: "cleanup done: no longer dangling"},
		{Kind: "store", Target: "tcp.endpoint.workerCleanup", Args: []string{"$0", "false"}, Guards: []string{}, Exact: true, N: 1, Why: "cleanup happens once"},
	})
}

// tcpConnectIdentityRule: an active open takes its identity from the route
// found and the address asked for, keeps its own clone of that route and
// enters the connecting state.
func tcpConnectIdentityRule(c *Ctx, rule string) {
	fn := c.Fn(rule, "(*tcp.endpoint).connect")
	if fn == nil {
		return
	}
	c.CheckSites(rule, fn, []SiteSpec{
		{Kind: "store", Target: "stack.TransportEndpointID.LocalAddress", Args: []string{"$0.id", "new(stack.Route).LocalAddress@2"}, N: 1, Why: "local address of the route found"},
		{Kind: "store", Target: "stack.TransportEndpointID.RemoteAddress", Args: []string{"$0.id", "new(stack.Route).RemoteAddress@2"}, N: 1, Why: "remote address of the route found"},
		{Kind: "store", Target: "stack.TransportEndpointID.RemotePort", Args: []string{"$0.id", "new(tcpip.FullAddress).Port@2"}, N: 1, Why: "the port asked for"},
		{Kind: "store", Target: "tcp.endpoint.route", Args: []string{"$0", "(*stack.Route).Clone(&new(stack.Route))"}, N: 1, Why: "own reference on the route (the local one is released by the defer)"},
	})
}

// handshakeAckTestRule: an ACK is acceptable to the handshake exactly when
// it acknowledges iss+1; a segment without ACK passes.
func handshakeAckTestRule(c *Ctx, rule string) {
	c.Returns(rule, "(*tcp.handshake).checkAck",
		RetSpec{Args: []string{"false"}, Guards: []string{"!($1.ackNumber == ($0.iss + 1))", "(*tcp.segment).flagIsSet($1, 16)"}, Why: "an ACK for anything but iss+1 is refused"},
		RetSpec{Args: []string{"true"}, Why: "otherwise acceptable"})
}

// demuxRegisterReturnsRule: registration fails with ErrPortInUse exactly
// when the id is taken, stops at the first failing network protocol and
// otherwise succeeds.
func demuxRegisterReturnsRule(c *Ctx, rule string) {
	eps := "$0.protocol[stack.protocolIDs{network: $1, transport: $2}]"
	c.Returns(rule, "(*stack.transportDemuxer).singleRegisterEndpoint",
		RetSpec{Args: []string{"nil"}, Guards: []string{"!" + eps + "#1"}, Why: "no table for this protocol pair: nothing to register"},
		RetSpec{Args: []string{"tcpip.ErrPortInUse"}, Guards: []string{eps + "#0.endpoints[$3]#1", eps + "#1"}, Why: "the id is taken"},
		RetSpec{Args: []string{"nil"}, Guards: []string{"!" + eps + "#0.endpoints[$3]#1", eps + "#1"}, Why: "registered"})
	one := "(*stack.transportDemuxer).singleRegisterEndpoint($0, $1[(1 + phi{-1 | loop})], $2, $3, $4)"
	c.Returns(rule, "(*stack.transportDemuxer).registerEndpoint",
		RetSpec{Args: []string{"nil"}, Guards: []string{"!((1 + phi{-1 | loop}) < builtin:len($1))"}, Why: "every network protocol registered"},
		RetSpec{Args: []string{one}, Guards: []string{"!(" + one + " == nil)", "((1 + phi{-1 | loop}) < builtin:len($1))"}, Why: "the first failure is the result"})
}

// portReserveReturnsRule: a specific port is reserved exactly when it is
// available for every requested network.
func portReserveReturnsRule(c *Ctx, rule string) {
	av := "(*ports.PortManager).isPortAvailableLocked($0, $1, $2, $3, $4)"
	c.Returns(rule, "(*ports.PortManager).reserveSpecificPort",
		RetSpec{Args: []string{"false"}, Guards: []string{"!" + av}, Why: "not available: nothing reserved"},
		RetSpec{Args: []string{"true"}, Guards: []string{"!((1 + phi{-1 | loop}) < builtin:len($1))", av}, Why: "reserved for every network"})
}

// sendResultRule: the emitters return what the route's WritePacket returned.
func sendResultRule(c *Ctx, rule string, fns ...string) {
	for _, f := range fns {
		switch f {
		case "tcp.sendTCP":
			c.Returns(rule, f, RetSpec{Args: []string{"(*stack.Route).WritePacket($0, new(buffer.Prependable)@2, $2, 6, $3)"}, Why: "one write of the built header and the data as protocol 6 with the TTL given; its result is the result"})
		case "udp.sendUDP":
			c.Returns(rule, f, RetSpec{Args: []string{"(*stack.Route).WritePacket($0, new(buffer.Prependable)@2, $1, 17, $4)"}, Why: "one write of the built header and the data as protocol 17 with the TTL given; its result is the result"})
		case "tcp.sendSynTCP":
			c.Returns(rule, f, RetSpec{Args: []string{"tcp.sendTCP($0, $1, zero, (*stack.Route).DefaultTTL($0), $2, $3, $4, $5, tcp.makeSynOptions(phi{$6 | partial}))"}, Why: "a SYN carries no data, the route's default TTL, and the options built from the arguments"})
		}
	}
}

// congestionChoiceRule: Reno unless cubic was asked for by name.
func congestionChoiceRule(c *Ctx, rule string) {
	c.Returns(rule, "(*tcp.sender).initCongestionControl",
		RetSpec{Args: []string{"tcp.newCubicCC($0)"}, Guards: []string{"(\"cubic\" == $1)"}, Why: "cubic only by name"},
		RetSpec{Args: []string{"tcp.newRenoCC($0)"}, Guards: []string{"!(\"cubic\" == $1)"}, Why: "Reno is the default controller"})
}

// icmpDispatchRule: protocol 1 of a valid IPv4 datagram goes to handleICMP
// with the header already removed.
func icmpDispatchRule(c *Ctx, rule string) {
	if fn := c.Fn(rule, "(*ipv4.endpoint).HandlePacket"); fn != nil {
		c.CheckSites(rule, fn, []SiteSpec{
			{Kind: "call", Target: "(*ipv4.endpoint).handleICMP", Args: []string{"$0", "$1", "new(buffer.VectorisedView)@*"}, Guards: []string{"(1 == header.IPv4.TransportProtocol(buffer.VectorisedView.First($2)))", "header.IPv4.IsValid(buffer.VectorisedView.First($2), buffer.VectorisedView.Size($2))"}, N: 1, Why: "ICMP is handled by the network endpoint itself, on the route of the datagram, with the payload view"},
		})
	}
}

// segmentQueueRule: the inbound segment queue. A queued segment is charged
// payload + 20 bytes (so that even a bare ACK counts), the same amount is
// credited when exactly that segment is removed, and "empty" is used == 0.
// The worker re-arms itself after a full batch only when the queue is not
// empty: if bare ACKs counted nothing, duplicate ACKs left behind a batch
// would wait for the next packet (C05), as would FINs and window updates.
func segmentQueueRule(c *Ctx, rule string) {
	if fn := c.Fn(rule, "(*tcp.segmentQueue).enqueue"); fn != nil {
		room := "($0.used < $0.limit)"
		c.CheckSites(rule, fn, []SiteSpec{
			{Kind: "call", Target: "(*tcp.segmentList).PushBack", Args: []string{"&$0.list", "$1"}, Guards: []string{room}, Exact: true, N: 1, Why: "queued at the tail, only while under the limit"},
			{Kind: "store", Target: "tcp.segmentQueue.used", Args: []string{"$0", "($0.used + (20 + buffer.VectorisedView.Size($1.data)))"}, Guards: []string{room}, Exact: true, N: 1, Why: "charged payload + header size: strictly positive for every segment"},
			{Kind: "return", Args: []string{room}, Guards: []string{}, Exact: true, N: 1, Why: "the caller learns whether the segment was taken"},
		})
	}
	if fn := c.Fn(rule, "(*tcp.segmentQueue).dequeue"); fn != nil {
		front := "(*tcp.segmentList).Front(&$0.list)"
		has := "!(" + front + " == nil)"
		c.CheckSites(rule, fn, []SiteSpec{
			{Kind: "call", Target: "(*tcp.segmentList).Remove", Args: []string{"&$0.list", front}, Guards: []string{has}, Exact: true, N: 1, Why: "the head leaves the list"},
			{Kind: "store", Target: "tcp.segmentQueue.used", Args: []string{"$0", "($0.used - (20 + buffer.VectorisedView.Size(" + front + ".data)))"}, Guards: []string{has}, Exact: true, N: 1, Why: "credited with exactly what that segment was charged"},
			{Kind: "return", Args: []string{front}, Guards: []string{}, Exact: true, N: 1, Why: "the removed head (nil when there is none)"},
		})
	}
	c.Returns(rule, "(*tcp.segmentQueue).empty", RetSpec{Args: []string{"($0.used == 0)"}, Why: "empty exactly when nothing is charged"})
}

// listenerAcceptLoopRule: the HTTP/WebSocket server's accept loop tries to
// accept first and waits for a notification only when the queue was empty;
// waiting before every accept loses connections whose notifications
// coalesced in the one-slot channel.
func listenerAcceptLoopRule(c *Ctx, rule, fname string) {
	fn := c.Fn(rule, fname)
	if fn == nil {
		return
	}
	n := 0
	for _, s := range Sites(fn) {
		if s.Kind != "recv" {
			continue
		}
		n++
		ok := false
		for _, g := range s.Guards {
			if strings.Contains(g, "Accept(") && strings.Contains(g, "tcpip.ErrWouldBlock") && !strings.HasPrefix(g, "!") {
				ok = true
			}
		}
		c.Check(ok, rule, FuncName(fn)+"/wait-only-after-would-block", c.pos(s.Instr), "the loop waits only after Accept reported an empty queue", "the accept loop waits for a notification without having found the accept queue empty: notifications coalesce, queued connections are never accepted; guards ["+strings.Join(s.Guards, " && ")+"]")
	}
	c.Check(n >= 1, rule, FuncName(fn)+"/waits", c.P.Pos(fn.Pos()), "the loop blocks on the listener's notification channel when idle", "no wait on the notification channel: the loop spins or never accepts")
}

// intSizes: both analysed configurations (amd64, ppc64le) are 64-bit.
var intSizes = types.SizesFor("gc", "amd64")

// FieldWidthAtLeast: the named struct field or named type of package pkg is
// an integer of at least `bytes` bytes.
func (c *Ctx) TypeWidthAtLeast(rule, pkgSuffix, typeName string, bytes int64, why string) {
	for _, p := range c.P.Pkgs {
		if p.Types == nil || !strings.HasSuffix(p.Types.Path(), pkgSuffix) {
			continue
		}
		obj := p.Types.Scope().Lookup(typeName)
		if obj == nil {
			continue
		}
		b, ok := obj.Type().Underlying().(*types.Basic)
		key := pkgSuffix + "." + typeName + "/width"
		pos := c.P.Pos(obj.Pos())
		if !ok || b.Info()&types.IsInteger == 0 {
			c.Bad(rule, key, pos, typeName+" is no longer an integer type")
			return
		}
		c.Check(intSizes.Sizeof(b) >= bytes, rule, key, pos, typeName+" is "+b.Name()+": "+why, typeName+" is "+b.Name()+", narrower than "+itoa(int(bytes))+" bytes: "+why)
		return
	}
	c.Broken(rule, "anchor-unresolved:"+pkgSuffix+"."+typeName, "type not found")
}

// initialSequenceProvenanceRule: where the first sequence numbers of a
// connection come from, at every construction site in the module (closed):
// the sender starts from (iss, irs), the receiver from irs; for an active or
// handshaken open irs is the handshake's ackNum-1 and iss its iss; for a
// passive open irs is the SYN's sequence number and iss the cookie; for a
// cookie connection both are recovered from the final ACK (ack-1, seq-1).
func initialSequenceProvenanceRule(c *Ctx, rule string) {
	ep := "tcp.newEndpoint($0.stack, phi{$0.netProto | $1.route.NetProto}, nil)"
	c.CheckCallers(rule, []string{"tcp.newSender", "tcp.newReceiver", "(*tcp.listenContext).createConnectedEndpoint"}, []CallerSpec{
		{Fn: "(*tcp.endpoint).protocolMainLoop", Target: "tcp.newSender", Args: []string{"$0", "new(tcp.handshake).iss@u", "(new(tcp.handshake).ackNum@u - 1)", "new(tcp.handshake).sndWnd@u", "new(tcp.handshake).mss@u", "new(tcp.handshake).sndWndScale@u"}, Why: "after the handshake: iss as sent, irs = what we acknowledge minus the SYN"},
		{Fn: "(*tcp.endpoint).protocolMainLoop", Target: "tcp.newReceiver", Args: []string{"$0", "(new(tcp.handshake).ackNum@u - 1)", "new(tcp.handshake).rcvWnd@u", "(*tcp.handshake).effectiveRcvWndScale(&new(tcp.handshake))"}, Why: "the receiver expects irs+1 first"},
		{Fn: "(*tcp.listenContext).createConnectedEndpoint", Target: "tcp.newSender", Args: []string{ep, "$2", "$3", "$1.window", "$4.MSS", "$4.WS"}, Why: "iss and irs as given by the caller"},
		{Fn: "(*tcp.listenContext).createConnectedEndpoint", Target: "tcp.newReceiver", Args: []string{ep, "$3", "$0.rcvWnd", "0"}, Why: "irs as given by the caller"},
		{Fn: "(*tcp.endpoint).handleListenSegment", Target: "(*tcp.listenContext).createConnectedEndpoint", Args: []string{"$1", "$2", "($2.ackNumber - 1)", "($2.sequenceNumber - 1)", "&new(header.TCPSynOptions)"}, Why: "cookie connection: the final ACK acknowledges iss+1 and carries irs+1"},
		{Fn: "(*tcp.listenContext).createEndpointAndPerformHandshake", Target: "(*tcp.listenContext).createConnectedEndpoint", Args: []string{"$0", "$1", "(*tcp.listenContext).createCookie($0, $1.id, $1.sequenceNumber, tcp.encodeMSS($2.MSS))", "$1.sequenceNumber", "$2"}, Why: "passive open: irs is the SYN's sequence number, iss the cookie over it"},
	})
}

// handshakeWindowRule: the peer's window seen during the handshake is taken
// from every segment and scaled by the peer's shift only on segments that
// are not SYNs (RFC 7323 2.2: the window of a SYN is never scaled) - this
// value becomes the sender's first send window. Shared by C04/N12 and the
// handleSegment table of C03/H3.
func handshakeWindowRule(c *Ctx, rule string) {
	fn := c.Fn(rule, "(*tcp.handshake).handleSegment")
	if fn == nil {
		return
	}
	c.CheckSites(rule, fn, []SiteSpec{
		{Kind: "store", Target: "tcp.handshake.sndWnd", Args: []string{"$0", "$1.window"}, Guards: []string{}, Exact: true, N: 1, Why: "the peer's window is recorded from every segment"},
		{Kind: "store", Target: "tcp.handshake.sndWnd", Args: []string{"$0", "($0.sndWnd@1 << $0.sndWndScale)"}, Guards: []string{"!($0.sndWndScale < 1)", "!(*tcp.segment).flagIsSet($1, 2)"}, Exact: true, N: 1, Why: "scaled unless the segment is a SYN"},
	})
}

// narrowingSites lists the integer conversions to a narrower type in the
// functions selected by in, keyed "function/from->to".
func narrowingSites(p *Program, in func(*ssa.Function) bool) map[string]int {
	out := map[string]int{}
	for _, fn := range p.Funcs {
		if fn.Pkg == nil || inTesting(fn) || !in(fn) {
			continue
		}
		Instrs(fn, func(ins ssa.Instruction) {
			cv, ok := ins.(*ssa.Convert)
			if !ok {
				return
			}
			from, ok1 := cv.X.Type().Underlying().(*types.Basic)
			to, ok2 := cv.Type().Underlying().(*types.Basic)
			if !ok1 || !ok2 || from.Info()&types.IsInteger == 0 || to.Info()&types.IsInteger == 0 {
				return
			}
			if _, isConst := cv.X.(*ssa.Const); isConst {
				return
			}
			if intSizes.Sizeof(to) < intSizes.Sizeof(from) {
				out[FuncName(topFunc(fn))+"/"+from.Name()+"->"+to.Name()]++
			}
		})
	}
	return out
}

// DumpNarrowing prints the narrowing conversions of the module (dev aid).
func DumpNarrowing(p *Program) {
	m := narrowingSites(p, func(*ssa.Function) bool { return true })
	var ks []string
	for k := range m {
		ks = append(ks, k)
	}
	sort.Strings(ks)
	for _, k := range ks {
		fmt.Printf("%s %d\n", k, m[k])
	}
	fmt.Println(len(ks), "keys")
}

// narrowOK is one reviewed narrowing conversion: at most N such conversions
// in the function, with the reason why no value is lost (or why losing the
// high bits is the intention).
type narrowOK struct {
	N   int
	Why string
}

// NoNewNarrowing: closed world over the packages selected by suffix. Every
// integer conversion to a narrower type must be in the reviewed table (by
// function and type pair, with its count); anything else - a field or type
// narrowed with conversions added where it is used, a length squeezed into
// 16 bits - is reported. Packages with no reviewed entry must have none.
func (c *Ctx) NoNewNarrowing(rule string, pkgs []string, allow map[string]narrowOK) {
	in := func(fn *ssa.Function) bool {
		for _, s := range pkgs {
			if strings.HasSuffix(fn.Pkg.Pkg.Path(), s) {
				return true
			}
		}
		return false
	}
	got := narrowingSites(c.P, in)
	var ks []string
	for k := range got {
		ks = append(ks, k)
	}
	sort.Strings(ks)
	for _, k := range ks {
		a, ok := allow[k]
		fname := k[:strings.LastIndex(k, "/")]
		pos := ""
		if fn := c.P.Func(fname); fn != nil {
			pos = c.P.Pos(fn.Pos())
		}
		switch {
		case !ok:
			c.Bad(rule, k+"/unreviewed", pos, "integer conversion to a narrower type that no reviewed entry covers ("+itoa(got[k])+" site(s)): high bits are silently dropped unless a guard bounds the value")
		case got[k] > a.N:
			c.Bad(rule, k+"/count", pos, "reviewed "+itoa(a.N)+" such conversion(s), found "+itoa(got[k])+": "+a.Why)
		default:
			c.Ok(rule, k, pos, "reviewed: "+a.Why)
		}
	}
	n := 0
	for _, fn := range c.P.Funcs {
		if fn.Pkg != nil && !inTesting(fn) && in(fn) {
			n++
		}
	}
	c.Check(n > 0, rule, "functions-scanned:"+strings.Join(pkgs, ","), "", itoa(n)+" functions scanned, "+itoa(len(ks))+" narrowing keys", "no function of the packages was scanned")
	ctl := narrowingSites(c.P, func(fn *ssa.Function) bool { return strings.HasSuffix(fn.Pkg.Pkg.Path(), "/protocol/header") })
	c.Check(len(ctl) > 0, rule, "positive-control:/protocol/header", "", itoa(len(ctl))+" narrowing keys found in the header codecs by the same scan", "the scan finds no narrowing conversion even where they exist")
}

var narrowTCP = map[string]narrowOK{
	"(*tcp.endpoint).Listen/int->uint32":               {1, "receive buffer room as the listener's window: a buffer size, far below 2^31"},
	"(*tcp.endpoint).Write/int->uint32":                {1, "length of the accepted view, bounded by the send buffer size"},
	"(*tcp.endpoint).protocolMainLoop/int->uint32":     {2, "receive buffer room / size: buffer sizes"},
	"(*tcp.handshake).effectiveRcvWndScale/int->uint8": {1, "window shift, 0..14 (FindWndScale)"},
	"(*tcp.handshake).handleSegment/int->uint8":        {1, "peer's window shift, tested > 0 and at most 14 after parsing"},
	"(*tcp.receiver).getSendParams/int->uint32":        {1, "receive buffer room"},
	"(*tcp.receiver).handleRcvdSegment/int->uint32":    {2, "payload length of one segment (at most 64 KiB)"},
	"(*tcp.segment).logicalLen/int->uint32":            {1, "payload length of one segment"},
	"(*tcp.sender).sendData/int->uint32":               {2, "payload length of one segment / bytes that fit the window"},
	"tcp.NewForwarder/int->uint32":                     {1, "configured receive window"},
	"tcp.encodeMSS/int->uint32":                        {1, "index into the 4-entry MSS table"},
	"tcp.newSender/int->uint8":                         {1, "window shift, guarded > 0, at most 14"},
	"tcp.sendSynTCP/uint32->uint16":                    {1, "MSS option = MTU - 20 (N3m decides the chain; MTUs are 16-bit here)"},
	"tcp.sendTCP/int->uint16":                          {1, "TCP length for the checksum: header + payload of one segment, bounded by the MSS"},
	"tcp.sendTCP/int->uint8":                           {1, "data offset 20..60"},
	"tcp.sendTCP/uint32->uint16":                       {1, "advertised window: N1 decides that it fits 16 bits"},
	"tcp.tcpTimeStamp/int64->uint32":                   {1, "RFC 7323 timestamps are the low 32 bits of a millisecond clock by design"},
	"tcp.timeStamp/int64->uint32":                      {1, "RFC 7323 timestamps are the low 32 bits of a millisecond clock by design"},
}

var narrowIP = map[string]narrowOK{
	"(*ipv4.endpoint).WritePacket/int->uint16":        {1, "total length, after the fits-in-16-bits guard (E1)"},
	"(*ipv4.endpoint).WritePacket/uint32->uint16":     {1, "identification = low 16 bits of the per-flow counter, by design"},
	"(*ipv4.endpoint).WritePacket/uint32->uint8":      {1, "transport protocol number (< 256)"},
	"(*ipv4.endpoint).HandlePacket/int->uint16":       {1, "payload size after CapLength(TotalLength): at most 65535"},
	"(*ipv6.endpoint).WritePacket/int->uint16":        {1, "payload length: the transports bound it (UDP < 65528 + 8, TCP by the MSS)"},
	"(*ipv6.endpoint).WritePacket/uint32->uint8":      {1, "next header = transport protocol number (< 256)"},
	"(*ipv6.protocol).LinkAddressRequest/int->uint16": {1, "fixed neighbour-solicitation size"},
	"ipv6.icmpChecksum/int->uint32":                   {1, "upper-layer length of one packet"},
}

var narrowPorts = map[string]narrowOK{
	"(*ports.PortManager).PickEphemeralPort/int32->uint16":  {1, "random offset below count <= 49536"},
	"(*ports.PortManager).PickEphemeralPort/uint32->uint16": {1, "(offset + i) mod count, below count"},
}

var narrowUDP = map[string]narrowOK{
	"udp.sendUDP/int->uint16": {1, "UDP length: Write refuses payloads of 65528 bytes and more (U5), header 8"},
}

var narrowHeader = map[string]narrowOK{
	"(*header.DNS).getDomain/int->byte":         {1, "label length of a name component"},
	"header.ARP.SetOp/uint16->uint8":            {2, "high and low byte of the operation"},
	"header.Checksum/uint32->uint16":            {2, "fold to 16 bits after the carries were added back (B4)"},
	"header.ChecksumCombine/uint32->uint16":     {1, "fold to 16 bits after the carries were added back (B4)"},
	"header.EncodeMSSOption/uint32->byte":       {2, "high and low byte of a 16-bit MSS"},
	"header.EncodeSACKBlocks/int->byte":         {1, "option length 2 + 8n, n <= 4"},
	"header.EncodeWSOption/int->uint8":          {1, "window shift 0..14"},
	"header.Ethernet.Encode/uint32->uint16":     {1, "EtherType = network protocol number (16 bits)"},
	"header.IPv4.Flags/uint16->uint8":           {1, "top 3 bits of the word (B1)"},
	"header.IPv6.TOS/uint32->uint8":             {1, "8 bits extracted by shift (B1)"},
	"header.PseudoHeaderChecksum/uint32->uint8": {1, "transport protocol number (< 256)"},
	"tcpip.ParseMACAddress/uint64->byte":        {1, "ParseUint with bit size 8"},
}

var narrowApp = map[string]narrowOK{
	"(*websocket.Conn).SendData/int->byte":     {1, "payload length in the < 126 branch"},
	"(*websocket.Conn).SendData/int->uint16":   {1, "payload length in the < 65536 branch"},
	"(*http.Server).ListenAndServ/int->uint16": {1, "configured listen port"},
	"(*tcp_client.Client).connect/int->uint16": {1, "configured port"},
	"(*udp_client.Client).connect/int->uint16": {1, "configured port"},
}
