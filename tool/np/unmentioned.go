package np

import (
	"fmt"
	"sort"
	"strings"

	"golang.org/x/tools/go/ssa"
)

// tabled records, per function, the (kind target) pairs some site table of
// some property speaks about, and which properties table the function at all
// (dev aid for -unmentioned; filled by checkSites).
var tabled = map[string]map[string]bool{}
var tabledBy = map[string]map[string]bool{}

func recordTabled(c *Ctx, fn *ssa.Function, specs []SiteSpec) {
	n := FuncName(fn)
	if tabled[n] == nil {
		tabled[n] = map[string]bool{}
		tabledBy[n] = map[string]bool{}
	}
	tabledBy[n][c.Prop] = true
	for _, sp := range specs {
		tabled[n][sp.Kind+" "+sp.Target] = true
	}
}

// printUnmentioned lists, for every function that has a site table, the
// effects of the function (stores to module fields, map updates, sends, go,
// defer, calls of module functions, valued returns) whose (kind, target) no
// table row mentions. Round 8 of the seeded changes showed that most misses
// were an edit to such an effect of an already tabled function.
func printUnmentioned(p *Program) {
	var names []string
	for n := range tabled {
		names = append(names, n)
	}
	sort.Strings(names)
	total := 0
	for _, n := range names {
		fn := p.Func(n)
		if fn == nil {
			continue
		}
		seen := map[string]bool{}
		var lines []string
		for _, s := range Sites(fn) {
			k := s.Kind + " " + s.Target
			if tabled[n][k] || seen[k+strings.Join(s.Args, ",")] {
				continue
			}
			switch s.Kind {
			case "call":
				if !strings.Contains(s.Target, ".") || isExternalTarget(p, s.Target) {
					continue
				}
				// a call whose result is used shows up in the terms of the
				// sites that use it; only calls made for their effect are listed
				if v, ok := s.Instr.(ssa.Value); ok && v.Referrers() != nil && len(*v.Referrers()) > 0 {
					continue
				}
			case "elemstore":
				if strings.Contains(s.Target, "]any)") || strings.Contains(s.Target, "]interface") {
					continue
				}
			case "return":
				if fn.Signature.Results().Len() == 0 {
					continue
				}
			case "panic":
				continue
			}
			seen[k+strings.Join(s.Args, ",")] = true
			lines = append(lines, "    "+s.String())
		}
		if len(lines) == 0 {
			continue
		}
		var by []string
		for q := range tabledBy[n] {
			by = append(by, q)
		}
		sort.Strings(by)
		fmt.Printf("%s  [tabled by %s] @%s\n%s\n", n, strings.Join(by, ","), p.Pos(fn.Pos()), strings.Join(lines, "\n"))
		total += len(lines)
	}
	fmt.Printf("unmentioned: %d effects in %d tabled functions\n", total, len(names))
}

// isExternalTarget: the callee is not a function of the analysed module
// (standard library, builtin, interface method).
func isExternalTarget(p *Program, target string) bool {
	if strings.HasPrefix(target, "builtin:") || strings.HasPrefix(target, "iface:") {
		return false
	}
	return p.Func(target) == nil
}
