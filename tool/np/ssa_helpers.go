package np

import (
	"fmt"
	"go/constant"
	"go/token"
	"go/types"
	"sort"
	"strings"

	"golang.org/x/tools/go/ssa"
)

// ---------------------------------------------------------------- names

var pkgShort = map[string]string{}

func (p *Program) initNames() {
	count := map[string]int{}
	for _, pk := range p.Pkgs {
		if pk.Types != nil {
			count[pk.Name]++
		}
	}
	for _, pk := range p.Pkgs {
		n := pk.Name
		if count[n] > 1 || n == "main" {
			rel := strings.TrimPrefix(pk.PkgPath, Mod+"/")
			parts := strings.Split(rel, "/")
			if len(parts) >= 2 {
				n = parts[len(parts)-2] + "_" + parts[len(parts)-1]
			} else {
				n = rel
			}
		}
		pkgShort[pk.PkgPath] = n
	}
}

func qual(pk *types.Package) string {
	if pk == nil {
		return ""
	}
	if s, ok := pkgShort[pk.Path()]; ok {
		return s
	}
	return pk.Path()
}

func TypeStr(t types.Type) string { return types.TypeString(t, qual) }

// FuncName gives the short stable name used in rule tables:
// "tcp.(*endpoint).Read", "seqnum.Value.LessThan", "header.Checksum",
// closures "tcp.(*endpoint).protocolMainLoop$1".
func FuncName(fn *ssa.Function) string {
	if fn == nil {
		return "<nil>"
	}
	if fn.Parent() != nil {
		// anonymous: parent + $n
		name := fn.Name()
		if i := strings.LastIndex(name, "$"); i >= 0 {
			return FuncName(fn.Parent()) + name[i:]
		}
		return FuncName(fn.Parent()) + "$" + name
	}
	if recv := fn.Signature.Recv(); recv != nil {
		rt := TypeStr(recv.Type())
		if strings.HasPrefix(rt, "*") {
			rt = "(" + rt + ")"
		}
		return rt + "." + fn.Name()
	}
	if fn.Pkg != nil {
		return qual(fn.Pkg.Pkg) + "." + fn.Name()
	}
	if fn.Object() != nil && fn.Object().Pkg() != nil {
		return qual(fn.Object().Pkg()) + "." + fn.Name()
	}
	return fn.Name()
}

// ---------------------------------------------------------------- instruction walking

// Instrs calls f on every instruction of fn (not of nested closures).
func Instrs(fn *ssa.Function, f func(ssa.Instruction)) {
	for _, b := range fn.Blocks {
		for _, in := range b.Instrs {
			f(in)
		}
	}
}

// WithClosures returns fn and every anonymous function nested in it.
func WithClosures(fn *ssa.Function) []*ssa.Function {
	out := []*ssa.Function{fn}
	for _, a := range fn.AnonFuncs {
		out = append(out, WithClosures(a)...)
	}
	return out
}

// CalleeName names the target of a call instruction: a resolved function
// ("tcp.(*sender).sendData", "(*sync.Mutex).Lock"), an interface method
// ("iface:stack.TransportEndpoint.HandlePacket"), a builtin ("builtin:len")
// or "dyn" for calls of function values.
func CalleeName(ci ssa.CallInstruction) string {
	c := ci.Common()
	if c.IsInvoke() {
		return "iface:" + ifaceDeclaring(c.Value.Type(), c.Method) + "." + c.Method.Name()
	}
	if f := c.StaticCallee(); f != nil {
		return FuncName(f)
	}
	if b, ok := c.Value.(*ssa.Builtin); ok {
		return "builtin:" + b.Name()
	}
	return "dyn"
}

// CallArgs returns receiver (if any) followed by arguments.
func CallArgs(ci ssa.CallInstruction) []ssa.Value {
	c := ci.Common()
	if c.IsInvoke() {
		return append([]ssa.Value{c.Value}, c.Args...)
	}
	return c.Args
}

// CallsIn lists the call instructions (call, go, defer) in fn whose callee
// name satisfies match.
func CallsIn(fn *ssa.Function, match func(string) bool) []ssa.CallInstruction {
	var out []ssa.CallInstruction
	Instrs(fn, func(in ssa.Instruction) {
		if ci, ok := in.(ssa.CallInstruction); ok {
			if match(CalleeName(ci)) {
				out = append(out, ci)
			}
		}
	})
	return out
}

func Is(names ...string) func(string) bool {
	return func(s string) bool {
		for _, n := range names {
			if s == n {
				return true
			}
		}
		return false
	}
}

func HasSuffix(suf string) func(string) bool {
	return func(s string) bool { return strings.HasSuffix(s, suf) }
}

// ---------------------------------------------------------------- field accesses

type FieldAcc struct {
	Fn    *ssa.Function
	Instr ssa.Instruction // the FieldAddr/Field instruction's user (store/load) or itself
	Addr  ssa.Value       // the FieldAddr (or Field) value
	Field *types.Var
	Write bool
	// AddrTaken: the address escapes to a call or is otherwise used (neither plain load nor store)
	AddrTaken bool
	Base      ssa.Value
}

func fieldOf(v ssa.Value) (*types.Var, ssa.Value) {
	switch x := v.(type) {
	case *ssa.FieldAddr:
		st := derefStruct(x.X.Type())
		if st == nil {
			return nil, nil
		}
		return st.Field(x.Field), x.X
	case *ssa.Field:
		st, _ := x.X.Type().Underlying().(*types.Struct)
		if st == nil {
			return nil, nil
		}
		return st.Field(x.Field), x.X
	}
	return nil, nil
}

func derefStruct(t types.Type) *types.Struct {
	if p, ok := t.Underlying().(*types.Pointer); ok {
		t = p.Elem()
	}
	st, _ := t.Underlying().(*types.Struct)
	return st
}

// FieldAccesses enumerates loads, stores and address-taking uses of struct
// fields in fn. A method call on an addressable field (e.mu.Lock()) is an
// AddrTaken use of that field.
func FieldAccesses(fn *ssa.Function) []FieldAcc {
	var out []FieldAcc
	Instrs(fn, func(in ssa.Instruction) {
		switch x := in.(type) {
		case *ssa.FieldAddr:
			fv, base := fieldOf(x)
			if fv == nil {
				return
			}
			refs := x.Referrers()
			if refs == nil {
				return
			}
			for _, r := range *refs {
				switch u := r.(type) {
				case *ssa.Store:
					if u.Addr == x {
						out = append(out, FieldAcc{Fn: fn, Instr: u, Addr: x, Field: fv, Write: true, Base: base})
					} else {
						out = append(out, FieldAcc{Fn: fn, Instr: u, Addr: x, Field: fv, AddrTaken: true, Base: base})
					}
				case *ssa.UnOp:
					if u.Op == token.MUL {
						out = append(out, FieldAcc{Fn: fn, Instr: u, Addr: x, Field: fv, Base: base})
					}
				case *ssa.FieldAddr, *ssa.IndexAddr:
					// nested access: counts as read of the outer field's storage (no pointer load)
					out = append(out, FieldAcc{Fn: fn, Instr: r, Addr: x, Field: fv, AddrTaken: true, Base: base})
				case *ssa.DebugRef:
				default:
					out = append(out, FieldAcc{Fn: fn, Instr: r, Addr: x, Field: fv, AddrTaken: true, Base: base})
				}
			}
		case *ssa.Field:
			fv, base := fieldOf(x)
			if fv != nil {
				out = append(out, FieldAcc{Fn: fn, Instr: x, Addr: x, Field: fv, Base: base})
			}
		}
	})
	return out
}

// ---------------------------------------------------------------- terms

// Termer renders SSA values as canonical terms over parameters ($0 is the
// receiver or first parameter), fields, constants and calls. Local names
// never appear, so renaming or reordering locals leaves terms unchanged.
type Termer struct {
	fn       *ssa.Function
	memo     map[ssa.Value]string
	active   map[ssa.Value]bool
	KeepConv bool
	// Versioned: loads from address-taken locals carry a version so that a
	// read before and a read after a possible mutation are different terms.
	Versioned bool
	curLoad   ssa.Instruction
	// ctxAt: when this Termer renders a callee that is analysed inline in a
	// caller (inline.go), the call instruction in the caller: a field the
	// callee does not store itself has the version it has there.
	ctxAt ssa.Instruction
	bind  []string
}

func NewTermer(fn *ssa.Function) *Termer {
	t := &Termer{fn: fn, memo: map[ssa.Value]string{}, active: map[ssa.Value]bool{}, Versioned: true}
	if b := inlineBind[fn]; b != nil {
		t.bind, t.ctxAt = b.args, b.at
	}
	return t
}

// bindCtx: while a function that did not exist at review time is analysed
// inline for one call site (inline.go), its parameters render as the caller's
// argument terms and its field loads take the caller's versions at the call.
type bindCtx struct {
	args []string
	at   ssa.Instruction
}

var inlineBind = map[*ssa.Function]*bindCtx{}

func withBinding(g *ssa.Function, args []string, at ssa.Instruction, f func()) {
	old := inlineBind[g]
	inlineBind[g] = &bindCtx{args, at}
	defer func() {
		if old == nil {
			delete(inlineBind, g)
		} else {
			inlineBind[g] = old
		}
	}()
	f()
}

func Term(v ssa.Value) string {
	if v == nil {
		return "_"
	}
	var fn *ssa.Function
	if in, ok := v.(ssa.Instruction); ok {
		fn = in.Parent()
	} else if pa, ok := v.(*ssa.Parameter); ok {
		fn = pa.Parent()
	} else if fv, ok := v.(*ssa.FreeVar); ok {
		fn = fv.Parent()
	}
	return NewTermer(fn).T(v)
}

func constStr(c *ssa.Const) string {
	if c.Value == nil {
		if b, ok := c.Type().Underlying().(*types.Basic); ok && b.Info()&types.IsString != 0 {
			return `""`
		}
		if _, ok := c.Type().Underlying().(*types.Struct); ok {
			return "zero"
		}
		if b, ok := c.Type().Underlying().(*types.Basic); ok && b.Info()&types.IsNumeric != 0 {
			return "0"
		}
		if b, ok := c.Type().Underlying().(*types.Basic); ok && b.Info()&types.IsBoolean != 0 {
			return "false"
		}
		return "nil"
	}
	switch c.Value.Kind() {
	case constant.Int:
		return c.Value.ExactString()
	case constant.String:
		return fmt.Sprintf("%q", constant.StringVal(c.Value))
	}
	return c.Value.String()
}

func (t *Termer) T(v ssa.Value) string {
	if v == nil {
		return "_"
	}
	if s, ok := t.memo[v]; ok {
		return s
	}
	if t.active[v] {
		return "loop"
	}
	if len(t.active) > 40 {
		return "…"
	}
	t.active[v] = true
	s := t.term(v)
	delete(t.active, v)
	t.memo[v] = s
	return s
}

func paramIndex(p *ssa.Parameter) int {
	for i, q := range p.Parent().Params {
		if q == p {
			return i
		}
	}
	return -1
}

func (t *Termer) term(v ssa.Value) string {
	switch x := v.(type) {
	case *ssa.Const:
		return constStr(x)
	case *ssa.Parameter:
		if i := paramIndex(x); t.bind != nil && i >= 0 && i < len(t.bind) {
			return t.bind[i]
		}
		return fmt.Sprintf("$%d", paramIndex(x))
	case *ssa.FreeVar:
		// resolve through the MakeClosure in the parent
		fn := x.Parent()
		idx := -1
		for i, fv := range fn.FreeVars {
			if fv == x {
				idx = i
			}
		}
		if par := fn.Parent(); par != nil && idx >= 0 {
			var res string
			for _, b := range par.Blocks {
				for _, in := range b.Instrs {
					if mc, ok := in.(*ssa.MakeClosure); ok && mc.Fn == fn && idx < len(mc.Bindings) {
						res = "^" + NewTermer(par).T(mc.Bindings[idx])
					}
				}
			}
			if res != "" {
				return res
			}
		}
		return "^" + x.Name()
	case *ssa.Global:
		return qual(x.Pkg.Pkg) + "." + x.Name()
	case *ssa.Function:
		return "func:" + FuncName(x)
	case *ssa.Builtin:
		return "builtin:" + x.Name()
	case *ssa.FieldAddr:
		fv, _ := fieldOf(x)
		n := "?"
		if fv != nil {
			n = fv.Name()
		}
		return "&" + t.path(x.X) + "." + n
	case *ssa.Field:
		fv, _ := fieldOf(x)
		n := "?"
		if fv != nil {
			n = fv.Name()
		}
		return t.T(x.X) + "." + n
	case *ssa.IndexAddr:
		return "&" + t.path(x.X) + "[" + t.T(x.Index) + "]"
	case *ssa.Index:
		return t.T(x.X) + "[" + t.T(x.Index) + "]"
	case *ssa.Lookup:
		s := t.T(x.X) + "[" + t.T(x.Index) + "]"
		return s
	case *ssa.Slice:
		if a, ok := x.X.(*ssa.Alloc); ok && x.Low == nil && x.High == nil && x.Max == nil {
			if at, ok := a.Type().(*types.Pointer).Elem().Underlying().(*types.Array); ok && at.Len() <= 8 && len(t.active) < 30 {
				// array temporary (variadic arguments, composite slice literal): render the elements
				elems := make([]string, at.Len())
				for i := range elems {
					elems[i] = "zero"
				}
				okAll := true
				if refs := a.Referrers(); refs != nil {
					for _, r := range *refs {
						ia, isIA := r.(*ssa.IndexAddr)
						if !isIA {
							continue
						}
						k, isK := ia.Index.(*ssa.Const)
						if !isK {
							okAll = false
							continue
						}
						idx := int(k.Int64())
						if idx < 0 || idx >= len(elems) {
							continue
						}
						if irefs := ia.Referrers(); irefs != nil {
							fields := map[string]string{}
							for _, u := range *irefs {
								switch st := u.(type) {
								case *ssa.Store:
									if st.Addr == ia {
										elems[idx] = t.T(st.Val)
									}
								case *ssa.FieldAddr:
									fv, _ := fieldOf(st)
									if frefs := st.Referrers(); frefs != nil && fv != nil {
										for _, fu := range *frefs {
											if fs, ok := fu.(*ssa.Store); ok && fs.Addr == st {
												fields[fv.Name()] = t.T(fs.Val)
											}
										}
									}
								}
							}
							if len(fields) > 0 {
								if stt, ok := at.Elem().Underlying().(*types.Struct); ok {
									var parts []string
									for fi := 0; fi < stt.NumFields(); fi++ {
										v := fields[stt.Field(fi).Name()]
										if v == "" {
											v = "zero"
										}
										parts = append(parts, stt.Field(fi).Name()+": "+v)
									}
									elems[idx] = TypeStr(at.Elem()) + "{" + strings.Join(parts, ", ") + "}"
								}
							}
						}
					}
				}
				if okAll {
					return "[" + strings.Join(elems, ", ") + "]"
				}
			}
		}
		lo, hi, mx := "", "", ""
		if x.Low != nil {
			lo = t.T(x.Low)
		}
		if x.High != nil {
			hi = t.T(x.High)
		}
		s := t.path(x.X) + "[" + lo + ":" + hi
		if x.Max != nil {
			mx = t.T(x.Max)
			s += ":" + mx
		}
		return s + "]"
	case *ssa.UnOp:
		switch x.Op {
		case token.MUL:
			saved := t.curLoad
			t.curLoad = x
			s := t.load(x.X)
			t.curLoad = saved
			return s
		case token.ARROW:
			return "<-" + t.T(x.X)
		case token.NOT:
			return "!" + t.T(x.X)
		case token.SUB:
			return "-" + t.T(x.X)
		case token.XOR:
			return "^" + t.T(x.X)
		}
		return x.Op.String() + t.T(x.X)
	case *ssa.BinOp:
		a, b := t.T(x.X), t.T(x.Y)
		op := x.Op
		switch op {
		case token.GTR:
			a, b, op = b, a, token.LSS
		case token.GEQ:
			a, b, op = b, a, token.LEQ
		case token.ADD, token.MUL, token.AND, token.OR, token.XOR, token.EQL, token.NEQ:
			if isCommutative(x) && a > b {
				a, b = b, a
			}
		}
		return "(" + a + " " + op.String() + " " + b + ")"
	case *ssa.Convert:
		if t.KeepConv {
			return TypeStr(x.Type()) + "(" + t.T(x.X) + ")"
		}
		return t.T(x.X)
	case *ssa.ChangeType:
		return t.T(x.X)
	case *ssa.MakeInterface:
		return t.T(x.X)
	case *ssa.ChangeInterface:
		return t.T(x.X)
	case *ssa.SliceToArrayPointer:
		return t.T(x.X)
	case *ssa.Call:
		if g := x.Common().StaticCallee(); g != nil && inlineable(g) {
			if s, ok := inlineCallTerm(t, x, g); ok {
				return s
			}
		}
		args := CallArgs(x)
		var as []string
		for _, a := range args {
			as = append(as, t.T(a))
		}
		return CalleeName(x) + "(" + strings.Join(as, ", ") + ")"
	case *ssa.Phi:
		set := map[string]bool{}
		for _, e := range x.Edges {
			s := t.T(e)
			set[s] = true
		}
		var ss []string
		for s := range set {
			ss = append(ss, s)
		}
		sort.Strings(ss)
		if len(ss) == 1 {
			return ss[0]
		}
		return "phi{" + strings.Join(ss, " | ") + "}"
	case *ssa.Extract:
		return t.T(x.Tuple) + "#" + fmt.Sprint(x.Index)
	case *ssa.TypeAssert:
		return t.T(x.X) + ".(" + TypeStr(x.AssertedType) + ")"
	case *ssa.MakeClosure:
		return "closure:" + FuncName(x.Fn.(*ssa.Function))
	case *ssa.Alloc:
		return "&" + t.path(x)
	case *ssa.MakeSlice:
		return "make(" + TypeStr(x.Type()) + ", " + t.T(x.Len) + ", " + t.T(x.Cap) + ")"
	case *ssa.MakeMap:
		return "make(" + TypeStr(x.Type()) + ")"
	case *ssa.MakeChan:
		return "make(" + TypeStr(x.Type()) + ", " + t.T(x.Size) + ")"
	case *ssa.Next:
		return "next(" + t.T(x.Iter) + ")"
	case *ssa.Range:
		return "range(" + t.T(x.X) + ")"
	case *ssa.Select:
		return "select"
	}
	return fmt.Sprintf("?%T", v)
}

func isCommutative(b *ssa.BinOp) bool {
	if b.Op == token.ADD {
		if bt, ok := b.X.Type().Underlying().(*types.Basic); ok && bt.Info()&types.IsString != 0 {
			return false
		}
	}
	return true
}

// path renders an address-valued expression as an lvalue path (no leading &).
func (t *Termer) path(v ssa.Value) string {
	switch x := v.(type) {
	case *ssa.Alloc:
		if x.Heap {
			// composite literal / new: identify by type and ordinal of allocation in the function
			return "new(" + TypeStr(x.Type().(*types.Pointer).Elem()) + ")"
		}
		return "local(" + TypeStr(x.Type().(*types.Pointer).Elem()) + ")"
	case *ssa.FieldAddr:
		s := t.T(x)
		return strings.TrimPrefix(s, "&")
	case *ssa.IndexAddr:
		s := t.T(x)
		return strings.TrimPrefix(s, "&")
	}
	s := t.T(v)
	if strings.HasPrefix(s, "&") {
		return s[1:]
	}
	return s
}

// load renders *addr. Loads from local allocs are forwarded to the set of
// values stored there (flow-insensitive within the function).
func (t *Termer) load(addr ssa.Value) string {
	if fv, ok := addr.(*ssa.FreeVar); ok {
		// captured variable: resolve to the value stored in the parent's cell
		fn := fv.Parent()
		if par := fn.Parent(); par != nil {
			idx := -1
			for i, x := range fn.FreeVars {
				if x == fv {
					idx = i
				}
			}
			for _, b := range par.Blocks {
				for _, in := range b.Instrs {
					if mc, ok := in.(*ssa.MakeClosure); ok && mc.Fn == fn && idx >= 0 && idx < len(mc.Bindings) {
						if a, ok := mc.Bindings[idx].(*ssa.Alloc); ok {
							pt := NewTermer(par)
							vals := pt.storedAt(a, nil)
							if len(vals) == 1 {
								return hat(vals[0])
							}
						}
						if fv2, ok := mc.Bindings[idx].(*ssa.FreeVar); ok {
							return hat(NewTermer(par).load(fv2))
						}
					}
				}
			}
		}
	}
	root, fpath := allocRoot(addr)
	if root != nil && !escapesBeyondClosures(root) {
		if len(fpath) == 0 && t.curLoad != nil && root.Parent() == t.curLoad.Parent() {
			if v := reachingStore(root, t.curLoad); v != nil {
				return t.T(v)
			}
		}
		vals := t.storedAt(root, fpath)
		if len(vals) == 1 && vals[0] == "partial" {
			// struct built field by field: render as a composite
			ty := root.Type().(*types.Pointer).Elem()
			for _, fi := range fpath {
				if st, ok := ty.Underlying().(*types.Struct); ok {
					ty = st.Field(fi).Type()
				}
			}
			if st, ok := ty.Underlying().(*types.Struct); ok && len(t.active) < 30 {
				var parts []string
				for i := 0; i < st.NumFields(); i++ {
					sub := t.storedAt(root, append(append([]int{}, fpath...), i))
					v := "zero"
					if len(sub) == 1 {
						v = sub[0]
					} else if len(sub) > 1 {
						v = "phi{" + strings.Join(sub, " | ") + "}"
					}
					parts = append(parts, st.Field(i).Name()+": "+v)
				}
				return TypeStr(ty) + "{" + strings.Join(parts, ", ") + "}"
			}
		}
		if len(vals) == 1 {
			return vals[0]
		}
		if len(vals) > 1 {
			return "phi{" + strings.Join(vals, " | ") + "}"
		}
		return "zero"
	}
	if root != nil && t.Versioned {
		ver, init := allocVersion(root, addr, t.curLoad)
		if init != nil && len(fpath) == 0 {
			return t.T(init) // still holds the value it was initialised with
		}
		if init != nil {
			s := t.T(init)
			ty := init.Type()
			for _, fi := range fpath {
				if st, ok := ty.Underlying().(*types.Struct); ok {
					s += "." + st.Field(fi).Name()
					ty = st.Field(fi).Type()
				}
			}
			return s
		}
		return t.path(addr) + "@" + ver
	}
	if t.Versioned {
		if v := heapFieldVersion(addr, t.curLoad); v != "" {
			return t.path(addr) + "@" + v
		}
		if t.ctxAt != nil {
			if fa, ok := addr.(*ssa.FieldAddr); ok {
				if fv, _ := fieldOf(fa); fv != nil {
					if v := fieldVersionAt(fv, t.ctxAt); v != "" {
						return t.path(addr) + "@" + v
					}
				}
			}
		}
	}
	return t.path(addr)
}

// heapFieldVersion distinguishes loads of a struct field (of an object that
// is not a local variable) that may be separated by a store to the same
// field of the same struct type within this function: the version is the
// number of such stores dominating the load when every store that can reach
// the load dominates it ("" when none), and "u" otherwise. Calls are not
// considered (a callee may also write the field; terms are compared within
// one function's reviewed table, which is re-reviewed when calls move).
func heapFieldVersion(addr ssa.Value, load ssa.Instruction) string {
	fa, ok := addr.(*ssa.FieldAddr)
	if !ok || load == nil {
		return ""
	}
	fv, _ := fieldOf(fa)
	if fv == nil {
		return ""
	}
	return fieldVersionAt(fv, load)
}

// fieldVersionAt: version of field fv for a load at instruction `load` of its function.
func fieldVersionAt(fv *types.Var, load ssa.Instruction) string {
	fn := load.Parent()
	n := 0
	for _, b := range fn.Blocks {
		for _, in := range b.Instrs {
			var st ssa.Instruction
			switch x := in.(type) {
			case *ssa.Store:
				sfa, ok := x.Addr.(*ssa.FieldAddr)
				if !ok {
					continue
				}
				if sfv, _ := fieldOf(sfa); sfv != fv {
					continue
				}
				st = x
			case *ssa.Call:
				// a new (virtually inlined, see inline.go) helper that stores the field
				// counts as a store at the call, as it did before it was extracted
				g := x.Common().StaticCallee()
				if g == nil || !inlineableSites(g) || !storesField(g, fv, 2) {
					continue
				}
				st = x
			default:
				continue
			}
			if st == load {
				continue // the inlined helper's own loads are versioned by its own stores
			}
			if InstrDominates(st, load) {
				if stInner, ok := st.(*ssa.Call); ok && conditionalStore(stInner.Common().StaticCallee(), fv) {
					return "u" // the helper stores on some paths only
				}
				n++
			} else if instrReaches(st, load) {
				return "u"
			}
		}
	}
	if n == 0 {
		return ""
	}
	return fmt.Sprint(n)
}

// allocVersion distinguishes reads of an address-taken local that may be
// separated by a mutation (a store, or a call that received its address):
// the version is the number of mutators dominating the read when every
// mutator that can reach the read dominates it, and unique otherwise.
func allocVersion(root *ssa.Alloc, addr ssa.Value, cur ssa.Instruction) (string, ssa.Value) {
	load := cur
	if refs := addr.Referrers(); refs != nil && load == nil {
		for _, r := range *refs {
			if u, ok := r.(*ssa.UnOp); ok && u.Op == token.MUL {
				load = u
			}
		}
	}
	if in, ok := addr.(ssa.Instruction); ok && load == nil {
		load = in
	}
	if load == nil {
		return "?", nil
	}
	var muts []ssa.Instruction
	var visit func(v ssa.Value, d int)
	visit = func(v ssa.Value, d int) {
		refs := v.Referrers()
		if refs == nil || d > 4 {
			return
		}
		for _, r := range *refs {
			switch u := r.(type) {
			case *ssa.Store:
				if u.Addr == v {
					muts = append(muts, u)
				}
			case *ssa.FieldAddr:
				visit(u, d+1)
			case *ssa.IndexAddr:
				visit(u, d+1)
			case ssa.CallInstruction:
				muts = append(muts, u)
			case *ssa.MakeClosure:
				muts = append(muts, u)
			}
		}
	}
	visit(root, 0)
	n := 0
	var only ssa.Instruction
	for _, m := range muts {
		if m == load {
			continue
		}
		if InstrDominates(m, load) {
			n++
			only = m
			continue
		}
		if instrReaches(m, load) {
			return "u", nil
		}
	}
	if n == 1 {
		// the single dominating mutator is the initialising store of a parameter:
		// the cell still holds the parameter's value
		if st, ok := only.(*ssa.Store); ok && st.Addr == root {
			if _, isParam := st.Val.(*ssa.Parameter); isParam {
				return "1", st.Val
			}
		}
	}
	return fmt.Sprint(n), nil
}

// instrReaches: some path leads from a to b.
func instrReaches(a, b ssa.Instruction) bool {
	if a.Block() == b.Block() {
		for _, in := range a.Block().Instrs {
			if in == a {
				return true // a before b in the block
			}
			if in == b {
				break
			}
		}
	}
	seen := map[int]bool{}
	stack := []*ssa.BasicBlock{}
	for _, s := range a.Block().Succs {
		stack = append(stack, s)
	}
	for len(stack) > 0 {
		x := stack[len(stack)-1]
		stack = stack[:len(stack)-1]
		if seen[x.Index] {
			continue
		}
		seen[x.Index] = true
		if x == b.Block() {
			return true
		}
		stack = append(stack, x.Succs...)
	}
	return false
}

// allocRoot follows FieldAddr chains down to an Alloc; returns the alloc and
// the field index path.
func allocRoot(addr ssa.Value) (*ssa.Alloc, []int) {
	var path []int
	for {
		switch x := addr.(type) {
		case *ssa.Alloc:
			// reverse path
			for i, j := 0, len(path)-1; i < j; i, j = i+1, j-1 {
				path[i], path[j] = path[j], path[i]
			}
			return x, path
		case *ssa.FieldAddr:
			path = append(path, x.Field)
			addr = x.X
		default:
			return nil, nil
		}
	}
}

// escapes reports whether the alloc's address is used by anything other than
// loads, stores-to, and field-address computations (recursively).
func escapes(a *ssa.Alloc) bool {
	var chk func(v ssa.Value, depth int) bool
	chk = func(v ssa.Value, depth int) bool {
		refs := v.Referrers()
		if refs == nil {
			return false
		}
		for _, r := range *refs {
			switch u := r.(type) {
			case *ssa.Store:
				if u.Val == v {
					return true
				}
			case *ssa.UnOp:
				if u.Op != token.MUL {
					return true
				}
			case *ssa.FieldAddr:
				if depth > 4 || chk(u, depth+1) {
					return true
				}
			case *ssa.DebugRef:
			default:
				return true
			}
		}
		return false
	}
	return chk(a, 0)
}

// hat lifts a parent-frame term into the closure frame: $k -> ^$k.
func hat(s string) string {
	var b strings.Builder
	for i := 0; i < len(s); i++ {
		if s[i] == '$' && (i == 0 || s[i-1] != '^') {
			b.WriteByte('^')
		}
		b.WriteByte(s[i])
	}
	return b.String()
}

// escapesBeyondClosures: like escapes, but capture by a closure is allowed
// (closures in this code base read captured parameters, they do not rebind them).
func escapesBeyondClosures(a *ssa.Alloc) bool {
	var chk func(v ssa.Value, depth int) bool
	chk = func(v ssa.Value, depth int) bool {
		refs := v.Referrers()
		if refs == nil {
			return false
		}
		for _, r := range *refs {
			switch u := r.(type) {
			case *ssa.Store:
				if u.Val == v {
					return true
				}
			case *ssa.UnOp:
				if u.Op != token.MUL {
					return true
				}
			case *ssa.FieldAddr:
				if depth > 4 || chk(u, depth+1) {
					return true
				}
			case *ssa.MakeClosure:
				if depth > 0 {
					return true
				}
				// the closure must not store into the captured cell
				cf := u.Fn.(*ssa.Function)
				for i, bnd := range u.Bindings {
					if bnd == v && i < len(cf.FreeVars) {
						if fr := cf.FreeVars[i].Referrers(); fr != nil {
							for _, x := range *fr {
								if st, ok := x.(*ssa.Store); ok && st.Addr == cf.FreeVars[i] {
									return true
								}
								if _, ok := x.(*ssa.MakeClosure); ok {
									return true
								}
							}
						}
					}
				}
			case *ssa.DebugRef:
			default:
				return true
			}
		}
		return false
	}
	return chk(a, 0)
}

func (t *Termer) storedAt(root *ssa.Alloc, fpath []int) []string {
	set := map[string]bool{}
	var visit func(v ssa.Value, cur []int)
	visit = func(v ssa.Value, cur []int) {
		refs := v.Referrers()
		if refs == nil {
			return
		}
		for _, r := range *refs {
			switch u := r.(type) {
			case *ssa.Store:
				if u.Addr != v {
					continue
				}
				// store at path cur; relevant if cur is a prefix of fpath
				if len(cur) <= len(fpath) && eqPrefix(cur, fpath) {
					s := t.T(u.Val)
					rest := fpath[len(cur):]
					ty := u.Val.Type()
					for _, fi := range rest {
						st, _ := ty.Underlying().(*types.Struct)
						if st == nil {
							break
						}
						s += "." + st.Field(fi).Name()
						ty = st.Field(fi).Type()
					}
					set[s] = true
				} else if len(cur) > len(fpath) && eqPrefix(fpath, cur) {
					// partial overwrite of a sub-field: record as composite
					set["partial"] = true
				}
			case *ssa.FieldAddr:
				visit(u, append(append([]int{}, cur...), u.Field))
			}
		}
	}
	visit(root, nil)
	var ss []string
	for s := range set {
		ss = append(ss, s)
	}
	sort.Strings(ss)
	return ss
}

func eqPrefix(pre, full []int) bool {
	for i := range pre {
		if pre[i] != full[i] {
			return false
		}
	}
	return true
}

// ---------------------------------------------------------------- def-use slices

// BackSlice returns every value reachable backwards from v through operands,
// local-alloc store forwarding, and phi edges.
func BackSlice(v ssa.Value) map[ssa.Value]bool {
	seen := map[ssa.Value]bool{}
	var walk func(ssa.Value)
	walk = func(x ssa.Value) {
		if x == nil || seen[x] {
			return
		}
		seen[x] = true
		if in, ok := x.(ssa.Instruction); ok {
			for _, op := range in.Operands(nil) {
				if *op != nil {
					walk(*op)
				}
			}
		}
		if u, ok := x.(*ssa.UnOp); ok && u.Op == token.MUL {
			if root, _ := allocRoot(u.X); root != nil {
				// all stores into the alloc (any field)
				var visit func(a ssa.Value)
				visit = func(a ssa.Value) {
					if refs := a.Referrers(); refs != nil {
						for _, r := range *refs {
							switch s := r.(type) {
							case *ssa.Store:
								if s.Addr == a {
									walk(s.Val)
								}
							case *ssa.FieldAddr:
								visit(s)
							case *ssa.IndexAddr:
								visit(s)
							}
						}
					}
				}
				visit(root)
			}
		}
	}
	walk(v)
	return seen
}

// SliceHas reports whether the backward slice of v contains a value whose
// term satisfies pred.
func SliceHas(v ssa.Value, pred func(ssa.Value) bool) bool {
	for x := range BackSlice(v) {
		if pred(x) {
			return true
		}
	}
	return false
}

// SliceHasCall: slice contains a call to a function with one of the names.
func SliceHasCall(v ssa.Value, names ...string) bool {
	m := Is(names...)
	return SliceHas(v, func(x ssa.Value) bool {
		if c, ok := x.(*ssa.Call); ok {
			return m(CalleeName(c))
		}
		return false
	})
}

// SliceHasField: slice contains a load/addr of the named field (Type.field).
func SliceHasField(v ssa.Value, typ, field string) bool {
	return SliceHas(v, func(x ssa.Value) bool {
		fv, base := fieldOf(x)
		if fv == nil || fv.Name() != field {
			return false
		}
		return typeNamed(base.Type(), typ)
	})
}

func typeNamed(t types.Type, name string) bool {
	if p, ok := t.(*types.Pointer); ok {
		t = p.Elem()
	}
	if n, ok := t.(*types.Named); ok {
		return qual(n.Obj().Pkg())+"."+n.Obj().Name() == name
	}
	return false
}

// forwardedStore: for a load of a struct field through base value B, return
// the value of the unique store to the same field through the same SSA base
// in this function, provided that store dominates the load and no
// instruction on any path between them can write the field: another store
// to it, or a call other than to callees known not to touch module heap
// state (builtins, log, fmt, encoding/binary, sync/atomic) or to module functions that
// (transitively through static calls, depth 3) contain no store to a field
// of that name and make no dynamic call. nil when not provable.
func forwardedStore(load *ssa.UnOp) ssa.Value {
	fa, ok := load.X.(*ssa.FieldAddr)
	if !ok {
		return nil
	}
	fn := load.Parent()
	var stores []*ssa.Store
	Instrs(fn, func(in ssa.Instruction) {
		if st, ok := in.(*ssa.Store); ok {
			if fa2, ok := st.Addr.(*ssa.FieldAddr); ok && fa2.Field == fa.Field && types.Identical(fa2.X.Type(), fa.X.Type()) {
				stores = append(stores, st)
			}
		}
	})
	if len(stores) != 1 {
		return nil
	}
	st := stores[0]
	if st.Addr.(*ssa.FieldAddr).X != fa.X || !InstrDominates(st, load) {
		return nil
	}
	fv, _ := fieldOf(fa)
	if fv == nil {
		return nil
	}
	bad := ReachAvoiding(fn, st, func(in ssa.Instruction) bool { return in == ssa.Instruction(load) }, func(in ssa.Instruction) bool {
		ci, ok := in.(ssa.CallInstruction)
		if !ok {
			return false
		}
		return mayWriteField(ci, fv.Name(), 3) && instrReaches(in, load)
	})
	if bad != nil {
		return nil
	}
	return st.Val
}

func mayWriteField(ci ssa.CallInstruction, field string, depth int) bool {
	if _, ok := ci.Common().Value.(*ssa.Builtin); ok {
		return false
	}
	g := ci.Common().StaticCallee()
	if g == nil {
		return true
	}
	if g.Pkg != nil && g.Pkg.Pkg != nil {
		switch g.Pkg.Pkg.Path() {
		case "log", "fmt", "encoding/binary", "sync/atomic", "errors":
			return false
		}
	}
	if g.Blocks == nil || depth == 0 {
		return true
	}
	w := false
	Instrs(g, func(in ssa.Instruction) {
		if w {
			return
		}
		switch x := in.(type) {
		case *ssa.Store:
			if fv, _ := fieldOf(x.Addr); fv != nil && fv.Name() == field {
				w = true
			}
		case ssa.CallInstruction:
			if mayWriteField(x, field, depth-1) {
				w = true
			}
		}
	})
	return w
}

// equivLoad: the dominator-most earlier load of the same field through the
// same SSA base value such that no store to a field of that name and no call
// that may write it lies on a path between the two loads; load itself when
// there is none. Two such loads observe the same value (single goroutine).
func equivLoad(load *ssa.UnOp) *ssa.UnOp {
	fa, ok := load.X.(*ssa.FieldAddr)
	if !ok {
		return load
	}
	fv, _ := fieldOf(fa)
	if fv == nil {
		return load
	}
	fn := load.Parent()
	best := load
	Instrs(fn, func(in ssa.Instruction) {
		l2, ok := in.(*ssa.UnOp)
		if !ok || l2 == load || l2.Op != token.MUL {
			return
		}
		fa2, ok := l2.X.(*ssa.FieldAddr)
		if !ok || fa2.Field != fa.Field || fa2.X != fa.X || !InstrDominates(l2, load) {
			return
		}
		if best != load && !InstrDominates(l2, best) {
			return
		}
		bad := ReachAvoiding(fn, l2, func(i ssa.Instruction) bool { return i == ssa.Instruction(load) }, func(i ssa.Instruction) bool {
			if !instrReaches(i, load) {
				return false
			}
			switch x := i.(type) {
			case *ssa.Store:
				f3, _ := fieldOf(x.Addr)
				return f3 != nil && f3.Name() == fv.Name()
			case ssa.CallInstruction:
				return mayWriteField(x, fv.Name(), 3)
			}
			return false
		})
		if bad == nil {
			best = l2
		}
	})
	return best
}

// reachingStore: for a local cell that does not escape, the value of the one
// direct store that reaches the load on every path (it dominates the load and
// no other direct store to the cell lies between them); nil otherwise.
func reachingStore(root *ssa.Alloc, load ssa.Instruction) ssa.Value {
	refs := root.Referrers()
	if refs == nil {
		return nil
	}
	var stores []*ssa.Store
	for _, r := range *refs {
		switch x := r.(type) {
		case *ssa.Store:
			if x.Addr == ssa.Value(root) {
				stores = append(stores, x)
			}
		case *ssa.UnOp, *ssa.DebugRef:
		default:
			return nil // address used otherwise (field/index address, call argument, closure)
		}
	}
	var best *ssa.Store
	for _, s := range stores {
		if !InstrDominates(s, load) {
			continue
		}
		if best == nil || InstrDominates(best, s) {
			best = s
		}
	}
	if best == nil {
		return nil
	}
	for _, s := range stores {
		if s == best {
			continue
		}
		if instrReaches(best, s) && instrReaches(s, load) {
			// another store may intervene; fine only if it cannot lie after best on a path to load
			if InstrDominates(s, best) && !instrReaches(best, s) {
				continue
			}
			return nil
		}
	}
	return best.Val
}

func storesField(g *ssa.Function, fv *types.Var, depth int) bool {
	found := false
	Instrs(g, func(in ssa.Instruction) {
		switch x := in.(type) {
		case *ssa.Store:
			if f, _ := fieldOf(x.Addr); f == fv {
				found = true
			}
		case *ssa.Call:
			if h := x.Common().StaticCallee(); h != nil && depth > 0 && inlineableSites(h) && storesField(h, fv, depth-1) {
				found = true
			}
		}
	})
	return found
}

// conditionalStore: g stores fv, but not in a block that dominates all of g's returns.
func conditionalStore(g *ssa.Function, fv *types.Var) bool {
	cond := false
	Instrs(g, func(in ssa.Instruction) {
		st, ok := in.(*ssa.Store)
		if !ok {
			return
		}
		if f, _ := fieldOf(st.Addr); f != fv {
			return
		}
		Instrs(g, func(r ssa.Instruction) {
			if _, isRet := r.(*ssa.Return); isRet && !InstrDominates(st, r) {
				cond = true
			}
		})
	})
	return cond
}

// ifaceDeclaring names the interface an invoked method is DECLARED in: a
// method reached through an embedding interface (ilist.Element embeds
// ilist.Linker) is named after the embedded one, so that calling it on a value
// of either static type gives the same callee name.
func ifaceDeclaring(static types.Type, m *types.Func) string {
	if sig, ok := m.Type().(*types.Signature); ok && sig.Recv() != nil {
		if n, ok := sig.Recv().Type().(*types.Named); ok {
			if _, isIface := n.Underlying().(*types.Interface); isIface {
				return TypeStr(n)
			}
		}
	}
	return TypeStr(static)
}
