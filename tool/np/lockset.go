package np

import (
	"go/token"
	"go/types"
	"sort"
	"strconv"
	"strings"

	"golang.org/x/tools/go/callgraph"
	"golang.org/x/tools/go/ssa"
)

// ---------------------------------------------------------------- lock sets

// A held lock: class "pkg.Type.field" (or "pkg.var" for globals), the access
// path of the mutex relative to the function's parameters ("$0.mu"; "?" when
// it cannot be expressed in the current frame), and the mode.
type heldLock struct {
	Class string
	Path  string
	Write bool
}

type lockset map[string]heldLock // key: Class+"@"+Path

func (l lockset) clone() lockset {
	m := lockset{}
	for k, v := range l {
		m[k] = v
	}
	return m
}

func (l lockset) String() string {
	var ks []string
	for k, v := range l {
		m := "R"
		if v.Write {
			m = "W"
		}
		ks = append(ks, k+":"+m)
	}
	sort.Strings(ks)
	return "{" + strings.Join(ks, ", ") + "}"
}

// meet: intersection; nil stands for TOP (everything).
func meet(a, b lockset) lockset {
	if a == nil {
		return b.clone()
	}
	if b == nil {
		return a.clone()
	}
	m := lockset{}
	for k, v := range a {
		if w, ok := b[k]; ok {
			m[k] = heldLock{v.Class, v.Path, v.Write && w.Write}
		}
	}
	// class-only agreement: same class held in both under different paths -> keep as "?"
	for _, v := range a {
		for _, w := range b {
			if v.Class == w.Class && v.Path != w.Path {
				k := v.Class + "@?"
				if _, ok := m[k]; !ok {
					m[k] = heldLock{v.Class, "?", v.Write && w.Write}
				}
			}
		}
	}
	return m
}

func eqLS(a, b lockset) bool {
	if (a == nil) != (b == nil) {
		return false
	}
	if len(a) != len(b) {
		return false
	}
	for k, v := range a {
		if w, ok := b[k]; !ok || w != v {
			return false
		}
	}
	return true
}

type lockOp struct {
	kind  string // lock | rlock | unlock | runlock | trylock
	class string
	path  string
}

var lockFuncs = map[string]string{
	"(*sync.Mutex).Lock":      "lock",
	"(*sync.Mutex).Unlock":    "unlock",
	"(*sync.Mutex).TryLock":   "trylock",
	"(*sync.RWMutex).Lock":    "lock",
	"(*sync.RWMutex).Unlock":  "unlock",
	"(*sync.RWMutex).RLock":   "rlock",
	"(*sync.RWMutex).RUnlock": "runlock",
	"(*tmutex.Mutex).Lock":    "lock",
	"(*tmutex.Mutex).Unlock":  "unlock",
	"(*tmutex.Mutex).TryLock": "trylock",
}

// mutexClass names the mutex a lock call operates on.
func mutexClass(t *Termer, recv ssa.Value) (class, path string) {
	switch x := recv.(type) {
	case *ssa.FieldAddr:
		fv, base := fieldOf(x)
		if fv == nil {
			return "", ""
		}
		bt := base.Type()
		if p, ok := bt.Underlying().(*types.Pointer); ok {
			bt = p.Elem()
		}
		tn := TypeStr(bt)
		return tn + "." + fv.Name(), t.path(x)
	case *ssa.Global:
		return qual(x.Pkg.Pkg) + "." + x.Name(), qual(x.Pkg.Pkg) + "." + x.Name()
	}
	return "", ""
}

func lockOpOf(t *Termer, ci ssa.CallInstruction) *lockOp {
	kind, ok := lockFuncs[CalleeName(ci)]
	if !ok {
		return nil
	}
	args := ci.Common().Args
	if len(args) == 0 {
		return nil
	}
	class, path := mutexClass(t, args[0])
	if class == "" {
		return &lockOp{kind: kind, class: "unknown", path: "?"}
	}
	return &lockOp{kind: kind, class: class, path: path}
}

// LockAnalysis holds the interprocedural must-lockset results.
type LockAnalysis struct {
	P          *Program
	Entry      map[*ssa.Function]lockset   // held at entry (nil = unreached)
	At         map[ssa.Instruction]lockset // held immediately before the instruction
	funcs      []*ssa.Function
	inEdges    map[*ssa.Function][]*callgraph.Edge
	Assume     map[string][]heldLock // frozen entry assumptions by function name
	viaWrapper map[*callgraph.Edge]bool
	// per-function exit summaries (class level): locks still held at every
	// return that were not held at entry, and locks released that were.
	Acquired    map[*ssa.Function]map[string]bool
	Released    map[*ssa.Function]map[string]bool
	missing     map[*ssa.Function]map[string]bool
	siteCallees map[ssa.CallInstruction][]*ssa.Function
	Cut         map[string]string // "caller->callee" edges ignored for held-at-entry, with reason
	CutUsed     map[string]bool
	Rounds      int
}

func applyOp(ls lockset, op *lockOp) lockset {
	out, _ := applyOp2(ls, op)
	return out
}

// applyOp2 also reports whether an unlock found nothing to release
// (the lock was taken by a caller).
func applyOp2(ls lockset, op *lockOp) (lockset, bool) {
	missing := false
	out := ls.clone()
	key := op.class + "@" + op.path
	switch op.kind {
	case "lock":
		out[key] = heldLock{op.class, op.path, true}
	case "rlock":
		if _, ok := out[key]; !ok {
			out[key] = heldLock{op.class, op.path, false}
		}
	case "unlock", "runlock":
		if _, ok := out[key]; ok {
			delete(out, key)
		} else {
			// released through another path: drop every held lock of the class
			n := 0
			for k, v := range out {
				if v.Class == op.class {
					delete(out, k)
					n++
				}
			}
			if n == 0 {
				missing = true
			}
		}
	}
	return out, missing
}

// analyseFn computes the lockset before each instruction given the entry set.
func (la *LockAnalysis) analyseFn(fn *ssa.Function, entry lockset) {
	if len(fn.Blocks) == 0 {
		return
	}
	t := NewTermer(fn)
	la.missing[fn] = map[string]bool{}
	in := make([]lockset, len(fn.Blocks)) // nil = TOP
	edgeAdd := map[[2]int]*lockOp{}       // trylock success edges
	// pre-compute trylock edges
	for _, b := range fn.Blocks {
		if len(b.Instrs) == 0 {
			continue
		}
		ifi, ok := b.Instrs[len(b.Instrs)-1].(*ssa.If)
		if !ok {
			continue
		}
		cond := ifi.Cond
		pol := true
		for {
			if u, ok := cond.(*ssa.UnOp); ok && u.Op == token.NOT {
				cond = u.X
				pol = !pol
				continue
			}
			break
		}
		if call, ok := cond.(*ssa.Call); ok {
			if op := lockOpOf(t, call); op != nil && op.kind == "trylock" {
				succ := 0
				if !pol {
					succ = 1
				}
				edgeAdd[[2]int{b.Index, succ}] = &lockOp{"lock", op.class, op.path}
			}
		}
	}
	in[0] = entry.clone()
	if in[0] == nil {
		in[0] = lockset{}
	}
	changed := true
	out := make([]lockset, len(fn.Blocks))
	for iter := 0; changed && iter < 50; iter++ {
		changed = false
		for _, b := range fn.Blocks {
			if in[b.Index] == nil {
				continue
			}
			cur := in[b.Index].clone()
			for _, ins := range b.Instrs {
				cur = la.transfer(t, fn, cur, ins)
			}
			out[b.Index] = cur
			for si, s := range b.Succs {
				val := cur
				if op, ok := edgeAdd[[2]int{b.Index, si}]; ok {
					val = applyOp(cur, op)
				}
				var nv lockset
				if in[s.Index] == nil {
					nv = val.clone()
				} else {
					nv = meet(in[s.Index], val)
				}
				if !eqLS(nv, in[s.Index]) {
					in[s.Index] = nv
					changed = true
				}
			}
		}
	}
	for _, b := range fn.Blocks {
		cur := in[b.Index]
		if cur == nil {
			// unreachable block (e.g. the recover block of a function with defers)
			for _, ins := range b.Instrs {
				delete(la.At, ins)
			}
			continue
		}
		cur = cur.clone()
		for _, ins := range b.Instrs {
			la.At[ins] = cur
			cur = la.transfer(t, fn, cur, ins)
		}
	}
}

// transfer applies one instruction to the lockset: lock operations, and
// the exit summaries of resolved module callees.
func (la *LockAnalysis) transfer(t *Termer, fn *ssa.Function, cur lockset, ins ssa.Instruction) lockset {
	c, ok := ins.(*ssa.Call)
	if !ok {
		return cur
	}
	if op := lockOpOf(t, c); op != nil {
		if op.kind == "trylock" {
			return cur
		}
		nl, missing := applyOp2(cur, op)
		if missing {
			la.missing[fn][op.class] = true
		}
		return nl
	}
	callees := la.siteCallees[c]
	if len(callees) != 1 {
		return cur
	}
	g := callees[0]
	rel, acq := la.Released[g], la.Acquired[g]
	if len(rel) == 0 && len(acq) == 0 {
		return cur
	}
	out := cur.clone()
	for cl := range rel {
		n := 0
		for k, v := range out {
			if v.Class == cl {
				delete(out, k)
				n++
			}
		}
		if n == 0 { // released on behalf of our caller
			la.missing[fn][cl] = true
		}
	}
	for cl := range acq {
		out[cl+"@?"] = heldLock{cl, "?", true}
	}
	return out
}

// summarise records which lock classes fn still holds at every return that
// it did not hold at entry.
func (la *LockAnalysis) summarise(fn *ssa.Function, entry lockset) bool {
	var exit lockset
	n := 0
	Instrs(fn, func(in ssa.Instruction) {
		if _, ok := in.(*ssa.Return); ok {
			// deferred unlocks run after this point; account for them
			cur := la.At[in]
			if cur != nil {
				exit = meet(exit, la.afterDefers(fn, cur))
				n++
			}
		}
	})
	acq := map[string]bool{}
	rel := map[string]bool{}
	if n > 0 {
		entryClasses := map[string]bool{}
		for _, h := range entry {
			entryClasses[h.Class] = true
		}
		exitClasses := map[string]bool{}
		for _, h := range exit {
			exitClasses[h.Class] = true
			if !entryClasses[h.Class] && !la.missing[fn][h.Class] {
				acq[h.Class] = true
			}
		}
		for cl := range entryClasses {
			if !exitClasses[cl] {
				rel[cl] = true
			}
		}
		for cl := range la.missing[fn] {
			if !exitClasses[cl] {
				rel[cl] = true
			}
		}
	}
	if len(rel) != len(la.Released[fn]) {
		la.Released[fn] = rel
		la.Acquired[fn] = acq
		return true
	}
	for k := range rel {
		if !la.Released[fn][k] {
			la.Released[fn] = rel
			la.Acquired[fn] = acq
			return true
		}
	}
	la.Released[fn] = rel
	changed := len(acq) != len(la.Acquired[fn])
	for k := range acq {
		if !la.Acquired[fn][k] {
			changed = true
		}
	}
	la.Acquired[fn] = acq
	return changed
}

// afterDefers applies the function's deferred lock operations (in LIFO
// order) to a lockset: defer mu.Unlock(), and the rarer defer mu.RLock().
func (la *LockAnalysis) afterDefers(fn *ssa.Function, ls lockset) lockset {
	t := NewTermer(fn)
	var ops []*lockOp
	Instrs(fn, func(in ssa.Instruction) {
		if d, ok := in.(*ssa.Defer); ok {
			if op := lockOpOf(t, d); op != nil && op.kind != "trylock" {
				ops = append(ops, op)
			}
		}
	})
	out := ls
	for i := len(ops) - 1; i >= 0; i-- {
		out = applyOp(out, ops[i])
	}
	return out
}

// translate maps the caller's lockset at a call site into the callee's frame.
func translate(ls lockset, site ssa.CallInstruction, callee *ssa.Function) lockset {
	out := lockset{}
	caller := site.Parent()
	t := NewTermer(caller)
	args := site.Common().Args
	if site.Common().IsInvoke() {
		args = append([]ssa.Value{site.Common().Value}, args...)
	}
	var argPaths []string
	for _, a := range args {
		s := t.T(a)
		s = strings.TrimPrefix(s, "&")
		argPaths = append(argPaths, s)
	}
	isClosureOfCaller := callee.Parent() == caller
	for _, h := range ls {
		np := "?"
		best := -1
		for i, ap := range argPaths {
			if i >= len(callee.Params) {
				break
			}
			if ap == "" || strings.HasPrefix(ap, "phi{") {
				continue
			}
			if (h.Path == ap || strings.HasPrefix(h.Path, ap+".")) && len(ap) > best {
				np = "$" + itoa(i) + h.Path[len(ap):]
				best = len(ap)
			}
		}
		if np == "?" && isClosureOfCaller {
			np = hatPath(h.Path)
		}
		k := h.Class + "@" + np
		if old, ok := out[k]; ok {
			out[k] = heldLock{h.Class, np, old.Write || h.Write}
		} else {
			out[k] = heldLock{h.Class, np, h.Write}
		}
	}
	return out
}

// hatPath rewrites a path of the parent frame into the closure frame
// ($k -> ^$k), which is how the Termer renders captured variables.
func hatPath(p string) string {
	if strings.HasPrefix(p, "$") {
		return "^" + p
	}
	return "?"
}

func itoa(i int) string { return strconv.Itoa(i) }

// NewLockAnalysis runs the held-at-entry fixpoint over the module functions.
func (p *Program) NewLockAnalysis(assume map[string][]heldLock, cut map[string]string) *LockAnalysis {
	la := &LockAnalysis{P: p, Entry: map[*ssa.Function]lockset{}, At: map[ssa.Instruction]lockset{}, Assume: assume, inEdges: map[*ssa.Function][]*callgraph.Edge{},
		Acquired: map[*ssa.Function]map[string]bool{}, Released: map[*ssa.Function]map[string]bool{}, missing: map[*ssa.Function]map[string]bool{}, siteCallees: map[ssa.CallInstruction][]*ssa.Function{}, Cut: cut, CutUsed: map[string]bool{}}
	cg := p.CallGraph()
	for _, f := range p.Funcs {
		if n := cg.Nodes[f]; n != nil {
			for _, e := range n.Out {
				if e.Site != nil && e.Callee != nil && e.Callee.Func != nil {
					la.siteCallees[e.Site] = append(la.siteCallees[e.Site], e.Callee.Func)
				}
			}
		}
	}
	inModule := map[*ssa.Function]bool{}
	for _, f := range p.Funcs {
		inModule[f] = true
	}
	la.funcs = p.Funcs
	la.viaWrapper = map[*callgraph.Edge]bool{}
	for _, f := range p.Funcs {
		n := cg.Nodes[f]
		if n == nil {
			continue
		}
		seenW := map[*callgraph.Node]bool{}
		var collect func(n *callgraph.Node, via bool)
		collect = func(n *callgraph.Node, via bool) {
			for _, e := range n.In {
				if e.Caller == nil || e.Site == nil {
					continue
				}
				if inModule[e.Caller.Func] {
					if via {
						// edge into a synthetic wrapper (bound method, thunk): argument
						// positions differ, so lock paths cannot be translated
						e2 := *e
						la.viaWrapper[&e2] = true
						la.inEdges[f] = append(la.inEdges[f], &e2)
					} else {
						la.inEdges[f] = append(la.inEdges[f], e)
					}
				} else if e.Caller.Func.Synthetic != "" && !seenW[e.Caller] {
					seenW[e.Caller] = true
					collect(e.Caller, true)
				}
			}
		}
		collect(n, false)
	}
	// closures passed as arguments or invoked directly inside their parent:
	// record the instructions in the parent that hand them over.
	closureSites := map[*ssa.Function][]ssa.Instruction{}
	for _, f := range p.Funcs {
		Instrs(f, func(in ssa.Instruction) {
			mc, ok := in.(*ssa.MakeClosure)
			if !ok {
				return
			}
			cf := mc.Fn.(*ssa.Function)
			for _, site := range closureUses(mc) {
				closureSites[cf] = append(closureSites[cf], site)
			}
		})
	}
	entryOf := func(f *ssa.Function) lockset {
		if as, ok := assume[FuncName(f)]; ok {
			ls := lockset{}
			for _, h := range as {
				ls[h.Class+"@"+h.Path] = h
			}
			return ls
		}
		var acc lockset // nil = TOP
		n := 0
		if sites, ok := closureSites[f]; ok {
			escapes := false
			for _, s := range sites {
				if s == nil {
					escapes = true
				}
			}
			if !escapes && len(sites) > 0 {
				// every use is a direct call or a synchronous hand-off to a module
				// function that calls its parameter: the closure runs under the
				// locks held at those sites (1-CFA for function-typed parameters)
				for _, s := range sites {
					cur := la.At[s]
					if cur == nil {
						if la.Entry[s.Parent()] == nil {
							continue // caller not reached yet
						}
						cur = lockset{}
					}
					tr := lockset{}
					for _, h := range cur {
						np := hatPath(h.Path)
						tr[h.Class+"@"+np] = heldLock{h.Class, np, h.Write}
					}
					acc = meet(acc, tr)
					n++
				}
				if n > 0 {
					return acc
				}
				return nil
			}
		}
		edges := la.inEdges[f]
		if len(edges) == 0 {
			return lockset{} // root
		}
		for _, e := range edges {
			ck := FuncName(e.Caller.Func) + "->" + FuncName(f)
			if _, isCut := la.Cut[ck]; isCut {
				la.CutUsed[ck] = true
				continue
			}
			if _, isGo := e.Site.(*ssa.Go); isGo {
				acc = meet(acc, lockset{})
				n++
				continue
			}
			if la.Entry[e.Caller.Func] == nil {
				continue
			}
			cur := la.At[e.Site]
			if cur == nil {
				cur = lockset{}
			}
			if _, isDefer := e.Site.(*ssa.Defer); isDefer {
				// runs at function exit: what is held both when registered and at every return
				Instrs(e.Caller.Func, func(in ssa.Instruction) {
					if _, ok := in.(*ssa.Return); ok {
						if r := la.At[in]; r != nil {
							cur = meet(cur, r)
						}
					}
				})
			}
			if la.viaWrapper[e] {
				tr := lockset{}
				for _, h := range cur {
					tr[h.Class+"@?"] = heldLock{h.Class, "?", h.Write}
				}
				acc = meet(acc, tr)
			} else {
				acc = meet(acc, translate(cur, e.Site, f))
			}
			n++
		}
		if n == 0 {
			return nil
		}
		return acc
	}
	for round := 0; round < 16; round++ {
		la.Rounds = round + 1
		changed := false
		for _, f := range p.Funcs {
			ne := entryOf(f)
			if ne == nil {
				continue
			}
			if old := la.Entry[f]; old == nil || !eqLS(old, ne) {
				la.Entry[f] = ne
				la.analyseFn(f, ne)
				la.summarise(f, ne)
				changed = true
			} else {
				// callee summaries may have changed
				la.analyseFn(f, ne)
				if la.summarise(f, ne) {
					changed = true
				}
			}
		}
		if !changed {
			break
		}
	}
	// unreached functions (dead code, recursion islands): analyse with nothing held
	for _, f := range p.Funcs {
		if la.Entry[f] == nil {
			la.Entry[f] = lockset{}
			la.analyseFn(f, lockset{})
		}
	}
	return la
}

// closureUses returns the instructions at which a closure value is invoked
// or handed to a module function that calls it synchronously; a nil element
// means the closure escapes (go statement, stored, passed to non-module code).
func closureUses(mc *ssa.MakeClosure) []ssa.Instruction {
	var out []ssa.Instruction
	seen := map[ssa.Value]bool{}
	var follow func(v ssa.Value)
	follow = func(v ssa.Value) {
		if seen[v] {
			return
		}
		seen[v] = true
		refs := v.Referrers()
		if refs == nil {
			return
		}
		for _, r := range *refs {
			switch u := r.(type) {
			case *ssa.Call:
				if u.Common().Value == v {
					out = append(out, u)
					continue
				}
				callee := u.Common().StaticCallee()
				if callee != nil && callee.Pkg != nil && strings.HasPrefix(callee.Pkg.Pkg.Path(), Mod) && callee.Blocks != nil && callsParamSync(callee) {
					out = append(out, u)
				} else if u.Common().IsInvoke() {
					out = append(out, nil)
				} else {
					out = append(out, nil)
				}
			case *ssa.Defer:
				if u.Common().Value == v {
					out = append(out, u)
				} else {
					out = append(out, nil)
				}
			case *ssa.Go:
				out = append(out, nil)
			case *ssa.Store:
				if a, ok := u.Addr.(*ssa.Alloc); ok && u.Val == v {
					// local variable holding the closure: follow loads
					if lr := a.Referrers(); lr != nil {
						for _, x := range *lr {
							if ld, ok := x.(*ssa.UnOp); ok && ld.Op == token.MUL {
								follow(ld)
							}
						}
					}
				} else {
					out = append(out, nil)
				}
			case *ssa.MakeInterface, *ssa.ChangeType:
				follow(u.(ssa.Value))
			case *ssa.Phi:
				follow(u)
			case *ssa.DebugRef:
			default:
				out = append(out, nil)
			}
		}
	}
	follow(mc)
	return out
}

// callsParamSync: the function invokes one of its function-typed parameters
// directly (not via go) and never stores it.
func callsParamSync(f *ssa.Function) bool {
	ok := false
	for _, p := range f.Params {
		if _, isSig := p.Type().Underlying().(*types.Signature); !isSig {
			continue
		}
		if refs := p.Referrers(); refs != nil {
			for _, r := range *refs {
				switch u := r.(type) {
				case *ssa.Call:
					if u.Common().Value == p {
						ok = true
					}
				case *ssa.DebugRef:
				default:
					return false
				}
			}
		}
	}
	return ok
}

// ---------------------------------------------------------------- guarded-by rule

// Guard says: fields Fields of struct Struct are protected by lock class
// Class. SameObject: the mutex lives in the same struct value as the field,
// so the held path must be <base>.<mutex> (or "?").
type Guard struct {
	Struct     string // "tcp.endpoint"
	Fields     []string
	Class      string // "tcp.endpoint.rcvListMu"
	SameObject bool
	ReadOK     bool // reads without the lock are tolerated (not used unless stated)
}

type Exception struct {
	Fn, Field, Reason string
}

// CheckGuards evaluates every access to the guarded fields.
func (la *LockAnalysis) CheckGuards(c *Ctx, rule string, guards []Guard, exceptions []Exception) {
	exc := map[string]string{}
	for _, e := range exceptions {
		exc[e.Fn+"/"+e.Field] = e.Reason
	}
	usedExc := map[string]bool{}
	type gkey struct{ st, f string }
	gm := map[gkey]Guard{}
	for _, g := range guards {
		for _, f := range g.Fields {
			gm[gkey{g.Struct, f}] = g
		}
	}
	found := map[gkey]int{}
	for _, fn := range la.funcs {
		t := NewTermer(fn)
		for _, a := range FieldAccesses(fn) {
			bt := a.Base.Type()
			if p, ok := bt.Underlying().(*types.Pointer); ok {
				bt = p.Elem()
			}
			st := TypeStr(bt)
			g, ok := gm[gkey{st, a.Field.Name()}]
			if !ok {
				continue
			}
			found[gkey{st, a.Field.Name()}]++
			fname := FuncName(fn)
			mode := "read"
			if a.Write {
				mode = "write"
			}
			key := fname + "/" + st + "." + a.Field.Name() + "/" + mode
			pos := la.P.Pos(a.Instr.Pos())
			if a.Instr.Pos() == token.NoPos {
				pos = la.P.Pos(a.Addr.Pos())
			}
			// constructor context: object allocated in this function
			if isFreshAlloc(a.Base) {
				c.Ok(rule, key, pos, "object allocated in this function (not yet published)")
				continue
			}
			ls := la.At[a.Instr]
			basePath := t.path(a.Base)
			if _, ok := a.Base.(*ssa.Parameter); ok {
				basePath = t.T(a.Base)
			}
			held, write := false, false
			for _, h := range ls {
				if h.Class != g.Class {
					continue
				}
				if !g.SameObject || h.Path == "?" || h.Path == basePath+"."+lastSeg(g.Class) {
					held = true
					write = write || h.Write
				}
			}
			if held && (write || !a.Write) {
				c.Ok(rule, key, pos, "held: "+ls.String())
				continue
			}
			if r, ok := exc[fname+"/"+a.Field.Name()]; ok {
				usedExc[fname+"/"+a.Field.Name()] = true
				c.Assume(rule, key, pos, "exception: "+r)
				continue
			}
			if r, ok := exc[fname+"/*"]; ok {
				usedExc[fname+"/*"] = true
				c.Assume(rule, key, pos, "exception: "+r)
				continue
			}
			why := "lock " + g.Class + " not held"
			if held {
				why = "written while " + g.Class + " is only read-locked"
			}
			c.Bad(rule, key, pos, why+"; held here: "+ls.String()+"; entry: "+la.Entry[fn].String())
		}
	}
	for _, g := range guards {
		for _, f := range g.Fields {
			if found[gkey{g.Struct, f}] == 0 {
				c.Broken(rule, "anchor-unresolved:"+g.Struct+"."+f, "guarded field has no access in the module (renamed or removed?)")
			}
		}
	}
	for _, e := range exceptions {
		if !usedExc[e.Fn+"/"+e.Field] {
			c.Note(rule, "unused-exception:"+e.Fn+"/"+e.Field, "", "exception no longer needed")
		}
	}
}

func lastSeg(s string) string {
	if i := strings.LastIndex(s, "."); i >= 0 {
		return s[i+1:]
	}
	return s
}

// isFreshAlloc: v is a heap allocation made in this function (composite
// literal or new) or returned by a constructor (a module function all of
// whose non-nil results are fresh allocations), possibly reached through
// loads of a local holding it.
func isFreshAlloc(v ssa.Value) bool { return isFresh(v, 3) }

func isFresh(v ssa.Value, depth int) bool {
	switch x := v.(type) {
	case *ssa.Alloc:
		return true
	case *ssa.UnOp:
		if x.Op == token.MUL {
			if a, ok := x.X.(*ssa.Alloc); ok && !a.Heap {
				all := true
				n := 0
				if refs := a.Referrers(); refs != nil {
					for _, r := range *refs {
						if s, ok := r.(*ssa.Store); ok && s.Addr == a {
							n++
							if !isFresh(s.Val, depth) {
								all = false
							}
						}
					}
				}
				return all && n > 0
			}
		}
	case *ssa.FieldAddr:
		return isFresh(x.X, depth)
	case *ssa.Extract:
		if c, ok := x.Tuple.(*ssa.Call); ok {
			return returnsFresh(c, x.Index, depth)
		}
	case *ssa.Call:
		return returnsFresh(x, 0, depth)
	}
	return false
}

func returnsFresh(c *ssa.Call, idx, depth int) bool {
	if depth <= 0 {
		return false
	}
	f := c.Common().StaticCallee()
	if f == nil || f.Blocks == nil || f.Pkg == nil || !strings.HasPrefix(f.Pkg.Pkg.Path(), Mod) {
		return false
	}
	n := 0
	ok := true
	Instrs(f, func(in ssa.Instruction) {
		r, isRet := in.(*ssa.Return)
		if !isRet || idx >= len(r.Results) {
			return
		}
		res := r.Results[idx]
		if k, isC := res.(*ssa.Const); isC && k.Value == nil {
			return // nil result
		}
		n++
		if !isFresh(res, depth-1) {
			ok = false
		}
	})
	return ok && n > 0
}

// ExitImbalance describes a function whose returns disagree on which locks
// are held relative to its entry: on some path a lock taken in the function
// is still held at return while on others it is not (a leaked lock), or an
// entry lock is released on some returns only.
type ExitImbalance struct {
	Fn     *ssa.Function
	Ret    ssa.Instruction
	Lock   string // class@path
	Leaked bool   // true: held at this return but not at every return; false: released here but not everywhere
}

// ExitImbalances compares, per function, the lock state at every return
// (deferred lock operations applied) and reports the returns that deviate
// from what all returns have in common.
func (la *LockAnalysis) ExitImbalances() []ExitImbalance {
	var out []ExitImbalance
	for _, fn := range la.P.Funcs {
		entry := la.Entry[fn]
		if entry == nil {
			entry = lockset{}
		}
		type ex struct {
			in ssa.Instruction
			ls lockset
		}
		var exits []ex
		Instrs(fn, func(in ssa.Instruction) {
			if _, ok := in.(*ssa.Return); ok {
				if cur, ok := la.At[in]; ok && cur != nil {
					exits = append(exits, ex{in, la.afterDefers(fn, cur)})
				}
			}
		})
		if len(exits) < 2 {
			continue
		}
		common := exits[0].ls
		for _, e := range exits[1:] {
			common = meet(common, e.ls)
		}
		for _, e := range exits {
			for k := range e.ls {
				if _, ok := common[k]; !ok {
					if _, atEntry := entry[k]; !atEntry {
						out = append(out, ExitImbalance{fn, e.in, k, true})
					}
				}
			}
		}
		// entry locks released on some returns only
		for k := range entry {
			heldSomewhere, heldEverywhere := false, true
			for _, e := range exits {
				if _, ok := e.ls[k]; ok {
					heldSomewhere = true
				} else {
					heldEverywhere = false
				}
			}
			if heldSomewhere && !heldEverywhere {
				for _, e := range exits {
					if _, ok := e.ls[k]; !ok {
						out = append(out, ExitImbalance{fn, e.in, k, false})
					}
				}
			}
		}
	}
	return out
}
