package np

import (
	"strings"

	"golang.org/x/tools/go/ssa"
)

func init() { register("C13", propC13) }

func propC13(c *Ctx) {
	c.Explanation = "That every request is answered while fewer than ten are pending depends on goroutine scheduling, and byte equality of payloads at run time is behavioural; both are NOT decided. Decided are the structural conditions: (I1) the IPv4 echo queue has capacity exactly 10 and one replier goroutine per endpoint; the enqueue is a non-blocking select (the NIC goroutine never blocks on it) and the drop branch releases the cloned route; what is queued is a clone of the inbound route and a COPY (ToView) of the whole datagram body after exactly the 4 fixed ICMP bytes - identifier, sequence number and all payload chunks, not just the first view, and not an alias of the receive buffer; this happens only for type == echo with at least 6 bytes in the first view. (I2) the replier answers each dequeued request exactly once with code 0 and releases the route. (I3) sendPing4: type = echo reply, the first bytes of the body (identifier) go to header bytes 4.., the rest is the payload, checksum = complement of the sum over the header (checksum field still zero in the freshly prepended buffer) continued over the payload, one WritePacket on the given route with protocol ICMPv4. (I4) ICMPv6: the 8-byte echo header is copied from the request, the type is then set to echo reply, the payload is the request's body after those 8 bytes, checksum over source/destination of the inbound route, length, next-header 58, payload and the header with the checksum field zeroed; sent on the inbound route. The inbound route is built with local = the packet's destination (the pinged address) and remote = its source, and Clone keeps both, so the reply goes to the requester from the pinged address. (I5) echo-reply type values are written nowhere else in the module, sendPing4 is called only by the replier and the queue is fed only by handleICMP: no reply without a request. That requests for foreign addresses never reach handleICMP is C09. (I6) the IPv4 reassembly key covers id, protocol and every byte of both addresses (shared with C08/F4): a fragmented request is reassembled from its own requester's fragments only. (I7) the masked address match behind 'is this address served here' (shared with C09/D5). (I8) the IPv4 inbound path (shared with C08/F4). (I5) also holds the exact guards of the ping socket's echo-request-only gate; (I9) ICMP type/code/checksum accessors at the RFC 792/4443 bits (shared with C15/B1). (I10) protocol 1 of a valid IPv4 datagram is handed to handleICMP with the payload view. (I11) the echo payload ends where the IP length says (shared with C16/V2); (I12) fragmented echo requests are stored through container/heap and reassembled in offset order (shared with C08/F2). (I13) the Internet checksum used by both reply builders drops no carry when folding to 16 bits (shared with C15/B4, C06/E0). (I14) a request reaches the ICMP code only through the network endpoint that owns its destination address: getRef returns a table hit or the one temporary endpoint it creates under promiscuous mode or an owning subnet (shared with C09/D3). NOT decided: scheduling (answered while < 10 pending), at-most-once under link-level duplication, fragmentation of large replies."

	i1 := c.Rule("I1", "K12 capacity + K11 non-blocking + K5 provenance", "IPv4 echo queue", 9)
	if fn := c.Fn(i1, "(*ipv4.protocol).NewEndpoint"); fn != nil {
		c.CheckSites(i1, fn, []SiteSpec{
			{Kind: "store", Target: "ipv4.endpoint.echoRequests", Args: []string{"new(ipv4.endpoint)", "make(chan ipv4.echoRequest, 10)"}, Guards: []string{}, Exact: true, N: 1, Why: "capacity exactly 10"},
			{Kind: "go", Target: "(*ipv4.endpoint).echoReplier", Args: []string{"&new(ipv4.endpoint)"}, Guards: []string{}, Exact: true, N: 1, Why: "exactly one replier per endpoint (two would answer concurrently but still once each; none would answer nothing)"},
		})
	}
	c.OnlyIn(i1, "store to endpoint.echoRequests", c.FieldStores("ipv4.endpoint", "echoRequests"), "(*ipv4.protocol).NewEndpoint")
	in := "buffer.VectorisedView.First($2)"
	if fn := c.Fn(i1, "(*ipv4.endpoint).handleICMP"); fn != nil {
		echo := []string{"!(builtin:len(" + in + ") < 4)", "!(builtin:len(" + in + ") < 6)", "(8 == header.ICMPv4.Type(" + in + "))"}
		c.CheckSitesPresent(i1, fn, []SiteSpec{
			{Kind: "call", Target: "(*buffer.VectorisedView).TrimFront", Args: []string{"&new(buffer.VectorisedView)", "4"}, Guards: echo, Exact: true, N: 1, Why: "exactly the 4 fixed ICMP bytes are dropped; identifier/sequence stay with the body"},
			{Kind: "store", Target: "ipv4.echoRequest.r", Args: []string{"new(ipv4.echoRequest)", "(*stack.Route).Clone($1)"}, Guards: echo, Exact: true, N: 1, Why: "the reply route is a clone of the inbound route"},
			{Kind: "store", Target: "ipv4.echoRequest.v", Args: []string{"new(ipv4.echoRequest)", "buffer.VectorisedView.ToView(new(buffer.VectorisedView)@2)"}, Guards: echo, Exact: true, N: 1, Why: "the whole remaining datagram (all chunks) copied into a fresh view, after the trim"},
			{Kind: "select", Args: []string{"blocking=false", "send $0.echoRequests <- new(ipv4.echoRequest)@*"}, Guards: echo, Exact: true, N: 1, Why: "non-blocking enqueue of exactly that request"},
			{Kind: "call", Target: "(*stack.Route).Release", Args: []string{"&new(ipv4.echoRequest).r"}, Guards: append([]string{"!(0 == select#0)"}, echo...), Exact: true, N: 1, Why: "queue full: the clone is released, nothing else happens"},
		})
		c.Ordered(i1, fn, []string{"route clone stored in the request", "request enqueued"}, []func(Site) bool{func(s Site) bool { return s.Kind == "store" && s.Target == "ipv4.echoRequest.r" }, func(s Site) bool { return s.Kind == "select" }})
		// no other send on the queue anywhere
		n := 0
		for _, f := range c.ReviewedFuncs() {
			for _, s := range Sites(f) {
				if (s.Kind == "select" || s.Kind == "send") && strings.Contains(strings.Join(s.Args, " "), "echoRequests") {
					n++
					c.Check(FuncName(f) == "(*ipv4.endpoint).handleICMP", i1, "send-on-echoRequests/in:"+FuncName(f), c.pos(s.Instr), "the queue is fed by handleICMP", "echo requests are queued outside handleICMP: a reply without a request becomes possible")
				}
			}
		}
		c.Check(n == 1, i1, "send-on-echoRequests/one-site", "", "one enqueue site", "number of enqueue sites changed")
	}

	i2 := c.Rule("I2", "K2 pairing", "replier: one reply and one release per request", 3)
	if fn := c.Fn(i2, "(*ipv4.endpoint).echoReplier"); fn != nil {
		got := "<-$0.echoRequests#1"
		c.CheckSites(i2, fn, []SiteSpec{
			{Kind: "recv", Args: []string{"$0.echoRequests"}, Guards: []string{}, Exact: true, N: 1, Why: "one dequeue per iteration"},
			{Kind: "call", Target: "ipv4.sendPing4", Args: []string{"&new(ipv4.echoRequest).r", "0", "new(ipv4.echoRequest).v@u"}, Guards: []string{got}, Exact: true, N: 1, Why: "exactly one reply per dequeued request, code 0, on the request's own route with its own bytes"},
			{Kind: "call", Target: "(*stack.Route).Release", Args: []string{"&new(ipv4.echoRequest).r"}, Guards: []string{got}, Exact: true, N: 1, Why: "route released once"},
		})
	}

	i9 := c.Rule("I9", "K9 bitprov (shared with C15/B1)", "ICMPv4/ICMPv6 type, code and checksum accessors read and write exactly the RFC 792/4443 bits", 12)
	c.fieldAccessorLayouts(i9, &bitprov{p: c.P}, func(f fieldLayout) bool { return f.Typ == "ICMPv4" || f.Typ == "ICMPv6" })

	icmpDispatchRule(c, c.Rule("I10", "K7 site table", "protocol 1 of a valid IPv4 datagram is handed to handleICMP with the payload view", 1))
	vvCapLengthRule(c, c.Rule("I11", "K7 exact-guard site table (shared with C16/V2)", "the echo payload ends where the IP length says", 4))
	reassemblerProcessRule(c, c.Rule("I12", "K9 path table + site table (shared with C08/F2)", "fragmented echo requests are reassembled in offset order whatever the arrival order", 6))
	checksumCarryRule(c, "I13")
	ownAddressDeliveryRule(c, c.Rule("I14", "K1/K5 site tables (shared with C09/D3)", "an echo request reaches the ICMP code only through the endpoint that owns its destination address; a temporary endpoint exists only under promiscuous mode or an owning subnet and is the one getRef just created", 6))
	i3 := c.Rule("I3", "K5 provenance", "IPv4 echo reply construction", 8)
	sendPing4Rule(c, i3)

	i4 := c.Rule("I4", "K5 provenance", "ICMPv6 echo reply and addressing of the inbound route", 9)
	if fn := c.Fn(i4, "(*ipv6.endpoint).handleICMP"); fn != nil {
		v6 := "buffer.VectorisedView.First($2)"
		t := func(k string) string { return "!(" + k + " == header.ICMPv6.Type(" + v6 + "))" }
		echo := []string{t("1"), t("135"), t("136"), t("2"), "!(builtin:len(" + v6 + ") < 4)", "!(builtin:len(" + v6 + ") < 8)", "(128 == header.ICMPv6.Type(" + v6 + "))"}
		out := "(*buffer.Prependable).Prepend(&new(buffer.Prependable), 8)"
		c.CheckSitesPresent(i4, fn, []SiteSpec{
			{Kind: "call", Target: "(*buffer.VectorisedView).TrimFront", Args: []string{"&new(buffer.VectorisedView)", "8"}, Guards: echo, Exact: true, N: 1, Why: "payload = body after the 8-byte echo header"},
			{Kind: "call", Target: "builtin:copy", Args: []string{out, v6}, Guards: echo, Exact: true, N: 1, Why: "the reply header starts as a copy of the request's 8 header bytes (identifier, sequence)"},
			{Kind: "call", Target: "header.ICMPv6.SetType", Args: []string{out, "129"}, Guards: echo, Exact: true, N: 1, Why: "type = echo reply"},
			{Kind: "call", Target: "ipv6.icmpChecksum", Args: []string{out, "$1.LocalAddress", "$1.RemoteAddress", "new(buffer.VectorisedView)@2"}, Guards: echo, Exact: true, N: 1, Why: "checksum over (pinged address, requester, payload after the trim)"},
			{Kind: "call", Target: "header.ICMPv6.SetChecksum", Args: []string{out, "ipv6.icmpChecksum(" + out + ", $1.LocalAddress, $1.RemoteAddress, new(buffer.VectorisedView)@2)"}, Guards: echo, Exact: true, N: 1, Why: "stored in the reply"},
			{Kind: "call", Target: "(*stack.Route).WritePacket", Args: []string{"$1", "new(buffer.Prependable)@2", "new(buffer.VectorisedView)@2", "58", "(*stack.Route).DefaultTTL($1)"}, Guards: echo, Exact: true, N: 1, Why: "one reply on the inbound route with the trimmed payload"},
		})
		c.Ordered(i4, fn, []string{"copy header", "set type", "checksum", "write"}, []func(Site) bool{
			func(s Site) bool {
				return s.Kind == "call" && s.Target == "builtin:copy" && len(s.Args) == 2 && s.Args[0] == out
			},
			func(s Site) bool {
				return s.Kind == "call" && s.Target == "header.ICMPv6.SetType" && s.Args[1] == "129"
			},
			func(s Site) bool {
				return s.Kind == "call" && s.Target == "header.ICMPv6.SetChecksum" && s.Args[0] == out
			},
			func(s Site) bool {
				return s.Kind == "call" && s.Target == "(*stack.Route).WritePacket" && s.Args[3] == "58" && strings.HasPrefix(s.Args[0], "$1")
			},
		})
	}
	if fn := c.Fn(i4, "stack.makeRoute"); fn != nil {
		c.CheckSites(i4, fn, []SiteSpec{{Kind: "return", Args: []string{"stack.Route{RemoteAddress: $2, RemoteLinkAddress: zero, LocalAddress: $1, LocalLinkAddress: $3, NextHop: zero, NetProto: $0, ref: $4}"}, Guards: []string{}, Exact: true, N: 1, Why: "parameter 1 is the local, parameter 2 the remote address"}})
	}
	if fn := c.Fn(i4, "(*stack.NIC).DeliverNetworkPacket"); fn != nil {
		pa := "iface:stack.NetworkProtocol.ParseAddresses($0.stack.networkProtocols[$4]#0, buffer.VectorisedView.First($5))"
		c.CheckSitesPresent(i4, fn, []SiteSpec{{Kind: "call", Target: "stack.makeRoute", Args: []string{"$4", pa + "#1", pa + "#0", "iface:stack.LinkEndpoint.LinkAddress($1)", "*"}, N: 1, Why: "inbound route: local = the packet's destination, remote = its source"}})
	}
	if fn := c.Fn(i4, "(*stack.Route).Clone"); fn != nil {
		c.CheckSites(i4, fn, []SiteSpec{{Kind: "return", Args: []string{"$0"}, Guards: []string{}, Exact: true, N: 1, Why: "a clone is a field-for-field copy"}})
	}

	i6 := c.Rule("I6", "K5 (shared with C08/F4)", "a fragmented echo request is reassembled only from its own requester's fragments: the IPv4 reassembly key covers id, protocol and every byte of both addresses", 5)
	fragmentKeyRule(c, i6)

	maskedMatchRule(c, "I7")
	i8 := c.Rule("I8", "K9 site table (shared with C08/F4)", "the IPv4 layer hands the ICMP code exactly the datagram's payload (header by its own length, capped to the total length, fragments included)", 6)
	ipv4InboundRule(c, i8)

	i5 := c.Rule("I5", "K3 confinement", "no reply without a request", 3)
	for _, t := range []struct{ fn, pre, typ, code, minLen string }{
		{"ping.sendPing4", "header.ICMPv4", "8", "6", "6"},
		{"ping.sendPing6", "header.ICMPv6", "128", "8", "8"},
	} {
		if fn := c.Fn(i5, t.fn); fn != nil {
			hdr := "(*buffer.Prependable).Prepend(&new(buffer.Prependable), " + t.minLen + ")"
			gate := []string{"!(builtin:len($2) < " + t.minLen + ")", "(0 == " + t.pre + ".Code(" + hdr + "))", "(" + t.typ + " == " + t.pre + ".Type(" + hdr + "))"}
			c.CheckSitesPresent(i5, fn, []SiteSpec{
				{Kind: "call", Target: "(*stack.Route).WritePacket", Args: nil, Guards: gate, Exact: true, N: 1, Why: "a ping socket puts a message on the wire only if its type is echo REQUEST and its code 0: applications cannot make the stack emit echo replies"},
			})
		}
	}
	for _, v := range []struct{ setter, val, allowed string }{
		{"header.ICMPv4.SetType", "0", "ipv4.sendPing4"},
		{"header.ICMPv6.SetType", "129", "(*ipv6.endpoint).handleICMP"},
	} {
		var sites []ssa.Instruction
		for _, in := range c.CallSites(Is(v.setter)) {
			ci := in.(ssa.CallInstruction)
			if p := in.Parent().Pkg; p != nil && strings.Contains(p.Pkg.Path(), "/testing/") {
				continue // test harness helper that fabricates packets, not part of the stack
			}
			args := CallArgs(ci)
			if len(args) == 2 {
				tv := Term(args[1])
				if tv == v.val || !isConstTerm(tv) {
					sites = append(sites, in)
				}
			}
		}
		c.OnlyIn(i5, v.setter+"(echo reply or non-constant)", sites, v.allowed)
	}
	c.OnlyIn(i5, "call of sendPing4", c.CallSites(Is("ipv4.sendPing4")), "(*ipv4.endpoint).echoReplier")
}

func isConstTerm(s string) bool {
	if s == "" {
		return false
	}
	for _, r := range s {
		if (r < '0' || r > '9') && r != '-' {
			return false
		}
	}
	return true
}

// echoRouteRefRule: the inbound route cloned for an echo reply is a counted
// reference on the pinged address's endpoint. It is released on every way out:
// by handleICMP itself when the queue is full (the clone is made before the
// non-blocking enqueue is attempted), by the replier after the reply otherwise.
// A leak keeps a removed address alive (it keeps receiving packets and
// answering pings). Shared by C13 (I1/I2) and C09 (D9).
func echoRouteRefRule(c *Ctx, rule string) {
	in := "buffer.VectorisedView.First($2)"
	if fn := c.Fn(rule, "(*ipv4.endpoint).handleICMP"); fn != nil {
		echo := []string{"!(builtin:len(" + in + ") < 4)", "!(builtin:len(" + in + ") < 6)", "(8 == header.ICMPv4.Type(" + in + "))"}
		c.CheckSitesPresent(rule, fn, []SiteSpec{
			{Kind: "store", Target: "ipv4.echoRequest.r", Args: []string{"new(ipv4.echoRequest)", "(*stack.Route).Clone($1)"}, Guards: echo, Exact: true, N: 1, Why: "the reply route is a clone of the inbound route (one more reference)"},
			{Kind: "select", Args: []string{"blocking=false", "send $0.echoRequests <- new(ipv4.echoRequest)@*"}, Guards: echo, Exact: true, N: 1, Why: "non-blocking enqueue of exactly that request"},
			{Kind: "call", Target: "(*stack.Route).Release", Args: []string{"&new(ipv4.echoRequest).r"}, Guards: append([]string{"!(0 == select#0)"}, echo...), Exact: true, N: 1, Why: "queue full: the clone is released"},
		})
		c.Ordered(rule, fn, []string{"route clone stored in the request", "request enqueued"}, []func(Site) bool{func(s Site) bool { return s.Kind == "store" && s.Target == "ipv4.echoRequest.r" }, func(s Site) bool { return s.Kind == "select" }})
	}
	if fn := c.Fn(rule, "(*ipv4.endpoint).echoReplier"); fn != nil {
		got := "<-$0.echoRequests#1"
		c.CheckSitesPresent(rule, fn, []SiteSpec{
			{Kind: "call", Target: "(*stack.Route).Release", Args: []string{"&new(ipv4.echoRequest).r"}, Guards: []string{got}, Exact: true, N: 1, Why: "the replier releases the route of every request it dequeued, whatever the send returned"},
		})
	}
}

// sendPing4Rule: the complete construction table of the IPv4 echo reply
// (type, code, identifier copy, checksum = complement of the sum over the
// 6 built bytes continued over the payload, one route write). Shared by
// C13/I3 and C06/E8.
func sendPing4Rule(c *Ctx, i3 string) {
	if fn := c.Fn(i3, "ipv4.sendPing4"); fn != nil {
		out := "(*buffer.Prependable).Prepend(&new(buffer.Prependable), 6)"
		c.CheckSites(i3, fn, []SiteSpec{
			{Kind: "call", Target: "(*buffer.Prependable).Prepend", Args: []string{"&new(buffer.Prependable)", "6"}, Guards: []string{}, Exact: true, N: 1, Why: "6-byte echo header in a fresh (zeroed) buffer"},
			{Kind: "call", Target: "header.ICMPv4.SetType", Args: []string{out, "0"}, Guards: []string{}, Exact: true, N: 1, Why: "type = echo reply"},
			{Kind: "call", Target: "header.ICMPv4.SetCode", Args: []string{out, "$1"}, Guards: []string{}, Exact: true, N: 1, Why: "code from the caller (0)"},
			{Kind: "call", Target: "builtin:copy", Args: []string{out + "[4:]", "$2"}, Guards: []string{}, Exact: true, N: 1, Why: "identifier: the first 2 body bytes fill header bytes 4..6"},
			{Kind: "call", Target: "header.Checksum", Args: []string{"$2[2:]", "0"}, Guards: []string{}, Exact: true, N: 1, Why: "sum over the payload (body after the identifier: sequence number and data)"},
			{Kind: "call", Target: "header.Checksum", Args: []string{out, "header.Checksum($2[2:], 0)"}, Guards: []string{}, Exact: true, N: 1, Why: "continued over the header"},
			{Kind: "call", Target: "header.ICMPv4.SetChecksum", Args: []string{out, "^header.Checksum(" + out + ", header.Checksum($2[2:], 0))"}, Guards: []string{}, Exact: true, N: 1, Why: "checksum = one's complement of that sum"},
			{Kind: "call", Target: "(*stack.Route).WritePacket", Args: []string{"$0", "new(buffer.Prependable)@2", "buffer.View.ToVectorisedView($2[2:])", "1", "(*stack.Route).DefaultTTL($0)"}, Guards: []string{}, Exact: true, N: 1, Why: "one packet: header + the same payload slice, ICMPv4, on the given route"},
		})
		c.Ordered(i3, fn, []string{"type", "identifier copy", "checksum", "write"}, []func(Site) bool{isCall("header.ICMPv4.SetType"), isCall("builtin:copy"), isCall("header.ICMPv4.SetChecksum"), isCall("(*stack.Route).WritePacket")})
	}
}
