package np

import (
	"go/constant"
	"strings"

	"golang.org/x/tools/go/ssa"
)

func init() { register("C20", propC20) }

// readnSpecs: the exact-length buffered read shared by the server socket and
// the TCP client (two copies of one algorithm; they must agree).
func readnSpecs(read, wait string) []SiteSpec {
	need0 := "(builtin:len($0.buf) < builtin:len($1))"
	need := "(builtin:len($0.buf@u) < builtin:len($1))"
	okRead := "(" + read + "#2 == nil)"
	return []SiteSpec{
		{Kind: "store", Target: "*.buf", Args: []string{"$0", "builtin:append($0.buf@u, " + read + "#0)"}, Guards: []string{need0, need, okRead}, Exact: true, N: 1, Why: "while the buffer is shorter than the request, append exactly what the endpoint returned, in arrival order"},
		{Kind: "recv", Args: []string{wait}, Guards: []string{"!" + okRead, need0, need, "(" + read + "#2 == tcpip.ErrWouldBlock)"}, Exact: true, N: 1, Why: "wait for a notification only on ErrWouldBlock"},
		{Kind: "call", Target: "builtin:copy", Args: []string{"$1", "$0.buf@u"}, Guards: []string{"!" + need}, Exact: true, N: 1, Why: "copy len(p) bytes only when the buffer holds at least that many"},
		{Kind: "store", Target: "*.buf", Args: []string{"$0", "$0.buf@u[builtin:len($1):]"}, Guards: []string{"!" + need}, Exact: true, N: 1, Why: "and consume exactly len(p) bytes from the front"},
	}
}

func propC20(c *Ctx) {
	c.Explanation = "Request/response fidelity and message order over the stack's own TCP are end-to-end behaviour over runtime values and are NOT decided. Decided are the framing and routing tables whose agreement the round trip needs: (X1) Conn.SendData: the frame buffer is allocated afresh on every call (the stack keeps the slice handed to Write by reference until it is acknowledged and, on loopback, until it is read - reuse would overwrite frames in flight), first byte FIN|Text = 0x81, and the RFC 6455 length encoding - len <= 125: the length itself; 126..65535: marker 126 + 2 bytes big-endian; >= 65536: marker 127 + 8 bytes big-endian - with byte()/uint16() conversions lossless in their branches, payload copied at 2+ext and exactly 2+ext+len bytes written; no index/slice out of range. Conn.ReadData: exactly 2 header bytes first; only FIN text frames accepted (close closes the connection); 126 -> 2 more bytes big-endian, 127 -> 8 more, else the 7-bit value; mask bit -> 4 key bytes before the payload; payload buffer of exactly the decoded length read in full; unmasking applied exactly when the mask bit was set; the two tables use the same thresholds and byte order. maskBytes XORs byte i with key[i mod 4]. (X2) computeAcceptKey = base64-std(SHA-1(key || GUID)) with the RFC 6455 GUID, never reassigned; Upgrade answers 101 with that value for the Sec-WebSocket-Key header only after the method/version/connection/upgrade/key checks passed. (X3) ServeMux.dispatch calls a handler only when the request URI is a key of the route table, and then the one stored under that key with the connection's request and response; otherwise status 400 and no handler; HandleFunc stores exactly (pattern -> handler) under the mux lock. (X4) both Readn copies: bytes are appended in arrival order, len(p) bytes are copied only when available and exactly len(p) are consumed. (X5) the HTTP parser and the two serialisers use the same syntax: match_until splits at the first occurrence of its delimiter; the parser splits the request line at two spaces and CRLF, each header at the first ': ' and the next CRLF (the value is not split again), stores (name, value) verbatim, keeps the remainder as the body and calls no other tokeniser; the client request and the server response are built as line, 'name: value' CRLF per header, blank line, body. (X6) the server's accept loop waits for a notification only after Accept found the queue empty. (X7) frame lengths are narrowed only inside their length class. (X8) the status a response goes out with: 200 from the constructor, the parser's direct error stores are 400, and set_status_code fills in only an unset (zero) status and is the only other writer, so a late classification cannot override the handler's 200. NOT decided: that parse(serialise(m)) = m for every message (names/values that themselves contain the delimiters), delivery and ordering through TCP, partial writes (ServerSocket.Write ignores the endpoint's result - observation)."
	cn := "(*websocket.Conn)."
	an := NewAbsint(c.P)

	listenerAcceptLoopRule(c, c.Rule("X6", "K1 guards", "the server accept loop waits for a notification only after Accept found the queue empty", 2), "(*http.Server).ListenAndServ")
	c.NoNewNarrowing(c.Rule("X7", "K8 narrowing (closed world, reviewed table)", "frame lengths are narrowed only inside their length class", 5), []string{"/application/websocket", "/application/http", "/tcp/client", "/udp/client"}, narrowApp)
	x8 := c.Rule("X8", "K3 confinement + K7 exact-guard site tables", "the status a response goes out with: 200 from the constructor until the parser records an error; set_status_code only fills an unset (zero) status, so a classification made after the constructor never overrides the handler's 200", 5)
	c.OnlyIn(x8, "store to Connection.status_code", c.FieldStores("http.Connection", "status_code"), "http.NewCon", "(*http.Connection).set_status_code", "(*http.Request).parse")
	if fn := c.Fn(x8, "(*http.Connection).set_status_code"); fn != nil {
		c.CheckSites(x8, fn, []SiteSpec{
			{Kind: "store", Target: "http.Connection.status_code", Args: []string{"$0", "$1"}, Guards: []string{"($0.status_code == 0)"}, Exact: true, N: 1, Why: "only an unset status is filled in: the constructor's 200 (and any error recorded earlier) stays"},
		})
	}
	if fn := c.Fn(x8, "http.NewCon"); fn != nil {
		n := 0
		for _, st := range StoresTo(fn, "http.Connection", "status_code") {
			n++
			c.Check(Term(st.Val) == "200", x8, FuncName(fn)+"/initial-status:"+Term(st.Val), c.pos(st), "a new connection starts with status 200", "a new connection does not start with status 200")
		}
		c.Check(n == 1, x8, FuncName(fn)+"/one-initial-status", c.P.Pos(fn.Pos()), "one initial store", "number of initial status stores changed")
	}
	if fn := c.Fn(x8, "(*http.Request).parse"); fn != nil {
		for _, st := range StoresTo(fn, "http.Connection", "status_code") {
			c.Check(Term(st.Val) == "400", x8, FuncName(fn)+"/parse-error-status:"+Term(st.Val), c.pos(st), "the parser's direct stores record 400 Bad Request", "the parser records a status other than 400 directly")
		}
	}
	x1 := c.Rule("X1", "K7 site tables + K8 intervals + K9 agreement", "WebSocket frame writer/reader tables", 30)
	if fn := c.Fn(x1, cn+"SendData"); fn != nil {
		ln := "builtin:len($1)"
		buf := "$0.writeBuf@1"
		big := "!(" + ln + " < 65536)"
		mid := []string{"!(" + ln + " < 126)", "(" + ln + " < 65536)"}
		small := []string{"(" + ln + " < 126)", "(" + ln + " < 65536)"}
		ps := "phi{(2 + 2) | (2 + 8) | 2}"
		c.CheckSites(x1, fn, []SiteSpec{
			{Kind: "store", Target: "websocket.Conn.writeBuf", Args: []string{"$0", "make([]byte, (10 + " + ln + "), (10 + " + ln + "))"}, Guards: []string{}, Exact: true, N: 1, Why: "a FRESH buffer for every frame, unconditionally: the TCP endpoint keeps the written slice by reference (SlicePayload.Get does not copy)"},
			{Kind: "elemstore", Target: buf, Args: []string{"0", "129"}, Guards: []string{}, Exact: true, N: 1, Why: "FIN | opcode text"},
			{Kind: "elemstore", Target: buf, Args: []string{"1", "127"}, Guards: []string{big}, Exact: true, N: 1, Why: ">= 65536: marker 127, no mask bit"},
			{Kind: "call", Target: "encoding/binary.bigEndian.PutUint64", Args: []string{"encoding/binary.BigEndian", buf + "[2:]", ln}, Guards: []string{big}, Exact: true, N: 1, Why: "... and the length as 8 bytes big-endian right after the 2-byte header"},
			{Kind: "elemstore", Target: buf, Args: []string{"1", "126"}, Guards: mid, Exact: true, N: 1, Why: "126..65535: marker 126"},
			{Kind: "call", Target: "encoding/binary.bigEndian.PutUint16", Args: []string{"encoding/binary.BigEndian", buf + "[2:]", ln}, Guards: mid, Exact: true, N: 1, Why: "... and the length as 2 bytes big-endian"},
			{Kind: "elemstore", Target: buf, Args: []string{"1", ln}, Guards: small, Exact: true, N: 1, Why: "<= 125: the length itself"},
			{Kind: "call", Target: "builtin:copy", Args: []string{buf + "[" + ps + ":]", "$1[:]"}, Guards: []string{}, Exact: true, N: 1, Why: "payload right after the header (2, 4 or 10 bytes), unmasked"},
			{Kind: "call", Target: "(*http.Connection).Write", Args: []string{"$0.conn", buf + "[:(" + ln + " + " + ps + ")]"}, Guards: []string{}, Exact: true, N: 1, Why: "exactly header + payload bytes are written, in one Write"},
			{Kind: "return", Args: []string{"(*http.Connection).Write($0.conn, " + buf + "[:(" + ln + " + " + ps + ")])"}, Guards: []string{}, Exact: true, N: 1, Why: "the write error is the result"},
		})
		c.NarrowingObligations(x1, an, fn)
		c.boundsObligations(x1, an, fn)
	}
	if fn := c.Fn(x1, cn+"ReadData"); fn != nil {
		b := "new([8]byte)"
		hdr := "(*http.Connection).Readn($0.conn, " + b + "[:2])#1"
		okHdr := "(" + hdr + " == nil)"
		fin := "!((128 & " + b + "[0]) == 0)"
		notClose := "!((15 & " + b + "[0]) == 8)"
		text := "((15 & " + b + "[0]) == 1)"
		is126 := "((127 & " + b + "[1]) == 126)"
		is127 := "((127 & " + b + "[1]) == 127)"
		masked := "!((128 & " + b + "[1]) == 0)"
		u16 := "encoding/binary.bigEndian.Uint16(encoding/binary.BigEndian, " + b + "[:2])"
		u64 := "encoding/binary.bigEndian.Uint64(encoding/binary.BigEndian, " + b + "[:8])"
		dl := "phi{(127 & " + b + "[1]) | " + u16 + " | " + u64 + "}"
		p := "make([]byte, " + dl + ", " + dl + ")"
		okP := "((*http.Connection).Readn($0.conn, " + p + ")#1 == nil)"
		base := []string{fin, notClose, okHdr, text}
		with := func(g ...string) []string { return append(append([]string{}, base...), g...) }
		c.CheckSites(x1, fn, []SiteSpec{
			{Kind: "call", Target: "(*http.Connection).Readn", Args: []string{"$0.conn", b + "[:2]"}, Guards: []string{}, Exact: true, N: 1, Why: "exactly the 2 header bytes first"},
			{Kind: "call", Target: "(*http.Connection).Close", Args: []string{"$0.conn"}, Guards: []string{fin, okHdr, "((15 & " + b + "[0]) == 8)"}, Exact: true, N: 1, Why: "a FIN close frame closes the connection"},
			{Kind: "call", Target: "(*http.Connection).Readn", Args: []string{"$0.conn", b + "[:2]"}, Guards: with(is126), Exact: true, N: 1, Why: "marker 126 (text, FIN): 2 more length bytes"},
			{Kind: "call", Target: "encoding/binary.bigEndian.Uint16", Args: []string{"encoding/binary.BigEndian", b + "[:2]"}, Guards: with(is126), N: 1, Why: "... big-endian, the writer's byte order"},
			{Kind: "call", Target: "(*http.Connection).Readn", Args: []string{"$0.conn", b + "[:8]"}, Guards: with("!"+is126, is127), Exact: true, N: 1, Why: "marker 127: 8 more length bytes"},
			{Kind: "call", Target: "encoding/binary.bigEndian.Uint64", Args: []string{"encoding/binary.BigEndian", b + "[:8]"}, Guards: with("!"+is126, is127), N: 1, Why: "... big-endian"},
			{Kind: "call", Target: "(*http.Connection).Readn", Args: []string{"$0.conn", "$0.maskKey[:]"}, Guards: with(masked), Exact: true, N: 1, Why: "mask bit set: the 4 key bytes come before the payload (errors of the extended-length reads returned earlier)"},
			{Kind: "call", Target: "(*http.Connection).Readn", Args: []string{"$0.conn", p}, Guards: base, Exact: true, N: 1, Why: "payload: a buffer of exactly the decoded length (7-bit value | 16-bit | 64-bit), read in full"},
			{Kind: "call", Target: "websocket.maskBytes", Args: []string{"$0.maskKey", p}, Guards: with(masked, okP), Exact: true, N: 1, Why: "unmask with the key just read, exactly when the mask bit was set"},
		})
		c.CheckSitesPresent(x1, fn, []SiteSpec{
			{Kind: "return", Args: []string{p, "nil"}, Guards: with(okP), Exact: true, N: 1, Why: "the payload buffer is the message"},
		})
		c.boundsObligations(x1, an, fn)
	}
	if fn := c.Fn(x1, "websocket.maskBytes"); fn != nil {
		i := "(1 + phi{-1 | loop})"
		c.CheckSites(x1, fn, []SiteSpec{
			{Kind: "elemstore", Target: "$1", Args: []string{i, "($1[" + i + "] ^ local([4]byte)[(3 & phi{(1 + loop) | 0})])"}, Guards: []string{"(" + i + " < builtin:len($1))"}, Exact: true, N: 1, Why: "byte i is XORed in place with key[pos & 3], pos counting from 0 in step with i"},
		})
		c.boundsObligations(x1, an, fn)
	}
	// K9 agreement of the constants (writer thresholds vs reader markers vs RFC 6455 section 5.2)
	for _, k := range []struct {
		name string
		want int64
	}{{"finalBit", 128}, {"maskBit", 128}, {"TextMessage", 1}, {"CloseMessage", 8}} {
		v := pkgConst(c.P, "protocol/application/websocket", k.name)
		if v == nil {
			c.Broken(x1, "anchor-unresolved:websocket."+k.name, "constant not found")
			continue
		}
		got, _ := constant.Int64Val(v)
		c.Check(got == k.want, x1, "const:websocket."+k.name, "", "RFC 6455 value", "websocket."+k.name+" = "+v.ExactString()+", RFC 6455 says "+constant.MakeInt64(k.want).ExactString())
	}

	x2 := c.Rule("X2", "K5 def-use + K12 constants + K1 guards", "accept key and upgrade response", 10)
	if fn := c.Fn(x2, "websocket.computeAcceptKey"); fn != nil {
		h := "crypto/sha1.New()"
		c.CheckSites(x2, fn, []SiteSpec{
			{Kind: "call", Target: "iface:io.Writer.Write", Args: []string{h, "$0"}, Guards: []string{}, Exact: true, N: 1, Why: "the client's key first"},
			{Kind: "call", Target: "iface:io.Writer.Write", Args: []string{h, "websocket.KeyGUID"}, Guards: []string{}, Exact: true, N: 1, Why: "then the GUID"},
			{Kind: "call", Target: "iface:hash.Hash.Sum", Args: []string{h, "nil"}, Guards: []string{}, Exact: true, N: 1, Why: "SHA-1 digest of exactly those two writes"},
			{Kind: "return", Args: []string{"(*encoding/base64.Encoding).EncodeToString(encoding/base64.StdEncoding, iface:hash.Hash.Sum(" + h + ", nil))"}, Guards: []string{}, Exact: true, N: 1, Why: "standard base64 of the digest"},
		})
		c.Ordered(x2, fn, []string{"Write(key)", "Write(GUID)", "Sum"}, []func(Site) bool{
			func(s Site) bool { return s.Target == "iface:io.Writer.Write" && len(s.Args) == 2 && s.Args[1] == "$0" },
			func(s Site) bool {
				return s.Target == "iface:io.Writer.Write" && len(s.Args) == 2 && s.Args[1] == "websocket.KeyGUID"
			},
			func(s Site) bool { return s.Target == "iface:hash.Hash.Sum" },
		})
	}
	// KeyGUID: initialised to the RFC constant, never written again (neither the variable nor its bytes).
	nInit, nOther := 0, 0
	for _, fn := range c.P.Funcs {
		Instrs(fn, func(in ssa.Instruction) {
			st, ok := in.(*ssa.Store)
			if !ok {
				return
			}
			if g, ok := st.Addr.(*ssa.Global); ok && g.Name() == "KeyGUID" && g.Pkg.Pkg.Name() == "websocket" {
				if FuncName(fn) == "websocket.init" {
					nInit++
					c.Check(Term(st.Val) == `"258EAFA5-E914-47DA-95CA-C5AB0DC85B11"`, x2, "websocket.KeyGUID/value", c.pos(in), "RFC 6455 GUID", "KeyGUID is "+Term(st.Val)+", RFC 6455 says 258EAFA5-E914-47DA-95CA-C5AB0DC85B11")
				} else {
					nOther++
					c.Bad(x2, "websocket.KeyGUID/reassigned-in:"+FuncName(fn), c.pos(in), "KeyGUID is reassigned outside the package initialiser")
				}
			}
			if ia, ok := st.Addr.(*ssa.IndexAddr); ok && strings.Contains(Term(ia.X), "websocket.KeyGUID") {
				nOther++
				c.Bad(x2, "websocket.KeyGUID/element-write-in:"+FuncName(fn), c.pos(in), "a byte of KeyGUID is overwritten")
			}
		})
	}
	c.Check(nInit == 1, x2, "websocket.KeyGUID/initialised-once", "", "one initialising store", "KeyGUID initialiser not found exactly once")
	if fn := c.Fn(x2, "websocket.Upgrade"); fn != nil {
		gh := func(h string) string { return "(*http.Request).GetHeader($0, \"" + h + "\")" }
		pass := []string{"!(\"\" == " + gh("Sec-WebSocket-Key") + ")", "(\"13\" == " + gh("Sec-WebSocket-Version") + ")", "(\"GET\" == (*http.Request).GetMethod($0))", "(\"websocket\" == " + gh("Upgrade") + ")", "websocket.tokenListContainsValue(" + gh("Connection") + ", \"upgrade\")"}
		pre := `"HTTP/1.1 101 Switching Protocols\r\nUpgrade: websocket\r\nConnection: Upgrade\r\nSec-WebSocket-Accept: "`
		body := "builtin:append(builtin:append(builtin:append([], " + pre + "), websocket.computeAcceptKey(" + gh("Sec-WebSocket-Key") + ")), \"\\r\\n\\r\\n\")"
		c.CheckSites(x2, fn, []SiteSpec{
			{Kind: "call", Target: "websocket.computeAcceptKey", Args: []string{gh("Sec-WebSocket-Key")}, Guards: pass, Exact: true, N: 1, Why: "the accept key is computed from the request's Sec-WebSocket-Key header, only after all five checks passed"},
			{Kind: "call", Target: "(*http.Connection).Write", Args: []string{"(*http.Response).GetCon($1)", body}, Guards: pass, Exact: true, N: 1, Why: "101 response = status line + Upgrade/Connection headers + Sec-WebSocket-Accept: <key> + blank line, on the request's own connection"},
			{Kind: "call", Target: "websocket.newConn", Args: []string{"(*http.Response).GetCon($1)"}, Guards: append(append([]string{}, pass...), "((*http.Connection).Write((*http.Response).GetCon($1), "+body+") == nil)"), Exact: true, N: 1, Why: "the websocket connection wraps the same connection, only after the response was written"},
			{Kind: "call", Target: "(*http.Response).Error", Args: []string{"$1", "405"}, Guards: []string{"!(\"GET\" == (*http.Request).GetMethod($0))"}, Exact: true, N: 1, Why: "non-GET: 405"},
			{Kind: "call", Target: "(*http.Response).Error", Args: []string{"$1", "400"}, N: 4, Why: "version/connection/upgrade/key failures: 400"},
		})
	}

	x3 := c.Rule("X3", "K1 guards + K7 site tables", "route table: dispatch and registration", 5)
	if fn := c.Fn(x3, "(*http.ServeMux).dispatch"); fn != nil {
		hit := "http.defaultMux.m[$1.request.uri]#1"
		c.CheckSites(x3, fn, []SiteSpec{
			{Kind: "call", Target: "dyn", Args: []string{"$1.request", "$1.response"}, Guards: []string{hit}, Exact: true, N: 1, Why: "a handler runs only when the request URI is a key of the table, with this connection's request and response"},
			{Kind: "call", Target: "(*http.Connection).set_status_code", Args: []string{"$1", "400"}, Guards: []string{"!" + hit}, Exact: true, N: 1, Why: "unregistered path: status 400, no handler"},
		})
		// the invoked function is the h field of the entry stored under the same key
		for _, ci := range c.Calls(fn, Is("dyn"), false) {
			c.TermIs(x3, FuncName(fn)+"/handler-is-entry-of-same-key", ci, ci.Common().Value, "http.defaultMux.m[$1.request.uri].h")
		}
	}
	if fn := c.Fn(x3, "(*http.Server).HandleFunc"); fn != nil {
		c.CheckSitesPresent(x3, fn, []SiteSpec{
			{Kind: "mapupdate", Args: []string{"http.defaultMux.m@u", "$1", "http.muxEntry{h: $2, pattern: $1}"}, N: 1, Why: "exactly (pattern -> handler) is stored"},
		})
		la := c.Locks()
		for _, s := range Sites(fn) {
			if s.Kind == "mapupdate" {
				var held []string
				ok := false
				for _, h := range la.At[s.Instr] {
					held = append(held, h.Class)
					if h.Class == "http.ServeMux.mu" && h.Write {
						ok = true
					}
				}
				c.Check(ok, x3, FuncName(fn)+"/registration-under-lock", c.pos(s.Instr), "route table written under defaultMux.mu", "route table written without the mux lock; held: "+strings.Join(held, ","))
			}
		}
	}

	x4 := c.Rule("X4", "K7 site tables, sibling agreement", "exact-length buffered read (server socket and TCP client)", 8)
	for _, v := range []struct{ fn, typ, read, wait string }{
		{"(*http.ServerSocket).Readn", "http.ServerSocket", "iface:tcpip.Endpoint.Read($0.e, (*http.ServerSocket).GetRemoteAddr($0))", "(*http.ServerSocket).GetNotify($0)"},
		{"(*tcp_client.Client).Readn", "tcp_client.Client", "iface:tcpip.Endpoint.Read($0.ep, &$0.remote)", "$0.notifyC"},
	} {
		fn := c.Fn(x4, v.fn)
		if fn == nil {
			continue
		}
		specs := readnSpecs(v.read, v.wait)
		for i := range specs {
			if specs[i].Target == "*.buf" {
				specs[i].Target = v.typ + ".buf"
			}
		}
		c.CheckSites(x4, fn, specs)
		c.boundsObligations(x4, an, fn)
	}
	x5 := c.Rule("X5", "K9 writer/reader agreement + K7 site tables", "HTTP message syntax: serialisers and parser use the same delimiters", 12)
	if fn := c.Fn(x5, "http.match_until"); fn != nil {
		idx := "strings.Index($0, $1)"
		c.CheckSites(x5, fn, []SiteSpec{
			{Kind: "return", Args: []string{"\"\"", "\"\""}, Guards: []string{"(-1 == " + idx + ")"}, Exact: true, N: 1, Why: "delimiter absent: nothing matched, nothing left"},
			{Kind: "return", Args: []string{"$0[:" + idx + "]", "$0[(builtin:len($1) + " + idx + "):]"}, Guards: []string{"!(-1 == " + idx + ")"}, Exact: true, N: 1, Why: "text before the FIRST occurrence of the delimiter, and the rest after the whole delimiter"},
		})
	}
	if fn := c.Fn(x5, "(*http.Request).parse"); fn != nil {
		c.CheckSites(x5, fn, []SiteSpec{
			{Kind: "call", Target: "http.match_until", Args: []string{"*", "\" \""}, N: 2, Why: "method and request target end at a space"},
			{Kind: "call", Target: "http.match_until", Args: []string{"*", "\"\\r\\n\""}, N: 2, Why: "the request line and every header value end at CRLF"},
			{Kind: "call", Target: "http.match_until", Args: []string{"*", "\": \""}, N: 1, Why: "a header name ends at the first colon-space"},
			{Kind: "call", Target: "(*http.http_headers).http_headers_add", Args: []string{"$0.headers", "http.match_until(loop, \": \")#0", "http.match_until(phi{http.match_until(loop, \": \")#1 | loop}, \"\\r\\n\")#0"}, N: 1, Why: "header = (text before the first ': ' of the remaining input, everything from there to the next CRLF) - the value is not split again"},
		})
		// the parser calls nothing else that could re-interpret the text
		allowed := map[string]bool{"http.match_until": true, "http.get_method": true, "(*http.Connection).set_status_code": true, "strings.EqualFold": true, "(*http.http_headers).http_headers_add": true, "log.Println": true, "log.Printf": true}
		for _, ci := range c.Calls(fn, func(string) bool { return true }, false) {
			n := CalleeName(ci)
			c.Check(allowed[n], x5, FuncName(fn)+"/callee:"+n, c.pos(ci), "reviewed helper", "the request parser now calls "+n+", which is not one of its reviewed helpers: the text is tokenised some other way")
		}
		var body []string
		for _, st := range Sites(fn) {
			if st.Kind == "store" && st.Target == "http.Request.body" {
				body = append(body, st.Args[1])
			}
		}
		c.Check(len(body) == 1 && strings.Contains(body[0], "match_until") && !strings.Contains(body[0], "#0"), x5, FuncName(fn)+"/body-is-the-rest", c.P.Pos(fn.Pos()), "body = what remains after the header loop", "the body is no longer the unparsed remainder")
	}
	if fn := c.Fn(x5, "(*http.Request).send"); fn != nil {
		c.CheckSites(x5, fn, []SiteSpec{{Kind: "return", Args: []string{"((phi{(((\"\" + ($0.method_raw@u + \" \")) + ($0.uri + \" \")) + \"HTTP/1.1\\r\\n\") | ((((loop + next(range($0.headers.ptr))#1) + \": \") + next(range($0.headers.ptr))#2) + \"\\r\\n\")} + \"\\r\\n\") + $0.body)"}, Guards: []string{"!next(range($0.headers.ptr))#0"}, Exact: true, N: 1, Why: "request = method SP target SP HTTP/1.1 CRLF, then name ': ' value CRLF per header, blank line, body - the delimiters the parser splits on"}})
	}
	if fn := c.Fn(x5, "(*http.Response).build_and_send_response"); fn != nil {
		c.CheckSitesPresent(x5, fn, []SiteSpec{{Kind: "call", Target: "(*http.Response).send_all", Args: []string{"$0", "((phi{(((((\"\" + ($0.con.request.version_raw + \" \")) + strconv.Itoa($0.con.status_code)) + \" \") + http.StatusText($0.con.status_code)) + \"\\r\\n\") | ((((loop + next(range($0.headers.ptr))#1) + \": \") + next(range($0.headers.ptr))#2) + \"\\r\\n\")} + \"\\r\\n\") + $0.entity_body)"}, N: 1, Why: "response = version SP status SP reason CRLF, headers as name ': ' value CRLF, blank line, the handler's body"}})
	}
	if fn := c.Fn(x5, "(*http.http_headers).http_headers_add"); fn != nil {
		c.CheckSitesPresent(x5, fn, []SiteSpec{{Kind: "mapupdate", Args: []string{"$0.ptr", "$1", "$2"}, N: 1, Why: "stored under the exact name with the exact value"}})
	}

}

// boundsObligations: every index/slice/fixed-width access in fn is proved in
// range by the interval + linear-fact analysis (no caller preconditions).
func (c *Ctx) boundsObligations(rule string, an *Absint, fn *ssa.Function) {
	a := an.get(fn)
	name := FuncName(fn)
	for _, o := range a.Obligations() {
		key := name + "/" + o.Kind + ":" + o.Desc
		if o.OK {
			c.Ok(rule, key, c.pos(o.Instr), o.How)
		} else {
			c.Bad(rule, key, c.pos(o.Instr), "unproved: "+o.Goal.String()+" <= 0")
		}
	}
}
