package np

import (
	"fmt"
	"go/token"
	"strings"

	"golang.org/x/tools/go/ssa"
)

func init() { register("C06", propC06) }

func propC06(c *Ctx) {
	c.Explanation = "That every emitted frame decodes under an independent decoder in every scenario is behavioural; decided here are the construction rules that make it so, for every argument value. The bit layout of every header field is decided by C15 (bit provenance against RFC tables) and is not repeated. (E0) the Internet checksum never drops a carry (shared with C15/B4). (E1) checksum def-use and order: IPv4 header checksum = complement of Checksum(header[:IHL], 0), computed after Encode and stored last before the link write; TCP and UDP checksums = complement of Checksum(header, Checksum(length, pseudo-header(src,dst,proto) continued over every payload view)), length = header + payload, skipped only under checksum offload; ICMPv6 = complement of the sum over src, dst, 32-bit length, next-header 58, payload views and the header with its checksum bytes zeroed and restored; the pseudo-header uses the route's local and remote address. (E2) length fields: IPv4 TotalLength = UsedLength AFTER this layer's Prepend + payload size and the 16-bit narrowing is guarded; UDP Length likewise (narrowing: C11/U6); IPv6 PayloadLength = UsedLength BEFORE its Prepend + payload size; TCP DataOffset = 20 + len(options) = the prepended size, options copied right after the fixed header. (E3) addressing: IP source/destination = route local/remote address; TCP ports from the endpoint id handed in (replyWithReset passes the segment's own id and route), UDP ports from the arguments; Ethernet destination = the route's remote link address, source = the route's local link address (or the NIC's own when the route has no local address), type = the protocol argument. (E4) IPv4 ID: packets longer than 68 bytes take atomic.AddUint32(&ids[hash(route,proto) % buckets], 1), so consecutive large packets of one flow differ; others 0. (E5) TCP options: for every combination of {TS, SACK-permitted, WS >= 0} in makeSynOptions and {TS, SACK blocks} in makeOptions the encoded length is a multiple of 4 and fits the 40-byte option buffer (path evaluation with each encoder's own size), so no padding is needed and the two 'unexpected option encoding' panics are unreachable. (E6) FindRoute scans the route table from index 0 upwards and returns at the first entry that matches and has a usable endpoint; the source address is that endpoint's own address, the next hop the entry's gateway; (E6m) an entry matches only when every byte of the destination agrees under the entry's mask (partial mask bytes included). (E0w) no 16-bit word handed to Checksum/ChecksumCombine anywhere in the module comes from wrapping 16-bit arithmetic or a lossy narrowing (interval evaluation). (E7) neighbour-cache ring reuse unmaps the old key before the slot is overwritten (shared with C12/T3), so the link address returned for a next hop is that neighbour's. E3 also decides that udp Connect keeps the bound local port (the zero port only from the unbound state; shared with C09/D6). (E8) the IPv4 echo reply is built by the reviewed table: checksum = complement of the sum over the built bytes continued over the payload (shared with C13/I3). (E9) the ARP request is stamped Ethernet/IPv4 and the IPv6 emitter encodes into exactly the 40 bytes it prepended; (E10) each transport emitter performs one packet write with its own protocol number and returns its result. (E11) lengths and identifiers are squeezed into header fields only at the reviewed narrowing conversions of the IP emitters (closed world). NOT decided: checksum arithmetic beyond carry handling (induction over the loop), views of odd length in the middle of a payload, frames of scenarios no rule names (DNS, DHCP helpers), the fd-based endpoint's writev."

	checksumCarryRule(c, "E0")

	sendPing4Rule(c, c.Rule("E8", "K5 provenance (shared with C13/I3)", "the IPv4 echo reply carries a checksum computed over what is sent: complement of the one's-complement sum over the built header bytes and the payload", 8))
	e9 := c.Rule("E9", "K7 exact-guard site tables", "the ARP request is stamped Ethernet/IPv4; the IPv6 emitter encodes into exactly the 40 bytes it prepended", 2)
	arpRequestRule(c, e9)
	ipv6EncodeRule(c, e9)
	sendResultRule(c, c.Rule("E10", "K7 closed return tables", "each transport emitter performs one packet write with its own protocol number and returns its result", 3), "tcp.sendTCP", "udp.sendUDP", "tcp.sendSynTCP")
	c.NoNewNarrowing(c.Rule("E11", "K8 narrowing (closed world, reviewed table)", "lengths and identifiers are squeezed into header fields only at the reviewed places of the IP emitters", 8), []string{"/network/ipv4", "/network/ipv6", "/network/arp"}, narrowIP)
	e1 := c.Rule("E1", "K5 def-use + K2 order", "checksum construction", 30)
	c.Assume(e1, "assumption/fresh-header-region-is-zero", "pkg/buffer/prependable.go", "a region returned by Prependable.Prepend has not been written before: NewPrependable allocates with make (zeroed) and usedIdx only decreases (C16/V5), so the checksum bytes are 0 when the sum is taken")
	off := "(((*stack.Route).Capabilities($0) & 1) == 0)"
	ipv4WritePacketRule(c, e1)
	headerChecksumHelpersRule(c, e1)
	if fn := c.Fn(e1, "tcp.sendTCP"); fn != nil {
		tcp := "(*buffer.Prependable).Prepend(&new(buffer.Prependable), (20 + builtin:len($8)))"
		part := "phi{(*stack.Route).PseudoHeaderChecksum($0, 6) | header.Checksum(buffer.VectorisedView.Views($2)[(1 + phi{-1 | loop})], loop)}"
		ln := "(buffer.Prependable.UsedLength(new(buffer.Prependable)@2) + buffer.VectorisedView.Size($2))"
		done := "!((1 + phi{-1 | loop}) < builtin:len(buffer.VectorisedView.Views($2)))"
		c.CheckSites(e1, fn, []SiteSpec{
			{Kind: "call", Target: "buffer.NewPrependable", Args: []string{"(((*stack.Route).MaxHeaderLength($0) + 20) + builtin:len($8))"}, Guards: []string{}, Exact: true, N: 1, Why: "room for lower headers + TCP header + options (fresh, zeroed)"},
			{Kind: "call", Target: "(*buffer.Prependable).Prepend", Args: []string{"&new(buffer.Prependable)", "(20 + builtin:len($8))"}, Guards: []string{}, Exact: true, N: 1, Why: "E2: header size = 20 + options"},
			{Kind: "store", Target: "header.TCPFields.DataOffset", Args: []string{"new(header.TCPFields)", "(20 + builtin:len($8))"}, Guards: []string{}, Exact: true, N: 1, Why: "E2: data offset = the same expression"},
			{Kind: "store", Target: "header.TCPFields.SrcPort", Args: []string{"new(header.TCPFields)", "$1.LocalPort"}, Guards: []string{}, Exact: true, N: 1, Why: "E3: ports from the endpoint id"},
			{Kind: "store", Target: "header.TCPFields.DstPort", Args: []string{"new(header.TCPFields)", "$1.RemotePort"}, Guards: []string{}, Exact: true, N: 1, Why: "E3"},
			{Kind: "store", Target: "header.TCPFields.SeqNum", Args: []string{"new(header.TCPFields)", "$5"}, Guards: []string{}, Exact: true, N: 1, Why: "sequence number argument"},
			{Kind: "store", Target: "header.TCPFields.AckNum", Args: []string{"new(header.TCPFields)", "$6"}, Guards: []string{}, Exact: true, N: 1, Why: "ack number argument"},
			{Kind: "store", Target: "header.TCPFields.Flags", Args: []string{"new(header.TCPFields)", "$4"}, Guards: []string{}, Exact: true, N: 1, Why: "flags argument"},
			{Kind: "store", Target: "header.TCPFields.WindowSize", Args: []string{"new(header.TCPFields)", "phi{$7 | 65535}"}, Guards: []string{}, Exact: true, N: 1, Why: "window clamped to 16 bits (C04)"},
			{Kind: "call", Target: "header.TCP.Encode", Args: []string{tcp, "&new(header.TCPFields)"}, Guards: []string{}, Exact: true, N: 1, Why: "fixed header"},
			{Kind: "call", Target: "builtin:copy", Args: []string{tcp + "[20:]", "$8"}, Guards: []string{}, Exact: true, N: 1, Why: "options right after the fixed header"},
			{Kind: "call", Target: "(*stack.Route).PseudoHeaderChecksum", Args: []string{"$0", "6"}, Guards: []string{off}, Exact: true, N: 1, Why: "E1: pseudo-header with protocol 6"},
			{Kind: "call", Target: "header.Checksum", Args: []string{"buffer.VectorisedView.Views($2)[(1 + phi{-1 | loop})]", part}, Guards: []string{off, "((1 + phi{-1 | loop}) < builtin:len(buffer.VectorisedView.Views($2)))"}, Exact: true, N: 1, Why: "E1: continued over every payload view in order"},
			{Kind: "call", Target: "header.TCP.SetChecksum", Args: []string{tcp, "^header.TCP.CalculateChecksum(" + tcp + ", " + part + ", " + ln + ")"}, Guards: []string{done, off}, Exact: true, N: 1, Why: "E1: complement of (pseudo + payload + length + header), length = header incl. options + payload; only skipped under checksum offload"},
			{Kind: "call", Target: "(*stack.Route).WritePacket", Args: []string{"$0", "new(buffer.Prependable)@2", "$2", "6", "$3"}, Guards: []string{}, Exact: true, N: 1, Why: "one segment: header buffer + payload, protocol 6, TTL argument"},
		})
		c.Ordered(e1, fn, []string{"Encode", "options copy", "checksum", "write"}, []func(Site) bool{isCall("header.TCP.Encode"), isCall("builtin:copy"), isCall("header.TCP.SetChecksum"), isCall("(*stack.Route).WritePacket")})
	}
	if fn := c.Fn(e1, "udp.sendUDP"); fn != nil {
		udp := "(*buffer.Prependable).Prepend(&new(buffer.Prependable), 8)"
		ln := "(buffer.Prependable.UsedLength(new(buffer.Prependable)@2) + buffer.VectorisedView.Size($1))"
		part := "phi{(*stack.Route).PseudoHeaderChecksum($0, 17) | header.Checksum(buffer.VectorisedView.Views($1)[(1 + phi{-1 | loop})], loop)}"
		done := "!((1 + phi{-1 | loop}) < builtin:len(buffer.VectorisedView.Views($1)))"
		c.CheckSites(e1, fn, []SiteSpec{
			{Kind: "call", Target: "(*buffer.Prependable).Prepend", Args: []string{"&new(buffer.Prependable)", "8"}, Guards: []string{}, Exact: true, N: 1, Why: "8-byte header in a fresh buffer"},
			{Kind: "store", Target: "header.UDPFields.SrcPort", Args: []string{"new(header.UDPFields)", "$2"}, Guards: []string{}, Exact: true, N: 1, Why: "E3: local port argument"},
			{Kind: "store", Target: "header.UDPFields.DstPort", Args: []string{"new(header.UDPFields)", "$3"}, Guards: []string{}, Exact: true, N: 1, Why: "E3: remote port argument"},
			{Kind: "store", Target: "header.UDPFields.Length", Args: []string{"new(header.UDPFields)", ln}, Guards: []string{}, Exact: true, N: 1, Why: "E2: length = header (after the prepend) + payload"},
			{Kind: "call", Target: "header.UDP.Encode", Args: []string{udp, "&new(header.UDPFields)"}, Guards: []string{}, Exact: true, N: 1, Why: "fields written"},
			{Kind: "call", Target: "(*stack.Route).PseudoHeaderChecksum", Args: []string{"$0", "17"}, Guards: []string{off}, Exact: true, N: 1, Why: "E1: pseudo-header with protocol 17"},
			{Kind: "call", Target: "header.Checksum", Args: []string{"buffer.VectorisedView.Views($1)[(1 + phi{-1 | loop})]", part}, Guards: []string{off, "((1 + phi{-1 | loop}) < builtin:len(buffer.VectorisedView.Views($1)))"}, Exact: true, N: 1, Why: "E1: continued over every payload view"},
			{Kind: "call", Target: "header.UDP.SetChecksum", Args: []string{udp, "^header.UDP.CalculateChecksum(" + udp + ", " + part + ", " + ln + ")"}, Guards: []string{done, off}, Exact: true, N: 1, Why: "E1: complement, with the same length value as the Length field"},
			{Kind: "call", Target: "(*stack.Route).WritePacket", Args: []string{"$0", "new(buffer.Prependable)@2", "$1", "17", "$4"}, Guards: []string{}, Exact: true, N: 1, Why: "one datagram"},
		})
		c.Ordered(e1, fn, []string{"Encode", "checksum", "write"}, []func(Site) bool{isCall("header.UDP.Encode"), isCall("header.UDP.SetChecksum"), isCall("(*stack.Route).WritePacket")})
	}
	if fn := c.Fn(e1, "ipv6.icmpChecksum"); fn != nil {
		s0 := "header.Checksum($2, header.Checksum($1, 0))"
		pseudo := "header.Checksum([0, 0, 0, 58], header.Checksum([zero, zero, zero, zero], " + s0 + "))"
		part := "phi{" + pseudo + " | header.Checksum(buffer.VectorisedView.Views($3)[(1 + phi{-1 | loop})], loop)}"
		done := "!((1 + phi{-1 | loop}) < builtin:len(buffer.VectorisedView.Views($3)))"
		c.CheckSites(e1, fn, []SiteSpec{
			{Kind: "call", Target: "encoding/binary.bigEndian.PutUint32", Args: []string{"encoding/binary.BigEndian", "[zero, zero, zero, zero]", "(buffer.VectorisedView.Size($3) + builtin:len($0))"}, Guards: []string{}, Exact: true, N: 1, Why: "32-bit upper-layer length = header + payload"},
			{Kind: "elemstore", Target: "&new([4]byte)", Args: []string{"0", "0"}, Guards: []string{}, Exact: true, N: 1, Why: "three zero bytes"},
			{Kind: "elemstore", Target: "&new([4]byte)", Args: []string{"1", "0"}, Guards: []string{}, Exact: true, N: 1, Why: "..."},
			{Kind: "elemstore", Target: "&new([4]byte)", Args: []string{"2", "0"}, Guards: []string{}, Exact: true, N: 1, Why: "..."},
			{Kind: "elemstore", Target: "&new([4]byte)", Args: []string{"3", "58"}, Guards: []string{}, Exact: true, N: 1, Why: "next header = ICMPv6"},
			{Kind: "elemstore", Target: "$0", Args: []string{"2", "0"}, Guards: []string{done}, Exact: true, N: 1, Why: "checksum bytes zeroed for the sum"},
			{Kind: "elemstore", Target: "$0", Args: []string{"3", "0"}, Guards: []string{done}, Exact: true, N: 1, Why: "..."},
			{Kind: "elemstore", Target: "$0", Args: []string{"2", "$0[2]"}, Guards: []string{done}, Exact: true, N: 1, Why: "and restored"},
			{Kind: "elemstore", Target: "$0", Args: []string{"3", "$0[3]"}, Guards: []string{done}, Exact: true, N: 1, Why: "..."},
			{Kind: "return", Args: []string{"^header.Checksum($0, " + part + ")"}, Guards: []string{done}, Exact: true, N: 1, Why: "complement of src + dst + length + next-header + payload views + header"},
		})
		c.Ordered(e1, fn, []string{"length written", "length summed"}, []func(Site) bool{isCall("encoding/binary.bigEndian.PutUint32"), func(s Site) bool {
			return s.Kind == "call" && s.Target == "header.Checksum" && len(s.Args) == 2 && s.Args[0] == "[zero, zero, zero, zero]"
		}})
		// zeroing precedes the header sum, restoring follows it
		var z, r, sum []ssa.Instruction
		for _, s := range Sites(fn) {
			if s.Kind == "elemstore" && s.Target == "$0" {
				if s.Args[1] == "0" {
					z = append(z, s.Instr)
				} else {
					r = append(r, s.Instr)
				}
			}
			if s.Kind == "call" && s.Target == "header.Checksum" && s.Args[0] == "$0" {
				sum = append(sum, s.Instr)
			}
		}
		ok := len(z) == 2 && len(r) == 2 && len(sum) == 1
		if ok {
			for _, i := range z {
				ok = ok && InstrDominates(i, sum[0])
			}
			for _, i := range r {
				ok = ok && InstrDominates(sum[0], i)
			}
		}
		c.Check(ok, e1, FuncName(fn)+"/zero-sum-restore", c.P.Pos(fn.Pos()), "checksum bytes zeroed before and restored after the header sum", "the header is summed with a non-zero checksum field, or the field is not restored")
	}
	if fn := c.Fn(e1, "(*ipv6.endpoint).WritePacket"); fn != nil {
		c.CheckSites(e1, fn, []SiteSpec{
			{Kind: "call", Target: "(*buffer.Prependable).Prepend", Args: []string{"&new(buffer.Prependable)", "40"}, Guards: []string{}, Exact: true, N: 1, Why: "40-byte fixed header"},
			{Kind: "store", Target: "header.IPv6Fields.PayloadLength", Args: []string{"new(header.IPv6Fields)", "(buffer.Prependable.UsedLength($2) + buffer.VectorisedView.Size($3))"}, Guards: []string{}, Exact: true, N: 1, Why: "E2: payload length excludes the fixed header: UsedLength BEFORE the prepend ($2, not @2)"},
			{Kind: "store", Target: "header.IPv6Fields.NextHeader", Args: []string{"new(header.IPv6Fields)", "$4"}, Guards: []string{}, Exact: true, N: 1, Why: "transport protocol"},
			{Kind: "store", Target: "header.IPv6Fields.HopLimit", Args: []string{"new(header.IPv6Fields)", "$5"}, Guards: []string{}, Exact: true, N: 1, Why: "hop limit argument"},
			{Kind: "store", Target: "header.IPv6Fields.SrcAddr", Args: []string{"new(header.IPv6Fields)", "$1.LocalAddress"}, Guards: []string{}, Exact: true, N: 1, Why: "E3"},
			{Kind: "store", Target: "header.IPv6Fields.DstAddr", Args: []string{"new(header.IPv6Fields)", "$1.RemoteAddress"}, Guards: []string{}, Exact: true, N: 1, Why: "E3"},
			{Kind: "call", Target: "iface:stack.LinkEndpoint.WritePacket", Args: []string{"$0.linkEP", "$1", "new(buffer.Prependable)@2", "$3", "34525"}, Guards: []string{}, Exact: true, N: 1, Why: "one frame, EtherType IPv6"},
		})
	}

	e3 := c.Rule("E3", "K5 provenance", "link framing and reset addressing", 8)
	if fn := c.Fn(e3, "(*fdbased.endpoint).WritePacket"); fn != nil {
		eth := "(*buffer.Prependable).Prepend(&new(buffer.Prependable), 14)"
		c.CheckSitesPresent(e3, fn, []SiteSpec{
			{Kind: "call", Target: "(*buffer.Prependable).Prepend", Args: []string{"&new(buffer.Prependable)", "14"}, N: 1, Why: "14-byte Ethernet header"},
			{Kind: "store", Target: "header.EthernetFields.DstAddr", Args: []string{"new(header.EthernetFields)", "$1.RemoteLinkAddress"}, Guards: []string{}, Exact: true, N: 1, Why: "destination MAC = the link address resolved for the route's next hop"},
			{Kind: "store", Target: "header.EthernetFields.Type", Args: []string{"new(header.EthernetFields)", "$4"}, Guards: []string{}, Exact: true, N: 1, Why: "EtherType = protocol argument"},
			{Kind: "store", Target: "header.EthernetFields.SrcAddr", Args: []string{"new(header.EthernetFields)", "$1.LocalLinkAddress"}, Guards: []string{"!(\"\" == $1.LocalAddress)"}, Exact: true, N: 1, Why: "source MAC = the route's local link address"},
			{Kind: "store", Target: "header.EthernetFields.SrcAddr", Args: []string{"new(header.EthernetFields)", "$0.addr"}, Guards: []string{"(\"\" == $1.LocalAddress)"}, Exact: true, N: 1, Why: "... or the NIC's own address when the route has no local address (ARP requests)"},
			{Kind: "call", Target: "header.Ethernet.Encode", Args: []string{eth, "&new(header.EthernetFields)"}, N: 1, Why: "written into the prepended region"},
			{Kind: "call", Target: "rawfile.NonBlockingWrite", Args: []string{"$0.fd", "buffer.Prependable.View(new(buffer.Prependable)@2)"}, Guards: []string{"(0 == buffer.VectorisedView.Size($3))"}, Exact: true, N: 1, Why: "no payload: headers only"},
			{Kind: "call", Target: "rawfile.NonBlockingWrite2", Args: []string{"$0.fd", "buffer.Prependable.View(new(buffer.Prependable)@2)", "buffer.VectorisedView.ToView($3)"}, Guards: []string{"!(0 == buffer.VectorisedView.Size($3))"}, Exact: true, N: 1, Why: "headers then the whole payload"},
		})
	}
	if fn := c.Fn(e3, "tcp.replyWithReset"); fn != nil {
		c.CheckSites(e3, fn, []SiteSpec{{Kind: "call", Target: "tcp.sendTCP", Args: []string{"&$0.route", "$0.id", "zero", "(*stack.Route).DefaultTTL(&$0.route)", "20", "phi{$0.ackNumber | 0}", "seqnum.Value.Add($0.sequenceNumber, (*tcp.segment).logicalLen($0))", "0", "nil"}, Guards: []string{}, Exact: true, N: 1, Why: "a reset answers on the offending segment's own route and id (ports as seen by the receiver), seq = its ack (or 0), ack = its seq + logical length, RST|ACK, no options"}})
	}
	if fn := c.Fn(e3, "(*tcp.endpoint).sendRaw"); fn != nil {
		c.CheckSitesPresent(e3, fn, []SiteSpec{{Kind: "call", Target: "tcp.sendTCP", Args: []string{"&$0.route", "$0.id", "$1", "(*stack.Route).DefaultTTL(&$0.route)", "$2", "$3", "$4", "$5", "(*tcp.endpoint).makeOptions($0, phi{$0.sack.Blocks[:$0.sack.NumBlocks] | nil})"}, N: 1, Why: "established-connection segments use the endpoint's route and id and the options built for this segment"}})
	}

	e5 := c.Rule("E5", "K9 path evaluation", "TCP option lengths are multiples of 4 and fit the option buffer", 6)
	propC06Options(c, e5)

	maskedMatchRule(c, "E6m")
	udpConnectPortRule(c, "E3")
	e7 := c.Rule("E7", "K7 site table + K2 order (shared with C12/T3)", "the neighbour cache never maps an address to another neighbour's entry: ring-slot reuse unmaps the old key before the overwrite", 10)
	linkCacheRingRule(c, e7)
	e6 := c.Rule("E6", "K9 site table", "first matching route entry, source = chosen endpoint's address", 5)
	if fn := c.Fn(e6, "(*stack.Stack).FindRoute"); fn != nil {
		i := "(1 + phi{-1 | loop})"
		in := "(" + i + " < builtin:len($0.routeTable))"
		nic := "$0.nics[$0.routeTable[" + i + "].NIC]"
		ref := "phi{(*stack.NIC).findEndpoint(" + nic + ", $4, $2, 0) | (*stack.NIC).primaryEndpoint(" + nic + ", $4)}"
		local := "iface:stack.NetworkEndpoint.ID(" + ref + ".ep).LocalAddress"
		c.CheckSitesPresent(e6, fn, []SiteSpec{
			{Kind: "call", Target: "(*tcpip.Route).Match", Args: []string{"&$0.routeTable[" + i + "]", "$3"}, Guards: []string{"!(0 == builtin:len($3))", in}, Exact: true, N: 1, Why: "entries are examined in table order from index 0 (i = previous + 1, starting at -1 + 1); the destination is matched against the entry"},
			{Kind: "call", Target: "(*stack.NIC).findEndpoint", Args: []string{nic, "$4", "$2", "0"}, Guards: []string{"!(" + nic + " == nil)", "!(0 == builtin:len($2))", in}, Exact: true, N: 1, Why: "a requested local address must be an address of the entry's NIC"},
			{Kind: "call", Target: "(*stack.NIC).primaryEndpoint", Args: []string{nic, "$4"}, Guards: []string{"!(" + nic + " == nil)", in, "(0 == builtin:len($2))"}, Exact: true, N: 1, Why: "otherwise the NIC's primary address for the protocol"},
			{Kind: "call", Target: "stack.makeRoute", Args: []string{"$4", local, "phi{$3 | " + local + "}", "iface:stack.LinkEndpoint.LinkAddress(" + nic + ".linkEP)", ref}, Guards: []string{"!(" + nic + " == nil)", "!(nil == " + ref + ")", in}, Exact: true, N: 1, Why: "source = the chosen endpoint's own address; local link address = that NIC's; built inside the loop body: the first usable entry wins"},
			{Kind: "return", Args: []string{"zero", "tcpip.ErrNoRoute"}, Guards: []string{"!" + in}, Exact: true, N: 1, Why: "no entry left"},
		})
		// the successful return is inside the loop and follows makeRoute without another iteration
		for _, ci := range c.Calls(fn, Is("stack.makeRoute"), false) {
			bad := ReachAvoiding(fn, ci, IsReturn, func(in ssa.Instruction) bool {
				call, ok := in.(ssa.CallInstruction)
				return ok && CalleeName(call) == "(*tcpip.Route).Match"
			})
			c.Check(bad == nil, e6, FuncName(fn)+"/return-at-first-match", c.pos(ci), "after building the route the function returns without examining further entries", "after a usable entry was found the scan continues: a later entry can override the first match")
		}
		// NextHop = the matched entry's gateway
		found := false
		tm := NewTermer(fn)
		Instrs(fn, func(in ssa.Instruction) {
			if st, ok := in.(*ssa.Store); ok {
				if fv, _ := fieldOf(st.Addr); fv != nil && fv.Name() == "NextHop" {
					found = tm.T(st.Val) == "$0.routeTable["+i+"].Gateway"
				}
			}
		})
		c.Check(found, e6, FuncName(fn)+"/next-hop-is-entry-gateway", c.P.Pos(fn.Pos()), "NextHop = routeTable[i].Gateway of the matched entry", "NextHop no longer comes from the matched entry's gateway")
	}
}

// ---------------------------------------------------------------- E5

// optLen is c + 8*l (l an unknown block count in [1,4]) when l8 is set.
type optLen struct {
	c  int64
	l8 bool
	ok bool
}

type encSummary struct {
	need int64 // bytes of room required for the full encoding
	size optLen
	why  string
}

// encoderSummary derives, from the encoder's own body, the room it needs and
// the length it returns when it has that room.
func encoderSummary(c *Ctx, an *Absint, fn *ssa.Function) (encSummary, string) {
	var es encSummary
	// room guard: the first conditional return of constant 0 on len(b) < K (or len(b) == 0)
	needFound := false
	for _, s := range Sites(fn) {
		if s.Kind != "return" || len(s.Args) != 1 || s.Args[0] != "0" {
			continue
		}
		for _, g := range s.Guards {
			var p int
			var k int64
			if n, _ := fmt.Sscanf(g, "(builtin:len($%d) < %d)", &p, &k); n == 2 {
				es.need, needFound = k, true
			}
			if n, _ := fmt.Sscanf(g, "(0 == builtin:len($%d))", &p); n == 1 && !needFound {
				es.need, needFound = 1, true
			}
		}
	}
	// returned length
	var rets []*ssa.Return
	Instrs(fn, func(in ssa.Instruction) {
		if r, ok := in.(*ssa.Return); ok {
			rets = append(rets, r)
		}
	})
	for _, r := range rets {
		v := r.Results[0]
		if k, ok := constInt(v); ok {
			if k == 0 {
				continue
			}
			es.size = optLen{c: k, ok: true}
			es.why = "returns the constant"
			continue
		}
		// int(b[1]) with b[1] stored in this function
		cv, ok := v.(*ssa.Convert)
		if !ok {
			return es, "unrecognised return value " + Term(v)
		}
		ld, ok := cv.X.(*ssa.UnOp)
		if !ok || ld.Op != token.MUL {
			return es, "unrecognised return value " + Term(v)
		}
		ia, ok := ld.X.(*ssa.IndexAddr)
		if !ok {
			return es, "unrecognised return value " + Term(v)
		}
		idx, ok := constInt(ia.Index)
		if !ok {
			return es, "length byte read at a non-constant index"
		}
		// the unique store to the same base and index that dominates the load, with no other write that can alias it in between
		var st *ssa.Store
		okFwd := true
		Instrs(fn, func(in ssa.Instruction) {
			if x, ok := in.(*ssa.Store); ok {
				if ia2, ok := x.Addr.(*ssa.IndexAddr); ok && ia2.X == ia.X {
					if j, ok := constInt(ia2.Index); ok && j == idx {
						if st != nil {
							okFwd = false
						}
						st = x
					}
				}
			}
		})
		if st != nil {
			Instrs(fn, func(in ssa.Instruction) {
				if in == ssa.Instruction(st) || !(instrReaches(st, in) && instrReaches(in, ld)) {
					return
				}
				switch x := in.(type) {
				case *ssa.Store:
					if ia2, ok := x.Addr.(*ssa.IndexAddr); ok && ia2.X == ia.X {
						if _, isC := constInt(ia2.Index); !isC {
							okFwd = false // may alias the length byte
						}
					}
				case ssa.CallInstruction:
					if _, isB := x.Common().Value.(*ssa.Builtin); isB {
						return
					}
					// a call receiving a slice of b may write it: only slices starting beyond idx are harmless
					for _, a := range CallArgs(x) {
						if sl, ok := a.(*ssa.Slice); ok && sl.X == ia.X {
							lo := int64(0)
							if sl.Low != nil {
								var isC bool
								if lo, isC = constInt(sl.Low); !isC {
									lo = 0
									if it := an.get(fn).eval(sl.Low, x.Block().Index); !it.empty() && it.Lo > 0 {
										lo = it.Lo
									}
								}
							}
							if lo <= idx {
								okFwd = false
							}
						} else if a == ia.X {
							okFwd = false
						}
					}
				}
			})
		}
		if st == nil || !okFwd || !InstrDominates(st, ld) {
			return es, "length byte is not forwarded from a unique dominating store"
		}
		val := st.Val
		if cv2, ok := val.(*ssa.Convert); ok {
			val = cv2.X
		}
		if k, ok := constInt(val); ok {
			es.size = optLen{c: k, ok: true}
			es.why = "returns b[1], stored as the constant"
			continue
		}
		// l*8 + 2 with l in [1,4]
		if add, ok := val.(*ssa.BinOp); ok && add.Op == token.ADD {
			if two, ok := constInt(add.Y); ok {
				if mul, ok := add.X.(*ssa.BinOp); ok && mul.Op == token.MUL {
					if eight, ok := constInt(mul.Y); ok && eight == 8 {
						a := an.get(fn)
						it := a.eval(mul.X, st.Block().Index)
						if it.Lo >= 1 && it.Hi <= 4 {
							es.size = optLen{c: two, l8: true, ok: true}
							es.why = fmt.Sprintf("returns b[1] = l*8+%d with l in %s", two, it)
							es.need = 8 + two // one block
							continue
						}
						return es, "block count not within [1,4]: " + it.String()
					}
				}
			}
		}
		return es, "unrecognised length expression " + Term(st.Val)
	}
	if !es.size.ok {
		return es, "no non-zero return found"
	}
	if !needFound && !es.size.l8 {
		return es, "room guard not found"
	}
	return es, ""
}

func propC06Options(c *Ctx, rule string) {
	an := NewAbsint(c.P)
	enc := map[string]encSummary{}
	for _, n := range []string{"header.EncodeMSSOption", "header.EncodeWSOption", "header.EncodeTSOption", "header.EncodeSACKPermittedOption", "header.EncodeSACKBlocks", "header.EncodeNOP"} {
		fn := c.Fn(rule, n)
		if fn == nil {
			continue
		}
		es, err := encoderSummary(c, an, fn)
		if err != "" {
			c.Bad(rule, n+"/size-summary", c.P.Pos(fn.Pos()), "cannot derive the encoder's length: "+err)
			continue
		}
		enc[n] = es
		d := fmt.Sprintf("needs %d bytes, %s %d", es.need, es.why, es.size.c)
		if es.size.l8 {
			d = fmt.Sprintf("needs >= %d bytes, %s", es.need, es.why)
		}
		c.Ok(rule, n+"/size-summary", c.P.Pos(fn.Pos()), d)
	}
	// kind/length agree with RFC sizes
	want := map[string]int64{"header.EncodeMSSOption": 4, "header.EncodeWSOption": 3, "header.EncodeTSOption": 10, "header.EncodeSACKPermittedOption": 2, "header.EncodeNOP": 1}
	for n, k := range want {
		if es, ok := enc[n]; ok {
			c.Check(es.size.c == k && !es.size.l8 && es.need == k, rule, n+"/rfc-size", "", fmt.Sprintf("length %d", k), fmt.Sprintf("%s encodes %d bytes (needs %d), RFC size is %d", n, es.size.c, es.need, k))
		}
	}
	// pool buffers are 40 bytes and are returned at full capacity
	if k := pkgConst(c.P, "protocol/transport/tcp", "maxOptionSize"); k != nil {
		c.Check(k.ExactString() == "40", rule, "const:tcp.maxOptionSize", "", "= 40 (RFC 793: data offset <= 15 words)", "maxOptionSize = "+k.ExactString())
	} else {
		c.Broken(rule, "anchor-unresolved:tcp.maxOptionSize", "constant not found")
	}
	if fn := c.Fn(rule, "tcp.putOptions"); fn != nil {
		c.CheckSites(rule, fn, []SiteSpec{{Kind: "call", Target: "(*sync.Pool).Put", Args: []string{"tcp.optionPool", "$0[0:builtin:cap($0)]"}, Guards: []string{}, Exact: true, N: 1, Why: "buffers go back re-extended to their capacity"}})
	}
	if fn := c.P.Func("tcp.init$1"); fn != nil {
		c.CheckSites(rule, fn, []SiteSpec{{Kind: "return", Args: []string{"new([40]byte)[:40]"}, Guards: []string{}, Exact: true, N: 1, Why: "pool buffers are made with len = cap = 40"}})
	} else {
		c.Broken(rule, "anchor-unresolved:tcp.optionPool.New", "pool constructor closure not found")
	}
	c.Assume(rule, "assumption/option-buffers-have-len-40", "protocol/transport/tcp/connect.go", "every buffer obtained from optionPool has len 40: New makes them so and putOptions (the only Put, checked) re-extends to cap; callers other than makeSynOptions/makeOptions do not Put")
	c.OnlyIn(rule, "optionPool.Put", c.CallSites(func(n string) bool { return n == "(*sync.Pool).Put" }), "tcp.putOptions", "(*tcp.endpoint).HandlePacket", "tcp.(*segment).decRef")

	for _, name := range []string{"tcp.makeSynOptions", "(*tcp.endpoint).makeOptions"} {
		fn := c.Fn(rule, name)
		if fn == nil {
			continue
		}
		paths, err := optionPaths(fn, enc)
		if err != "" {
			c.Bad(rule, name+"/paths", c.P.Pos(fn.Pos()), "cannot evaluate option lengths: "+err)
			continue
		}
		n := 0
		for _, p := range paths {
			if contradictory(p.conds) {
				continue // the same atom both ways: infeasible
			}
			n++
			key := fmt.Sprintf("%s/path:%s", name, strings.Join(p.conds, "&&"))
			okPad := p.total.ok && p.total.c%4 == 0 // 8*l is a multiple of 4
			okRoom := p.maxEnd <= 40
			c.Check(okPad && okRoom, rule, key, c.P.Pos(fn.Pos()), fmt.Sprintf("length %s: multiple of 4, every encoder had room (max end %d <= 40)", p.total.String(), p.maxEnd), fmt.Sprintf("option length %s is not a multiple of 4 or an encoder lacks room (max end %d): padding would be needed and the function panics", p.total.String(), p.maxEnd))
		}
		c.Check(n >= 3, rule, name+"/paths-enumerated", c.P.Pos(fn.Pos()), fmt.Sprintf("%d paths", n), "too few paths enumerated")
	}
}

func (o optLen) String() string {
	if o.l8 {
		return fmt.Sprintf("%d+8l", o.c)
	}
	return fmt.Sprintf("%d", o.c)
}

type optPath struct {
	conds  []string
	total  optLen
	maxEnd int64 // largest offset+need over the encoder calls (l at its maximum)
}

// optionPaths enumerates the acyclic paths from entry to the padding call
// and evaluates the offset argument on each.
func optionPaths(fn *ssa.Function, enc map[string]encSummary) ([]optPath, string) {
	var pad *ssa.Call
	Instrs(fn, func(in ssa.Instruction) {
		if ci, ok := in.(*ssa.Call); ok && CalleeName(ci) == "header.AddTCPOptionPadding" {
			pad = ci
		}
	})
	if pad == nil {
		return nil, "padding call not found"
	}
	t := NewTermer(fn)
	var out []optPath
	errS := ""
	var eval func(v ssa.Value, path []*ssa.BasicBlock) optLen
	eval = func(v ssa.Value, path []*ssa.BasicBlock) optLen {
		if k, ok := constInt(v); ok {
			return optLen{c: k, ok: true}
		}
		switch x := v.(type) {
		case *ssa.BinOp:
			if x.Op == token.ADD {
				a, b := eval(x.X, path), eval(x.Y, path)
				if a.ok && b.ok && !(a.l8 && b.l8) {
					return optLen{c: a.c + b.c, l8: a.l8 || b.l8, ok: true}
				}
			}
		case *ssa.Phi:
			// the edge taken on this path
			for i := len(path) - 1; i > 0; i-- {
				if path[i] == x.Block() {
					for j, p := range x.Block().Preds {
						if p == path[i-1] {
							return eval(x.Edges[j], path[:i])
						}
					}
				}
			}
		case *ssa.Call:
			if es, ok := enc[CalleeName(x)]; ok {
				return es.size
			}
		}
		errS = "cannot evaluate " + t.T(v)
		return optLen{}
	}
	var walk func(b *ssa.BasicBlock, path []*ssa.BasicBlock, conds []string)
	walk = func(b *ssa.BasicBlock, path []*ssa.BasicBlock, conds []string) {
		for _, p := range path {
			if p == b {
				errS = "loop in option builder"
				return
			}
		}
		path = append(append([]*ssa.BasicBlock{}, path...), b)
		if b == pad.Block() {
			p := optPath{conds: conds}
			p.total = eval(pad.Call.Args[1], path)
			// room: every encoder call on the path starts at its slice's low offset
			for _, pb := range path {
				for _, in := range pb.Instrs {
					ci, ok := in.(*ssa.Call)
					if !ok {
						continue
					}
					es, isEnc := enc[CalleeName(ci)]
					if !isEnc {
						continue
					}
					args := ci.Call.Args
					buf := args[len(args)-1]
					start := optLen{ok: true}
					if sl, ok := buf.(*ssa.Slice); ok && sl.Low != nil {
						start = eval(sl.Low, prefixUpTo(path, pb))
					}
					end := start.c + es.need
					if es.size.l8 {
						end = start.c + es.need // at least one block must fit; more blocks are clipped by the encoder itself
					}
					if start.l8 {
						end += 32
					}
					if end > p.maxEnd {
						p.maxEnd = end
					}
				}
			}
			out = append(out, p)
			return
		}
		if len(b.Succs) == 2 {
			ifi := b.Instrs[len(b.Instrs)-1].(*ssa.If)
			a, pol := condAtom(t, ifi.Cond)
			lit := func(h bool) string {
				if h == pol {
					return a
				}
				return "!" + a
			}
			walk(b.Succs[0], path, append(append([]string{}, conds...), lit(true)))
			walk(b.Succs[1], path, append(append([]string{}, conds...), lit(false)))
			return
		}
		for _, s := range b.Succs {
			walk(s, path, conds)
		}
	}
	walk(fn.Blocks[0], nil, nil)
	return out, errS
}

func prefixUpTo(path []*ssa.BasicBlock, b *ssa.BasicBlock) []*ssa.BasicBlock {
	for i, p := range path {
		if p == b {
			return path[:i+1]
		}
	}
	return path
}

func contradictory(conds []string) bool {
	m := map[string]bool{}
	for _, c := range conds {
		m[c] = true
	}
	for _, c := range conds {
		if strings.HasPrefix(c, "!") && m[c[1:]] {
			return true
		}
	}
	return false
}

// ipv4WritePacketRule: the complete site table of the IPv4 emitter (size
// guard counts the 20-byte header, fields, identification, checksum order,
// one link write whose result is the result). Shared by C06/E1 and C11/U13.
func ipv4WritePacketRule(c *Ctx, e1 string) {
	if fn := c.Fn(e1, "(*ipv4.endpoint).WritePacket"); fn != nil {
		fits := "(((20 + buffer.Prependable.UsedLength($2)) + buffer.VectorisedView.Size($3)) < 65536)"
		ip := "(*buffer.Prependable).Prepend(&new(buffer.Prependable), 20)"
		tl := "(buffer.Prependable.UsedLength(new(buffer.Prependable)@2) + buffer.VectorisedView.Size($3))"
		big := "!(" + tl + " < 69)"
		c.CheckSites(e1, fn, []SiteSpec{
			{Kind: "return", Args: []string{"tcpip.ErrMessageTooLong"}, Guards: []string{"!" + fits}, Exact: true, N: 1, Why: "E2: a datagram whose total length does not fit 16 bits is refused (fixed D5)"},
			{Kind: "call", Target: "(*buffer.Prependable).Prepend", Args: []string{"&new(buffer.Prependable)", "20"}, Guards: []string{fits}, Exact: true, N: 1, Why: "20-byte header, no options"},
			{Kind: "store", Target: "header.IPv4Fields.IHL", Args: []string{"new(header.IPv4Fields)", "20"}, Guards: []string{fits}, Exact: true, N: 1, Why: "IHL = the prepended size"},
			{Kind: "store", Target: "header.IPv4Fields.TotalLength", Args: []string{"new(header.IPv4Fields)", tl}, Guards: []string{fits}, Exact: true, N: 1, Why: "E2: total length = used header bytes AFTER the prepend (@2) + payload size"},
			{Kind: "call", Target: "sync/atomic.AddUint32", Args: []string{"&ipv4.ids[(ipv4.hashRoute($1, $4) % 2048)]", "1"}, Guards: []string{fits, big}, Exact: true, N: 1, Why: "E4: per-flow bucket counter, incremented atomically, for packets that may be fragmented (> 68 bytes)"},
			{Kind: "store", Target: "header.IPv4Fields.ID", Args: []string{"new(header.IPv4Fields)", "phi{0 | sync/atomic.AddUint32(&ipv4.ids[(ipv4.hashRoute($1, $4) % 2048)], 1)}"}, Guards: []string{fits}, Exact: true, N: 1, Why: "E4: ID = that counter value (0 for small packets)"},
			{Kind: "store", Target: "header.IPv4Fields.TTL", Args: []string{"new(header.IPv4Fields)", "$5"}, Guards: []string{fits}, Exact: true, N: 1, Why: "TTL argument"},
			{Kind: "store", Target: "header.IPv4Fields.Protocol", Args: []string{"new(header.IPv4Fields)", "$4"}, Guards: []string{fits}, Exact: true, N: 1, Why: "transport protocol argument"},
			{Kind: "store", Target: "header.IPv4Fields.SrcAddr", Args: []string{"new(header.IPv4Fields)", "$1.LocalAddress"}, Guards: []string{fits}, Exact: true, N: 1, Why: "E3: source = route local address"},
			{Kind: "store", Target: "header.IPv4Fields.DstAddr", Args: []string{"new(header.IPv4Fields)", "$1.RemoteAddress"}, Guards: []string{fits}, Exact: true, N: 1, Why: "E3: destination = route remote address"},
			{Kind: "call", Target: "header.IPv4.Encode", Args: []string{ip, "&new(header.IPv4Fields)"}, Guards: []string{fits}, Exact: true, N: 1, Why: "fields written into the prepended region"},
			{Kind: "call", Target: "header.IPv4.SetChecksum", Args: []string{ip, "^header.IPv4.CalculateChecksum(" + ip + ")"}, Guards: []string{fits}, Exact: true, N: 1, Why: "E1: complement of the header sum"},
			{Kind: "call", Target: "iface:stack.LinkEndpoint.WritePacket", Args: []string{"$0.linkEP", "$1", "new(buffer.Prependable)@2", "$3", "2048"}, Guards: []string{fits}, Exact: true, N: 1, Why: "one frame: this header buffer + the unchanged payload, EtherType IPv4, same route"},
			{Kind: "return", Args: []string{"iface:stack.LinkEndpoint.WritePacket($0.linkEP, $1, new(buffer.Prependable)@2, $3, 2048)"}, Guards: []string{fits}, Exact: true, N: 1, Why: "the link layer's result"},
		})
		c.Ordered(e1, fn, []string{"Prepend", "Encode", "CalculateChecksum", "SetChecksum", "link write"}, []func(Site) bool{isCall("(*buffer.Prependable).Prepend"), isCall("header.IPv4.Encode"), isCall("header.IPv4.CalculateChecksum"), isCall("header.IPv4.SetChecksum"), isCall("iface:stack.LinkEndpoint.WritePacket")})
	}
}

// headerChecksumHelpersRule: what the per-protocol checksum helpers sum
// over. Shared by C06/E1 and C15/B5.
func headerChecksumHelpersRule(c *Ctx, e1 string) {
	if fn := c.Fn(e1, "header.IPv4.CalculateChecksum"); fn != nil {
		c.CheckSites(e1, fn, []SiteSpec{{Kind: "return", Args: []string{"header.Checksum($0[:header.IPv4.HeaderLength($0)], 0)"}, Guards: []string{}, Exact: true, N: 1, Why: "sum over exactly the IHL header bytes, from 0"}})
	}
	for _, v := range []struct{ fn, hdr string }{{"header.TCP.CalculateChecksum", "$0[:header.TCP.DataOffset($0)]"}, {"header.UDP.CalculateChecksum", "$0[:8]"}} {
		if fn := c.Fn(e1, v.fn); fn != nil {
			c.CheckSites(e1, fn, []SiteSpec{
				{Kind: "call", Target: "encoding/binary.bigEndian.PutUint16", Args: []string{"encoding/binary.BigEndian", "new([2]byte)[:2]", "$2"}, Guards: []string{}, Exact: true, N: 1, Why: "the pseudo-header length word, big-endian"},
				{Kind: "call", Target: "header.Checksum", Args: []string{"new([2]byte)[:2]", "$1"}, Guards: []string{}, Exact: true, N: 1, Why: "added to the partial sum"},
				{Kind: "call", Target: "header.Checksum", Args: []string{v.hdr, "header.Checksum(new([2]byte)[:2], $1)"}, Guards: []string{}, Exact: true, N: 1, Why: "then the transport header bytes (with options for TCP)"},
				{Kind: "return", Args: []string{"header.Checksum(" + v.hdr + ", header.Checksum(new([2]byte)[:2], $1))"}, Guards: []string{}, Exact: true, N: 1, Why: "that sum is the result"},
			})
			c.Ordered(e1, fn, []string{"length word written", "length word summed"}, []func(Site) bool{isCall("encoding/binary.bigEndian.PutUint16"), func(s Site) bool {
				return s.Kind == "call" && s.Target == "header.Checksum" && len(s.Args) == 2 && s.Args[0] == "new([2]byte)[:2]"
			}})
		}
	}
	if fn := c.Fn(e1, "header.PseudoHeaderChecksum"); fn != nil {
		c.CheckSites(e1, fn, []SiteSpec{
			{Kind: "elemstore", Target: "&new([2]byte)", Args: []string{"0", "0"}, Guards: []string{}, Exact: true, N: 1, Why: "zero byte"},
			{Kind: "elemstore", Target: "&new([2]byte)", Args: []string{"1", "$0"}, Guards: []string{}, Exact: true, N: 1, Why: "protocol number"},
			{Kind: "return", Args: []string{"header.Checksum([0, $0], header.Checksum($2, header.Checksum($1, 0)))"}, Guards: []string{}, Exact: true, N: 1, Why: "source, destination, (0, protocol)"},
		})
	}
	if fn := c.Fn(e1, "(*stack.Route).PseudoHeaderChecksum"); fn != nil {
		c.CheckSites(e1, fn, []SiteSpec{{Kind: "return", Args: []string{"header.PseudoHeaderChecksum($1, $0.LocalAddress, $0.RemoteAddress)"}, Guards: []string{}, Exact: true, N: 1, Why: "E3: the pseudo-header carries the same addresses the IP header gets"}})
	}
}
