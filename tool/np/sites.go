package np

import (
	"fmt"
	"go/token"
	"go/types"
	"sort"
	"strings"

	"golang.org/x/tools/go/ssa"
)

// Site is one effect in a function: a call or a field store, rendered with
// canonical argument terms and the branch literals every path to it must
// have passed (its dominating guards).
type Site struct {
	Fn     *ssa.Function
	Instr  ssa.Instruction
	Kind   string   // call | go | defer | store | mapupdate | send | return | panic
	Target string   // callee name, "Type.field" for stores, "" otherwise
	Args   []string // argument terms (receiver first) / stored value
	Guards []string // sorted dominating literals ("atom" / "!atom")
}

func (s Site) String() string {
	return fmt.Sprintf("%s %s(%s) if [%s]", s.Kind, s.Target, strings.Join(s.Args, ", "), strings.Join(s.Guards, " && "))
}

// guardIndex computes, per block, the literals that guard it.
func guardIndex(fn *ssa.Function) map[int][]string {
	edges := CondEdges(fn)
	lits := map[string][]Edge{}
	for _, e := range edges {
		l := e.Atom
		if !e.Holds {
			l = "!" + l
		}
		lits[l] = append(lits[l], e)
	}
	out := map[int][]string{}
	var names []string
	for l := range lits {
		names = append(names, l)
	}
	sort.Strings(names)
	for _, l := range names {
		cut := map[[2]int]bool{}
		for _, e := range lits[l] {
			cut[[2]int{e.From.Index, e.Succ}] = true
		}
		// blocks reachable from entry without crossing a cut edge are NOT guarded
		seen := map[int]bool{0: true}
		stack := []*ssa.BasicBlock{fn.Blocks[0]}
		for len(stack) > 0 {
			b := stack[len(stack)-1]
			stack = stack[:len(stack)-1]
			for i, s := range b.Succs {
				if cut[[2]int{b.Index, i}] || seen[s.Index] {
					continue
				}
				seen[s.Index] = true
				stack = append(stack, s)
			}
		}
		// reachable-at-all set
		for _, b := range fn.Blocks {
			if !seen[b.Index] && reachableFromEntry(fn, b) {
				out[b.Index] = append(out[b.Index], l)
			}
		}
	}
	// literals that are calls of new boolean helpers (see inline.go)
	calls := map[string]*ssa.Call{}
	for _, e := range edges {
		v := e.Cond
		for {
			u, ok := v.(*ssa.UnOp)
			if !ok || u.Op != token.NOT {
				break
			}
			v = u.X
		}
		if call, ok := v.(*ssa.Call); ok {
			if g := call.Common().StaticCallee(); g != nil && inlineable(g) {
				calls[e.Atom] = call
			}
		}
	}
	if len(calls) > 0 {
		for k, ls := range out {
			out[k] = expandPredicateLiterals(fn, ls, calls)
		}
	}
	return out
}

func reachableFromEntry(fn *ssa.Function, target *ssa.BasicBlock) bool {
	seen := map[int]bool{0: true}
	stack := []*ssa.BasicBlock{fn.Blocks[0]}
	for len(stack) > 0 {
		b := stack[len(stack)-1]
		stack = stack[:len(stack)-1]
		if b == target {
			return true
		}
		for _, s := range b.Succs {
			if !seen[s.Index] {
				seen[s.Index] = true
				stack = append(stack, s)
			}
		}
	}
	return false
}

// Sites enumerates the effects of fn (not of nested closures).
func Sites(fn *ssa.Function) []Site { return sitesDepth(fn, 0) }

func sitesDepth(fn *ssa.Function, depth int) []Site {
	if len(fn.Blocks) == 0 {
		return nil
	}
	gi := guardIndex(fn)
	t := NewTermer(fn)
	var out []Site
	for _, b := range fn.Blocks {
		if b.Comment == "recover" {
			continue
		}
		for _, in := range b.Instrs {
			s := Site{Fn: fn, Instr: in, Guards: gi[b.Index]}
			switch x := in.(type) {
			case ssa.CallInstruction:
				s.Kind = "call"
				if _, ok := in.(*ssa.Go); ok {
					s.Kind = "go"
				}
				if _, ok := in.(*ssa.Defer); ok {
					s.Kind = "defer"
				}
				s.Target = CalleeName(x)
				for _, a := range CallArgs(x) {
					s.Args = append(s.Args, t.T(a))
				}
				if g := x.Common().StaticCallee(); g != nil && s.Kind == "call" && depth < 2 && inlineableSites(g) {
					out = append(out, inlineSites(fn, x, s, g, depth)...)
					continue
				}
			case *ssa.Store:
				if ia, ok := x.Addr.(*ssa.IndexAddr); ok {
					s.Kind = "elemstore"
					s.Target = t.T(ia.X)
					s.Args = []string{t.T(ia.Index), t.T(x.Val)}
					break
				}
				fv, base := fieldOf(x.Addr)
				if fv == nil {
					continue
				}
				if root, _ := allocRoot(x.Addr); root != nil && !root.Heap {
					continue // local struct
				}
				bt := base.Type()
				s.Kind = "store"
				s.Target = strings.TrimPrefix(TypeStr(bt), "*") + "." + fv.Name()
				s.Args = []string{t.path(base), t.T(x.Val)}
			case *ssa.MapUpdate:
				s.Kind = "mapupdate"
				s.Target = ""
				s.Args = []string{t.T(x.Map), t.T(x.Key), t.T(x.Value)}
			case *ssa.Send:
				s.Kind = "send"
				s.Args = []string{t.T(x.Chan), t.T(x.X)}
			case *ssa.Select:
				s.Kind = "select"
				s.Args = []string{fmt.Sprintf("blocking=%v", x.Blocking)}
				for _, st := range x.States {
					if st.Dir == types.SendOnly {
						s.Args = append(s.Args, "send "+t.T(st.Chan)+" <- "+t.T(st.Send))
					} else {
						s.Args = append(s.Args, "recv "+t.T(st.Chan))
					}
				}
			case *ssa.UnOp:
				if x.Op != token.ARROW {
					continue
				}
				s.Kind = "recv"
				s.Args = []string{t.T(x.X)}
			case *ssa.Return:
				s.Kind = "return"
				for _, r := range x.Results {
					s.Args = append(s.Args, t.T(r))
				}
			case *ssa.Panic:
				s.Kind = "panic"
				s.Args = []string{t.T(x.X)}
			default:
				continue
			}
			out = append(out, s)
		}
	}
	return out
}

// SiteSpec is one frozen, reviewed expectation about the sites of a function.
// Args entries "*" match anything; a nil Args matches any argument list.
// Guards are literals that must be among the site's dominating guards.
// N is the exact number of matching sites required (0 means "at least one").
type SiteSpec struct {
	Kind   string
	Target string
	Args   []string
	Guards []string
	N      int
	Why    string
	// Exact: the site's dominating guards must be exactly Guards (no
	// additional condition may decide whether the effect happens).
	Exact bool
}

func (sp SiteSpec) matches(s Site, withGuards bool) bool {
	if sp.Kind != s.Kind || sp.Target != s.Target {
		return false
	}
	if sp.Args != nil {
		if len(sp.Args) != len(s.Args) {
			return false
		}
		for i, a := range sp.Args {
			if strings.Contains(a, "@*") {
				// "@*": any store version of that allocation (the
				// table's own store rows say which fields are set)
				if stripVer(strings.ReplaceAll(a, "@*", "")) != stripVer(s.Args[i]) {
					return false
				}
				continue
			}
			if a != "*" && !termEq(a, s.Args[i]) {
				return false
			}
		}
	}
	if withGuards {
		for _, g := range sp.Guards {
			found := false
			for _, h := range s.Guards {
				if termEq(g, h) {
					found = true
				}
			}
			if !found {
				return false
			}
		}
		if sp.Exact && len(sp.Guards) != len(s.Guards) {
			return false
		}
	}
	return true
}

// CheckSites verifies that the sites of fn with the given (kind,target)
// pairs are exactly those described by specs: every such site matches a
// spec (arguments and guards), and every spec is matched by the required
// number of sites. Sites of other targets are ignored.
func (c *Ctx) CheckSites(rule string, fn *ssa.Function, specs []SiteSpec) {
	c.checkSites(rule, fn, specs, true)
}

// CheckSitesPresent is CheckSites without the closed-world part: sites of the
// same targets that no spec describes are ignored (another property's table
// covers them); every spec must still be matched.
func (c *Ctx) CheckSitesPresent(rule string, fn *ssa.Function, specs []SiteSpec) {
	c.checkSites(rule, fn, specs, false)
}

func (c *Ctx) checkSites(rule string, fn *ssa.Function, specs []SiteSpec, closed bool) {
	name := FuncName(fn)
	recordTabled(c, fn, specs)
	// A return without results carries no behaviour of its own (what it skips is
	// visible in the guards of the effects after it), and its count changes under
	// harmless reshaping (early return <-> else branch, return <-> break): such
	// sites and specs are not compared.
	void := fn.Signature.Results().Len() == 0
	if void {
		var kept []SiteSpec
		for _, sp := range specs {
			if sp.Kind != "return" {
				kept = append(kept, sp)
			}
		}
		specs = kept
	}
	targets := map[string]bool{}
	for _, sp := range specs {
		targets[sp.Kind+" "+sp.Target] = true
	}
	counts := make([]int, len(specs))
	for _, s := range Sites(fn) {
		if !targets[s.Kind+" "+s.Target] || (void && s.Kind == "return") {
			continue
		}
		matched := -1
		argOnly := -1
		for i, sp := range specs {
			if sp.matches(s, true) {
				matched = i
				break
			}
			if argOnly < 0 && sp.matches(s, false) {
				argOnly = i
			}
		}
		key := name + "/" + s.Kind + ":" + s.Target + "(" + strings.Join(s.Args, ", ") + ")"
		if matched >= 0 {
			counts[matched]++
			c.Ok(rule, key, c.pos(s.Instr), "matches spec: "+specs[matched].Why+"; guards ["+strings.Join(s.Guards, " && ")+"]")
			continue
		}
		if !closed {
			continue
		}
		if argOnly >= 0 {
			c.Bad(rule, key+"/guard", c.pos(s.Instr), "site is not dominated by the required guards ["+strings.Join(specs[argOnly].Guards, " && ")+"] ("+specs[argOnly].Why+"); it has ["+strings.Join(s.Guards, " && ")+"]")
			counts[argOnly]++
			continue
		}
		c.Bad(rule, key+"/unexpected", c.pos(s.Instr), "no reviewed specification covers this "+s.Kind+" of "+s.Target+" with these arguments; guards ["+strings.Join(s.Guards, " && ")+"]")
	}
	for i, sp := range specs {
		key := name + "/spec:" + sp.Kind + ":" + sp.Target + "(" + strings.Join(sp.Args, ", ") + ")"
		if sp.N == 0 && counts[i] == 0 {
			c.Bad(rule, key+"/missing", c.P.Pos(fn.Pos()), "expected site is gone: "+sp.Why)
		}
		if sp.N > 0 && counts[i] != sp.N {
			c.Bad(rule, key+"/count", c.P.Pos(fn.Pos()), fmt.Sprintf("expected %d such sites, found %d: %s", sp.N, counts[i], sp.Why))
		}
	}
}

// DumpSpecs prints SiteSpec literals (exact guards) for the sites of fn whose
// target contains one of the given substrings (rule authoring aid; every
// printed entry is reviewed and given a Why before it is frozen).
func (p *Program) DumpSpecs(fn *ssa.Function, targets []string) {
	fmt.Printf("\t// %s\n", FuncName(fn))
	for _, s := range Sites(fn) {
		ok := false
		for _, t := range targets {
			if t != "" && (strings.Contains(s.Target, t) || (s.Kind == t)) {
				ok = true
			}
		}
		if !ok {
			continue
		}
		q := func(ss []string) string {
			var o []string
			for _, x := range ss {
				o = append(o, fmt.Sprintf("%q", x))
			}
			return strings.Join(o, ", ")
		}
		fmt.Printf("\t\t{Kind: %q, Target: %q, Args: []string{%s}, Guards: []string{%s}, Exact: true, N: 1, Why: \"\"},\n", s.Kind, s.Target, q(s.Args), q(s.Guards))
	}
}

// DumpSites prints all sites of a function in SiteSpec literal form (rule authoring aid).
func (p *Program) DumpSites(fn *ssa.Function) {
	fmt.Printf("== %s\n", FuncName(fn))
	for _, s := range Sites(fn) {
		q := func(ss []string) string {
			var o []string
			for _, x := range ss {
				o = append(o, fmt.Sprintf("%q", x))
			}
			return strings.Join(o, ", ")
		}
		fmt.Printf("  {Kind: %q, Target: %q, Args: []string{%s}, Guards: []string{%s}}, // %s\n", s.Kind, s.Target, q(s.Args), q(s.Guards), p.Pos(s.Instr.Pos()))
	}
}

// CallerSpec is one reviewed call site of a designated callee, anywhere in
// the module: the calling function (closures by their own name), the callee
// and the canonical argument terms ("*" = any).
type CallerSpec struct {
	Fn     string
	Target string
	Args   []string
	Guards []string // when non-nil: the site's guard set must be exactly this
	N      int      // number of such sites in Fn (default 1)
	Why    string
}

func inTesting(fn *ssa.Function) bool {
	return fn.Pkg != nil && strings.Contains(fn.Pkg.Pkg.Path(), "/testing/")
}

// CheckCallers: closed world over the whole module (test harness packages
// excluded) - every call of one of the targets is one of the reviewed sites
// with exactly the reviewed arguments, and every reviewed site exists.
func (c *Ctx) CheckCallers(rule string, targets []string, specs []CallerSpec) {
	isT := map[string]bool{}
	for _, t := range targets {
		isT[t] = true
	}
	counts := make([]int, len(specs))
	for _, fn := range c.ReviewedFuncs() {
		if inTesting(fn) {
			continue
		}
		for _, s := range Sites(fn) {
			if !(s.Kind == "call" || s.Kind == "defer" || s.Kind == "go") || !isT[s.Target] {
				continue
			}
			name := FuncName(fn)
			matched := false
			for i, sp := range specs {
				if sp.Fn != name || sp.Target != s.Target || len(sp.Args) != len(s.Args) {
					continue
				}
				ok := true
				for j, a := range sp.Args {
					if a != "*" && !termEq(a, s.Args[j]) {
						ok = false
					}
				}
				if ok {
					counts[i]++
					matched = true
					key := name + "/" + s.Kind + ":" + s.Target + "(" + strings.Join(s.Args, ", ") + ")"
					if sp.Guards != nil && joinSorted(sp.Guards) != joinSorted(s.Guards) && joinSorted(canonAll(sp.Guards)) != joinSorted(canonAll(s.Guards)) {
						c.Bad(rule, key+"/guard", c.pos(s.Instr), "reviewed call site, but it now happens under different conditions: expected ["+joinSorted(sp.Guards)+"], found ["+joinSorted(s.Guards)+"] ("+sp.Why+")")
					} else {
						c.Ok(rule, key, c.pos(s.Instr), "reviewed call site: "+sp.Why)
					}
					break
				}
			}
			if !matched {
				c.Bad(rule, name+"/"+s.Kind+":"+s.Target+"("+strings.Join(s.Args, ", ")+")/unreviewed", c.pos(s.Instr), "call of "+s.Target+" with arguments that no reviewed site has (new caller, or an argument now comes from somewhere else)")
			}
		}
	}
	for i, sp := range specs {
		want := sp.N
		if want == 0 {
			want = 1
		}
		if counts[i] != want {
			c.Bad(rule, sp.Fn+"/spec:"+sp.Target+"("+strings.Join(sp.Args, ", ")+")/count", "", fmt.Sprintf("expected %d such call sites, found %d: %s", want, counts[i], sp.Why))
		}
	}
}

// DumpCallers prints CallerSpec literals for every call of callees whose name contains sub.
func (p *Program) DumpCallers(sub string) {
	for _, fn := range p.Funcs {
		if inTesting(fn) {
			continue
		}
		for _, s := range Sites(fn) {
			if !(s.Kind == "call" || s.Kind == "defer" || s.Kind == "go") || !strings.Contains(s.Target, sub) {
				continue
			}
			var o []string
			for _, x := range s.Args {
				o = append(o, fmt.Sprintf("%q", x))
			}
			var g []string
			for _, x := range s.Guards {
				g = append(g, fmt.Sprintf("%q", x))
			}
			fmt.Printf("\t\t{Fn: %q, Target: %q, Args: []string{%s}, Guards: []string{%s}, Why: \"\"}, // %s\n", FuncName(fn), s.Target, strings.Join(o, ", "), strings.Join(g, ", "), p.Pos(s.Instr.Pos()))
		}
	}
}

// CheckSitesAny: the function's sites match (closed world) at least one of the
// given alternative tables - for the few functions where two control-flow
// shapes with the same meaning are both reviewed (one call with a joined
// argument <-> one call per branch). Reports the first alternative's findings
// when none matches.
func (c *Ctx) CheckSitesAny(rule string, fn *ssa.Function, alts ...[]SiteSpec) {
	var first *Ctx
	for i, specs := range alts {
		tmp := &Ctx{P: c.P, Prop: c.Prop, Tier: c.Tier, rules: map[string]*ruleInfo{}, Extra: map[string]interface{}{}}
		tmp.checkSites(rule, fn, specs, true)
		bad := false
		for _, o := range tmp.Obls {
			if o.Status == Viol || o.Status == Integrity {
				bad = true
			}
		}
		if i == 0 {
			first = tmp
		}
		if !bad {
			first = tmp
			break
		}
	}
	if first == nil {
		return
	}
	for _, o := range first.Obls {
		c.add(rule, strings.TrimPrefix(o.Key, rule+"/"), o.Pos, o.Status, o.Detail)
	}
}
