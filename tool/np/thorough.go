package np

import (
	"encoding/json"
	"fmt"
	"os"
	"os/exec"
	"path/filepath"
	"regexp"
	"sort"
	"strings"
	"sync"
)

// SensResult is the outcome of replaying one confirmed seeded change against
// the current tree (as an in-memory overlay; /repo is not touched).
type SensResult struct {
	ID       string   `json:"id"`
	Applied  bool     `json:"applied"`
	Detected bool     `json:"detected"`
	Rules    []string `json:"rules,omitempty"`
	Note     string   `json:"note,omitempty"`
}

var diffFile = regexp.MustCompile(`(?m)^\+\+\+ b/(.+)$`)

// sensitivity re-analyses the current tree with each confirmed seeded change
// of this property applied as an overlay and records whether the check
// reports it. It is evidence about the checker (non-vacuity on today's
// source), not about the property: a miss is printed as a NOTE and never
// turns into a violation.
func sensitivity(prop, repo string, run func(*Program, string) *Ctx) []SensResult {
	root := verifRoot()
	dirs, _ := filepath.Glob(filepath.Join(root, "seeded", prop+"-*"))
	sort.Strings(dirs)
	var out []SensResult
	for _, d := range dirs {
		r, p := seedOverlayProgram(d, repo)
		if p != nil {
			c := run(p, "overlay:"+r.ID)
			rules := map[string]bool{}
			for _, o := range c.Unlisted() {
				rules[o.Rule] = true
			}
			for k := range rules {
				r.Rules = append(r.Rules, k)
			}
			sort.Strings(r.Rules)
			r.Detected = len(r.Rules) > 0
		}
		out = append(out, r)
	}
	return out
}

// benignReplay: the behaviour-preserving changes kept under /verif/benign for
// this property, analysed as overlays; a report is a false alarm of the checker
// (recorded and printed as a NOTE, never a violation of the property).
func benignReplay(prop, repo string, run func(*Program, string) *Ctx) []SensResult {
	root := verifRoot()
	dirs, _ := filepath.Glob(filepath.Join(root, "benign", prop+"-n*"))
	sort.Strings(dirs)
	var out []SensResult
	for _, d := range dirs {
		r, p := seedOverlayProgram(d, repo)
		r.Detected = false
		if p != nil {
			c := run(p, "overlay:"+r.ID)
			rules := map[string]bool{}
			for _, o := range c.Unlisted() {
				rules[o.Rule] = true
			}
			for k := range rules {
				r.Rules = append(r.Rules, k)
			}
			sort.Strings(r.Rules)
			r.Detected = len(r.Rules) > 0
		}
		out = append(out, r)
	}
	return out
}

// seedOverlayProgram loads the current tree with the seeded change of
// directory d applied in memory; the program is nil when the patch does not
// apply or the variant does not load (then r says why).
func seedOverlayProgram(d, repo string) (SensResult, *Program) {
	{
		r := SensResult{ID: filepath.Base(d)}
		patch, err := os.ReadFile(filepath.Join(d, "patch.diff"))
		if err != nil {
			r.Note = "no patch.diff"
			return r, nil
		}
		tmp, err := os.MkdirTemp("", "npsens")
		if err != nil {
			r.Note = err.Error()
			return r, nil
		}
		overlay := map[string][]byte{}
		ok := true
		var files []string
		for _, m := range diffFile.FindAllStringSubmatch(string(patch), -1) {
			files = append(files, m[1])
			src, err := os.ReadFile(filepath.Join(repo, m[1]))
			os.MkdirAll(filepath.Dir(filepath.Join(tmp, m[1])), 0o755)
			if err != nil {
				// a file the patch creates: nothing to copy, patch writes it
				if os.IsNotExist(err) {
					continue
				}
				ok = false
				r.Note = err.Error()
				break
			}
			os.WriteFile(filepath.Join(tmp, m[1]), src, 0o644)
		}
		if ok {
			cmd := exec.Command("patch", "-p1", "-s", "-f", "-d", tmp, "-i", filepath.Join(d, "patch.diff"))
			if b, err := cmd.CombinedOutput(); err != nil {
				ok = false
				r.Note = "patch does not apply to the current tree: " + strings.TrimSpace(string(b))
			}
		}
		if ok {
			for _, f := range files {
				b, err := os.ReadFile(filepath.Join(tmp, f))
				if err != nil {
					ok = false
					break
				}
				overlay[filepath.Join(repo, f)] = b
			}
		}
		os.RemoveAll(tmp)
		if !ok {
			return r, nil
		}
		r.Applied = true
		p, err := Load(LoadConfig{Dir: repo, Overlay: overlay})
		if err != nil {
			r.Note = "variant does not load: " + err.Error()
			r.Detected = true
			return r, nil
		}
		return r, p
	}
}

// seedMatrix: every confirmed seeded change x every property, as overlays.
func seedMatrix(repo, only string, run func(*Program, string, string) *Ctx) int {
	root := verifRoot()
	dirs, _ := filepath.Glob(filepath.Join(root, "seeded", "C??-*"))
	sort.Strings(dirs)
	if only != "" {
		if filepath.IsAbs(only) {
			dirs = []string{only}
		} else {
			dirs = []string{filepath.Join(root, "seeded", only)}
		}
	}
	var props []string
	for id := range registry {
		if len(id) == 3 && id[0] == 'C' {
			props = append(props, id)
		}
	}
	sort.Strings(props)
	type res struct {
		id, line string
	}
	out := make([]res, len(dirs))
	sem := make(chan struct{}, 1) // the analysis keeps process-wide caches: one variant at a time per process
	var wg sync.WaitGroup
	for i, d := range dirs {
		wg.Add(1)
		go func(i int, d string) {
			defer wg.Done()
			sem <- struct{}{}
			defer func() { <-sem }()
			r, p := seedOverlayProgram(d, repo)
			line := ""
			if p == nil {
				line = "(" + r.Note + ")"
			} else {
				for _, prop := range props {
					c := run(p, "overlay:"+r.ID, prop)
					rules := map[string]bool{}
					for _, o := range c.Unlisted() {
						rules[o.Rule] = true
					}
					var rs []string
					for k := range rules {
						rs = append(rs, k)
					}
					sort.Strings(rs)
					if len(rs) > 0 {
						line += " " + prop + "[" + strings.Join(rs, ",") + "]"
					}
				}
				if line == "" {
					line = " MISSED"
				}
			}
			out[i] = res{r.ID, line}
		}(i, d)
	}
	wg.Wait()
	missed := 0
	for _, r := range out {
		fmt.Printf("%s:%s\n", r.id, r.line)
		if strings.Contains(r.line, "MISSED") {
			missed++
		}
	}
	if only == "" {
		fmt.Printf("seeded changes: %d, not reported by any check: %d\n", len(out), missed)
	}
	return 0
}

func replayProp(path string) string {
	b, err := os.ReadFile(path)
	if err != nil {
		return ""
	}
	var v struct {
		Property string `json:"property"`
	}
	json.Unmarshal(b, &v)
	return v.Property
}

// replayObligation re-evaluates, on the current tree, the obligation stored in
// a violation file: exit 1 with the VIOLATION line when it still fails.
func replayObligation(c *Ctx, path string) int {
	b, err := os.ReadFile(path)
	if err != nil {
		fmt.Println("cannot read", path, err)
		return 2
	}
	var v struct {
		Property   string `json:"property"`
		Obligation Obl    `json:"obligation"`
	}
	if err := json.Unmarshal(b, &v); err != nil {
		fmt.Println("cannot parse", path, err)
		return 2
	}
	n := 0
	for _, o := range c.Unlisted() {
		if o.Rule == v.Obligation.Rule && o.Key == v.Obligation.Key {
			n++
			fmt.Printf("VIOLATION property=%s replay=%s rule=%s key=%s at=%s :: %s\n", c.Prop, path, o.Rule, o.Key, o.Pos, o.Detail)
		}
	}
	if n > 0 {
		return 1
	}
	state := "absent (the construct it names is gone)"
	for _, o := range c.Obls {
		if o.Rule == v.Obligation.Rule && o.Key == v.Obligation.Key {
			state = "present with status " + fmt.Sprint(o.Status)
		}
	}
	fmt.Printf("replay: obligation %s is not violated on the current tree: %s\n", v.Obligation.Key, state)
	return 0
}
