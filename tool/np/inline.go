package np

import (
	"os"
	"path/filepath"
	"regexp"
	"sort"
	"strings"
	"sync"

	"golang.org/x/tools/go/ssa"
)

// Functions that did not exist when the tables were reviewed
// (tables/known_funcs.txt is the list of module functions at review time)
// cannot be part of any reviewed table. A refactoring that extracts a helper
// would otherwise make every table of the caller report "site gone": such
// NEW, loop-free, non-recursive functions are analysed inline in their
// callers - their sites are spliced into the caller's site list, a
// single-expression result is rendered as that expression, and a boolean
// helper used as a branch condition contributes the literals that hold on all
// of its true (false) paths - exactly what the code would have contributed
// had the body stayed in the caller.

var (
	knownOnce  sync.Once
	knownFuncs map[string]bool
)

func isNewFunc(fn *ssa.Function) bool {
	knownOnce.Do(func() {
		b, err := os.ReadFile(filepath.Join(verifRoot(), "tool", "tables", "known_funcs.txt"))
		if err != nil {
			return
		}
		knownFuncs = map[string]bool{}
		for _, l := range strings.Split(string(b), "\n") {
			if l = strings.TrimSpace(l); l != "" {
				knownFuncs[l] = true
			}
		}
	})
	if knownFuncs == nil || fn == nil || fn.Pkg == nil || fn.Blocks == nil || fn.Synthetic != "" {
		return false
	}
	if !strings.HasPrefix(fn.Pkg.Pkg.Path(), Mod) || fn.Parent() != nil {
		return false
	}
	return !knownFuncs[FuncName(fn)]
}

// inlineable: new, acyclic CFG, no go/defer, does not call itself (terms and
// predicate literals need a loop-free body).
func inlineable(g *ssa.Function) bool { return inlineableLevel(g, false) }

// inlineableSites: as inlineable, but loops are fine - the callee's sites are
// spliced into the caller with their own loop guards, as they were before
// the body was moved out.
func inlineableSites(g *ssa.Function) bool { return inlineableLevel(g, true) }

func inlineableLevel(g *ssa.Function, loopsOK bool) bool {
	if !isNewFunc(g) {
		return false
	}
	for _, b := range g.Blocks {
		for _, s := range b.Succs {
			if !loopsOK && s.Index <= b.Index && s.Dominates(b) {
				return false // back edge
			}
		}
		for _, in := range b.Instrs {
			switch x := in.(type) {
			case *ssa.Go, *ssa.Defer:
				return false
			case *ssa.Call:
				if x.Common().StaticCallee() == g {
					return false
				}
			}
		}
	}
	return true
}

var paramRe = regexp.MustCompile(`(\^?)\$(\d+)`)

func substParams(s string, args []string) string {
	return paramRe.ReplaceAllStringFunc(s, func(m string) string {
		if strings.HasPrefix(m, "^") {
			return m
		}
		k := 0
		for _, ch := range m[1:] {
			k = k*10 + int(ch-'0')
		}
		if k < len(args) {
			return args[k]
		}
		return m
	})
}

// inlineCallTerm renders a call of a new single-result function whose body
// has exactly one return as the returned expression over the caller's terms.
func inlineCallTerm(t *Termer, call *ssa.Call, g *ssa.Function) (string, bool) {
	if g.Signature.Results().Len() != 1 || len(t.active) > 30 {
		return "", false
	}
	var rets []*ssa.Return
	Instrs(g, func(in ssa.Instruction) {
		if r, ok := in.(*ssa.Return); ok {
			rets = append(rets, r)
		}
	})
	if len(rets) == 0 {
		return "", false
	}
	var as []string
	for _, a := range CallArgs(call) {
		as = append(as, t.T(a))
	}
	// several returns are a join of their values, rendered like a phi (sorted, deduplicated)
	set := map[string]bool{}
	withBinding(g, as, call, func() {
		ct := NewTermer(g)
		for _, r := range rets {
			set[ct.T(r.Results[0])] = true
		}
	})
	var ss []string
	for s := range set {
		ss = append(ss, s)
	}
	sort.Strings(ss)
	if len(ss) == 1 {
		return ss[0], true
	}
	return "phi{" + strings.Join(ss, " | ") + "}", true
}

// inlineSites: the sites of a new callee as they would appear in the caller.
func inlineSites(caller *ssa.Function, call ssa.CallInstruction, callSite Site, g *ssa.Function, depth int) []Site {
	var out []Site
	withBinding(g, callSite.Args, call, func() {
		for _, s := range sitesDepth(g, depth+1) {
			if s.Kind == "return" {
				continue
			}
			ns := Site{Fn: caller, Instr: call, Kind: s.Kind, Target: s.Target, Args: s.Args}
			set := map[string]bool{}
			for _, gd := range callSite.Guards {
				set[gd] = true
			}
			for _, gd := range s.Guards {
				set[gd] = true
			}
			for gd := range set {
				ns.Guards = append(ns.Guards, gd)
			}
			sort.Strings(ns.Guards)
			out = append(out, ns)
		}
	})
	return out
}

// expandPredicateLiterals replaces a literal that is a call of a new boolean
// helper by the literals common to all of the helper's paths with that
// outcome (nothing, when the outcome is a disjunction - as for inline code).
func expandPredicateLiterals(fn *ssa.Function, lits []string, calls map[string]*ssa.Call) []string {
	var out []string
	seen := map[string]bool{}
	add := func(l string) {
		if !seen[l] {
			seen[l] = true
			out = append(out, l)
		}
	}
	for _, l := range lits {
		atom := strings.TrimPrefix(l, "!")
		call, ok := calls[atom]
		if !ok {
			add(l)
			continue
		}
		g := call.Common().StaticCallee()
		t := NewTermer(fn)
		var as []string
		for _, a := range CallArgs(call) {
			as = append(as, t.T(a))
		}
		var dt *DTable
		withBinding(g, as, call, func() { dt = DecisionTable(g) })
		if dt.Err != "" {
			add(l)
			continue
		}
		want := "true"
		if strings.HasPrefix(l, "!") {
			want = "false"
		}
		var common map[string]bool
		okRows := true
		for _, r := range dt.Rows {
			if r.Result != "true" && r.Result != "false" {
				okRows = false
			}
			if r.Result != want {
				continue
			}
			cs := map[string]bool{}
			for _, c0 := range r.Conds {
				cs[c0] = true
			}
			if common == nil {
				common = cs
			} else {
				for k := range common {
					if !cs[k] {
						delete(common, k)
					}
				}
			}
		}
		if !okRows || common == nil {
			add(l)
			continue
		}
		var ks []string
		for k := range common {
			ks = append(ks, k)
		}
		sort.Strings(ks)
		for _, k := range ks {
			add(k)
		}
	}
	sort.Strings(out)
	return out
}

// effectFree: no stores to the heap, map updates, sends, go/defer or panics.
func effectFree(g *ssa.Function) bool {
	ok := true
	Instrs(g, func(in ssa.Instruction) {
		switch x := in.(type) {
		case *ssa.MapUpdate, *ssa.Send, *ssa.Go, *ssa.Defer, *ssa.Panic:
			ok = false
		case *ssa.Store:
			if root, _ := allocRoot(x.Addr); root == nil || root.Heap {
				ok = false
			}
		}
	})
	return ok
}

// singleReturnTerm: the term of the only result of the only return of g.
func singleReturnTerm(g *ssa.Function, args []string, at ssa.Instruction) (string, bool) {
	if g.Signature.Results().Len() != 1 {
		return "", false
	}
	set := map[string]bool{}
	withBinding(g, args, at, func() {
		t := NewTermer(g)
		Instrs(g, func(in ssa.Instruction) {
			if r, ok := in.(*ssa.Return); ok {
				set[t.T(r.Results[0])] = true
			}
		})
	})
	var ss []string
	for s := range set {
		ss = append(ss, s)
	}
	sort.Strings(ss)
	switch len(ss) {
	case 0:
		return "", false
	case 1:
		return ss[0], true
	}
	return "phi{" + strings.Join(ss, " | ") + "}", true
}

// AllAtoms: the branch atoms of fn, including those of helpers extracted
// after the review that fn calls (rendered over fn's terms).
func AllAtoms(fn *ssa.Function) map[string]bool {
	out := map[string]bool{}
	var walk func(f *ssa.Function, depth int)
	walk = func(f *ssa.Function, depth int) {
		for _, e := range CondEdges(f) {
			out[e.Atom] = true
		}
		if depth >= 2 {
			return
		}
		t := NewTermer(f)
		Instrs(f, func(in ssa.Instruction) {
			call, ok := in.(*ssa.Call)
			if !ok {
				return
			}
			g := call.Common().StaticCallee()
			if g == nil || !inlineableSites(g) {
				return
			}
			var as []string
			for _, a := range CallArgs(call) {
				as = append(as, t.T(a))
			}
			withBinding(g, as, call, func() { walk(g, depth+1) })
		})
	}
	walk(fn, 0)
	return out
}

// topFunc: the named function a (possibly nested) closure belongs to.
func topFunc(fn *ssa.Function) *ssa.Function {
	for fn.Parent() != nil {
		fn = fn.Parent()
	}
	return fn
}

// InstrsInline calls f on every instruction of fn and, for calls of helpers
// that did not exist at review time (inline.go), on the helpers' instructions
// as well (depth-limited): instruction-level rules about what a reviewed
// function allocates or does survive the extraction of a helper.
func InstrsInline(fn *ssa.Function, f func(ssa.Instruction)) {
	var walk func(g *ssa.Function, depth int)
	walk = func(g *ssa.Function, depth int) {
		Instrs(g, func(in ssa.Instruction) {
			f(in)
			if call, ok := in.(*ssa.Call); ok && depth < 3 {
				if h := call.Common().StaticCallee(); h != nil && h != g && inlineableSites(h) {
					walk(h, depth+1)
				}
			}
		})
	}
	walk(fn, 0)
}
