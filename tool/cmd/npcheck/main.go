package main

import (
	"os"

	"npcheck/np"
)

func main() { os.Exit(np.Main(os.Args[1:])) }
