#!/usr/bin/env python3
"""Source of tool/tables/mutants.json: overlay edits used to test the checker both ways.
Each entry: (prop, id, file, old, new, benign, expect, why). `old` must occur exactly once in the file.
Run: python3 tool/dev/mutants.py   (verifies uniqueness against /repo and writes the JSON table)"""
import json, sys, os
TCP = "protocol/transport/tcp/"
M = []
def m(prop, id, file, old, new, expect="", why="", benign=False):
    M.append(dict(prop=prop, id=prop + "/" + id, file=file, old=old, new=new, benign=benign, expect=expect, why=why))

# ---------------------------------------------------------------- C01
m("C01", "rcv-drop-seq-advance", TCP + "rcv.go", "\t\t\ts.sequenceNumber.UpdateForward(diff)\n", "", "R1", "receiver trims data without advancing the sequence number")
m("C01", "split-advance-off-by-one", TCP + "snd.go", "nSeg.sequenceNumber.UpdateForward(seqnum.Size(available))", "nSeg.sequenceNumber.UpdateForward(seqnum.Size(available - 1))", "R1", "split advances by a different amount than it trims")
m("C01", "partial-ack-revert-D3", TCP + "snd.go", "\t\t\t\tseg.sequenceNumber.UpdateForward(ackLeft)\n", "", "R1", "re-introduces D3")
m("C01", "pushfront", TCP + "endpoint.go", "\t\te.rcvList.PushBack(s)\n", "\t\te.rcvList.PushFront(s)\n", "R3", "receive list becomes LIFO")
m("C01", "readytoread-no-lock", TCP + "endpoint.go", "func (e *endpoint) readyToRead(s *segment) {\n\te.rcvListMu.Lock()\n", "func (e *endpoint) readyToRead(s *segment) {\n", "R2", "queue touched without rcvListMu")
m("C01", "deliver-before-window-test", TCP + "rcv.go", "\t\tif !r.rcvNxt.InWindow(segSeq, segLen) {", "\t\tr.ep.readyToRead(s)\n\t\tif !r.rcvNxt.InWindow(segSeq, segLen) {", "R3", "delivery before the in-window test")
m("C01", "benign-log", TCP + "rcv.go", "\t\tr.ep.readyToRead(s)\n\n\t} else if segSeq != r.rcvNxt {", "\t\tprintln(\"deliver\", segLen)\n\t\tr.ep.readyToRead(s)\n\n\t} else if segSeq != r.rcvNxt {", benign=True, why="logging added")
m("C01", "benign-rename-local", TCP + "rcv.go", "\t\t\tdiff := segSeq.Size(r.rcvNxt)\n\t\t\tsegLen -= diff\n\t\t\tsegSeq.UpdateForward(diff)\n\t\t\ts.sequenceNumber.UpdateForward(diff)\n\t\t\ts.data.TrimFront(int(diff))", "\t\t\tdup := segSeq.Size(r.rcvNxt)\n\t\t\tsegLen -= dup\n\t\t\tsegSeq.UpdateForward(dup)\n\t\t\ts.sequenceNumber.UpdateForward(dup)\n\t\t\ts.data.TrimFront(int(dup))", benign=True, why="local renamed")

# ---------------------------------------------------------------- C02
m("C02", "no-wake-after-requeue", TCP + "connect.go", "\tif checkRequeue && !e.segmentQueue.empty() {\n\t\te.newSegmentWaker.Assert()\n\t}", "\tif checkRequeue && !e.segmentQueue.empty() {\n\t}", "W1", "queued segments without a wake-up")
m("C02", "write-no-wake", TCP + "endpoint.go", "\t\t// Let the protocol goroutine do the work.\n\t\te.sndWaker.Assert()\n\t}\n\treturn uintptr(l), nil, err", "\t\t// Let the protocol goroutine do the work.\n\t}\n\treturn uintptr(l), nil, err", "W1", "Write queues data but nobody is told")
m("C02", "no-rto-timer", TCP + "snd.go", "\t\ts.resendTimer.enable(s.rto)\n\t}\n\t// If we have no more pending data", "\t}\n\t// If we have no more pending data", "W3", "retransmission timer never armed")
m("C02", "write-after-close", TCP + "endpoint.go", "\t// Check if the connection has already been closed for sends.\n\tif e.sndClosed {\n\t\te.sndBufMu.Unlock()\n\t\treturn 0, nil, tcpip.ErrClosedForSend\n\t}\n", "", "W4", "data can be queued behind the FIN")

# ---------------------------------------------------------------- C04
m("C04", "no-window-clamp", TCP + "connect.go", "\tif rcvWnd > 0xffff {\n\t\trcvWnd = 0xffff\n\t}\n", "", "N1", "window field wraps")
m("C04", "right-edge-can-move-left", TCP + "rcv.go", "\tif r.rcvAcc.LessThan(acc) {\n\t\tr.rcvAcc = acc\n\t}", "\tr.rcvAcc = acc", "N2", "advertised right edge not monotone")
m("C04", "mss-can-grow", TCP + "snd.go", "\tif m >= s.maxPayloadSize {\n\t\treturn\n\t}\n", "", "N3", "maxPayloadSize may grow")
m("C04", "window-not-scaled", TCP + "connect.go", "\t\t\ts.window <<= e.snd.sndWndScale\n", "", "N4", "peer window used unscaled")
m("C04", "send-beyond-window", TCP + "snd.go", "\t\t\tif !seg.sequenceNumber.LessThan(end) {\n\t\t\t\tbreak\n\t\t\t}\n", "", "N5", "send loop ignores the window edge")

# ---------------------------------------------------------------- C05
m("C05", "initial-cwnd-20", TCP + "snd.go", "\tInitialCwnd = 10", "\tInitialCwnd = 20", "L1")
m("C05", "min-rto-100ms", TCP + "snd.go", "\tminRTO = 200 * time.Millisecond", "\tminRTO = 100 * time.Millisecond", "L1")
m("C05", "dupack-threshold-2", TCP + "snd.go", "\tnDupAckThreshold = 3", "\tnDupAckThreshold = 2", "L1")
m("C05", "rto-backoff-1.5", TCP + "snd.go", "\ts.rto *= 2\n", "\ts.rto += s.rto / 2\n", "L2")
m("C05", "ignore-cwnd", TCP + "snd.go", "seg != nil && s.outstanding < s.sndCwnd; seg = seg.Next()", "seg != nil; seg = seg.Next()", "L3")
m("C05", "reno-rto-cwnd-2", TCP + "reno.go", "\tr.s.sndCwnd = 1\n", "\tr.s.sndCwnd = 2\n", "L4")
m("C05", "cubic-rto-cwnd-2", TCP + "cubic.go", "\tc.s.sndCwnd = 1\n", "\tc.s.sndCwnd = 2\n", "L4")

# ---------------------------------------------------------------- round-4 rules
m("C01", "receiver-starts-at-irs", TCP + "rcv.go", "\t\trcvNxt:         irs + 1,", "\t\trcvNxt:         irs,", "R3", "first expected byte mislabelled")
m("C01", "sender-starts-at-iss", TCP + "snd.go", "\t\tsndNxt:           iss + 1,", "\t\tsndNxt:           iss,", "R3", "first data byte labelled with the SYN's number")
m("C03", "passive-open-acks-irs", TCP + "connect.go", "\th.iss = iss\n\th.ackNum = irs + 1\n", "\th.iss = iss\n\th.ackNum = irs\n", "H3", "SYN-ACK does not acknowledge the peer's SYN")
m("C03", "active-open-starts-synrcvd", TCP + "connect.go", "\th.state = handshakeSynSent\n\th.flags = flagSyn\n", "\th.state = handshakeSynRcvd\n\th.flags = flagSyn\n", "H3", "active open starts in the wrong state")
m("C04", "initial-right-edge-short", TCP + "rcv.go", "\t\trcvAcc:         irs.Add(rcvWnd + 1),", "\t\trcvAcc:         irs.Add(rcvWnd),", "N2", "initial right edge one short of what the handshake promised")
m("C05", "recover-starts-past-iss", TCP + "snd.go", "\t\t\tlast: iss,\n", "\t\t\tlast: iss + 1,\n", "L5", "as seeded change C05-4")
m("C05", "initial-rto-3s", TCP + "snd.go", "\t\trto:              1 * time.Second,", "\t\trto:              3 * time.Second,", "L1", "initial RTO")
m("C06", "udp-length-preadded", "protocol/header/udp.go", "\ttmp := make([]byte, 2)\n\tbinary.BigEndian.PutUint16(tmp, totalLen)\n\tchecksum := Checksum(tmp, partialChecksum)\n", "\tchecksum := partialChecksum + totalLen\n", "E0w", "plain 16-bit addition into a running checksum")
m("C15", "tcp-length-preadded", "protocol/header/tcp.go", "\ttmp := make([]byte, 2)\n\tbinary.BigEndian.PutUint16(tmp, totalLen)\n\tchecksum := Checksum(tmp, partialChecksum)\n\n\t// Calculate the rest of the checksum.\n\treturn Checksum(b[:b.DataOffset()], checksum)", "\tchecksum := ChecksumCombine(partialChecksum, totalLen+1-1)\n\n\t// Calculate the rest of the checksum.\n\treturn Checksum(b[:b.DataOffset()], checksum)", "B4w", "16-bit arithmetic on a word handed to the sum")
m("C08", "initial-hole-short", "protocol/network/fragmentation/reassembler.go", "\t\tlast:    math.MaxUint16,", "\t\tlast:    math.MaxUint16 - 1,", "F6", "initial hole does not cover the whole datagram")
m("C12", "resolution-ignores-known-address", "stack/route.go", "\treturn r.ref.linkCache != nil && r.RemoteLinkAddress == \"\"", "\treturn r.ref.linkCache != nil", "T7", "resolution demanded although the address is known (and vice versa)")
m("C12", "linkcache-without-capability-test", "stack/nic.go", "\tif n.linkEP.Capabilities()&CapabilityResolutionRequired != 0 {\n\t\tif _, ok := n.stack.linkAddrResolvers[protocol]; ok {", "\tif n.linkEP.Capabilities()&CapabilityResolutionRequired != 0 && !replace {\n\t\tif _, ok := n.stack.linkAddrResolvers[protocol]; ok {", "T7", "as seeded change C12-4")
m("C17", "unregister-drains-channel", "pkg/waiter/waiter.go", "\tq.list.Remove(e)\n\tq.mu.Unlock()\n}", "\tq.list.Remove(e)\n\tq.mu.Unlock()\n\tif ch, ok := e.Context.(chan struct{}); ok {\n\t\tselect {\n\t\tcase <-ch:\n\t\tdefault:\n\t\t}\n\t}\n}", "Y6", "queue consumes the waiter's token")
m("C17", "callback-blocking-send", "pkg/waiter/waiter.go", "\tselect {\n\tcase ch <- struct{}{}:\n\tdefault:\n\t}\n}", "\tch <- struct{}{}\n}", "Y4", "notifier blocks when the token is already there")
m("C18", "unbuffered-token-channel", "pkg/tmutex/tmutex.go", "\tm.ch = make(chan struct{}, 1)", "\tm.ch = make(chan struct{})", "M", "token lost when nobody is receiving")
m("C11", "benign-comment-unregister", "pkg/waiter/waiter.go", "// Notify notifies all waiters in the queue whose masks have at least one bit", "// Notify notifies every waiter in the queue whose masks have at least one bit", benign=True, why="comment only")

if __name__ == "__main__":
    repo = sys.argv[1] if len(sys.argv) > 1 else "/repo"
    bad = 0
    for e in M:
        src = open(os.path.join(repo, e["file"])).read()
        n = src.count(e["old"])
        if n != 1:
            print("NOT UNIQUE (%d): %s" % (n, e["id"]))
            bad += 1
    out = os.path.join(os.path.dirname(os.path.abspath(__file__)), "..", "tables", "mutants.json")
    json.dump(M, open(out, "w"), indent=1)
    print("mutants:", len(M), "problems:", bad)
