#!/usr/bin/env python3
"""Regenerates /verif/MANIFEST.json from the claims table below (dev helper; the
manifest itself is what the harness reads)."""
import json, os
ROOT = os.path.dirname(os.path.dirname(os.path.dirname(os.path.abspath(__file__))))
props = [json.loads(l) for l in open(os.path.join(ROOT, 'properties.jsonl'))]

TRUST = ("Trusted: go/types, go/ssa and go/callgraph of golang.org/x/tools v0.29.0, the npcheck rule engine, and the frozen "
         "rule tables (anchors, spec tables, exception lists with reasons) in /verif/tool/np. The checks read /repo's current "
         "working tree on every run; nothing from /repo is executed.")

# id -> (technique, claim text, note on what is assumed / not decided)
CLAIMS = {}
exec(open(os.path.join(ROOT, 'tool', 'dev', 'claims.py')).read())

NA = {}
for p in props:
    if p['id'] not in CLAIMS:
        NA[p['id']] = "check not yet built (work in progress; see DESIGN.md section for this property)"

checks = []
for pid in sorted(CLAIMS):
    tech, text, note = CLAIMS[pid]
    checks.append({
        "property_id": pid,
        "quick_cmd": f"tool/bin/npcheck -prop {pid} -tier quick",
        "thorough_cmd": f"tool/bin/npcheck -prop {pid} -tier thorough",
        "evidence_file": f"/verif/evidence/{pid}.json",
        "replay_cmd_template": f"tool/bin/npcheck -prop {pid} -replay {{path}}",
        "engine": "npcheck",
        "level_claimed": {"category": "other", "text": text, "design_ref": f"DESIGN.md#{pid}"},
        "level_note": note + " " + TRUST,
        "technique": tech,
    })
m = {
    "version": 1,
    "setup_cmd": "cd /verif/tool && GOFLAGS=-mod=mod GOPROXY=off GOSUMDB=off GOTOOLCHAIN=local GOWORK=off go build -o bin/npcheck ./cmd/npcheck",
    "hooks": {
        "guard": "verif",
        "enable": "none: the checks read /repo's source (go/packages, go/ssa); no hooks or instrumentation exist in /repo",
        "baseline_off_cmd": "cd /repo && go test -json -vet=off -count=1 -timeout 25m ./...",
        "source_commits": [],
        "add_only": True,
    },
    "engines": [{"name": "npcheck", "path": "tool", "serves_properties": sorted(CLAIMS),
                 "kind_free_text": "repository-specific static analyser over go/types + go/ssa + call graph: edge-cut dominance, must-follow, confinement, lockset, def-use slices, abstract evaluation to normal forms (affine32, bit provenance, decision tables), interval/length analysis"}],
    "checks": checks,
    "not_applicable": [{"property_id": k, "reason": v} for k, v in sorted(NA.items())],
    "notes": "Technique family: static analysis only. Every property is claimed at level 'other' for named structural clauses; level_claimed.text says which clauses are decided and which behavioural remainder is not. Known genuine defects are listed in /verif/known_findings.json.",
}
json.dump(m, open(os.path.join(ROOT, 'MANIFEST.json'), 'w'), indent=1)
print("checks:", len(checks), "not_applicable:", len(NA))
