#!/bin/bash
# dev helper: mut.sh <prop> <file-rel> <sed-expr> : copy /repo to a scratch dir, apply sed, run the check against it (no evidence), clean up.
set -u
prop=$1; file=$2; expr=$3
d=$(mktemp -d /tmp/npmut.XXXXXX)
rsync -a --exclude .git /repo/ $d/
sed -i "$expr" $d/$file
if diff -q /repo/$file $d/$file >/dev/null; then echo "MUTATION DID NOT APPLY"; fi
(cd $d && GOFLAGS=-mod=mod GOPROXY=off GOSUMDB=off GOTOOLCHAIN=local go vet ./$(dirname $file)/ 2>&1 | grep -v '^#' | head -5)
NP_VERIF_ROOT=/verif /verif/tool/bin/npcheck -prop $prop -repo $d -no-evidence | sed "s|$d/||g" | cut -c1-400
rm -rf $d
