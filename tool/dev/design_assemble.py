import json,re,os
old=open('/verif/DESIGN.md').read()
def between(start,end):
    i=old.index(start); j=old.index(end,i)
    return old[i:j]
sec1=between('## 1. Facts that shape the approach','## 2. Machinery')
props={}
ids=["C%02d"%i for i in range(1,21)]
for n,p in enumerate(ids):
    start=old.index('### %s — '%p) if ('### %s — '%p) in old else old.index('### %s '%p)
    if n+1<len(ids):
        nxt='### %s '%ids[n+1]
        end=old.index(nxt,start)
    else:
        end=old.index('## 5. ',start)
    props[p]=old[start:end].rstrip()
    # strip trailing separators
    props[p]=re.sub(r'\n-{20,}\s*$','',props[p]).rstrip()
    if '\n**As built**' in props[p]: props[p]=props[p][:props[p].index('\n**As built**')].rstrip()
replaced={p:open('/verif/tool/dev/design_parts/%s.md'%p).read().rstrip() for p in ["C06","C12","C13","C18","C19","C20"]}
after_miss={
 "C20":"X6 (`listenerAcceptLoopRule`: the accept loop waits for a notification only after Accept returned ErrWouldBlock) was added after seeded change C20-9 was missed.",
 "C19":"Z5a (the amd64 assembly of `commitSleep` read as an instruction list: a single `LOCK CMPXCHGQ` on the word with the expected value loaded before and the result taken from the flags; the Go fallback is decided in the ppc64le configuration of the thorough tier) was added after seeded change C19-8 was missed.",
 "C01":"R5 (link typestate of list elements) was added after seeded change C01-4 was missed: `Remove` clearing the removed element's links and a cursor fix-up reading `seg.Next()` after `Remove` are each behaviour-preserving, only their conjunction breaks the stream; the rule decides the conjunction. The `newSender` rows of R3 (sndUna/sndNxt/sndNxtList = iss+1, maxSentAck = irs+1) were added with C05-4; the `clone`, `parse` and `newReceiver` rows after seeded change C01-5 was missed (a split-off copy that loses its flags is relabelled with sndNxt); R6 (path table of `logicalLen`, shared with C03/H8 and C02/W7) after C03-5. R7 (the out-of-order heap's Len/Less/Swap/Push/Pop, segment reference counting) and R8 (the generated segment list) were added with the review after round 6; Write's queueing row is checked for C01 as well since C01-7 (an empty segment queued when the buffer is exactly full) was caught only by C02/W1. R9 (`mainLoopExitRule`: the worker leaves its loop only when the receive side is closed too, shared with C02/W5) after C01-8 was caught only by C02/W5; R10 (bit-provenance layout of the TCP header fields, shared with C15/B1) with the round-8 review. R11-R13 (ACK processing, out-of-order buffering, reader wake-up) came from the `-unmentioned` review after round 8; R14 (`segmentQueueRule`) after C05-9; R15 (`initialSequenceProvenanceRule`) after C01-9 was caught only by C03/H2,H14 and C04/N8.",
 "C04":"N7 was added after seeded change C04-2 (zero-window test on the unscaled window) was caught only by C02/W1; N8 after C04-3; N6s (the window primitives, same evaluator as C14/S1) after C04-4 was caught only by C14/S1; the `newReceiver` rows of N2 were added with the constructor review after round 5; N3m (MTU chain, FindWndScale) with the review after round 6 and its `encodeMSS` table after C04-7 (the cookie MSS rounded up) was caught only by C07/P2. N9 (layout of the TCP window/sequence/acknowledgement fields, shared with C15/B1) with the round-8 review. N10, N11 came from the `-unmentioned` review after round 8; N12 (`handshakeWindowRule`, shared with C03/H3) after C04-9 was caught only by C03/H3.",
 "C05":"L6 (timer typestate) was added after seeded change C05-2 was missed; the L5 table was extended after C05-3 (`fr.first`) and C05-4 (initial and later stores of `fr.last`, confinement of the field); L7 (Reno window growth, ssthresh reduction, default controller, the packet count handed to `Update`) and the `newSender` rows of L1 were added after the function-coverage listing showed nothing referred to the controller. The `earlier-target-rearms` clause of the timer typestate (L6 = W8) was added after seeded change C05-8 was missed. L8, L9 came from the `-unmentioned` review after round 8; L10 (`segmentQueueRule`) after seeded change C05-9 (bare ACKs no longer counted by the inbound queue) was missed.",
 "C06":"E6m was added after C06-3 was caught only by C09/D5; E7 (shared with C12/T3) after C06-4 was caught only by C12/T3; E0w (interval check of every 16-bit word handed to the checksum, shared with C15/B4w) after C15-4 was missed; the udp `Connect` local-port clause of E3 (`udpConnectPortRule`, shared with C09/D6) after C06-7 was missed. E8 (`sendPing4Rule`, shared with C13/I3) after C06-8 was caught only by C09/D9 and C13. E9, E10 came from the `-unmentioned` review after round 8.",
 "C12":"The `ResolveStaticAddress` table of T5 was added after seeded change C12-7 (every address ending in .255 treated as broadcast) was missed. T7 (whether resolution is required at all: decision table of `IsResolutionRequired`, exact guards of the only `linkCache` store) was added after seeded change C12-4 was missed. T8, T9 came from the `-unmentioned` review after round 8.",
 "C13":"I6 (reassembly key, shared with C08/F4) was added after C13-4 was caught only by C08/F4; I7 (masked match, shared with C09/D5 and C06/E6m) after C13-6 was caught only by those; I8 (`ipv4InboundRule`, shared with C08/F4) after C13-7 was caught only by C08/F4. The gate guards of the ping socket's `sendPing4`/`sendPing6` (I5) after seeded change C13-8 was missed; I9 (ICMP field layout, shared with C15/B1) with the round-8 review. I10 came from the `-unmentioned` review after round 8; I11 (`vvCapLengthRule`) with C11-9; I12 (`reassemblerProcessRule`, shared with C08/F2) after C13-9 was caught only by C08/F2 and C07/P3.",
 "C16":"V6 (tables of the one-line accessors and constructors: UsedLength, View, NewPrependable, Size, ...) was added after seeded change C16-6 (`cap` for `len` in UsedLength) was missed. The `reslice-unconditional` clause of V1 for `View.CapLength` after seeded change C16-8 was missed. V7 (`NoNarrowing`: closed-world scan of package buffer for narrowing integer conversions, with a positive control on the header codecs) after seeded change C16-9 (`usedIdx` narrowed to `uint16`) was missed.",
 "C17":"The `send-unconditional` clause of Y4 was added after seeded change C17-6 (the callback skips the send while another notifier is signalling) was missed. Y6 (no channel receive anywhere in package waiter) was added after seeded change C17-4 was missed: the closed-world comparison of `EventUnregister` is per site kind and its table listed no channel operation. The `own-channel-only-for-nil` clause of Y4 after seeded change C17-8 was missed. Y7 (the mask type keeps the 16 bits of poll(2) events) after seeded change C17-9 (`EventMask` narrowed to `uint8`) was missed.",
 "C07":"P2-contract and P2-progress were refined after seeds C07-1/C07-2 (see §6); P7 after C07-3; P1-ts (the neighbour-cache entry typestate the panic table cites, shared with C12/T2) after C07-7 was caught only by C12/T2. P8 (`echoRouteRefRule`: exactly one release per way out, shared with C13 and C09/D9) after C07-8 was caught only by those. P9 (`receiverBufferingRule`, shared with C01/R12) after C07-9 was caught only by C01/R12.",
 "C08":"F10 (the fragment heap's Len/Less/Swap/Push/Pop), F11 (the generated reassembler list), the `tooOld` table and the Hash3Words dependency check were added with the review after round 6. F9 (link typestate of the reassembler list) and the `newReassembler` rows of F6 were added with the review after round 5. F8 (stale element alias) was added after seeded change C08-2 was missed: inside loops all versions of a field collapse to `@u`, so the exact table F6 could not tell a pointer taken before `append` from one taken after. F12 (bit-provenance layout of the fragment fields, shared with C15/B1) after C08-8 (13-bit fragment offset masked with 0x0fff) was caught only by C15/B1. F13 came from the `-unmentioned` review after round 8; the unconditional clauses of `HeapImpl` (F10: Push stores and Pop removes on every way out) after seeded change C08-9 was missed; F14 (`vvCapLengthRule`) with C11-9.",
 "C09":"D6 (module-wide register/unregister call-site table) was added after seeded change C09-2 was missed; the `registerEndpoint` table entry after C07-1; D7 after C09-3, extended to the boolean try-acquire form (`TryRefBalanced`, every `tryIncRef` of the module) after C09-5 was missed; D8 (`registrationFlagRule`: Close clears `isRegistered` with its inline unregistration, a successful registration sets it before the function can return) after C09-6 was missed; the tables of `decRef`/`incRef`/`tryIncRef` with the review after round 6; D9 (`echoRouteRefRule`, shared with C13) after C09-7 was caught only by C13/I1; the udp `Connect` local-port clause of D6 with C06-7. D10-D13 came from the `-unmentioned` review after round 8.",
 "C02":"W6 was added after a mutant of the battery was missed; the zero-length-segment row of `consumeSegment` is checked for C02 as well (W4) since C02-5 was caught only by C01/R3; W7 = the `logicalLen` table shared with C01/R6 and C03/H8; W8 = the timer typestate shared with C05/L6, since C02-6 (an expiry that leaves the timer orphaned: it never re-arms) was caught only by C05/L6; W9 (worker life-cycle: who cleans up, running flag before the goroutine) was added with the review after round 6; the drain-loop rows are checked for C02 as well (W4) since C02-7 (a parked FIN offered with its logical length) was caught only by C01/R3. The two byte counters of `Write` (sndBufUsed, sndBufInQueue advance by the accepted view's length) became rows of W1 after seeded change C02-8 was missed. W10-W14 came from the `-unmentioned` review after round 8 (W13 then reported C02-9 on its first run); W15 (`segmentQueueRule`) after C05-9.",
 "C03":"H8 (path table of `logicalLen`: payload + SYN + FIN, each flag on its own) was added after seeded change C03-5 was missed; the `resetState`/`resetToSynRcvd` rows of H3 with the constructor review after round 5; H9 (`registrationFlagRule`, shared with C09/D8: the flag follows the registration at once) after seeded change C03-6 was missed; H10 (half-open connection counter), H11 (swallowed-error search over package tcp) and the tables of `handleSegment` and `Accept` with the review after round 6. H12 (every input of the SYN-cookie hash reaches the hasher: both ports, both addresses, time bucket, nonce) was added after seeded change C03-8 was missed; H13 (TCP field layout, shared with C15/B1) with the round-8 review. H14-H17 came from the `-unmentioned` review after round 8; H18 (`demuxRegistrationRule`, shared with C09/D2) after C03-9 was caught only by C09/D2.",
 "C14":"The conversion clause of S2 (a `seqnum.Value` converted to any plain integer type and then ordered) was added after seeded change C14-5 (`int32(a) < int32(b)`) was missed; S4 (sequence-typed sender/receiver state is initialised from iss/irs, never left at an absolute value) after C14-6 was caught only by C05/L5.",
 "C10":"Q5 was added after seed C10-1; Q6 (module-wide reserve/release call-site table) after C10-2 was missed; the `reserveSpecificPort` table of Q5 after C10-7 (one address set shared between the networks of a reservation) was missed. Q7, Q8 came from the `-unmentioned` review after round 8.",
 "C11":"U7 (read-side close table) was added after seeded change C11-2 was missed; the fresh-packet formulation of U2 after C11-1; U8 (reassembly key, shared with C08/F4) after C11-4 was caught only by C08/F4; U9 (link typestate of the packet list) with the review after round 5; the `Route.WritePacket` pass-through rows of U5 and U10 (no examined callee error ends in a nil return anywhere in the UDP, route, IPv4/IPv6 and link packages) after seeded change C11-6 was missed; U11 (the generated packet list) and the `prepareForWrite` table with the review after round 6; U12 (`ipv4InboundRule`, shared with C08/F4) after C11-7 was caught only by C08/F4. U13 (`ipv4WritePacketRule`, shared with C06/E1) after C11-8 was caught only by C06/E1; U14 (UDP and IPv4 length field layout, shared with C15/B1) with the round-8 review. U15, U16 came from the `-unmentioned` review after round 8; U17 (`vvCapLengthRule`, shared with C16/V2) after C11-9 was caught only by C16/V2.",
 "C15":"B4 was planned in round 0 and refined after C06-1/C15-1; the tight room test of B2 was added after C15-2 was missed; B4w (every 16-bit word handed to Checksum/ChecksumCombine anywhere in the module is free of wrapping 16-bit arithmetic and of lossy narrowing, by interval evaluation of the operands) after C15-4 was missed; the room-and-length clause of B2 (every encoder's own room test and written length derivable, shared with C06/E5) after C15-5 was caught only by C06/E5. B5 (`headerChecksumHelpersRule`: what the per-protocol checksum helpers sum over, shared with C06/E1) after C15-8 was caught only by C06/E1.",
}
def asbuilt(p):
    ev=json.load(open('/verif/evidence/%s.json'%p))
    out=["","**As built** (rule ids as they appear in `evidence/%s.json`; instances on the current tree):"%p,""]
    for r in ev['coverage']['rules']:
        out.append("* `%s` [%s] %s — %d instances"%(r['id'],r['kind'],r['doc'],r['instances']))
    if p in after_miss:
        out.append("")
        out.append(after_miss[p])
    return "\n".join(out)
body=[]
for p in ids:
    txt=replaced.get(p,props[p])
    # drop stale cost lines
    txt=re.sub(r'\nCost[^\n]*\n?','\n',txt)
    body.append(txt+"\n"+asbuilt(p)+"\n")
sec4hdr='''## 4. Properties

Notation: **decides** = what the static rules establish for *all* inputs /
schedules (because the argument is over code shape, not samples);
**does not decide** = the behavioural remainder, with the reason. Sections
C06, C12, C13, C18, C19, C20 were rewritten after building; the others keep
the round-0 reasoning (rule letters R/W/H/N/L/… are unchanged) and end with
the list of what runs.

'''
sec6=open('/verif/tool/dev/design_parts/sec6.md').read() if os.path.exists('/verif/tool/dev/design_parts/sec6.md') else "## 6. Seeded changes and detection matrix\n\n(to be filled)\n\n---------------------------------------------------------------------------\n"
new=(open('/verif/tool/dev/design_parts/head.md').read()+"\n"+sec1.rstrip()+"\n\n---------------------------------------------------------------------------\n\n"
     +open('/verif/tool/dev/design_parts/sec2.md').read()+"\n"+open('/verif/tool/dev/design_parts/sec3.md').read()+"\n"+sec4hdr+"\n".join(body)
     +"\n---------------------------------------------------------------------------\n\n"+open('/verif/tool/dev/design_parts/sec5.md').read()+"\n"+sec6+"\n"+open('/verif/tool/dev/design_parts/sec7.md').read())

fixes=[
 ("four structural necessary conditions; the level note will say that the","four structural necessary conditions; the level note says that the"),
 ("listed in `lockset_exceptions.json` with a reason","listed in the exception / cut-edge tables of `np/guards.go` with a reason"),
 ("in `assumed.json`","in `tables/assumed_c07.json`"),
 ("to `assumed.json` if","to `tables/assumed_c07.json` if"),
 ("(K9/fieldabs)","(K9, `WalkPaths`)"),
 ("* **N6 (K1/K2)** zero-window: `readLocked` evaluates `zeroReceiveWindow`\n  before and after the `rcvBufUsed` update (W1 covers the notification).","* **N6 (K9)** `receiver.acceptable` is the RFC 793 p.26 acceptability table (path table over its atoms).\n* **N7** zero-window: see the as-built list (the zero test is the advertised, scaled expression; `readLocked` evaluates `zeroReceiveWindow`\n  before and after the `rcvBufUsed` update and notifies on the zero→non-zero transition)."),
 ('''`tcp.endpoint.mu` is reported separately (known shape:
  `deliverAccepted` sends on `acceptedChan` under `mu.RLock` — to be triaged
  as finding or assumption in the implementation round). Callback rule:
  nothing reachable from an `EntryCallback.Callback` implementation calls a
  `waiter.Queue` method (the queue is read-locked during callbacks).''','''*as built only the lock-order half (K10: no cycle in the
  acquired-while-holding graph over the classes above) runs; the
  blocking-under-lock half (K11) and the callback rule were not built and
  are not claimed* (known shape left untriaged: `deliverAccepted` sends on
  `acceptedChan` under `mu.RLock`).'''),
]
for a,b in fixes:
    if a not in new: print("MISSING FIX:",a[:60])
    new=new.replace(a,b)
open('/verif/DESIGN.md','w').write(new)
print(len(new.splitlines()))
